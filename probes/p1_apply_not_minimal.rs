use vstd::prelude::*;
verus! {

pub enum Tree {
    Leaf(bool),
    Inner(u32, Box<Tree>, Box<Tree>),
}

pub open spec fn top(t: Tree) -> int {
    match t { Tree::Leaf(_) => u32::MAX as int, Tree::Inner(l, _, _) => l as int }
}

pub open spec fn wf(t: Tree) -> bool
    decreases t
{
    match t {
        Tree::Leaf(_) => true,
        Tree::Inner(l, a, b) => l < u32::MAX && (l as int) < top(*a) && (l as int) < top(*b) && *a != *b && wf(*a) && wf(*b),
    }
}

pub open spec fn sem(t: Tree, env: Seq<bool>) -> bool
    decreases t
{
    match t {
        Tree::Leaf(b) => b,
        Tree::Inner(l, a, b) => if env[l as int] { sem(*a, env) } else { sem(*b, env) },
    }
}

#[derive(PartialEq, Eq, Clone, Copy, Structural)]
pub enum BDDTerminal { False, True }

pub enum Node<'a, N> {
    Inner(&'a N),
    Terminal(BDDTerminal),
}

#[derive(Debug)]
pub struct OutOfMemory;
pub type AllocResult<T> = Result<T, OutOfMemory>;

pub trait Edge: Sized {
    spec fn view(&self) -> Tree;
    fn borrowed(&self) -> (r: &Self)
        ensures r.view() == self.view();
    fn eq_edge(&self, other: &Self) -> (r: bool)
        ensures r == (self.view() == other.view());
}

pub trait InnerNode<E: Edge>: Sized {
    spec fn level_spec(&self) -> u32;
    spec fn then_spec(&self) -> Tree;
    spec fn else_spec(&self) -> Tree;
    fn level(&self) -> (l: u32) ensures l == self.level_spec();
    fn child(&self, n: usize) -> (r: &E)
        requires n < 2
        ensures r.view() == (if n == 0 { self.then_spec() } else { self.else_spec() });
}

pub trait Manager: Sized {
    type Edge: Edge;
    type InnerNode: InnerNode<Self::Edge>;

    fn get_node(&self, e: &Self::Edge) -> (n: Node<'_, Self::InnerNode>)
        ensures match n {
            Node::Inner(node) => e.view() == Tree::Inner(node.level_spec(), Box::new(node.then_spec()), Box::new(node.else_spec())),
            Node::Terminal(t) => e.view() == Tree::Leaf(t == BDDTerminal::True),
        };
    fn clone_edge(&self, e: &Self::Edge) -> (r: Self::Edge)
        ensures r.view() == e.view();
    fn drop_edge(&self, e: Self::Edge);
    fn get_terminal(&self, t: BDDTerminal) -> (r: AllocResult<Self::Edge>)
        ensures r.is_ok(), r.unwrap().view() == Tree::Leaf(t == BDDTerminal::True);
    fn get_or_insert(&self, level: u32, t: Self::Edge, e: Self::Edge) -> (r: AllocResult<Self::Edge>)
        requires wf(t.view()), wf(e.view()), t.view() != e.view(), (level as int) < top(t.view()), (level as int) < top(e.view()),
        ensures r.is_ok() ==> r.unwrap().view() == Tree::Inner(level, Box::new(t.view()), Box::new(e.view()));
}

fn reduce<M: Manager>(manager: &M, level: u32, t: M::Edge, e: M::Edge) -> (r: AllocResult<M::Edge>)
    requires wf(t.view()), wf(e.view()), (level as int) < top(t.view()), (level as int) < top(e.view()),
    ensures r.is_ok() ==> wf(r.unwrap().view())
        && top(r.unwrap().view()) >= level
        && forall|env: Seq<bool>| #[trigger] sem(r.unwrap().view(), env) == (if env[level as int] { sem(t.view(), env) } else { sem(e.view(), env) }),
{
    if t.eq_edge(&e) {
        manager.drop_edge(e);
        return Ok(t);
    }
    manager.get_or_insert(level, t, e)
}

fn apply_not<M: Manager>(manager: &M, f: &M::Edge) -> (r: AllocResult<M::Edge>)
    requires wf(f.view()),
    ensures r.is_ok() ==> wf(r.unwrap().view()) && top(r.unwrap().view()) >= top(f.view())
        && forall|env: Seq<bool>| #[trigger] sem(r.unwrap().view(), env) == !sem(f.view(), env),
    decreases f.view(),
{
    let node = match manager.get_node(&f) {
        Node::Inner(node) => node,
        Node::Terminal(t) => return Ok(manager.get_terminal(if t == BDDTerminal::True { BDDTerminal::False } else { BDDTerminal::True }).unwrap()),
    };
    let ft = node.child(0);
    let fe = node.child(1);
    let level = node.level();
    let t = apply_not(manager, ft)?;
    let e = apply_not(manager, fe)?;
    let h = reduce(manager, level, t, e)?;
    Ok(h)
}

} // verus!
fn main() {}
