use vstd::prelude::*;
verus! {
pub enum Node { Inner(u32), Terminal(bool) }
fn get(x: u32) -> (r: Node) ensures (x > 3) ==> r == Node::Inner(x) { if x > 3 { Node::Inner(x) } else { Node::Terminal(true) } }
fn ext(x: u32) -> (r: Option<([u32; 1], [u32; 0])>) ensures x > 5 ==> r.is_some() { if x > 5 { Some(([x], [])) } else { None } }

fn let_else(x: u32) -> (r: u32) ensures x > 3 ==> r == x
{
    let Node::Inner(l) = get(x) else { return 0; };
    l
}
fn array_pat(x: u32) -> (r: u32)
{
    if let Some(([h], [])) = ext(x) { return h; }
    0
}
fn let_chain(c: bool, x: u32) -> (r: u32)
{
    if c && let Some(([h], [])) = ext(x) { return h; }
    1
}
fn const_block() { const { assert!(1 + 1 == 2); } }
}
fn main() {}
