use vstd::prelude::*;
verus! {
fn outer(x: u32) -> (r: u32)
    requires x < 100,
    ensures r == x + 1,
{
    enum Res { Done(u32), More(u32) }
    fn inner(y: u32) -> (r: Res)
        requires y < 100,
        ensures match r { Res::Done(v) => v == y + 1, Res::More(v) => v == y },
    {
        if y > 5 { Res::Done(y + 1) } else { Res::More(y) }
    }
    match inner(x) { Res::Done(v) => v, Res::More(v) => v + 1 }
}
}
fn main() {}
