#[cfg(kani)]
mod verif_harness {
    use super::*;
    use oxidd_test_utils::edge::{DummyEdge, DummyManager};
    use oxidd_core::Edge as _;

    #[derive(Default)]
    struct H(u64);
    impl Hasher for H {
        fn finish(&self) -> u64 { self.0 }
        fn write(&mut self, _bytes: &[u8]) {}
    }

    fn pick<'a>(es: &'a [DummyEdge; 3], i: u8) -> Borrowed<'a, DummyEdge> {
        if i == 0 { es[0].borrowed() } else if i == 1 { es[1].borrowed() } else { es[2].borrowed() }
    }

    /// set(k1 -> v1) then get(k2): a hit implies k1 == k2 and returns v1.
    #[kani::proof]
    #[kani::unwind(5)]
    fn key_exact_binary() {
        let m = DummyManager;
        let es = [DummyEdge::new(), DummyEdge::new(), DummyEdge::new()];
        let cache: DMApplyCache<DummyManager, u8, H, 3> = unsafe { DMApplyCache::with_capacity(1) };
        let (op1, op2): (u8, u8) = (kani::any(), kani::any());
        let (a1, b1, a2, b2, v1): (u8, u8, u8, u8, u8) = (kani::any(), kani::any(), kani::any(), kani::any(), kani::any());
        kani::assume(a1 < 3 && b1 < 3 && a2 < 3 && b2 < 3 && v1 < 3);
        cache.add(&m, op1, &[pick(&es, a1), pick(&es, b1)], pick(&es, v1));
        let r = cache.get(&m, op2, &[pick(&es, a2), pick(&es, b2)]);
        match r {
            Some(e) => {
                assert!(op1 == op2 && a1 == a2 && b1 == b2);
                assert!(e == *pick(&es, v1));
                m.drop_edge(e);
            }
            None => {}
        }
        kani::cover!(op1 == op2 && a1 == a2 && b1 == b2, "hit reachable");
        let [e0, e1, e2] = es;
        m.drop_edge(e0); m.drop_edge(e1); m.drop_edge(e2);
        core::mem::forget(cache);
    }
}
