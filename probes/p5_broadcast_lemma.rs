use vstd::prelude::*;
verus! {
pub enum Tree { Leaf(bool), Inner(u32, Box<Tree>, Box<Tree>) }
pub type Env = spec_fn(int) -> bool;
pub open spec fn top(t: Tree) -> int { match t { Tree::Leaf(_) => u32::MAX as int, Tree::Inner(l, _, _) => l as int } }
pub open spec fn wf(t: Tree) -> bool decreases t {
    match t { Tree::Leaf(_) => true,
      Tree::Inner(l, a, b) => l < u32::MAX && (l as int) < top(*a) && (l as int) < top(*b) && *a != *b && wf(*a) && wf(*b) } }
pub open spec fn sem(t: Tree, env: Env) -> bool decreases t {
    match t { Tree::Leaf(b) => b, Tree::Inner(l, a, b) => if env(l as int) { sem(*a, env) } else { sem(*b, env) } } }
pub open spec fn upd(env: Env, l: int, v: bool) -> Env { |i: int| if i == l { v } else { env(i) } }

// induction lemma, made available everywhere through a broadcast group
pub broadcast proof fn lemma_sem_indep(t: Tree, env: Env, l: int, v: bool)
    requires wf(t), l < top(t),
    ensures #[trigger] sem(t, upd(env, l, v)) == sem(t, env),
    decreases t,
{
    match t {
        Tree::Leaf(_) => {}
        Tree::Inner(k, a, b) => { lemma_sem_indep(*a, env, l, v); lemma_sem_indep(*b, env, l, v); }
    }
}
pub broadcast group group_bdd { lemma_sem_indep }

mod client {
    use super::*;
    broadcast use group_bdd;
    // a function whose proof needs the lemma, with no hint in the body
    proof fn uses_it(t: Tree, env: Env)
        requires wf(t), 3 < top(t),
        ensures sem(t, upd(env, 3, true)) == sem(t, upd(env, 3, false)),
    {}
}
}
fn main() {}
