use oxidd::bdd::BDDFunction;
use oxidd::{BooleanFunction, Function, Manager, ManagerRef, HasLevel, InnerNode};
use oxidd_core::LevelView;
fn main() {
    let mref = oxidd::bdd::new_manager(1024, 1024, 1);
    let vars: Vec<u32> = mref.with_manager_exclusive(|m| m.add_vars(3).collect());
    let x: Vec<BDDFunction> = mref.with_manager_shared(|m| vars.iter().map(|&v| BDDFunction::var(m, v).unwrap()).collect());
    let f = x[0].and(&x[1]).unwrap();
    let h = x[0].and(&x[1]).unwrap().or(&x[2]).unwrap();
    mref.with_manager_exclusive(|m| oxidd_reorder::set_var_order(m, &[1, 0, 2]));
    let g = x[1].and(&x[0]).unwrap();
    let h2 = x[1].and(&x[0]).unwrap().or(&x[2]).unwrap();
    println!("f == g after reorder: {}", f == g);
    println!("h == h2 after reorder: {}", h == h2);
    println!("node counts f={} g={} h={} h2={}", f.node_count(), g.node_count(), h.node_count(), h2.node_count());
    mref.with_manager_shared(|m| {
        for lv in m.levels() {
            let mut v: Vec<String> = vec![];
            for e in lv.iter() {
                let n = m.get_node(e).unwrap_inner();
                v.push(format!("{}@lvl{} children={:?}", oxidd::Edge::node_id(e), n.level(), n.children().map(|c| oxidd::Edge::node_id(&*c)).collect::<Vec<_>>()));
            }
            println!("level {}: {:?}", lv.level_no(), v);
        }
    });
}
