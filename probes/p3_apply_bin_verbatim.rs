#![allow(unused_imports, dead_code, unused_variables)]
use vstd::prelude::*;
use std::borrow::Borrow;
use vstd::std_specs::cmp::{PartialEqSpec, PartialOrdSpec, OrdSpec};
verus! {

// ---------- abstract view ----------
pub enum Tree { Leaf(bool), Inner(u32, Box<Tree>, Box<Tree>) }
pub open spec fn top(t: Tree) -> int {
    match t { Tree::Leaf(_) => u32::MAX as int, Tree::Inner(l, _, _) => l as int }
}
pub open spec fn wf(t: Tree) -> bool decreases t {
    match t {
        Tree::Leaf(_) => true,
        Tree::Inner(l, a, b) => l < u32::MAX && (l as int) < top(*a) && (l as int) < top(*b) && *a != *b && wf(*a) && wf(*b),
    }
}
pub open spec fn sem(t: Tree, env: Seq<bool>) -> bool decreases t {
    match t {
        Tree::Leaf(b) => b,
        Tree::Inner(l, a, b) => if env[l as int] { sem(*a, env) } else { sem(*b, env) },
    }
}

// ---------- environment stubs (assumed contracts) ----------
pub type LevelNo = u32;
pub type VarNo = u32;
#[derive(Debug)]
pub struct OutOfMemory;
pub type AllocResult<T> = Result<T, OutOfMemory>;
pub type Borrowed<'a, E> = &'a E;

pub trait Edge: Sized + Ord {
    spec fn view(&self) -> Tree;
    fn borrowed(&self) -> (r: Borrowed<'_, Self>) ensures r.view() == self.view();
}
pub trait LevelSpec { spec fn level_spec(&self) -> u32; }
pub trait InnerNode<E: Edge>: Sized + LevelSpec {
    spec fn then_spec(&self) -> Tree;
    spec fn else_spec(&self) -> Tree;
    fn child(&self, n: usize) -> (r: Borrowed<'_, E>)
        requires n < 2
        ensures r.view() == (if n == 0 { self.then_spec() } else { self.else_spec() });
}
pub trait HasLevel: LevelSpec {
    fn level(&self) -> (l: LevelNo) ensures l == self.level_spec();
}
pub assume_specification<T: ?Sized> [<T as std::borrow::Borrow<T>>::borrow] (x: &T) -> (r: &T)
    ensures r == x;

pub open spec fn edge_ok<E: Edge>() -> bool {
    &&& E::obeys_eq_spec()
    &&& E::obeys_partial_cmp_spec()
    &&& forall|a: E, b: E| (#[trigger] a.eq_spec(&b)) <==> (a.view() == b.view())
}
pub open spec fn op_sem(op: u8, a: bool, b: bool) -> bool {
    if op == 1 { a && b } else if op == 2 { a || b } else if op == 3 { !(a && b) } else if op == 4 { !(a || b) }
    else if op == 5 { a != b } else if op == 6 { a == b } else if op == 7 { !a || b } else { !a && b }
}
pub open spec fn is_inner(t: Tree) -> bool { t is Inner }
pub assume_specification<T: Ord> [std::cmp::min] (a: T, b: T) -> (r: T)
    ensures T::obeys_cmp_spec() ==> r == (if b.cmp_spec(&a) == core::cmp::Ordering::Less { b } else { a });
pub trait TermView { spec fn tview(&self) -> bool; }
pub enum Node<'a, M: Manager + 'a> {
    Inner(&'a M::InnerNode),
    Terminal(&'a M::Terminal),
}
impl<'a, M: Manager> Node<'a, M> {
    pub fn unwrap_inner(self) -> (r: &'a M::InnerNode)
        requires self is Inner
        ensures self == Node::<'a, M>::Inner(r)
    { match self { Node::Inner(node) => node, Node::Terminal(_) => vstd::pervasive::unreached() } }
}
pub trait Manager: Sized {
    type Edge: Edge;
    type InnerNode: InnerNode<Self::Edge>;
    type Terminal: TermView;
    fn get_node<'a>(&'a self, e: &'a Self::Edge) -> (n: Node<'a, Self>)
        ensures match n {
            Node::Inner(node) => e.view() == Tree::Inner(node.level_spec(), Box::new(node.then_spec()), Box::new(node.else_spec())),
            Node::Terminal(t) => e.view() == Tree::Leaf(t.tview()),
        };
    fn clone_edge(&self, e: &Self::Edge) -> (r: Self::Edge) ensures r.view() == e.view();
    fn drop_edge(&self, e: Self::Edge);
    fn get_terminal(&self, t: Self::Terminal) -> (r: AllocResult<Self::Edge>)
        ensures r.is_ok(), r.unwrap().view() == Tree::Leaf(t.tview());
}

#[derive(Clone, Copy, PartialEq, Eq, Structural)]
pub enum BDDTerminal {
    False,
    True,
}
impl CacheOp for BDDOp {
    open spec fn inv(self, operands: Seq<Tree>, res: Tree) -> bool {
        let o = self as u8;
        if o == 0 { operands.len() == 1 && wf(res) && top(res) >= top(operands[0]) && forall|env: Seq<bool>| #[trigger] sem(res, env) == !sem(operands[0], env) }
        else if 1 <= o <= 8 { operands.len() == 2 && wf(res) && (top(res) >= top(operands[0]) || top(res) >= top(operands[1]))
            && forall|env: Seq<bool>| #[trigger] sem(res, env) == op_sem(o, sem(operands[0], env), sem(operands[1], env)) }
        else { true }
    }
}
impl vstd::std_specs::ops::NotSpecImpl for BDDTerminal {
    open spec fn obeys_not_spec() -> bool { true }
    open spec fn not_req(self) -> bool { true }
    open spec fn not_spec(self) -> BDDTerminal { match self { BDDTerminal::False => BDDTerminal::True, BDDTerminal::True => BDDTerminal::False } }
}
impl std::ops::Not for BDDTerminal {
    type Output = BDDTerminal;
    fn not(self) -> BDDTerminal {
        match self {
            BDDTerminal::False => BDDTerminal::True,
            BDDTerminal::True => BDDTerminal::False,
        }
    }
}
impl TermView for BDDTerminal { open spec fn tview(&self) -> bool { *self == BDDTerminal::True } }
#[derive(Clone, Copy, PartialEq, Eq, Structural)]
#[repr(u8)]
pub enum BDDOp {
    Not,
    And,
    Or,
    Nand,
    Nor,
    Xor,
    Equiv,
    Imp,
    ImpStrict,
    Ite,

    Substitute,

    Restrict,
    Forall,
    Exists,
    Unique,

    ForallAnd,
    ForallOr,
    ForallNand,
    ForallNor,
    ForallXor,
    ForallEquiv,
    ForallImp,
    ForallImpStrict,

    ExistsAnd,
    ExistsOr,
    ExistsNand,
    ExistsNor,
    ExistsXor,
    ExistsEquiv,
    ExistsImp,
    ExistsImpStrict,

    UniqueAnd,
    UniqueOr,
    UniqueNand,
    UniqueNor,
    UniqueXor,
    UniqueEquiv,
    UniqueImp,
    UniqueImpStrict,
}
enum Operation<'a, E: 'a + Edge> {
    Binary(BDDOp, Borrowed<'a, E>, Borrowed<'a, E>),
    Not(Borrowed<'a, E>),
    Done(E),
}

pub struct EdgeDropGuard<'a, M: Manager> { pub manager: &'a M, pub edge: M::Edge }
impl<'a, M: Manager> EdgeDropGuard<'a, M> {
    pub fn new(manager: &'a M, edge: M::Edge) -> (r: Self) ensures r.edge.view() == edge.view() { EdgeDropGuard { manager, edge } }
    pub fn into_edge(self) -> (r: M::Edge) ensures r.view() == self.edge.view() { self.edge }
    pub fn borrowed(&self) -> (r: Borrowed<'_, M::Edge>) ensures r.view() == self.edge.view() { &self.edge }
}
pub trait CacheOp: Copy { spec fn inv(self, operands: Seq<Tree>, res: Tree) -> bool; }
pub open spec fn views<E: Edge>(s: Seq<&E>) -> Seq<Tree> { s.map_values(|e: &E| e.view()) }
pub trait ApplyCache<M: Manager, O: CacheOp> {
    fn get(&self, manager: &M, operator: O, operands: &[Borrowed<M::Edge>]) -> (r: Option<M::Edge>)
        ensures match r { Some(h) => operator.inv(views(operands@), h.view()), None => true };
    fn add(&self, manager: &M, operator: O, operands: &[Borrowed<M::Edge>], value: Borrowed<M::Edge>)
        requires operator.inv(views(operands@), value.view());
}
pub trait HasApplyCache<M: Manager, O: CacheOp> {
    type ApplyCache: ApplyCache<M, O>;
    fn apply_cache(&self) -> &Self::ApplyCache;
}
#[verifier::external_body]
fn terminal_bin<'a, M: Manager<Terminal = BDDTerminal>, const OP: u8>(
    m: &M,
    f: &'a M::Edge,
    g: &'a M::Edge,
) -> (res: Operation<'a, M::Edge>)
    requires 1 <= OP <= 8, edge_ok::<M::Edge>(), wf(f.view()), wf(g.view()),
    ensures match res {
        Operation::Done(h) => wf(h.view()) && (top(h.view()) >= top(f.view()) || top(h.view()) >= top(g.view())) && forall|env: Seq<bool>| #[trigger] sem(h.view(), env) == op_sem(OP, sem(f.view(), env), sem(g.view(), env)),
        Operation::Not(x) => wf(x.view()) && (x.view() == f.view() || x.view() == g.view()) && forall|env: Seq<bool>| !(#[trigger] sem(x.view(), env)) == op_sem(OP, sem(f.view(), env), sem(g.view(), env)),
        Operation::Binary(o, a, b) => o as u8 == OP && is_inner(a.view()) && is_inner(b.view())
            && ((a.view() == f.view() && b.view() == g.view()) || (a.view() == g.view() && b.view() == f.view() && OP <= 6)),
    },
{ unimplemented!() }
#[verifier::external_body]
fn reduce<M>(manager: &M, level: LevelNo, t: M::Edge, e: M::Edge, op: BDDOp) -> (r: AllocResult<M::Edge>)
where
    M: Manager<Terminal = BDDTerminal>,
    requires wf(t.view()), wf(e.view()), (level as int) < top(t.view()), (level as int) < top(e.view()),
    ensures r.is_ok() ==> wf(r.unwrap().view()) && top(r.unwrap().view()) >= level
        && forall|env: Seq<bool>| #[trigger] sem(r.unwrap().view(), env) == (if env[level as int] { sem(t.view(), env) } else { sem(e.view(), env) }),
{ unimplemented!() }
#[verifier::external_body]
fn collect_children<E: Edge, N: InnerNode<E>>(node: &N) -> (r: (Borrowed<'_, E>, Borrowed<'_, E>))
    ensures r.0.view() == node.then_spec(), r.1.view() == node.else_spec(),
 { unimplemented!() }
pub trait Recursor<M: Manager>: Copy {
    spec fn switch_spec(self) -> bool;
    fn should_switch_to_sequential(self) -> (b: bool) ensures b == self.switch_spec();
}
#[derive(Clone, Copy)]
pub struct SequentialRecursor;
impl<M: Manager> Recursor<M> for SequentialRecursor {
    open spec fn switch_spec(self) -> bool { false }
    fn should_switch_to_sequential(self) -> bool {
        false // returning true would make the algorithms diverge
    }
}
mod apply_rec {
use super::*;
#[verifier::exec_allows_no_decreases_clause]
fn apply_not<M, R: Recursor<M>>(manager: &M, rec: R, f: Borrowed<M::Edge>) -> (res: AllocResult<M::Edge>)
where
    M: Manager<Terminal = BDDTerminal> + HasApplyCache<M, BDDOp>,
    M::InnerNode: HasLevel,
    requires edge_ok::<M::Edge>(), wf(f.view()),
    ensures res.is_ok() ==> wf(res.unwrap().view()) && top(res.unwrap().view()) >= top(f.view())
        && forall|env: Seq<bool>| #[trigger] sem(res.unwrap().view(), env) == !sem(f.view(), env),
{
    if rec.should_switch_to_sequential() {
        return apply_not(manager, SequentialRecursor, f);
    }

    let node = match manager.get_node(&f) {
        Node::Inner(node) => node,
        Node::Terminal(t) => return Ok(manager.get_terminal(!*t.borrow()).unwrap()),
    };

    // Query apply cache
    if let Some(h) = manager
        .apply_cache()
        .get(manager, BDDOp::Not, &[f.borrowed()])
    {
        return Ok(h);
    }

    let (ft, fe) = collect_children(node);
    let level = node.level();

    let (t, e) = {
        let ra = EdgeDropGuard::new(manager, apply_not(manager, rec, ft)?);
        let rb = EdgeDropGuard::new(manager, apply_not(manager, rec, fe)?);
        (ra, rb)
    };
    let h = reduce(manager, level, t.into_edge(), e.into_edge(), BDDOp::Not)?;

    // Add to apply cache
    manager
        .apply_cache()
        .add(manager, BDDOp::Not, &[f.borrowed()], h.borrowed());

    Ok(h)
}
#[verifier::exec_allows_no_decreases_clause]
fn apply_bin<M, R: Recursor<M>, const OP: u8>(
    manager: &M,
    rec: R,
    f: Borrowed<M::Edge>,
    g: Borrowed<M::Edge>,
) -> (res: AllocResult<M::Edge>)
where
    M: Manager<Terminal = BDDTerminal> + HasApplyCache<M, BDDOp>,
    M::InnerNode: HasLevel,
    requires 1 <= OP <= 8, edge_ok::<M::Edge>(), wf(f.view()), wf(g.view()),
    ensures res.is_ok() ==> wf(res.unwrap().view()) && (top(res.unwrap().view()) >= top(f.view()) || top(res.unwrap().view()) >= top(g.view()))
        && forall|env: Seq<bool>| #[trigger] sem(res.unwrap().view(), env) == op_sem(OP, sem(f.view(), env), sem(g.view(), env)),
{
    if rec.should_switch_to_sequential() {
        return apply_bin::<M, _, OP>(manager, SequentialRecursor, f, g);
    }

    let (operator, op1, op2) = match super::terminal_bin::<M, OP>(manager, &f, &g) {
        Operation::Binary(o, op1, op2) => (o, op1, op2),
        Operation::Not(f) => {
            return apply_not(manager, rec, f);
        }
        Operation::Done(h) => return Ok(h),
    };

    // Query apply cache
    if let Some(h) = manager
        .apply_cache()
        .get(manager, operator, &[op1.borrowed(), op2.borrowed()])
    {
        return Ok(h);
    }

    let fnode = manager.get_node(&f).unwrap_inner();
    let gnode = manager.get_node(&g).unwrap_inner();
    let flevel = fnode.level();
    let glevel = gnode.level();
    let level = std::cmp::min(flevel, glevel);

    // Collect cofactors of all top-most nodes
    let (ft, fe) = if flevel == level {
        collect_children(fnode)
    } else {
        (f.borrowed(), f.borrowed())
    };
    let (gt, ge) = if glevel == level {
        collect_children(gnode)
    } else {
        (g.borrowed(), g.borrowed())
    };

    let (t, e) = {
        let ra = EdgeDropGuard::new(manager, apply_bin::<M, R, OP>(manager, rec, ft, gt)?);
        let rb = EdgeDropGuard::new(manager, apply_bin::<M, R, OP>(manager, rec, fe, ge)?);
        (ra, rb)
    };
    let h = reduce(manager, level, t.into_edge(), e.into_edge(), operator)?;

    // Add to apply cache
    manager
        .apply_cache()
        .add(manager, operator, &[op1, op2], h.borrowed());

    Ok(h)
}
} // mod apply_rec
} // verus!
fn main() {}
