use vstd::prelude::*;
verus! {
pub enum Tree { Leaf(bool), Inner(u32, Box<Tree>, Box<Tree>) }
pub type Env = spec_fn(int) -> bool;
pub open spec fn top(t: Tree) -> int { match t { Tree::Leaf(_) => u32::MAX as int, Tree::Inner(l, _, _) => l as int } }
pub open spec fn wf(t: Tree) -> bool decreases t {
    match t { Tree::Leaf(_) => true,
      Tree::Inner(l, a, b) => l < u32::MAX && (l as int) < top(*a) && (l as int) < top(*b) && *a != *b && wf(*a) && wf(*b) } }
pub open spec fn sem(t: Tree, env: Env) -> bool decreases t {
    match t { Tree::Leaf(b) => b, Tree::Inner(l, a, b) => if env(l as int) { sem(*a, env) } else { sem(*b, env) } } }
pub open spec fn upd(env: Env, l: int, v: bool) -> Env { |i: int| if i == l { v } else { env(i) } }

pub proof fn lemma_sem_indep(t: Tree, env: Env, l: int, v: bool)
    requires wf(t), l < top(t),
    ensures sem(t, upd(env, l, v)) == sem(t, env),
    decreases t,
{
    match t {
        Tree::Leaf(_) => {}
        Tree::Inner(k, a, b) => { lemma_sem_indep(*a, env, l, v); lemma_sem_indep(*b, env, l, v); }
    }
}

pub proof fn distinguish(a: Tree, b: Tree) -> (env: Env)
    requires wf(a), wf(b), a != b,
    ensures sem(a, env) != sem(b, env),
    decreases a, b,
{
    match (a, b) {
        (Tree::Leaf(x), Tree::Leaf(y)) => { |i: int| true }
        (Tree::Inner(l, a1, a0), _) if top(b) > l => {
            if *a1 != b {
                let e = distinguish(*a1, b);
                lemma_sem_indep(*a1, e, l as int, true); lemma_sem_indep(b, e, l as int, true);
                upd(e, l as int, true)
            } else {
                let e = distinguish(*a0, b);
                lemma_sem_indep(*a0, e, l as int, false); lemma_sem_indep(b, e, l as int, false);
                upd(e, l as int, false)
            }
        }
        (Tree::Inner(l, a1, a0), Tree::Inner(k, b1, b0)) if k == l => {
            if *a1 != *b1 {
                let e = distinguish(*a1, *b1);
                lemma_sem_indep(*a1, e, l as int, true); lemma_sem_indep(*b1, e, l as int, true);
                upd(e, l as int, true)
            } else {
                let e = distinguish(*a0, *b0);
                lemma_sem_indep(*a0, e, l as int, false); lemma_sem_indep(*b0, e, l as int, false);
                upd(e, l as int, false)
            }
        }
        (_, Tree::Inner(k, b1, b0)) => {
            // top(a) > k
            if a != *b1 {
                let e = distinguish(a, *b1);
                lemma_sem_indep(a, e, k as int, true); lemma_sem_indep(*b1, e, k as int, true);
                upd(e, k as int, true)
            } else {
                let e = distinguish(a, *b0);
                lemma_sem_indep(a, e, k as int, false); lemma_sem_indep(*b0, e, k as int, false);
                upd(e, k as int, false)
            }
        }
        _ => { assert(false); |i: int| true }
    }
}

/// Canonicity (Bryant): semantically equal well-formed diagrams are identical.
pub proof fn canonicity(a: Tree, b: Tree)
    requires wf(a), wf(b), forall|env: Env| sem(a, env) == sem(b, env),
    ensures a == b,
{
    if a != b { let e = distinguish(a, b); assert(sem(a, e) == sem(b, e)); }
}
}
fn main() {}
