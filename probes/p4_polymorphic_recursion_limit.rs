use vstd::prelude::*;
verus! {
pub trait Rec: Copy { spec fn sw(self) -> bool; fn should(self) -> (b: bool) ensures b == self.sw(); }
#[derive(Clone, Copy)] pub struct Seq_;
impl Rec for Seq_ { open spec fn sw(self) -> bool { false } fn should(self) -> bool { false } }
fn f<R: Rec>(rec: R, n: u32) -> u32
    decreases n, (if rec.sw() { 1int } else { 0int }),
{
    if rec.should() { return f(Seq_, n); }
    if n == 0 { 0 } else { f(rec, n - 1) }
}
}
fn main() {}
