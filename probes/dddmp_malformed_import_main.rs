use oxidd::{BooleanFunction, Manager, ManagerRef};
use oxidd::bcdd::BCDDFunction;
use oxidd_dump::dddmp::{ExportSettings, DumpHeader};
fn main() {
    let mref = oxidd::bcdd::new_manager(1024, 1024, 1);
    let (x, y) = mref.with_manager_exclusive(|m| {
        let _ = m.add_vars(2).count();
        (BCDDFunction::var(m, 0).unwrap(), BCDDFunction::var(m, 1).unwrap())
    });
    let f = x.and(&y).unwrap();
    let mut buf: Vec<u8> = Vec::new();
    mref.with_manager_shared(|m| ExportSettings::default().binary().strict(false).export(&mut buf, m, [&f])).unwrap();
    let pos = buf.windows(6).position(|w| w == b".nodes").unwrap();
    let body_start = pos + buf[pos..].iter().position(|&b| b == b'\n').unwrap() + 1;
    println!("header:\n{}", String::from_utf8_lossy(&buf[..body_start]));
    println!("body bytes: {:02x?}", &buf[body_start..]);
    // import the unmodified file
    let imp = |bytes: &[u8]| {
        let mref2 = oxidd::bcdd::new_manager(1024, 1024, 1);
        mref2.with_manager_exclusive(|m| { let _ = m.add_vars(2).count(); });
        let mut rd = bytes;
        let header = DumpHeader::load(&mut rd).unwrap();
        mref2.with_manager_shared(|m| oxidd_dump::dddmp::import::<BCDDFunction>(&mut rd, &header, m, header.support_var_order().iter().copied(), BCDDFunction::not_edge_owned).map(|v| v.len()))
    };
    println!("import of the valid file: {:?}", imp(&buf).map_err(|e| e.to_string()));
    let args: Vec<String> = std::env::args().collect();
    if args.len() > 1 {
        // replace the body by the bytes given on the command line (hex), keep .end
        let end = buf.windows(4).rposition(|w| w == b".end").unwrap();
        let mut bad = buf[..body_start].to_vec();
        for h in args[1].split(',') { bad.push(u8::from_str_radix(h, 16).unwrap()); }
        bad.extend_from_slice(&buf[end - 1..]);
        println!("import of the malformed file (body {}): {:?}", args[1], imp(&bad).map_err(|e| e.to_string()));
    }
}
