import re,sys
def find_fn(src, name, start=0):
    """return (begin,end) of item `fn name` incl. preceding attrs/doc comments, brace-matched."""
    m = re.search(r'(?m)^[ \t]*(?:pub(?:\([a-z]+\))?\s+)?(?:const\s+)?(?:unsafe\s+)?fn\s+'+re.escape(name)+r'\b', src[start:])
    if not m: raise KeyError(name)
    b = start+m.start()
    i = src.index('{', start+m.end()) if True else None
    # find body open brace: first '{' at depth 0 of () <> after signature; approximate: first '{' preceded by newline or ) or > or space not inside parens
    depth=0; k=start+m.end()
    while True:
        c=src[k]
        if c in '([': depth+=1
        elif c in ')]': depth-=1
        elif c=='{' and depth==0:
            # const-generic braces like `{ BDDOp::And as u8 }` inside <> don't occur in signatures here
            break
        k+=1
    # match braces skipping strings/comments/chars
    d=0; j=k
    n=len(src)
    while j<n:
        c=src[j]
        if src.startswith('//',j):
            j=src.index('\n',j); continue
        if src.startswith('/*',j):
            j=src.index('*/',j)+2; continue
        if c=='"':
            j+=1
            while src[j]!='"':
                if src[j]=='\\': j+=1
                j+=1
            j+=1; continue
        if c=="'" :
            # char literal or lifetime
            m2=re.match(r"'(\\.|[^\\'])'",src[j:])
            if m2: j+=m2.end(); continue
        if c=='{': d+=1
        elif c=='}':
            d-=1
            if d==0: return (b,k,j+1)
        j+=1
    raise ValueError
if __name__=='__main__':
    src=open(sys.argv[1]).read()
    for name in sys.argv[2:]:
        b,k,e=find_fn(src,name)
        print(src[b:e]); print()
