use oxidd::{Manager, ManagerRef};
fn main() {
    // ZBDD manager with room for 2 inner nodes; adding 3 variables needs 3 nodes for the tautology chain
    let mref = oxidd::zbdd::new_manager(2, 16, 1);
    let n = mref.with_manager_exclusive(|m| m.add_vars(3).count());
    println!("added {n} variables");
}
