use vstd::prelude::*;
verus! {
pub enum Tree { Leaf(bool), Inner(u32, Box<Tree>, Box<Tree>) }
pub trait Edge: Sized { spec fn view(&self) -> Tree; }
pub trait Mgr: Sized {
    type E: Edge;
    fn is_leaf(&self, e: &Self::E) -> (b: bool) ensures b == (e.view() is Leaf);
    fn level(&self, e: &Self::E) -> (l: u32) requires e.view() is Inner ensures e.view() matches Tree::Inner(k, _, _) && k == l;
    fn child<'a>(&'a self, e: &'a Self::E, hi: bool) -> (r: &'a Self::E)
        requires e.view() is Inner
        ensures e.view() matches Tree::Inner(_, a, b) && r.view() == (if hi { *a } else { *b });
}
// tail-recursive walk calling a caller-supplied FnMut choice, like pick_cube_edge::inner
#[verifier::exec_allows_no_decreases_clause]
fn walk<M: Mgr>(m: &M, e: &M::E, mut choice: impl FnMut(&M, &M::E, u32) -> bool) -> (n: u32)
    requires forall|mm: &M, ee: &M::E, l: u32| #[trigger] choice.requires((mm, ee, l)),
{
    if m.is_leaf(e) { return 0; }
    let l = m.level(e);
    let c = choice(m, e, l);
    walk(m, m.child(e, c), choice)
}
}
fn main() {}
