#[cfg(kani)]
mod verif_harness {
    use super::*;
    fn any_f64_norm() -> F64 { F64::from(f64::from_bits(kani::any())) }
    fn canonical(x: F64) -> bool {
        let b = f64::from(x).to_bits();
        (!f64::from(x).is_nan() || b == f64::NAN.to_bits()) && b != (-0.0f64).to_bits()
    }
    #[kani::proof]
    fn f64_add_laws() {
        let x = any_f64_norm(); let y = any_f64_norm();
        assert!(canonical(x));
        let r = x.add(&y);
        assert!(canonical(r));
        assert!(F64::zero().add(&x) == x);
        assert!(x.add(&F64::zero()) == x);
        assert!(x.sub(&F64::zero()) == x);
        assert!(F64::nan().add(&x) == F64::nan());
    }
    #[kani::proof]
    fn f64_mul_laws() {
        let x = any_f64_norm();
        assert!(F64::one().mul(&x) == x);
        assert!(x.mul(&F64::one()) == x);
        assert!(x.div(&F64::one()) == x);
        assert!(F64::nan().mul(&x) == F64::nan());
    }
    #[kani::proof]
    fn f64_mul_canonical() {
        let x = any_f64_norm(); let y = any_f64_norm();
        assert!(canonical(x.mul(&y)));
    }
}
