#![allow(unused_imports, dead_code, unused_variables)]
use vstd::prelude::*;
use std::borrow::Borrow;
use vstd::std_specs::cmp::{PartialEqSpec, PartialOrdSpec};
verus! {

// ---------- abstract view ----------
pub enum Tree { Leaf(bool), Inner(u32, Box<Tree>, Box<Tree>) }
pub open spec fn top(t: Tree) -> int {
    match t { Tree::Leaf(_) => u32::MAX as int, Tree::Inner(l, _, _) => l as int }
}
pub open spec fn wf(t: Tree) -> bool decreases t {
    match t {
        Tree::Leaf(_) => true,
        Tree::Inner(l, a, b) => l < u32::MAX && (l as int) < top(*a) && (l as int) < top(*b) && *a != *b && wf(*a) && wf(*b),
    }
}
pub open spec fn sem(t: Tree, env: Seq<bool>) -> bool decreases t {
    match t {
        Tree::Leaf(b) => b,
        Tree::Inner(l, a, b) => if env[l as int] { sem(*a, env) } else { sem(*b, env) },
    }
}

// ---------- environment stubs (assumed contracts) ----------
pub type LevelNo = u32;
pub type VarNo = u32;
#[derive(Debug)]
pub struct OutOfMemory;
pub type AllocResult<T> = Result<T, OutOfMemory>;
pub type Borrowed<'a, E> = &'a E;

pub trait Edge: Sized + Ord {
    spec fn view(&self) -> Tree;
    fn borrowed(&self) -> (r: Borrowed<'_, Self>) ensures r.view() == self.view();
}
pub trait InnerNode<E: Edge>: Sized {
    spec fn level_spec(&self) -> u32;
    spec fn then_spec(&self) -> Tree;
    spec fn else_spec(&self) -> Tree;
    fn child(&self, n: usize) -> (r: Borrowed<'_, E>)
        requires n < 2
        ensures r.view() == (if n == 0 { self.then_spec() } else { self.else_spec() });
}
pub trait HasLevel {
    spec fn hl_level_spec(&self) -> u32;
    fn level(&self) -> (l: LevelNo) ensures l == self.hl_level_spec();
}
pub assume_specification<T: ?Sized> [<T as std::borrow::Borrow<T>>::borrow] (x: &T) -> (r: &T)
    ensures r == x;

pub open spec fn edge_ok<E: Edge>() -> bool {
    &&& E::obeys_eq_spec()
    &&& E::obeys_partial_cmp_spec()
    &&& forall|a: E, b: E| (#[trigger] a.eq_spec(&b)) <==> (a.view() == b.view())
}
pub open spec fn op_sem(op: u8, a: bool, b: bool) -> bool {
    if op == 1 { a && b } else if op == 2 { a || b } else if op == 3 { !(a && b) } else if op == 4 { !(a || b) }
    else if op == 5 { a != b } else if op == 6 { a == b } else if op == 7 { !a || b } else { !a && b }
}
pub open spec fn is_inner(t: Tree) -> bool { t is Inner }
pub trait TermView { spec fn tview(&self) -> bool; }
pub enum Node<'a, M: Manager + 'a> {
    Inner(&'a M::InnerNode),
    Terminal(&'a M::Terminal),
}
pub trait Manager: Sized {
    type Edge: Edge;
    type InnerNode: InnerNode<Self::Edge>;
    type Terminal: TermView;
    fn get_node<'a>(&'a self, e: &'a Self::Edge) -> (n: Node<'a, Self>)
        ensures match n {
            Node::Inner(node) => e.view() == Tree::Inner(node.level_spec(), Box::new(node.then_spec()), Box::new(node.else_spec())),
            Node::Terminal(t) => e.view() == Tree::Leaf(t.tview()),
        };
    fn clone_edge(&self, e: &Self::Edge) -> (r: Self::Edge) ensures r.view() == e.view();
    fn drop_edge(&self, e: Self::Edge);
    fn get_terminal(&self, t: Self::Terminal) -> (r: AllocResult<Self::Edge>)
        ensures r.is_ok(), r.unwrap().view() == Tree::Leaf(t.tview());
}

#[derive(Clone, Copy, PartialEq, Eq, Structural)]
pub enum BDDTerminal {
    False,
    True,
}
impl TermView for BDDTerminal { open spec fn tview(&self) -> bool { *self == BDDTerminal::True } }
#[derive(Clone, Copy, PartialEq, Eq, Structural)]
#[repr(u8)]
pub enum BDDOp {
    Not,
    And,
    Or,
    Nand,
    Nor,
    Xor,
    Equiv,
    Imp,
    ImpStrict,
    Ite,

    Substitute,

    Restrict,
    Forall,
    Exists,
    Unique,

    ForallAnd,
    ForallOr,
    ForallNand,
    ForallNor,
    ForallXor,
    ForallEquiv,
    ForallImp,
    ForallImpStrict,

    ExistsAnd,
    ExistsOr,
    ExistsNand,
    ExistsNor,
    ExistsXor,
    ExistsEquiv,
    ExistsImp,
    ExistsImpStrict,

    UniqueAnd,
    UniqueOr,
    UniqueNand,
    UniqueNor,
    UniqueXor,
    UniqueEquiv,
    UniqueImp,
    UniqueImpStrict,
}
enum Operation<'a, E: 'a + Edge> {
    Binary(BDDOp, Borrowed<'a, E>, Borrowed<'a, E>),
    Not(Borrowed<'a, E>),
    Done(E),
}
fn terminal_bin<'a, M: Manager<Terminal = BDDTerminal>, const OP: u8>(
    m: &M,
    f: &'a M::Edge,
    g: &'a M::Edge,
) -> (res: Operation<'a, M::Edge>)
    requires 1 <= OP <= 8, edge_ok::<M::Edge>(), wf(f.view()), wf(g.view()),
    ensures match res {
        Operation::Done(h) => wf(h.view()) && (top(h.view()) >= top(f.view()) || top(h.view()) >= top(g.view())) && forall|env: Seq<bool>| #[trigger] sem(h.view(), env) == op_sem(OP, sem(f.view(), env), sem(g.view(), env)),
        Operation::Not(x) => wf(x.view()) && forall|env: Seq<bool>| !(#[trigger] sem(x.view(), env)) == op_sem(OP, sem(f.view(), env), sem(g.view(), env)),
        Operation::Binary(o, a, b) => o as u8 == OP && is_inner(a.view()) && is_inner(b.view())
            && ((a.view() == f.view() && b.view() == g.view()) || (a.view() == g.view() && b.view() == f.view() && OP <= 6)),
    },
{
    use BDDTerminal::*;
    use Node::*;
    use Operation::*;

    if OP == BDDOp::And as u8 {
        if f == g {
            return Done(m.clone_edge(f));
        }
        match (m.get_node(f), m.get_node(g)) {
            // Unique representation of {f, g} for commutative functions
            (Inner(_), Inner(_)) if f > g => Binary(BDDOp::And, g.borrowed(), f.borrowed()),
            (Inner(_), Inner(_)) => Binary(BDDOp::And, f.borrowed(), g.borrowed()),
            (Terminal(t), _) if *t.borrow() == False => {
                Done(m.get_terminal(False).unwrap())
            }
            (_, Terminal(t)) if *t.borrow() == False => {
                Done(m.get_terminal(False).unwrap())
            }
            (Terminal(_), _) => Done(m.clone_edge(g)),
            (_, Terminal(_)) => Done(m.clone_edge(f)),
        }
    } else if OP == BDDOp::Or as u8 {
        if f == g {
            return Done(m.clone_edge(f));
        }
        match (m.get_node(f), m.get_node(g)) {
            (Inner(_), Inner(_)) if f > g => Binary(BDDOp::Or, g.borrowed(), f.borrowed()),
            (Inner(_), Inner(_)) => Binary(BDDOp::Or, f.borrowed(), g.borrowed()),
            (Terminal(t), _) if *t.borrow() == True => {
                Done(m.get_terminal(True).unwrap())
            }
            (_, Terminal(t)) if *t.borrow() == True => {
                Done(m.get_terminal(True).unwrap())
            }
            (Terminal(_), _) => Done(m.clone_edge(g)),
            (_, Terminal(_)) => Done(m.clone_edge(f)),
        }
    } else if OP == BDDOp::Nand as u8 {
        if f == g {
            return Not(f.borrowed());
        }
        match (m.get_node(f), m.get_node(g)) {
            (Inner(_), Inner(_)) if f > g => Binary(BDDOp::Nand, g.borrowed(), f.borrowed()),
            (Inner(_), Inner(_)) => Binary(BDDOp::Nand, f.borrowed(), g.borrowed()),
            (Terminal(t), _) if *t.borrow() == False => {
                Done(m.get_terminal(True).unwrap())
            }
            (_, Terminal(t)) if *t.borrow() == False => {
                Done(m.get_terminal(True).unwrap())
            }
            (Terminal(_), _) => Not(g.borrowed()),
            (_, Terminal(_)) => Not(f.borrowed()),
        }
    } else if OP == BDDOp::Nor as u8 {
        if f == g {
            return Not(f.borrowed());
        }
        match (m.get_node(f), m.get_node(g)) {
            (Inner(_), Inner(_)) if f > g => Binary(BDDOp::Nor, g.borrowed(), f.borrowed()),
            (Inner(_), Inner(_)) => Binary(BDDOp::Nor, f.borrowed(), g.borrowed()),
            (Terminal(t), _) if *t.borrow() == True => {
                Done(m.get_terminal(False).unwrap())
            }
            (_, Terminal(t)) if *t.borrow() == True => {
                Done(m.get_terminal(False).unwrap())
            }
            (Terminal(_), _) => Not(g.borrowed()),
            (_, Terminal(_)) => Not(f.borrowed()),
        }
    } else if OP == BDDOp::Xor as u8 {
        if f == g {
            return Done(m.get_terminal(False).unwrap());
        }
        match (m.get_node(f), m.get_node(g)) {
            (Inner(_), Inner(_)) if f > g => Binary(BDDOp::Xor, g.borrowed(), f.borrowed()),
            (Inner(_), Inner(_)) => Binary(BDDOp::Xor, f.borrowed(), g.borrowed()),
            (Terminal(t), _) if *t.borrow() == False => Done(m.clone_edge(g)),
            (_, Terminal(t)) if *t.borrow() == False => Done(m.clone_edge(f)),
            (Terminal(_), _) => Not(g.borrowed()),
            (_, Terminal(_)) => Not(f.borrowed()),
        }
    } else if OP == BDDOp::Equiv as u8 {
        if f == g {
            return Done(m.get_terminal(True).unwrap());
        }
        match (m.get_node(f), m.get_node(g)) {
            (Inner(_), Inner(_)) if f > g => Binary(BDDOp::Equiv, g.borrowed(), f.borrowed()),
            (Inner(_), Inner(_)) => Binary(BDDOp::Equiv, f.borrowed(), g.borrowed()),
            (Terminal(t), _) if *t.borrow() == True => Done(m.clone_edge(g)),
            (_, Terminal(t)) if *t.borrow() == True => Done(m.clone_edge(f)),
            (Terminal(_), _) => Not(g.borrowed()),
            (_, Terminal(_)) => Not(f.borrowed()),
        }
    } else if OP == BDDOp::Imp as u8 {
        if f == g {
            return Done(m.get_terminal(True).unwrap());
        }
        match (m.get_node(f), m.get_node(g)) {
            (Inner(_), Inner(_)) => Binary(BDDOp::Imp, f.borrowed(), g.borrowed()),
            (Terminal(t), _) if *t.borrow() == False => Done(m.get_terminal(True).unwrap()),
            (_, Terminal(t)) if *t.borrow() == True => Done(m.get_terminal(True).unwrap()),
            (Terminal(_), _) => Done(m.clone_edge(g)),
            (_, Terminal(_)) => Not(f.borrowed()),
        }
    } else if OP == BDDOp::ImpStrict as u8 {
        if f == g {
            return Done(m.get_terminal(False).unwrap());
        }
        match (m.get_node(f), m.get_node(g)) {
            (Inner(_), Inner(_)) => Binary(BDDOp::ImpStrict, f.borrowed(), g.borrowed()),
            (Terminal(t), _) if *t.borrow() == True => Done(m.get_terminal(False).unwrap()),
            (_, Terminal(t)) if *t.borrow() == False => Done(m.get_terminal(False).unwrap()),
            (Terminal(_), _) => Done(m.clone_edge(g)),
            (_, Terminal(_)) => Not(f.borrowed()),
        }
    } else {
        unreachable!("invalid binary operator")
    }
}
} // verus!
fn main() {}
