#[cfg(kani)]
mod verif_harness {
    use super::*;
    const CAP: usize = 16;

    /// Build a table with CAP slots and an arbitrary slot state; returns the table
    fn any_table() -> RawTable<u8, u32> {
        let mut t = RawTable::<u8, u32>::with_capacity(12);
        assert!(t.data.len() == CAP);
        let mut len = 0usize; let mut free = 0usize;
        let mut i = 0;
        while i < CAP {
            let kind: u8 = kani::any();
            if kind == 0 { t.data[i].status = u32::FREE; free += 1; }
            else if kind == 1 { t.data[i].status = u32::TOMBSTONE; }
            else {
                let key: u8 = kani::any();
                t.data[i].status = u32::from_hash(hash_of(key));
                t.data[i].data = MaybeUninit::new(key);
                len += 1;
            }
            i += 1;
        }
        t.len = len; t.free = free;
        t
    }
    /// adversarial hash: symbolic per-harness function of the key via a table
    fn hash_of(k: u8) -> u64 { (k as u64 & 3) * 0x1_0000_0004 }

    fn occupied(t: &RawTable<u8, u32>, i: usize) -> bool { t.data[i].status.is_hash() }
    fn key_at(t: &RawTable<u8, u32>, i: usize) -> u8 { unsafe { t.data[i].data.assume_init() } }

    /// wf: every element reachable from its home slot without crossing FREE; no duplicates; free >= 1
    fn wf(t: &RawTable<u8, u32>) -> bool {
        if t.free < CAP / 4 { return false; }
        let mut i = 0;
        while i < CAP {
            if occupied(t, i) {
                let k = key_at(t, i);
                if t.data[i].status != u32::from_hash(hash_of(k)) { return false; }
                let mut j = hash_of(k) as usize & (CAP - 1);
                while j != i {
                    if t.data[j].status == u32::FREE { return false; }
                    if occupied(t, j) && key_at(t, j) == k { return false; }
                    j = (j + 1) & (CAP - 1);
                }
            }
            i += 1;
        }
        true
    }
    fn contains(t: &RawTable<u8, u32>, k: u8) -> bool {
        let mut i = 0; let mut r = false;
        while i < CAP { if occupied(t, i) && key_at(t, i) == k { r = true; } i += 1; }
        r
    }

    #[kani::proof]
    #[kani::unwind(18)]
    fn find_is_membership() {
        let t = any_table();
        kani::assume(wf(&t));
        let k: u8 = kani::any();
        let r = t.find(hash_of(k), |&x| x == k);
        match r {
            Some(i) => { assert!(i < CAP && occupied(&t, i) && key_at(&t, i) == k); }
            None => { assert!(!contains(&t, k)); }
        }
        core::mem::forget(t);
    }
}
