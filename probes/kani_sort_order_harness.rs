#[cfg(kani)]
mod verif_harness {
    use super::*;
    const N: usize = 4;

    fn inversions(p: &[u32; N]) -> u32 {
        let mut c = 0; let mut i = 0;
        while i < N { let mut j = i + 1; while j < N { if p[i] > p[j] { c += 1; } j += 1; } i += 1; }
        c
    }
    fn is_perm(p: &[u32; N]) -> bool {
        let mut seen = [false; N]; let mut i = 0;
        while i < N { if p[i] as usize >= N || seen[p[i] as usize] { return false; } seen[p[i] as usize] = true; i += 1; }
        true
    }

    /// sort_order on N levels with a symbolic duplicate-free input of length m<=N
    #[kani::proof]
    #[kani::unwind(8)]
    fn sort_order_contract() {
        let m: usize = 2;
        let input: [u32; N] = kani::any();
        let mut i = 0;
        while i < N { kani::assume((input[i] as usize) < N); let mut j = 0; while j < i { if i < m { kani::assume(input[i] != input[j]); } j += 1; } i += 1; }
        let res = sort_order(N as u32, input[..m].iter().copied());
        assert!(res.len() == N);
        let r: [u32; N] = [res[0], res[1], res[2], res[3]];
        assert!(is_perm(&r));
        // requested relative order honoured
        let mut a = 0;
        while a + 1 < m { assert!(r[input[a] as usize] < r[input[a + 1] as usize]); a += 1; }
        // minimality: no other completion q (symbolic) respecting the order has fewer inversions
        let q: [u32; N] = kani::any();
        kani::assume(is_perm(&q));
        let mut b = 0; let mut ok = true;
        while b + 1 < m { if !(q[input[b] as usize] < q[input[b + 1] as usize]) { ok = false; } b += 1; }
        kani::assume(ok);
        assert!(inversions(&r) <= inversions(&q));
    }
}
