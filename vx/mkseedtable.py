"""Regenerate the seeded-changes table in DESIGN.md (between the SEEDTABLE markers) from seeded/*/meta.json."""
import glob, json, os, re
V = os.path.dirname(os.path.dirname(os.path.abspath(__file__)))
rows = []
for p in sorted(glob.glob(os.path.join(V, 'seeded', '*', 'meta.json'))):
    d = json.load(open(p))
    res = d.get('result', '')
    short = 'caught' if res.upper().startswith('CAUGHT') else ('missed→caught' if 'CAUGHT after' in res or 'CAUGHT (first' in res else ('missed' if res.upper().startswith('MISSED') and 'CAUGHT' not in res else ('missed→caught' if 'CAUGHT' in res else 'pending')))
    rows.append('| %s | %s | %s | %s | %s |' % (d['id'], d.get('property', ''), d.get('change', '').replace('|', '/'), short, (d.get('by') or res).replace('|', '/')[:260]))
tbl = '| seed | prop | change | outcome | deciding obligation / reason |\n|---|---|---|---|---|\n' + '\n'.join(rows)
n = len(rows); c = sum(1 for r in rows if '| caught |' in r); mc = sum(1 for r in rows if 'missed→caught' in r); m = sum(1 for r in rows if '| missed |' in r)
tbl += '\n\n%d seeded changes: %d caught by the checks as they were, %d missed at first and caught after strengthening, %d missed (reasons above), %d pending.' % (n, c, mc, m, n - c - mc - m)
p = os.path.join(V, 'DESIGN.md')
s = open(p).read()
s = re.sub(r'<!-- SEEDTABLE -->.*?<!-- /SEEDTABLE -->', '<!-- SEEDTABLE -->\n' + tbl + '\n<!-- /SEEDTABLE -->', s, flags=re.S)
open(p, 'w').write(s)
print(tbl.split('\n')[-1])
