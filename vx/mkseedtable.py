"""Regenerate the seeded-changes table in DESIGN.md (between the SEEDTABLE markers) from seeded/*/meta.json."""
import glob, json, os, re
V = os.path.dirname(os.path.dirname(os.path.abspath(__file__)))
rows = []
for p in sorted(glob.glob(os.path.join(V, 'seeded', '*', 'meta.json'))):
    d = json.load(open(p))
    res = d.get('result', '')
    short = d.get('outcome', 'pending')
    rows.append('| %s | %s | %s | %s | %s |' % (d['id'], d.get('property', ''), d.get('change', '').replace('|', '/'), short, (d.get('by') or res).replace('|', '/')[:260]))
tbl = '| seed | prop | change | outcome | deciding obligation / reason |\n|---|---|---|---|---|\n' + '\n'.join(rows)
n = len(rows); c = sum(1 for r in rows if '| caught |' in r); mc = sum(1 for r in rows if '| missed_then_caught |' in r); uc = sum(1 for r in rows if '| undecided_then_caught |' in r); m = sum(1 for r in rows if '| missed |' in r)
tbl += '\n\n%d seeded changes: %d caught by the checks as they were; %d first reported UNDECIDED (exit 2) and caught after a machinery fix (rlimit retry, brittle anchor removed); %d missed at first and caught after strengthening the contracts; %d missed (reasons above); %d pending.' % (n, c, uc, mc, m, n - c - mc - uc - m)
p = os.path.join(V, 'DESIGN.md')
s = open(p).read()
s = re.sub(r'<!-- SEEDTABLE -->.*?<!-- /SEEDTABLE -->', '<!-- SEEDTABLE -->\n' + tbl + '\n<!-- /SEEDTABLE -->', s, flags=re.S)
open(p, 'w').write(s)
print(tbl.split('\n')[-1])
