"""Expand a contract template (contracts/*.rs.tpl) into a single Verus file.

Template directives (all start with `//@`):

  //@fn  key=value ...            extract a function from /repo
  //@header                       (optional) replacement header (rule R10)
  ...header text...
  //@spec                         (optional) contract text spliced before body
  ...requires / ensures / decreases...
  //@end

  //@item key=value ...           copy a non-fn item (enum/struct/impl) verbatim

Keys for //@fn:
  file=<path under /repo>  path=<sel>/<sel>/...  (selectors of extract.locate)
  id=<unit id>             default: last fn name (after rename)
  ret=<name>               name for the return value (default res)
  mode=prove|stub          default prove
  rename=<new name>        rename the item (hoisted nested fns, R9)
  hoist=a>b,c>d            nested items `a`,`c` are removed from this body and
                           every use inside it is renamed to `b`,`d` (R9)
  cases=OP:1,2,3           case split on a const generic (stub + one copy each)
  nodecr                   add #[verifier::exec_allows_no_decreases_clause]
  expect=R5:1,R4:8         rule applications that must happen (anchor check)
  props=C02,C06            properties this unit serves
  vis=pub                  visibility prefix for the emitted fn
  selfcall=a>b             textual rename of path prefixes, e.g. Self::>  (R10)
Keys for //@item: file, path, rename, attrs="#[derive(..)]", vis, props
"""
import hashlib
import os
import re
import shlex

from . import extract as X

REPO = os.environ.get('VERIF_REPO', '/repo')


class Unit:
    def __init__(self):
        self.id = None
        self.kind = 'fn'
        self.file = None
        self.path = None
        self.span = None
        self.sha256 = None
        self.rules = {}
        self.mode = 'prove'
        self.props = []
        self.gen_lines = None   # (first,last) in generated file
        self.cases = None
        self.emitted = []       # names of emitted verus functions under proof
        self.spec = ''

    def to_json(self):
        return dict(id=self.id, kind=self.kind, file=self.file, path=self.path, src_lines=self.span,
                    sha256=self.sha256, rules=self.rules, mode=self.mode, props=self.props,
                    gen_lines=self.gen_lines, emitted=self.emitted)


_src_cache = {}


def load(file):
    p = os.path.join(REPO, file)
    if p not in _src_cache:
        try:
            s = open(p, encoding='utf-8').read()
        except OSError as e:
            raise X.AnchorLost('cannot read %s: %s' % (p, e))
        _src_cache[p] = (s, X.mask(s))
    return _src_cache[p]


def recursor_bodies(file):
    """read every method of `impl Recursor<M> for SequentialRecursor` from recursor.rs"""
    src, m = load(file)
    imp = X.locate(src, m, ['impl:Recursor<M>~for~SequentialRecursor'], file)
    res = {}
    for mm in re.finditer(r'\bfn\s+(\w+)\b', m[imp.body_open:imp.body_close]):
        meth = mm.group(1)
        it = X.locate(src, m, ['impl:Recursor<M>~for~SequentialRecursor', 'fn:' + meth], file)
        hm = X.mask(it.header)
        k = hm.find('(')
        cl = X.match_close(hm, k)
        params = []
        for a in X.split_args(hm, it.header, k, cl, True):
            params.append(a.split(':')[0].strip())
        res[meth] = (params, it.body)
    return res


def parse_kv(line):
    d = {}
    for tok in shlex.split(line):
        if '=' in tok:
            k, _, v = tok.partition('=')
            d[k] = v
        else:
            d[tok] = True
    return d


def apply_rules(text, opts, counts, recursor_file):
    def run(name, fn, *a):
        nonlocal text
        text, c = fn(text, *a)
        if c:
            counts[name] = counts.get(name, 0) + c
    run('R1', X.r1_strip_attrs)
    run('R2', X.r2_stat)
    run('R3', X.r3_debug_assert)
    run('R20', X.r20_eprintln)
    if 'fmtstub' in opts:
        run('R21', X.r21_format)
    run('R4', X.r4_or_guard)
    if recursor_file:
        run('R5', X.r5_recursor, recursor_bodies(recursor_file))
    run('R11', X.r11_slice_pat)
    run('R12', X.r12_const_block)
    run('R13', X.r13_let_chain)
    run('R14', X.r14_ord_min)
    if opts.get('withmgr'):
        run('R15', X.r15_with_manager, opts['withmgr'])
    return text


def remove_nested(body, name):
    """remove nested item `name` (fn/enum/const/struct) incl. attrs from a body"""
    m = X.mask(body)
    mm = re.search(r'\b(fn|enum|struct)\s+' + re.escape(name) + r'\b', m)
    if mm:
        bo = X.find_body_open(m, mm.end())
        bc = X.match_close(m, bo)
        st = X.item_start(m, mm.start())
        # swallow doc comments directly above (they are blank in masked text)
        ls = body.rfind('\n', 0, st) + 1
        # extend upwards over pure comment lines
        while True:
            pl = body.rfind('\n', 0, max(ls - 1, 0)) + 1
            line = body[pl:ls]
            if ls > 0 and line.strip().startswith('//'):
                ls = pl
            else:
                break
        if body[ls:st].strip() == '':
            st = ls
        e = bc + 1
        if body[e:e + 1] == '\n':
            e += 1
        return body[:st] + body[e:]
    mm = re.search(r'\bconst\s+' + re.escape(name) + r'\s*:', m)
    if mm:
        e = m.find(';', mm.end()) + 1
        st = mm.start()
        return body[:st] + body[e:]
    raise X.AnchorLost('hoist: nested item %s not found' % name)


def params_of(header):
    hm = X.mask(header)
    k0 = re.search(r'\bfn\s+\w+\s*', hm).end()
    k = k0
    if hm[k] == '<':
        depth = 0
        while True:
            if hm[k] == '<':
                depth += 1
            elif hm[k] == '>' and hm[k - 1] != '-':
                depth -= 1
                if depth == 0:
                    k += 1
                    break
            k += 1
    while hm[k] in ' \t\n':
        k += 1
    cl = X.match_close(hm, k)
    names = []
    for a in X.split_args(hm, header, k, cl, True):
        a = a.strip()
        a = re.sub(r'^mut\s+', '', a)
        names.append(a.split(':')[0].strip())
    return names


def canary_spec(spec):
    m = re.search(r'\bensures\b', spec)
    if m:
        return spec[:m.end()] + ' false,' + spec[m.end():]
    d = re.search(r'\bdecreases\b', spec)
    if d:
        return spec[:d.start()] + ' ensures false,\n' + spec[d.start():]
    return spec.rstrip() + '\n ensures false,\n'


def expand(tpl_path, canary=False, only_props=None):
    """returns (generated_text, [Unit], assumptions:list[str])"""
    lines = open(tpl_path, encoding='utf-8').read().split('\n')
    out = []
    units = []
    recursor_file = None
    i = 0

    def cur_line():
        return sum(s.count('\n') + 1 for s in out) + 1
    while i < len(lines):
        ln = lines[i]
        s = ln.strip()
        if s.startswith('//@recursor'):
            recursor_file = parse_kv(s[len('//@recursor'):])['file']
            i += 1
            continue
        if s.startswith('//@lemma'):
            # hand-written proof fn in the template that counts as an obligation of some property
            opts = parse_kv(s[len('//@lemma'):])
            u = Unit()
            u.kind = 'lemma'
            u.id = opts['name']
            u.file = os.path.relpath(tpl_path, os.path.dirname(os.path.dirname(os.path.abspath(__file__))))
            u.path = ['lemma:' + opts['name']]
            u.props = opts.get('props', '').split(',') if opts.get('props') else []
            first = cur_line()
            j = i + 1
            while j < len(lines) and not lines[j].startswith('}'):
                j += 1
            body = '\n'.join(lines[i + 1:j + 1])
            u.sha256 = hashlib.sha256(body.encode()).hexdigest()
            u.span = [i + 2, j + 1]
            u.gen_lines = [first, first + (j - i)]
            u.emitted = [(opts['name'], first, first + (j - i))]
            units.append(u)
            i += 1
            continue
        if s.startswith('//@const'):
            # copy a (possibly nested) `const NAME: T = EXPR;` item verbatim, optionally renamed (R9)
            opts = parse_kv(s[len('//@const'):])
            src, m = load(opts['file'])
            within = (0, len(m))
            if opts.get('path'):
                it = X.locate(src, m, opts['path'].split('/'), opts['file'])
                within = (it.body_open, it.body_close)
            mm = re.search(r'\bconst\s+' + re.escape(opts['name']) + r'\s*:', m[within[0]:within[1]])
            if not mm:
                raise X.AnchorLost('%s: const %s not found' % (opts['file'], opts['name']))
            a = within[0] + mm.start()
            b = m.find(';', a) + 1
            text = src[a:b]
            if opts.get('rename'):
                text, _ = X.rename_ident(text, opts['name'], opts['rename'])
            out.append((opts.get('vis', '') + ' ' + text).strip())
            i += 1
            continue
        if s.startswith('//@fn') or s.startswith('//@item'):
            is_fn = s.startswith('//@fn')
            opts = parse_kv(s[5:] if is_fn else s[7:])
            header_lines, spec_lines, loop_lines = [], [], []
            i += 1
            sect = None
            while True:
                if i >= len(lines):
                    raise ValueError('unterminated directive in %s' % tpl_path)
                t = lines[i].strip()
                if t == '//@end':
                    i += 1
                    break
                if t == '//@header':
                    sect = header_lines
                elif t == '//@spec':
                    sect = spec_lines
                elif t == '//@loop':
                    sect = loop_lines
                else:
                    if sect is None:
                        raise ValueError('%s:%d: text outside //@header or //@spec' % (tpl_path, i + 1))
                    sect.append(lines[i])
                i += 1
            u = Unit()
            u.kind = 'fn' if is_fn else 'item'
            u.file = opts['file']
            u.path = opts['path'].split('/')
            u.mode = opts.get('mode', 'prove')
            u.props = opts.get('props', '').split(',') if opts.get('props') else []
            src, m = load(u.file)
            it = X.locate(src, m, u.path, u.file)
            u.span = list(it.line_span())
            u.sha256 = hashlib.sha256(it.text.encode()).hexdigest()
            first = cur_line()
            if is_fn:
                text = emit_fn(u, it, opts, header_lines, spec_lines, canary, recursor_file, loop_lines)
            else:
                text = emit_item(u, it, opts)
            out.append(text)
            u.gen_lines = [first, first + text.count('\n')]
            u.emitted = [(n, first + a, first + b) for (n, a, b) in u.emitted]
            units.append(u)
            continue
        out.append(ln)
        i += 1
    return '\n'.join(out), units


def emit_item(u, it, opts):
    text = it.text
    counts = {}
    text, c = X.r1_strip_attrs(text)
    if c:
        counts['R1'] = c
    name = u.path[-1].split(':', 1)[1]
    if opts.get('rename'):
        text, _ = X.rename_ident(text, name, opts['rename'])
        counts['R9'] = counts.get('R9', 0) + 1
        name = opts['rename']
    if opts.get('subst'):
        for pair in opts['subst'].split(','):
            a, _, b = pair.partition('>')
            text, _ = X.rename_ident(text, a, b)
    u.id = opts.get('id', name)
    u.rules = counts
    attrs = opts.get('attrs', '')
    vis = opts.get('vis', '')
    # strip original visibility
    text = re.sub(r'^(pub(\([^)]*\))?\s+)', '', text)
    return (attrs + '\n' if attrs else '') + (vis + ' ' if vis else '') + text


def emit_fn(u, it, opts, header_lines, spec_lines, canary, recursor_file, loop_lines=()):
    counts = {}
    header = it.header
    body = it.body
    orig_name = u.path[-1].split(':', 1)[1].split('#')[0]
    name = orig_name
    # hoisting (R9): remove nested items, rename their uses
    if opts.get('hoist'):
        for pair in opts['hoist'].split(','):
            a, _, b = pair.partition('>')
            body = remove_nested(body, a)
            body, _ = X.rename_ident(body, a, b)
            counts['R9'] = counts.get('R9', 0) + 1
    if opts.get('rename'):
        new = opts['rename']
        header, _ = X.rename_ident(header, name, new)
        body, _ = X.rename_ident(body, name, new)
        counts['R9'] = counts.get('R9', 0) + 1
        name = new
    if opts.get('name'):
        # the unit's name is the one in the replacement //@header; the body is left alone (used by the __mt twins, whose
        # bodies call the single-threaded function of the same name)
        name = opts['name']
    if opts.get('selfcall'):
        for pair in opts['selfcall'].split(','):
            a, _, b = pair.partition('>')
            n0 = body.count(a)
            body = body.replace(a, b)
            counts['R10'] = counts.get('R10', 0) + n0
    if opts.get('subst'):
        for pair in opts['subst'].split(','):
            a, _, b = pair.partition('>')
            body, _ = X.rename_ident(body, a, b)
            header, _ = X.rename_ident(header, a, b)
    if opts.get('subst_text'):
        # R10 (qualified trait-static call -> prelude stub with the same contract)
        for pair in opts['subst_text'].split(';;'):
            a, _, b = pair.partition('::=')
            a, b = a.replace('~', ' ').replace('@Q@', "'"), b.replace('~', ' ').replace('@Q@', "'")
            n0 = body.count(a)
            if n0 == 0:
                raise X.AnchorLost('%s: subst_text pattern %r not found in %s' % (u.file, a, name))
            body = body.replace(a, b)
            counts['R10'] = counts.get('R10', 0) + n0
    if opts.get('loopbody') is not None:
        # R16: the body of the k-th `for` loop is outlined verbatim into a function with the header given in the template
        loops = X.for_loops(body)
        k = int(opts['loopbody'])
        if k >= len(loops):
            raise X.AnchorLost('%s: %s has only %d for-loops (loopbody=%d)' % (u.file, name, len(loops), k))
        pat, it_expr, lb = loops[k]
        if opts.get('looppat') and opts['looppat'].replace('~', ' ') != pat:
            raise X.AnchorLost('%s: %s loop #%d pattern is %r, contract expects %r' % (u.file, name, k, pat, opts['looppat'].replace('~', ' ')))
        tail = opts.get('tail', '').replace('~', ' ')
        lb, c18 = X.r18_body_use(lb)
        if c18:
            counts['R18'] = counts.get('R18', 0) + c18
        body = '{\n' + lb[1:-1] + '\n' + tail + '\n}'
        counts['R16'] = counts.get('R16', 0) + 1
        if not header_lines:
            raise ValueError('loopbody needs a //@header')
    if opts.get('closure') is not None:
        # R19: the body of the k-th closure literal is outlined verbatim into a function with the header given in the template
        cl = X.closures(body)
        k = int(opts['closure'])
        if k >= len(cl):
            raise X.AnchorLost('%s: %s has only %d closures (closure=%d)' % (u.file, name, len(cl), k))
        cpar, cbody = cl[k]
        if opts.get('cparams') and opts['cparams'].replace('~', ' ') != cpar:
            raise X.AnchorLost('%s: %s closure #%d has parameters %r, contract expects %r' % (u.file, name, k, cpar, opts['cparams'].replace('~', ' ')))
        body = cbody
        counts['R19'] = counts.get('R19', 0) + 1
        if not header_lines:
            raise ValueError('closure needs a //@header')
    if opts.get('forinv') is not None:
        # R17: for -> loop with the invariant from the //@loop section; R18 first (a `use` may sit inside the loop body)
        body, c18 = X.r18_body_use(body)
        if c18:
            counts['R18'] = c18
        body, c17 = X.r17_for_to_loop(body, int(opts['forinv']), '/*@@LOOPSPEC@@*/')
        counts['R17'] = c17
    ret = opts.get('ret', 'res')
    if header_lines:
        # R10: replacement header; check parameter names agree with the real one
        new_header = '\n'.join(header_lines)
        real = params_of(header)
        mine = params_of(new_header)
        if opts.get('loopbody') is not None or opts.get('closure') is not None:
            real = mine  # the outlined loop body has its own header; drift is caught by looppat
        if opts.get('withmgr'):
            # R15: `&self` becomes (manager, <this>): compare the remaining parameters only
            real = [x for x in real if x not in ('self', '&self')]
            mine = [x for x in mine if x not in ('manager', opts['withmgr'])]
        if real != mine:
            raise X.AnchorLost('%s: header drift for %s: real params %r, contract header %r' % (u.file, name, real, mine))
        header = new_header
        counts['R10'] = counts.get('R10', 0) + 1
    else:
        header = re.sub(r'^(pub(\([^)]*\))?\s+)', '', header)
        header, c1 = X.r1_strip_attrs(header)
        header, had = X.name_return(header, ret)
    body = apply_rules(body, opts, counts, recursor_file)
    if opts.get('forinv') is not None:
        body = body.replace('/*@@LOOPSPEC@@*/', '\n'.join(loop_lines))  # spliced after R1 so that #[trigger] survives
    if opts.get('expect'):
        for pair in opts['expect'].split(','):
            r, _, n = pair.partition(':')
            if counts.get(r, 0) != int(n):
                raise X.AnchorLost('%s: %s: expected %s x%s, got %d' % (u.file, name, r, n, counts.get(r, 0)))
    u.id = opts.get('id', name)
    u.rules = counts
    spec = '\n'.join(spec_lines)
    u.spec = spec
    vis = (opts['vis'] + ' ') if opts.get('vis') else ''
    attrs = ''
    if 'nodecr' in opts:
        attrs += '#[verifier::exec_allows_no_decreases_clause]\n'
    if 'noisolation' in opts:
        attrs += '#[verifier::loop_isolation(false)]\n'
    if opts.get('rlimit'):
        attrs += '#[verifier::rlimit(%s)]\n' % opts['rlimit']
    if opts.get('spinoff'):
        attrs += '#[verifier::spinoff_prover]\n'
    stub = '#[verifier::external_body]\n' + vis + header.rstrip() + '\n' + spec + '\n{ unimplemented!() }\n'
    if u.mode == 'stub':
        return stub
    pspec = canary_spec(spec) if canary else spec
    if opts.get('cases'):
        var, _, vals = opts['cases'].partition(':')
        vals = [v for v in vals.split(',') if v]
        u.cases = vals
        res = stub
        for v in vals:
            v = v.replace('~', ' ')
            cname = '%s__case_%s' % (name, re.sub(r'\W+', '_', v.replace('-', 'neg')).strip('_'))
            h2, _ = X.rename_ident(header, name, cname)
            sp = pspec
            mreq = re.search(r'\brequires\b', sp)
            if mreq:
                sp = sp[:mreq.end()] + ' %s == %s,' % (var, v) + sp[mreq.end():]
            else:
                sp = ' requires %s == %s,\n' % (var, v) + sp
            piece = attrs + vis + h2.rstrip() + '\n' + sp + '\n' + body + '\n'
            u.emitted.append((cname, res.count('\n'), res.count('\n') + piece.count('\n')))
            res += piece
        return res
    if canary:
        # callers must keep seeing the ORIGINAL contract: emit a stub under the real name and the
        # ensures-false copy under <name>__canary (its calls, also recursive ones, go to the stubs)
        cname = name + '__canary'
        h2, _ = X.rename_ident(header, name, cname)
        piece = attrs + vis + h2.rstrip() + '\n' + pspec + '\n' + body + '\n'
        u.emitted.append((name, stub.count('\n'), stub.count('\n') + piece.count('\n')))
        return stub + piece
    piece = attrs + vis + header.rstrip() + '\n' + pspec + '\n' + body + '\n'
    u.emitted.append((name, 0, piece.count('\n')))
    return piece
