//! oxidd-witness <dd-kind> <group>
//! dd-kind: bdd | bcdd | zbdd | mtbdd | tdd ; group: a family of operations (see `groups`)
//! Enumerates all operand tuples over NV variables (truth tables) on the REAL oxidd crate and compares
//! every result with a truth-table oracle.  Prints one JSON line for the first disagreement
//! (`{"found":true,...}`) or `{"found":false,"checked":N}`.
use oxidd::util::OptBool;
use oxidd::{BooleanFunction, BooleanFunctionQuant, BooleanOperator, Function, FunctionSubst, Manager, ManagerRef, Subst};
use std::collections::HashMap;

const NV: usize = 3;
const NA: usize = 1 << NV; // assignments
type TT = u32; // truth table: bit a = value under assignment a (bit i of a = value of variable i)

fn tt_var(i: usize) -> TT { let mut t = 0; for a in 0..NA { if (a >> i) & 1 == 1 { t |= 1 << a; } } t }
const FULL: TT = (1u32 << NA) - 1;

fn build<F: BooleanFunction>(vars: &[F], tt: TT) -> F
where for<'id> F::Manager<'id>: Manager {
    // sum of minterms
    let mut res: Option<F> = None;
    for a in 0..NA {
        if (tt >> a) & 1 == 0 { continue; }
        let mut m: Option<F> = None;
        for (i, v) in vars.iter().enumerate() {
            let lit = if (a >> i) & 1 == 1 { v.clone() } else { v.not().unwrap() };
            m = Some(match m { None => lit, Some(x) => x.and(&lit).unwrap() });
        }
        let m = m.unwrap();
        res = Some(match res { None => m, Some(r) => r.or(&m).unwrap() });
    }
    match res { Some(r) => r, None => vars[0].and(&vars[0].not().unwrap()).unwrap() }
}
fn table<F: BooleanFunction>(f: &F) -> TT {
    let mut t = 0;
    for a in 0..NA {
        if f.eval((0..NV).map(|i| (i as u32, (a >> i) & 1 == 1))) { t |= 1 << a; }
    }
    t
}
fn fail(kind: &str, op: &str, inputs: Vec<(String, String)>, expected: String, actual: String) -> ! {
    let ins: Vec<String> = inputs.iter().map(|(k, v)| format!("\"{}\":\"{}\"", k, v)).collect();
    println!("{{\"found\":true,\"dd\":\"{}\",\"op\":\"{}\",\"vars\":{},\"inputs\":{{{}}},\"expected\":\"{}\",\"actual\":\"{}\",\"note\":\"truth tables are {}-bit strings, bit a (LSB first) = value under assignment a, bit i of a = value of variable i\"}}",
        kind, op, NV, ins.join(","), expected, actual, NA);
    std::process::exit(0)
}
fn bits(t: TT) -> String { (0..NA).map(|a| if (t >> a) & 1 == 1 { '1' } else { '0' }).collect() }
fn cof(t: TT, i: usize, v: bool) -> TT { // cofactor as a function still over NV vars
    let mut r = 0;
    for a in 0..NA { let b = if v { a | (1 << i) } else { a & !(1 << i) }; if (t >> b) & 1 == 1 { r |= 1 << a; } }
    r
}
fn binop(op: &str, a: TT, b: TT) -> TT {
    FULL & match op { "and" => a & b, "or" => a | b, "nand" => !(a & b), "nor" => !(a | b), "xor" => a ^ b, "equiv" => !(a ^ b), "imp" => !a | b, "imp_strict" => !a & b, _ => unreachable!() }
}
const BINOPS: [&str; 8] = ["and", "or", "nand", "nor", "xor", "equiv", "imp", "imp_strict"];
fn apply_bin<F: BooleanFunction>(op: &str, a: &F, b: &F) -> F {
    match op { "and" => a.and(b), "or" => a.or(b), "nand" => a.nand(b), "nor" => a.nor(b), "xor" => a.xor(b), "equiv" => a.equiv(b), "imp" => a.imp(b), "imp_strict" => a.imp_strict(b), _ => unreachable!() }.unwrap()
}
fn boolop(op: &str) -> BooleanOperator {
    match op { "and" => BooleanOperator::And, "or" => BooleanOperator::Or, "nand" => BooleanOperator::Nand, "nor" => BooleanOperator::Nor, "xor" => BooleanOperator::Xor, "equiv" => BooleanOperator::Equiv, "imp" => BooleanOperator::Imp, _ => BooleanOperator::ImpStrict }
}

/// groups that need only `BooleanFunction` (used for ZBDDs, which have no quantification/substitution API)
fn run_basic<F>(kind: &str, group: &str, vars: Vec<F>)
where F: BooleanFunction, for<'id> F::Manager<'id>: Manager {
    let all: Vec<F> = (0..=FULL).map(|t| build(&vars, t)).collect();
    let mut checked = 0u64;
    for t in 0..=FULL { if table(&all[t as usize]) != t { fail(kind, "build(var,not,and,or)+eval", vec![("f".into(), bits(t))], bits(t), bits(table(&all[t as usize]))); } }
    match group {
        "bin" => {
            for a in 0..=FULL { for b in 0..=FULL { for op in BINOPS {
                let r = apply_bin(op, &all[a as usize], &all[b as usize]);
                checked += 1;
                let e = binop(op, a, b);
                if table(&r) != e || r != all[e as usize] { fail(kind, op, vec![("f".into(), bits(a)), ("g".into(), bits(b))], bits(e), bits(table(&r))); }
            } } }
            for a in 0..=FULL { let r = all[a as usize].not().unwrap(); checked += 1; if r != all[(FULL & !a) as usize] { fail(kind, "not", vec![("f".into(), bits(a))], bits(FULL & !a), bits(table(&r))); } }
        }
        "ite" => {
            for a in 0..=FULL { for b in 0..=FULL { for c in 0..=FULL {
                let r = all[a as usize].ite(&all[b as usize], &all[c as usize]).unwrap();
                checked += 1;
                let e = (a & b) | (FULL & !a & c);
                if r != all[e as usize] { fail(kind, "ite", vec![("f".into(), bits(a)), ("g".into(), bits(b)), ("h".into(), bits(c))], bits(e), bits(table(&r))); }
            } } }
        }
        _ => { println!("{{\"found\":false,\"error\":\"group not available for this kind\"}}"); return; }
    }
    println!("{{\"found\":false,\"checked\":{}}}", checked);
}

/// ZBDD set-family operations against the family-as-bitmask oracle (bit a of the table = subset a is a member)
fn run_vecset(vars_n: usize) {
    use oxidd::zbdd::ZBDDFunction;
    use oxidd::BooleanVecSet;
    let _ = vars_n;
    let mref = oxidd::zbdd::new_manager(1 << 16, 1 << 10, 1);
    let vars: Vec<ZBDDFunction> = mref.with_manager_exclusive(|m| m.add_vars(NV as u32).map(|v| ZBDDFunction::var(m, v).unwrap()).collect());
    let all: Vec<ZBDDFunction> = (0..=FULL).map(|t| build(&vars, t)).collect();
    let mut checked = 0u64;
    for a in 0..=FULL { for b in 0..=FULL {
        let (f, g) = (&all[a as usize], &all[b as usize]);
        for (name, r, e) in [("union", f.union(g).unwrap(), a | b), ("intsec", f.intsec(g).unwrap(), a & b), ("diff", f.diff(g).unwrap(), a & !b & FULL)] {
            checked += 1;
            if r != all[e as usize] { fail("zbdd", name, vec![("f".into(), bits(a)), ("g".into(), bits(b))], bits(e), bits(table(&r))); }
        }
    } }
    for a in 0..=FULL { for v in 0..NV {
        let f = &all[a as usize];
        let mut e1 = 0; let mut e0 = 0; let mut ec = 0;
        for s in 0..NA {
            if (s >> v) & 1 == 0 { if (a >> (s | (1 << v))) & 1 == 1 { e1 |= 1 << s; } if (a >> s) & 1 == 1 { e0 |= 1 << s; } }
            if (a >> (s ^ (1 << v))) & 1 == 1 { ec |= 1 << s; }
        }
        for (name, r, e) in [("subset1", f.subset1(v as u32).unwrap(), e1), ("subset0", f.subset0(v as u32).unwrap(), e0), ("change", f.change(v as u32).unwrap(), ec)] {
            checked += 1;
            if r != all[e as usize] { fail("zbdd", name, vec![("f".into(), bits(a)), ("var".into(), v.to_string())], bits(e), bits(table(&r))); }
        }
    } }
    println!("{{\"found\":false,\"checked\":{}}}", checked);
}

fn run_boolean<F>(kind: &str, group: &str, vars: Vec<F>)
where F: BooleanFunction + BooleanFunctionQuant + FunctionSubst, for<'id> F::Manager<'id>: Manager {
    let all: Vec<F> = (0..=FULL).map(|t| build(&vars, t)).collect();
    let mut checked = 0u64;
    // sanity: construction itself (var/not/and/or/eval)
    for t in 0..=FULL { if table(&all[t as usize]) != t { fail(kind, "build(var,not,and,or)+eval", vec![("f".into(), bits(t))], bits(t), bits(table(&all[t as usize]))); } }
    // handles canonical: equal tables <=> equal handles is implied by construction order; check a few identities
    match group {
        "bin" => {
            for a in 0..=FULL { for b in 0..=FULL { for op in BINOPS {
                let r = apply_bin(op, &all[a as usize], &all[b as usize]);
                checked += 1;
                let e = binop(op, a, b);
                if table(&r) != e || r != all[e as usize] { fail(kind, op, vec![("f".into(), bits(a)), ("g".into(), bits(b))], bits(e), bits(table(&r))); }
            } } }
            for a in 0..=FULL { let r = all[a as usize].not().unwrap(); checked += 1; if r != all[(FULL & !a) as usize] { fail(kind, "not", vec![("f".into(), bits(a))], bits(FULL & !a), bits(table(&r))); } }
        }
        "ite" => {
            for a in 0..=FULL { for b in 0..=FULL { for c in (0..=FULL).step_by(1) {
                let r = all[a as usize].ite(&all[b as usize], &all[c as usize]).unwrap();
                checked += 1;
                let e = (a & b) | (FULL & !a & c);
                if r != all[e as usize] { fail(kind, "ite", vec![("f".into(), bits(a)), ("g".into(), bits(b)), ("h".into(), bits(c))], bits(e), bits(table(&r))); }
            } } }
        }
        "quant" | "apply_quant" => {
            for vs in 0..(1u32 << NV) {
                // variable set as conjunction of positive literals
                let mut cube = all[FULL as usize].clone();
                for i in 0..NV { if (vs >> i) & 1 == 1 { cube = cube.and(&vars[i]).unwrap(); } }
                let q = |t: TT, kind: &str| -> TT { let mut r = t; for i in 0..NV { if (vs >> i) & 1 == 1 { let (c1, c0) = (cof(r, i, true), cof(r, i, false)); r = match kind { "forall" => c1 & c0, "exists" => c1 | c0, _ => c1 ^ c0 }; } } r };
                if group == "quant" {
                    for a in 0..=FULL { for (name, r) in [("forall", all[a as usize].forall(&cube)), ("exists", all[a as usize].exists(&cube)), ("unique", all[a as usize].unique(&cube))] {
                        let r = r.unwrap(); checked += 1; let e = q(a, name);
                        if r != all[e as usize] { fail(kind, name, vec![("f".into(), bits(a)), ("vars".into(), format!("{:03b}", vs))], bits(e), bits(table(&r))); }
                    } }
                } else {
                    for a in (0..=FULL).step_by(3) { for b in (0..=FULL).step_by(5) { for op in BINOPS { for name in ["forall", "exists", "unique"] {
                        let (f, g) = (&all[a as usize], &all[b as usize]);
                        let r = match name { "forall" => f.apply_forall(boolop(op), g, &cube), "exists" => f.apply_exists(boolop(op), g, &cube), _ => f.apply_unique(boolop(op), g, &cube) }.unwrap();
                        checked += 1; let e = q(binop(op, a, b), name);
                        if r != all[e as usize] { fail(kind, &format!("apply_{}({})", name, op), vec![("f".into(), bits(a)), ("g".into(), bits(b)), ("vars".into(), format!("{:03b}", vs))], bits(e), bits(table(&r))); }
                    } } } }
                }
            }
        }
        "restrict" => {
            // all partial assignments: each var in {unset, true, false}
            for pa in 0..27u32 {
                let mut cube = all[FULL as usize].clone();
                let mut x = pa; let mut asg = vec![];
                for i in 0..NV { let d = x % 3; x /= 3; asg.push(d); if d == 1 { cube = cube.and(&vars[i]).unwrap(); } else if d == 2 { cube = cube.and(&vars[i].not().unwrap()).unwrap(); } }
                for a in 0..=FULL {
                    let r = all[a as usize].restrict(&cube).unwrap(); checked += 1;
                    let mut e = a; for i in 0..NV { if asg[i] == 1 { e = cof(e, i, true); } else if asg[i] == 2 { e = cof(e, i, false); } }
                    if r != all[e as usize] { fail(kind, "restrict", vec![("f".into(), bits(a)), ("assignment(var0..; 0=unset,1=true,2=false)".into(), format!("{:?}", asg))], bits(e), bits(table(&r))); }
                }
            }
        }
        "substitute" => {
            for a in (0..=FULL).step_by(1) { for r0 in (0..=FULL).step_by(17) { for r1 in (0..=FULL).step_by(29) {
                let reps = [all[r0 as usize].clone(), all[r1 as usize].clone()];
                let s = Subst::new([0u32, 1u32], &reps[..]);
                let r = all[a as usize].substitute(&s).unwrap(); checked += 1;
                let mut e = 0; for asn in 0..NA { let v0 = (r0 >> asn) & 1; let v1 = (r1 >> asn) & 1; let b = (asn & !3) | (v0 as usize) | ((v1 as usize) << 1); if (a >> b) & 1 == 1 { e |= 1 << asn; } }
                if r != all[e as usize] { fail(kind, "substitute(x0:=r0,x1:=r1)", vec![("f".into(), bits(a)), ("r0".into(), bits(r0)), ("r1".into(), bits(r1))], bits(e), bits(table(&r))); }
            } } }
        }
        "pick_cube" => {
            for ls in 0..27u32 {
                let mut lits = all[FULL as usize].clone();
                let mut x = ls; let mut pol = vec![];
                for i in 0..NV { let d = x % 3; x /= 3; pol.push(d); if d == 1 { lits = lits.and(&vars[i]).unwrap(); } else if d == 2 { lits = lits.and(&vars[i].not().unwrap()).unwrap(); } }
                for a in 0..=FULL {
                    let f = &all[a as usize];
                    let c = f.pick_cube_dd_set(&lits).unwrap(); checked += 1;
                    let ct = table(&c);
                    let is_cube = |t: TT| -> bool { if t == 0 { return false; } // conjunction of literals: closed under the "bounding box"
                        let mut fixed1 = NA - 1; let mut fixed0 = NA - 1; for asn in 0..NA { if (t >> asn) & 1 == 1 { fixed1 &= asn; fixed0 &= !asn; } }
                        let mut cnt = 0; for asn in 0..NA { if (t >> asn) & 1 == 1 { cnt += 1; } }
                        let free = NV - (fixed1.count_ones() as usize) - ((fixed0 & (NA - 1)).count_ones() as usize); cnt == (1 << free) };
                    if a == 0 { if ct != 0 { fail(kind, "pick_cube_dd_set", vec![("f".into(), bits(a))], "false function".into(), bits(ct)); } continue; }
                    if !is_cube(ct) || (ct & !a) != 0 { fail(kind, "pick_cube_dd_set (cube implies f)", vec![("f".into(), bits(a)), ("literal_set(0=absent,1=pos,2=neg)".into(), format!("{:?}", pol))], "a cube implying f".into(), bits(ct)); }
                    // polarity: for every variable i mentioned in the literal set: if f restricted by the cube's other literals allows both values of i
                    // (both cofactors of f w.r.t. the literals the cube fixes on OTHER variables above ... ) -- checked in its simplest sound form:
                    // if the literal-set cube itself (with unmentioned variables free) intersects f, then some cube consistent with all mentioned literals exists;
                    // the top-down greedy strategy documented for pick_cube_dd_set then never needs to contradict a mentioned literal unless forced.
                    // Forced = following the literal leads to the false function. We replay the documented strategy on truth tables:
                    let mut cur = a; let mut exp_fixed: Vec<Option<bool>> = vec![None; NV];
                    for i in 0..NV { // variable order = level order (fresh manager: var i on level i)
                        let (c1, c0) = (cof(cur, i, true), cof(cur, i, false));
                        if c1 == c0 { continue; } // node skipped: don't care
                        let choice = if c1 == 0 { Some(false) } else if c0 == 0 { Some(true) } else { match pol[i] { 1 => Some(true), 2 => Some(false), _ => None } };
                        match choice { Some(v) => { exp_fixed[i] = Some(v); cur = if v { c1 } else { c0 }; }
                            None => { // unmentioned + free: implementation may choose; follow what it chose
                                let v = (0..NA).any(|asn| (ct >> asn) & 1 == 1 && (asn >> i) & 1 == 1) && !(0..NA).any(|asn| (ct >> asn) & 1 == 1 && (asn >> i) & 1 == 0);
                                let v0 = !(0..NA).any(|asn| (ct >> asn) & 1 == 1 && (asn >> i) & 1 == 1);
                                if v { cur = c1; exp_fixed[i] = Some(true); } else if v0 { cur = c0; exp_fixed[i] = Some(false); } else { // left as don't care although the node is not skipped: impossible for a cube that implies f
                                    cur = c1 & c0; }
                            } }
                    }
                    for i in 0..NV { if let Some(v) = exp_fixed[i] { if pol[i] != 0 {
                        let has = (0..NA).any(|asn| (ct >> asn) & 1 == 1 && ((asn >> i) & 1 == 1) != v);
                        if has { fail(kind, "pick_cube_dd_set (literal polarity)", vec![("f".into(), bits(a)), ("literal_set(0=absent,1=pos,2=neg)".into(), format!("{:?}", pol))], format!("variable {} = {}", i, v), bits(ct)); }
                    } } }
                }
            }
            // pick_cube (vector form) agrees with pick_cube_dd for a fixed choice function
            for a in 1..=FULL { for ch in [false, true] {
                let f = &all[a as usize];
                let v = f.pick_cube(|_, _, _| ch).unwrap();
                let d = f.pick_cube_dd(|_, _, _| ch).unwrap(); checked += 1;
                let mut e = FULL; for i in 0..NV { match v[i] { OptBool::True => e &= tt_var(i), OptBool::False => e &= FULL & !tt_var(i), OptBool::None => {} } }
                if table(&d) != e || (e & !a) != 0 { fail(kind, "pick_cube vs pick_cube_dd", vec![("f".into(), bits(a)), ("choice".into(), ch.to_string())], bits(e), bits(table(&d))); }
            } }
        }
        _ => { println!("{{\"found\":false,\"error\":\"unknown group\"}}"); return; }
    }
    println!("{{\"found\":false,\"checked\":{}}}", checked);
}

/// all 3-variable functions alive, reorder to every permutation (and chains of two), check that every old handle
/// keeps its truth table and that rebuilding the same function yields the same handle (canonicity after reordering)
fn run_reorder<F, MR>(kind: &str, mk: impl Fn() -> (MR, Vec<F>))
where F: BooleanFunction, for<'id> F::Manager<'id>: Manager + oxidd::HasWorkers, MR: ManagerRef, for<'id> F: Function<ManagerRef = MR, Manager<'id> = MR::Manager<'id>>,
      for<'id> <F::Manager<'id> as Manager>::InnerNode: oxidd::HasLevel {
    let perms: [[u32; 3]; 6] = [[0, 1, 2], [0, 2, 1], [1, 0, 2], [1, 2, 0], [2, 0, 1], [2, 1, 0]];
    let mut checked = 0u64;
    for p1 in perms { for p2 in perms {
        let (mref, vars) = mk();
        let all: Vec<F> = (0..=FULL).map(|t| build(&vars, t)).collect();
        if std::env::var("WITNESS_TRACE").is_ok() { eprintln!("reorder {:?} then {:?}", p1, p2); }
        mref.with_manager_exclusive(|m| oxidd_reorder::set_var_order(m, &p1));
        mref.with_manager_exclusive(|m| oxidd_reorder::set_var_order(m, &p2));
        for t in 0..=FULL {
            checked += 1;
            if table(&all[t as usize]) != t { fail(kind, "set_var_order (function preserved)", vec![("f".into(), bits(t)), ("order1".into(), format!("{:?}", p1)), ("order2".into(), format!("{:?}", p2))], bits(t), bits(table(&all[t as usize]))); }
            let again = build(&vars, t);
            if again != all[t as usize] { fail(kind, "set_var_order (canonicity: rebuilt function == old handle)", vec![("f".into(), bits(t)), ("order1".into(), format!("{:?}", p1)), ("order2".into(), format!("{:?}", p2))], "equal handles".into(), "different handles".into()); }
        }
    } }
    println!("{{\"found\":false,\"checked\":{}}}", checked);
}

/// group "eval": `eval` against an independent node-by-node walk (cofactors + level_to_var), under every variable order
fn run_eval<F, MR>(kind: &str, mk: impl Fn() -> (MR, Vec<F>))
where F: BooleanFunction, for<'id> F::Manager<'id>: Manager + oxidd::HasWorkers, MR: ManagerRef, for<'id> F: Function<ManagerRef = MR, Manager<'id> = MR::Manager<'id>>,
      for<'id> <F::Manager<'id> as Manager>::InnerNode: oxidd::HasLevel {
    use oxidd::HasLevel;
    let perms: [[u32; 3]; 6] = [[0, 1, 2], [0, 2, 1], [1, 0, 2], [1, 2, 0], [2, 0, 1], [2, 1, 0]];
    let mut checked = 0u64;
    for p in perms {
        let (mref, vars) = mk();
        mref.with_manager_exclusive(|m| oxidd_reorder::set_var_order(m, &p));
        let all: Vec<F> = (0..=FULL).map(|t| build(&vars, t)).collect();
        for t in 0..=FULL {
            for a in 0..NA {
                checked += 1;
                let got = all[t as usize].eval((0..NV).map(|i| (i as u32, (a >> i) & 1 == 1)));
                // independent walk
                let mut cur = all[t as usize].clone();
                let walked = loop {
                    match cur.cofactors() {
                        None => break cur.valid(),
                        Some((hi, lo)) => {
                            let var = cur.with_manager_shared(|m, e| m.level_to_var(m.get_node(e).unwrap_inner().level()));
                            cur = if (a >> var) & 1 == 1 { hi } else { lo };
                        }
                    }
                };
                if got != walked {
                    fail(kind, "eval (vs. node-by-node walk via cofactors/level_to_var)", vec![("f (as built)".into(), bits(t)), ("order".into(), format!("{:?}", p)), ("assignment".into(), format!("{:03b} (bit i = var i)", a))], format!("{}", walked), format!("{}", got));
                }
            }
        }
    }
    println!("{{\"found\":false,\"checked\":{}}}", checked);
}

fn main() {
    let args: Vec<String> = std::env::args().collect();
    let (kind, group) = (args[1].as_str(), args[2].as_str());
    let _ = HashMap::<u32, u32>::new();
    match kind {
        "bdd" if group == "eval" => run_eval("bdd", || {
            let mref = oxidd::bdd::new_manager(1 << 16, 1 << 10, 1);
            let vars: Vec<oxidd::bdd::BDDFunction> = mref.with_manager_exclusive(|m| m.add_vars(NV as u32).map(|v| oxidd::bdd::BDDFunction::var(m, v).unwrap()).collect());
            (mref, vars) }),
        "bcdd" if group == "eval" => run_eval("bcdd", || {
            let mref = oxidd::bcdd::new_manager(1 << 16, 1 << 10, 1);
            let vars: Vec<oxidd::bcdd::BCDDFunction> = mref.with_manager_exclusive(|m| m.add_vars(NV as u32).map(|v| oxidd::bcdd::BCDDFunction::var(m, v).unwrap()).collect());
            (mref, vars) }),
        "bdd" if group == "reorder" => run_reorder("bdd", || {
            let mref = oxidd::bdd::new_manager(1 << 16, 1 << 10, 1);
            let vars: Vec<oxidd::bdd::BDDFunction> = mref.with_manager_exclusive(|m| m.add_vars(NV as u32).map(|v| oxidd::bdd::BDDFunction::var(m, v).unwrap()).collect());
            (mref, vars) }),
        "bcdd" if group == "reorder" => run_reorder("bcdd", || {
            let mref = oxidd::bcdd::new_manager(1 << 16, 1 << 10, 1);
            let vars: Vec<oxidd::bcdd::BCDDFunction> = mref.with_manager_exclusive(|m| m.add_vars(NV as u32).map(|v| oxidd::bcdd::BCDDFunction::var(m, v).unwrap()).collect());
            (mref, vars) }),
        "zbdd" if group == "reorder" => run_reorder("zbdd", || {
            let mref = oxidd::zbdd::new_manager(1 << 16, 1 << 10, 1);
            let vars: Vec<oxidd::zbdd::ZBDDFunction> = mref.with_manager_exclusive(|m| m.add_vars(NV as u32).map(|v| oxidd::zbdd::ZBDDFunction::var(m, v).unwrap()).collect());
            (mref, vars) }),
        "zbdd" if group == "vecset" => run_vecset(NV),
        "zbdd" => {
            let mref = oxidd::zbdd::new_manager(1 << 16, 1 << 10, 1);
            let vars: Vec<oxidd::zbdd::ZBDDFunction> = mref.with_manager_exclusive(|m| m.add_vars(NV as u32).map(|v| oxidd::zbdd::ZBDDFunction::var(m, v).unwrap()).collect());
            run_basic(kind, group, vars);
        }
        "bdd" => {
            let mref = oxidd::bdd::new_manager(1 << 16, 1 << 10, 1);
            let vars: Vec<oxidd::bdd::BDDFunction> = mref.with_manager_exclusive(|m| m.add_vars(NV as u32).map(|v| oxidd::bdd::BDDFunction::var(m, v).unwrap()).collect());
            run_boolean(kind, group, vars);
        }
        "bcdd" => {
            let mref = oxidd::bcdd::new_manager(1 << 16, 1 << 10, 1);
            let vars: Vec<oxidd::bcdd::BCDDFunction> = mref.with_manager_exclusive(|m| m.add_vars(NV as u32).map(|v| oxidd::bcdd::BCDDFunction::var(m, v).unwrap()).collect());
            run_boolean(kind, group, vars);
        }
        "mtbdd" => mtbdd(group),
        _ => println!("{{\"found\":false,\"error\":\"unsupported dd kind\"}}"),
    }
}

fn mtbdd(group: &str) {
    use oxidd::mtbdd::terminal::I64;
    use oxidd::mtbdd::MTBDDFunction;
    use oxidd::PseudoBooleanFunction;
    type F = MTBDDFunction<I64>;
    let mref = oxidd::mtbdd::new_manager::<I64>(1 << 14, 1 << 10, 1 << 10, 1);
    let vars: Vec<F> = mref.with_manager_exclusive(|m| m.add_vars(2).map(|v| F::var(m, v).unwrap()).collect());
    let vals = [I64::Num(0), I64::Num(1), I64::Num(-1), I64::Num(2), I64::Num(-7), I64::Num(i64::MIN), I64::Num(i64::MAX), I64::PlusInf, I64::MinusInf, I64::NaN];
    // functions over 2 vars: 4 terminal values each from a small set (sampled grid)
    let consts: Vec<F> = mref.with_manager_shared(|m| vals.iter().map(|v| F::constant(m, *v).unwrap()).collect());
    let mk = |c: [usize; 4]| -> F { // ite(x0, ite(x1, c3, c2), ite(x1, c1, c0))
        let hi = vars[1].ite(&consts[c[3]], &consts[c[2]]).unwrap();
        let lo = vars[1].ite(&consts[c[1]], &consts[c[0]]).unwrap();
        vars[0].ite(&hi, &lo).unwrap() };
    let ev = |f: &F, a: usize| f.eval([(0u32, a & 1 == 1), (1u32, a & 2 == 2)]);
    let mut fs = vec![]; let n = vals.len();
    for i in 0..n { for j in [0usize, 1, 5, 7, 9] { fs.push(([i, j, (i + j) % n, (i * 3 + 1) % n], mk([i, j, (i + j) % n, (i * 3 + 1) % n]))); } }
    let spec_min = |a: I64, b: I64| match a.partial_cmp(&b) { Some(std::cmp::Ordering::Greater) => b, Some(_) => a, None => I64::NaN };
    let spec_max = |a: I64, b: I64| match a.partial_cmp(&b) { Some(std::cmp::Ordering::Less) => b, Some(_) => a, None => I64::NaN };
    let mut checked = 0u64;
    let _ = group;
    for (ca, fa) in &fs { for (cb, fb) in &fs {
        let rs = [("add", fa.add(fb).unwrap()), ("sub", fa.sub(fb).unwrap()), ("mul", fa.mul(fb).unwrap()), ("div", fa.div(fb).unwrap()), ("min", PseudoBooleanFunction::min(fa, fb).unwrap()), ("max", PseudoBooleanFunction::max(fa, fb).unwrap())];
        for (name, r) in rs.iter() { for a in 0..4 {
            // assignment a selects terminal index: x0 = bit0, x1 = bit1 -> c[2*x0 + x1]
            let idx = ((a & 1) << 1) | ((a >> 1) & 1);
            let (x, y) = (vals[ca[idx]], vals[cb[idx]]);
            let e = match *name { "add" => x + y, "sub" => x - y, "mul" => x * y, "div" => x / y, "min" => spec_min(x, y), _ => spec_max(x, y) };
            checked += 1;
            if ev(r, a) != e { fail("mtbdd", name, vec![("f(x0,x1)->terminal at this assignment".into(), format!("{}", x)), ("g at this assignment".into(), format!("{}", y)), ("assignment".into(), format!("x0={},x1={}", a & 1, (a >> 1) & 1))], format!("{}", e), format!("{}", ev(r, a))); }
        } }
    } }
    println!("{{\"found\":false,\"checked\":{}}}", checked);
}
