"""Developer helper: python3 -m vx.kani_dev <suite> [harness-substring ...] [--keep] [--tier thorough]
Builds a scratch copy of /repo with the suite's harness files appended, runs the selected
harnesses one after another (quick feedback), prints status/time per harness, removes the scratch."""
import json, os, shutil, sys, time
from . import kani_run

def main():
    args = [a for a in sys.argv[1:] if not a.startswith('--')]
    keep = '--keep' in sys.argv
    suite = args[0]
    subs = args[1:]
    suite_dir = os.path.join(kani_run.VERIF, 'kani', suite)
    cfg = json.load(open(os.path.join(suite_dir, 'suite.json')))
    root, ws = kani_run.make_scratch(suite_dir, cfg)
    print('scratch:', ws)
    try:
        for h in cfg['harnesses']:
            if subs and not any(s in h['name'] for s in subs):
                continue
            t = time.time()
            ob = kani_run.run_harness(ws, cfg, h, None)
            print('%-60s %-10s %-12s %6.1fs checks=%s' % (h['name'], ob['status'], ob['kind'][:40], time.time() - t, ob.get('n_checks')))
            if ob['status'] != 'discharged':
                print('   ', (ob.get('clause') or '')[:200])
                print('   ', (ob.get('detail') or '')[-1500:])
            if ob['status'] == 'refuted' and '--playback' in sys.argv:
                kani_run.playback(ws, cfg, h, ob)
                print(json.dumps(ob.get('witness'), indent=1)[:3000])
    finally:
        if not keep:
            shutil.rmtree(root, ignore_errors=True)

if __name__ == '__main__':
    main()
