#!/bin/bash
# usage: seed_eval2.sh <seeded-dir> <PROP>...   (re-)confirm a stored seed in a fresh scratch worktree and run the checks
sd=$1; shift
wt=/tmp/seed/confirm-$$
git -C /repo worktree add --detach $wt HEAD -q || exit 9
cd $wt
demo=$(ls $sd/demo/*.rs | head -1); name=$(basename $demo .rs)
cp $demo crates/oxidd/tests/
echo "== demo on clean tree (must pass)"; cargo test -p oxidd $SEED_CARGO_ARGS --test $name --offline 2>&1 | grep "test result" | head -2
git apply $sd/patch.diff || { echo "PATCH DOES NOT APPLY"; git -C /repo worktree remove --force $wt; exit 8; }
echo "== demo with change (must fail)"; cargo test -p oxidd $SEED_CARGO_ARGS --test $name --offline 2>&1 | grep "test result" | head -2
rm -f crates/oxidd/tests/$name.rs
echo "== full suite with change (must pass)"; cargo test --workspace --offline 2>&1 | grep "test result" | awk '{p+=$4; f+=$6} END {print "passed="p" failed="f}'
cd /; git -C /repo worktree remove --force $wt
echo "== checks on /repo with the change applied"
cd /repo && git apply $sd/patch.diff || exit 7
cd /verif; export VERIF_EVIDENCE_DIR=/tmp/w/mut-evidence VERIF_REPLAY_DIR=/tmp/w/mut-replays
for p in "$@"; do ./check $p | grep -v "^KNOWN" | cut -c1-260; done
git -C /repo checkout -- . ; git -C /repo status --short | head -3
