"""Mechanical extraction of function items from /repo sources and the token-level
rewrite rules R1..R13 of DESIGN.md section 2.

Everything here is purely syntactic.  Every rule application is counted; the
counts go to the evidence file.  Anything the extractor does not recognise
raises AnchorLost, which the driver reports as UNDECIDED (exit 2), never as a
violation.
"""
import re


class AnchorLost(Exception):
    pass


# --------------------------------------------------------------------------
# masking: blank out comments, string and char literals (same length)
# --------------------------------------------------------------------------

def mask(src):
    out = list(src)
    n = len(src)
    i = 0

    def blank(a, b):
        for k in range(a, b):
            if out[k] != '\n':
                out[k] = ' '
    while i < n:
        c = src[i]
        if src.startswith('//', i):
            j = src.find('\n', i)
            if j < 0:
                j = n
            blank(i, j)
            i = j
            continue
        if src.startswith('/*', i):
            depth = 1
            j = i + 2
            while j < n and depth:
                if src.startswith('/*', j):
                    depth += 1
                    j += 2
                elif src.startswith('*/', j):
                    depth -= 1
                    j += 2
                else:
                    j += 1
            blank(i, j)
            i = j
            continue
        if c == 'r' and re.match(r'r#*"', src[i:i + 8]) and (i == 0 or not (src[i - 1].isalnum() or src[i - 1] == '_')):
            m = re.match(r'r(#*)"', src[i:])
            close = '"' + m.group(1)
            j = src.find(close, i + m.end())
            j = n if j < 0 else j + len(close)
            blank(i + 1, j)
            out[i] = ' '
            i = j
            continue
        if c == '"':
            j = i + 1
            while j < n and src[j] != '"':
                if src[j] == '\\':
                    j += 1
                j += 1
            j += 1
            # keep the quotes so that the token structure survives
            blank(i + 1, j - 1)
            i = j
            continue
        if c == "'":
            m = re.match(r"'(\\x[0-9a-fA-F]{2}|\\u\{[0-9a-fA-F_]+\}|\\.|[^\\'\n])'", src[i:])
            if m:
                blank(i + 1, i + m.end() - 1)
                i += m.end()
                continue
            # lifetime
            i += 1
            continue
        i += 1
    return ''.join(out)


OPEN = {'(': ')', '[': ']', '{': '}'}
CLOSE = {')': '(', ']': '[', '}': '{'}


def match_close(masked, i):
    """masked[i] is an opening bracket; return index of the matching close."""
    assert masked[i] in OPEN, masked[i:i + 20]
    depth = 0
    n = len(masked)
    j = i
    while j < n:
        c = masked[j]
        if c in OPEN:
            depth += 1
        elif c in CLOSE:
            depth -= 1
            if depth == 0:
                return j
        j += 1
    raise AnchorLost('unbalanced bracket at %d' % i)


def find_body_open(masked, i):
    """first '{' at (),[] depth 0 at or after i; stops with None at ';' depth 0"""
    depth = 0
    n = len(masked)
    while i < n:
        c = masked[i]
        if c in '([':
            depth += 1
        elif c in ')]':
            depth -= 1
        elif c == '{' and depth == 0:
            return i
        elif c == ';' and depth == 0:
            return None
        i += 1
    return None


def item_start(masked, kw):
    """scan backwards from keyword position over visibility/qualifiers/attributes"""
    i = kw
    while True:
        j = i
        while j > 0 and masked[j - 1] in ' \t\n':
            j -= 1
        m = re.search(r'(pub\s*\([^)]*\)|pub|const|unsafe|async|extern)$', masked[max(0, j - 40):j])
        if m:
            i = j - len(m.group(1))
            continue
        if j > 0 and masked[j - 1] == ']':
            # attribute
            depth = 0
            k = j - 1
            while k >= 0:
                if masked[k] == ']':
                    depth += 1
                elif masked[k] == '[':
                    depth -= 1
                    if depth == 0:
                        break
                k -= 1
            if k > 0 and masked[k - 1] == '#':
                i = k - 1
                continue
            if k > 1 and masked[k - 2:k] == '#!':
                i = k - 2
                continue
        return i


class Item:
    def __init__(self, src, start, sig, body_open, body_close, path, file):
        self.src = src
        self.start = start          # incl. attributes
        self.sig = sig              # position of `fn`/visibility keyword
        self.body_open = body_open
        self.body_close = body_close
        self.path = path
        self.file = file

    @property
    def header(self):
        return self.src[self.sig:self.body_open]

    @property
    def body(self):
        return self.src[self.body_open:self.body_close + 1]

    @property
    def text(self):
        return self.src[self.sig:self.body_close + 1]

    def line_span(self):
        return (self.src.count('\n', 0, self.sig) + 1, self.src.count('\n', 0, self.body_close) + 1)


def find_blocks(masked, pattern, within=None):
    """all (kw_pos, body_open, body_close) whose header matches regex `pattern`
    (searched on masked text) inside `within`=(a,b)"""
    a, b = within if within else (0, len(masked))
    res = []
    for m in re.finditer(pattern, masked[a:b]):
        kw = a + m.start()
        bo = find_body_open(masked, a + m.end())
        if bo is None or bo >= b:
            continue
        bc = match_close(masked, bo)
        res.append((kw, bo, bc))
    return res


def locate(src, masked, path, file='?'):
    """path: list of selectors, outermost first.  A selector is
       'fn:NAME', 'fn:NAME#k', 'impl:REGEX', 'mod:NAME', 'trait:NAME'.
       Returns Item for the last selector."""
    within = (0, len(masked))
    it = None
    for sel in path:
        kind, _, arg = sel.partition(':')
        nth = None
        if '#' in arg and kind == 'fn':
            arg, _, k = arg.partition('#')
            nth = int(k)
        if kind == 'fn':
            pat = r'\bfn\s+' + re.escape(arg) + r'\b'
        elif kind == 'mod':
            pat = r'\bmod\s+' + re.escape(arg) + r'\b'
        elif kind == 'trait':
            pat = r'\btrait\s+' + re.escape(arg) + r'\b'
        elif kind == 'impl':
            pat = r'\bimpl\b[^{;]*?' + arg.replace('~', r'\s+')
        elif kind == 'enum':
            pat = r'\benum\s+' + re.escape(arg) + r'\b'
        elif kind == 'struct':
            pat = r'\bstruct\s+' + re.escape(arg) + r'\b'
        else:
            raise ValueError(sel)
        found = find_blocks(masked, pat, within)
        # only direct candidates: drop those nested inside another candidate
        if not found:
            raise AnchorLost('%s: selector %s not found' % (file, sel))
        if nth is not None:
            if nth >= len(found):
                raise AnchorLost('%s: selector %s: only %d candidates' % (file, sel, len(found)))
            found = [found[nth]]
        if len(found) > 1:
            # prefer the unique outermost ones
            outer = [f for f in found if not any(g[1] < f[0] and f[2] < g[2] for g in found if g is not f)]
            if len(outer) == 1:
                found = outer
            else:
                raise AnchorLost('%s: selector %s ambiguous (%d candidates)' % (file, sel, len(found)))
        kw, bo, bc = found[0]
        st = item_start(masked, kw)
        sig = st
        # skip attributes to get the signature start
        while True:
            m = re.match(r'\s*#!?\[', masked[sig:])
            if not m:
                break
            k = sig + m.end() - 1
            sig = match_close(masked, k) + 1
        sig += len(masked[sig:]) - len(masked[sig:].lstrip())
        it = Item(src, st, sig, bo, bc, path, file)
        within = (bo + 1, bc)
    return it


# --------------------------------------------------------------------------
# rewrite rules.  Each takes text and returns (text, count)
# --------------------------------------------------------------------------

def _remove_macro_stmts(text, names):
    cnt = 0
    while True:
        m = mask(text)
        mm = re.search(r'\b(?:%s)!\s*\(' % '|'.join(names), m)
        if not mm:
            return text, cnt
        op = mm.end() - 1
        cl = match_close(m, op)
        k = cl + 1
        while k < len(m) and m[k] in ' \t':
            k += 1
        if k < len(m) and m[k] == ';':
            k += 1
        else:
            raise AnchorLost('macro %s not in statement position' % mm.group(0))
        # also swallow the rest of the line if only whitespace
        s = mm.start()
        ls = text.rfind('\n', 0, s) + 1
        if text[ls:s].strip() == '':
            s = ls
            if k < len(text) and text[k] == '\n':
                k += 1
        text = text[:s] + text[k:]
        cnt += 1


def r1_strip_attrs(text):
    """R1: delete #[...] attributes (outer) and doc comments"""
    cnt = 0
    while True:
        m = mask(text)
        mm = re.search(r'#\[', m)
        if not mm:
            break
        cl = match_close(m, mm.end() - 1)
        e = cl + 1
        s = mm.start()
        ls = text.rfind('\n', 0, s) + 1
        if text[ls:s].strip() == '' and e < len(text) and text[e:e + 1] == '\n':
            s, e = ls, e + 1
        text = text[:s] + text[e:]
        cnt += 1
    return text, cnt


def r2_stat(text):
    return _remove_macro_stmts(text, ['stat'])


def r20_eprintln(text):
    """R20: diagnostic output statements `eprintln!(..);` / `println!(..);` are deleted (no effect on any value)"""
    return _remove_macro_stmts(text, ['eprintln', 'println'])


def r21_format(text):
    """R21: `format!(...)` (diagnostic message construction) -> `fmt_msg()` (prelude stub returning an opaque message);
    the message text is not part of any contract"""
    cnt = 0
    while True:
        m = mask(text)
        mm = re.search(r'\bformat!\s*\(', m)
        if not mm:
            return text, cnt
        op = mm.end() - 1
        cl = match_close(m, op)
        text = text[:mm.start()] + 'fmt_msg()' + text[cl + 1:]
        cnt += 1


def r3_debug_assert(text):
    return _remove_macro_stmts(text, ['debug_assert', 'debug_assert_eq', 'debug_assert_ne'])


def _split_top(m, s, e, sep, angle=False):
    """positions of `sep` at bracket depth 0 inside masked[s:e]; with angle=True
    (type context) `<`/`>` count as brackets too"""
    res = []
    depth = 0
    i = s
    L = len(sep)
    while i < e:
        c = m[i]
        if not angle and m.startswith('::<', i):
            # turbofish: skip to the matching '>'
            d = 0
            j = i + 2
            while j < e:
                if m[j] == '<':
                    d += 1
                elif m[j] == '>' and m[j - 1] not in '-=':
                    d -= 1
                    if d == 0:
                        break
                j += 1
            i = j + 1
            continue
        if c in OPEN:
            depth += 1
        elif c in CLOSE:
            depth -= 1
        elif angle and c == '<':
            depth += 1
        elif angle and c == '>' and m[i - 1] not in '-=':
            depth -= 1
        elif depth == 0 and m.startswith(sep, i):
            res.append(i)
            i += L
            continue
        i += 1
    return res


def r4_or_guard(text):
    """R4: `P1 | P2 if G => B` -> `P1 if G => B, P2 if G => B`"""
    cnt = 0
    pos = 0
    while True:
        m = mask(text)
        k = m.find('=>', pos)
        if k < 0:
            return text, cnt
        # arm start: scan backwards to previous ',' '{' '}' at depth 0
        depth = 0
        i = k - 1
        while i >= 0:
            c = m[i]
            if c in CLOSE:
                depth += 1
            elif c in OPEN:
                if depth == 0:
                    break
                depth -= 1
            elif c == ',' and depth == 0:
                break
            elif c == '}' and depth == 0:
                break
            i -= 1
        s = i + 1
        pat = m[s:k]
        gi = None
        for g in _split_top(m, s, k, ' if '):
            gi = g
            break
        if gi is None:
            # also handle "\n if "
            mm = re.search(r'\sif\s', pat)
            if mm and not _split_top(m, s, s + mm.start(), '('):
                # verify depth 0
                d = 0
                for ch in m[s:s + mm.start()]:
                    if ch in OPEN:
                        d += 1
                    elif ch in CLOSE:
                        d -= 1
                if d == 0:
                    gi = s + mm.start()
        if gi is None:
            pos = k + 2
            continue
        bars = [b for b in _split_top(m, s, gi, '|') if m[b:b + 2] != '||' and m[b - 1:b + 1] != '||']
        if not bars:
            pos = k + 2
            continue
        # body end
        j = k + 2
        while m[j] in ' \t\n':
            j += 1
        if m[j] == '{':
            be = match_close(m, j) + 1
            # optional trailing comma
            t = be
            while t < len(m) and m[t] in ' \t':
                t += 1
            if t < len(m) and m[t] == ',':
                be = t + 1
            body = text[k:be]
            if not body.rstrip().endswith(','):
                body = body + ','
        else:
            depth = 0
            t = j
            while t < len(m):
                c = m[t]
                if c in OPEN:
                    depth += 1
                elif c in CLOSE:
                    if depth == 0:
                        break
                    depth -= 1
                elif c == ',' and depth == 0:
                    break
                t += 1
            if m[t] == ',':
                be = t + 1
                body = text[k:be]
            else:
                be = t
                body = text[k:be].rstrip() + ','
        guard = text[gi:k]
        lead = text[s:gi]
        indent = re.match(r'\s*', lead).group(0)
        pieces = []
        prev = s
        for b in bars + [gi]:
            pieces.append(text[prev:b].strip())
            prev = b + 1
        new = ''
        for p in pieces:
            new += indent + p + ' ' + guard.strip() + ' ' + body.strip()
        text = text[:s] + new + text[be:]
        cnt += 1
        pos = s + len(new)


def split_args(m, text, op, cl, angle=False):
    """top-level comma separated args between brackets at op..cl"""
    commas = _split_top(m, op + 1, cl, ',', angle)
    res = []
    prev = op + 1
    for c in commas + [cl]:
        a = text[prev:c].strip()
        if a:
            res.append(a)
        prev = c + 1
    return res


def r5_recursor(text, recursor_bodies):
    """R5: `RECV.<method>(args..)?` for every method of `impl Recursor<M> for SequentialRecursor`
    (read from recursor.rs on this run) -> the method body with parameters replaced by the
    arguments (tuple arguments by projection), `self` by RECV, final `Ok(X)` by `X`."""
    cnt = 0
    meths = [k for k in recursor_bodies if k != 'should_switch_to_sequential']
    while True:
        m = mask(text)
        mm = re.search(r'\b(\w+)\s*\.\s*(%s)\s*\(' % '|'.join(sorted(meths, key=len, reverse=True)), m)
        if not mm:
            return text, cnt
        recv, meth = mm.group(1), mm.group(2)
        op = mm.end() - 1
        cl = match_close(m, op)
        k = cl + 1
        while m[k] in ' \t\n':
            k += 1
        direct_q = m[k] == '?'
        args = split_args(m, text, op, cl)
        params, body = recursor_bodies[meth]
        if not params or params[0] != 'self' or len(params) - 1 != len(args):
            raise AnchorLost('R5: %s: parameters %r do not match %d arguments' % (meth, params, len(args)))

        def tup(x):
            x = x.strip()
            if x.startswith('('):
                mx = mask(x)
                c2 = match_close(mx, 0)
                if c2 == len(x) - 1:
                    return split_args(mx, x, 0, c2)
            return None
        b = body.strip()
        assert b[0] == '{' and b[-1] == '}'
        b = b[1:-1]
        mb = mask(b)
        fm = re.search(r'Ok\s*\((.*)\)\s*$', mb.rstrip(), re.S)
        if not fm:
            raise AnchorLost('R5: recursor body does not end in Ok(..)')
        final = b[fm.start(1):fm.end(1)]
        if direct_q:
            b = b[:fm.start()] + final
        else:
            # the call is not directly followed by `?` (e.g. it is the value of an if-branch and the `?`
            # follows the whole expression): keep the Result, with the error type spelled out for inference
            b = b[:fm.start()] + 'AllocResult::Ok(' + final + ')'

        def sub_ident(s_, name, repl):
            ms = mask(s_)
            out = []
            last = 0
            for x in re.finditer(r'(?<![\w.])' + re.escape(name) + r'\b', ms):
                out.append(s_[last:x.start()])
                out.append(repl)
                last = x.end()
            out.append(s_[last:])
            return ''.join(out)
        # two-phase substitution through unique placeholders (arguments may mention parameter names)
        ph = {}
        for idx, (pn, arg) in enumerate(zip(params[1:], args)):
            T = tup(arg)
            if T is not None:
                for j, val in enumerate(T):
                    key = '\x00P%d_%d\x00' % (idx, j)
                    ph[key] = val
                    b = re.sub(r'(?<![\w.])' + re.escape(pn) + r'\.' + str(j) + r'\b', lambda _m, kk=key: kk, b)
            key = '\x00P%d\x00' % idx
            ph[key] = arg
            b = sub_ident(b, pn, key)
        key = '\x00SELF\x00'
        ph[key] = recv
        b = sub_ident(b, 'self', key)
        for kk, val in ph.items():
            b = b.replace(kk, val)
        text = text[:mm.start()] + '{' + b + '}' + (text[k + 1:] if direct_q else text[cl + 1:])
        cnt += 1


def r11_slice_pat(text):
    """R11: `if let Some(([h], [])) = X {` -> `if let Some(h) = cache_get1(X) {`"""
    cnt = 0
    while True:
        m = mask(text)
        mm = re.search(r'if\s+let\s+Some\s*\(\s*\(\s*\[\s*(\w+)\s*\]\s*,\s*\[\s*\]\s*\)\s*\)\s*=\s*', m)
        if not mm:
            return text, cnt
        bo = find_body_open(m, mm.end())
        if bo is None:
            raise AnchorLost('R11: no block')
        expr = text[mm.end():bo].rstrip()
        text = text[:mm.start()] + 'if let Some(%s) = cache_get1(%s) ' % (mm.group(1), expr) + text[bo:]
        cnt += 1


def r12_const_block(text):
    """R12: `const { EXPR }` in expression position -> `EXPR`;
    statement `const { assert!(..) }` deleted"""
    cnt = 0
    while True:
        m = mask(text)
        mm = re.search(r'\bconst\s*\{', m)
        if not mm:
            return text, cnt
        op = mm.end() - 1
        cl = match_close(m, op)
        inner = text[op + 1:cl].strip()
        if re.match(r'assert(_eq|_ne)?!\s*\(', inner):
            k = cl + 1
            while k < len(m) and m[k] in ' \t':
                k += 1
            if k < len(m) and m[k] == ';':
                k += 1
            text = text[:mm.start()] + text[k:]
        else:
            text = text[:mm.start()] + '(' + inner.rstrip(';') + ')' + text[cl + 1:]
        cnt += 1


def r13_let_chain(text):
    """R13: `if A && let P = E { B }` (no else) -> `if A { if let P = E { B } }`"""
    cnt = 0
    while True:
        m = mask(text)
        mm = None
        for x in re.finditer(r'\bif\b', m):
            bo = find_body_open(m, x.end())
            if bo is None:
                continue
            cond = m[x.end():bo]
            if re.match(r'\s*let\b', cond):
                continue
            y = re.search(r'&&\s*let\b', cond)
            if y:
                mm = (x, bo, y)
                break
        if not mm:
            return text, cnt
        x, bo, y = mm
        bc = match_close(m, bo)
        after = m[bc + 1:bc + 40].lstrip()
        if after.startswith('else'):
            raise AnchorLost('R13: let-chain with else branch')
        A = text[x.end():x.end() + y.start()].strip()
        L = text[x.end() + y.start() + 2:bo].strip()
        text = text[:x.start()] + 'if ' + A + ' { if ' + L + ' ' + text[bo:bc + 1] + ' }' + text[bc + 1:]
        cnt += 1


def r14_ord_min(text):
    """R14: method-call form `A.min(B)` / `A.max(B)` on integers -> `std::cmp::min(A, B)` (same function by
    the definition of `Ord::min`); needed because Verus cannot attach a spec to a provided trait method"""
    cnt = 0
    while True:
        m = mask(text)
        mm = re.search(r'\.\s*(min|max)\s*\(', m)
        if not mm:
            return text, cnt
        op = mm.end() - 1
        cl = match_close(m, op)
        # receiver: scan backwards
        j = mm.start()
        k = j
        if k > 0 and m[k - 1] == ')':
            depth = 0
            k -= 1
            while k >= 0:
                if m[k] == ')':
                    depth += 1
                elif m[k] == '(':
                    depth -= 1
                    if depth == 0:
                        break
                k -= 1
        while k > 0 and (m[k - 1].isalnum() or m[k - 1] in '_:'):
            k -= 1
        recv = text[k:j]
        if not recv.strip():
            raise AnchorLost('R14: cannot find receiver of .min()')
        arg = text[op + 1:cl]
        text = text[:k] + 'std::cmp::' + mm.group(1) + '(' + recv + ', ' + arg + ')' + text[cl + 1:]
        cnt += 1


def r15_with_manager(text, this_name):
    """R15: `self.with_manager_shared(|MGR, X| BODY)` (the whole body of a default method of the function traits)
    -> `{ let X = THIS; BODY }`: the manager lock / closure plumbing of `Function::with_manager_shared` is dropped,
    the closure body is kept verbatim.  MGR must be `manager` (the name of the replacement header's parameter)."""
    cnt = 0
    while True:
        m = mask(text)
        mm = re.search(r'\bself\s*\.\s*with_manager_(shared|exclusive)\s*\(\s*\|\s*(\w+)\s*,\s*(\w+)\s*\|', m)
        if not mm:
            return text, cnt
        if mm.group(2) != 'manager':
            raise AnchorLost('R15: closure manager parameter is not called `manager`')
        op = m.index('(', mm.start())
        cl = match_close(m, op)
        body = text[mm.end():cl].strip()
        text = text[:mm.start()] + '{ let ' + mm.group(3) + ' = ' + this_name + '; ' + body + ' }' + text[cl + 1:]
        cnt += 1
        # outside the closure: the handle `self` is the edge THIS; cloning a handle is cloning its edge
        text = re.sub(r'\bself\s*\.\s*clone\s*\(\s*\)', 'manager.clone_edge(%s)' % this_name, text)
        text, _ = rename_ident(text, 'self', this_name)


def for_loops(body):
    """all `for PAT in EXPR { BODY }` loops in a function body, in source order:
    list of (pattern_text, iter_expr_text, loop_body_text_including_braces)"""
    m = mask(body)
    res = []
    for x in re.finditer(r'\bfor\b', m):
        # skip `for<'a>` (HRTB) and `impl X for Y`
        rest = m[x.end():]
        if re.match(r'\s*<', rest):
            continue
        bo = find_body_open(m, x.end())
        if bo is None:
            continue
        head = m[x.end():bo]
        k = re.search(r'\bin\b', head)
        if not k:
            continue
        bc = match_close(m, bo)
        res.append((body[x.end():x.end() + k.start()].strip(), body[x.end() + k.end():bo].strip(), body[bo:bc + 1]))
    return res


def for_loop_spans(body):
    """like for_loops, but returns (start_of_for_keyword, end_after_closing_brace, pat, iter_expr, body_with_braces)"""
    m = mask(body)
    res = []
    for x in re.finditer(r'\bfor\b', m):
        rest = m[x.end():]
        if re.match(r'\s*<', rest):
            continue
        bo = find_body_open(m, x.end())
        if bo is None:
            continue
        head = m[x.end():bo]
        k = re.search(r'\bin\b', head)
        if not k:
            continue
        bc = match_close(m, bo)
        res.append((x.start(), bc + 1, body[x.end():x.end() + k.start()].strip(), body[x.end() + k.end():bo].strip(), body[bo:bc + 1]))
    return res


def r17_for_to_loop(body, k, loopspec):
    """R17: the k-th `for PAT in ITER { BODY }` becomes, by the definition of `for` (Rust reference, "Iterator loops"),
         { let mut iter__k = ITER; loop <loopspec> { let PAT = match iter__k.next() { Some(x__) => x__, None => { break; } }; BODY } }
    with the invariant / ensures / decreases clauses from the template's //@loop section spliced in.  ITER must already
    be an iterator (the prelude's stub iterator types have no IntoIterator impl, so anything else fails to type-check)."""
    loops = for_loop_spans(body)
    if k >= len(loops):
        raise AnchorLost('R17: only %d for-loops, forinv=%d' % (len(loops), k))
    st, en, pat, it_expr, lb = loops[k]
    # `(A..B).rev()` over integers -> the prelude's stub `rev_range(A, B)` (std semantics of Rev<Range<_>> assumed there)
    mm = re.match(r'^\((.+?)\.\.(.+)\)\s*\.rev\(\)$', it_expr, re.S)
    if mm and '..' not in mm.group(2):
        it_expr = 'rev_range(%s, %s)' % (mm.group(1).strip(), mm.group(2).strip())
    new = ('{ let mut iter__%d = %s;\nloop\n%s\n{\nlet %s = match iter__%d.next() { Some(x__) => x__, None => { break; } };\n%s\n}\n}'
           % (k, it_expr, loopspec, pat, k, lb[1:-1]))
    return body[:st] + new + body[en:], 1


def r18_body_use(text):
    """R18: `use path;` declarations inside a function body are dropped (the prelude brings the names into scope)"""
    m = mask(text)
    out, last, n = [], 0, 0
    for x in re.finditer(r'(?m)^[ \t]*use\s+[\w:]+(\s+as\s+\w+)?\s*;[ \t]*\n?', m):
        out.append(text[last:x.start()])
        last = x.end()
        n += 1
    out.append(text[last:])
    return ''.join(out), n


def closures(body):
    """closure literals `|PARAMS| { BODY }` (also `move |..| {..}`) in source order: list of (params_text, body_with_braces)"""
    m = mask(body)
    res = []
    for x in re.finditer(r'\|([^|\n]*)\|\s*\{', m):
        # skip `a || b {`-like false hits: the char before the first `|` must not be an operand
        j = x.start() - 1
        while j >= 0 and m[j] in ' \t\n':
            j -= 1
        if j >= 0 and (m[j].isalnum() or m[j] in '_)]'):
            continue
        bo = x.end() - 1
        bc = match_close(m, bo)
        res.append((body[x.start(1):x.end(1)].strip(), body[bo:bc + 1]))
    return res


def rename_ident(text, old, new):
    m = mask(text)
    out = []
    last = 0
    n = 0
    for x in re.finditer(r'(?<![\w])' + re.escape(old) + r'\b', m):
        out.append(text[last:x.start()])
        out.append(new)
        last = x.end()
        n += 1
    out.append(text[last:])
    return ''.join(out), n


def name_return(header, ret):
    """`-> T [where ..]` => `-> (ret: T) [where ..]`; returns (header, had_ret)"""
    m = mask(header)
    # the param list: first '(' after fn name at <> depth... find the first '(' after `fn name<...>`
    i = m.find('fn')
    # skip generics
    k = re.search(r'\bfn\s+\w+\s*', m).end()
    if m[k] == '<':
        depth = 0
        while True:
            if m[k] == '<':
                depth += 1
            elif m[k] == '>' and m[k - 1] != '-':
                depth -= 1
                if depth == 0:
                    k += 1
                    break
            k += 1
    while m[k] in ' \t\n':
        k += 1
    if m[k] != '(':
        raise AnchorLost('cannot find parameter list in %r' % header[:80])
    cl = match_close(m, k)
    rest = m[cl + 1:]
    a = re.match(r'\s*->', rest)
    if not a:
        return header, False
    ts = cl + 1 + a.end()
    # type ends at top-level `where` or end
    w = None
    depth = 0
    j = ts
    while j < len(m):
        c = m[j]
        if c in OPEN or c == '<':
            depth += 1
        elif c in CLOSE or (c == '>' and m[j - 1] != '-'):
            depth -= 1
        elif depth == 0 and re.match(r'\bwhere\b', m[j:]) and (m[j - 1] in ' \t\n'):
            w = j
            break
        j += 1
    te = w if w is not None else len(m)
    ty = header[ts:te].strip()
    return header[:ts] + ' (' + ret + ': ' + ty + ')\n' + header[te:], True
