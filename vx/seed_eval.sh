#!/bin/bash
# usage: seed_eval.sh <worktree> <n> <demo-test-name> <PROP>...
# 1) confirms the seed in the worktree: suite passes with change, demo fails with change, demo passes without
# 2) applies the patch to /repo, runs the checks (mutation evidence dir), reverts
wt=$1; n=$2; demo=$3; shift 3
d=$wt/seed_out/$n
cd $wt || exit 9
git checkout -q -- . ; cp $d/demo/$demo.rs crates/oxidd/tests/ 2>/dev/null
echo "== demo on clean tree (must pass)"; cargo test -p oxidd $SEED_CARGO_ARGS --test $demo --offline 2>&1 | grep "test result" | head -2
git apply $d/patch.diff || exit 8
echo "== demo with change (must fail)"; cargo test -p oxidd $SEED_CARGO_ARGS --test $demo --offline 2>&1 | grep "test result" | head -2
echo "== full suite with change (must pass; demo excluded)"; rm -f crates/oxidd/tests/$demo.rs; cargo test --workspace --offline 2>&1 | grep "test result" | awk '{p+=$4; f+=$6} END {print "passed="p" failed="f}'
git checkout -q -- . ; git status --short | grep -v seed_out
echo "== checks on /repo with the change applied"
cd /repo && git apply $d/patch.diff || exit 7
cd /verif; export VERIF_EVIDENCE_DIR=/tmp/w/mut-evidence VERIF_REPLAY_DIR=/tmp/w/mut-replays
for p in "$@"; do ./check $p | grep -v "^KNOWN" | cut -c1-260; done
git -C /repo checkout -- . ; git -C /repo status --short | head -3
