#!/bin/bash
# usage: seed_check.sh <seeded-dir> <tier> <PROP>...   apply a stored seed to a SCRATCH COPY of /repo (VERIF_REPO), run the checks
# (no self-tests, separate evidence dir); /repo itself is not touched
sd=$1; tier=$2; shift 2
root=$(mktemp -d /tmp/oxidd-seedchk-XXXXXX)
rsync -a --exclude target --exclude .git --exclude bindings --exclude doc /repo/ $root/repo/
(cd $root/repo && patch -p1 -s -i $sd/patch.diff) || { echo "PATCH DOES NOT APPLY"; rm -rf $root; exit 7; }
cd /verif; export VERIF_REPO=$root/repo VERIF_EVIDENCE_DIR=$root/ev VERIF_REPLAY_DIR=/tmp/w/mut-replays VERIF_NO_SELFTEST=1
for p in "$@"; do ./check $p --tier $tier | grep -v "^KNOWN" | cut -c1-300; done
rm -rf $root
