"""Engine K: Kani on a scratch copy of the real workspace with harness modules appended.

A suite is a directory /verif/kani/<suite>/ with suite.json:
  package   cargo package name (-p)
  append    [{to: <path under repo>, from: <file in suite dir>}]   text appended verbatim
  cargo_toml_append {<path>: text}   optional additions to a scratch Cargo.toml
  parallel  max concurrent harness processes
  harnesses [{name, props[], tier, flags[], timeout, bounded (str|null), ignore[] (check description
             substrings excluded from the verdict), functions[] (real functions under contract)}]
The scratch copy lives under $TMPDIR and is removed afterwards; /repo is never edited.
"""
import concurrent.futures as cf
import json
import os
import re
import shutil
import subprocess
import tempfile
import time

VERIF = os.path.dirname(os.path.dirname(os.path.abspath(__file__)))
REPO = os.environ.get('VERIF_REPO', '/repo')
MEM_KB = int(os.environ.get('VERIF_KANI_MEM_KB', 24 * 1024 * 1024))


def make_scratch(suite_dir, cfg):
    root = tempfile.mkdtemp(prefix='oxidd-kani-')
    dst = os.path.join(root, 'ws')
    shutil.copytree(REPO, dst, symlinks=True,
                    ignore=shutil.ignore_patterns('target', '.git', 'bindings', 'doc', 'node_modules'))
    for a in cfg.get('append', []):
        p = os.path.join(dst, a['to'])
        if not os.path.exists(p):
            raise FileNotFoundError('anchor lost: %s does not exist' % a['to'])
        text = open(os.path.join(suite_dir, a['from'])).read()
        with open(p, 'a') as f:
            f.write('\n' + text + '\n')
    for path, text in cfg.get('cargo_toml_append', {}).items():
        with open(os.path.join(dst, path), 'a') as f:
            f.write('\n' + text + '\n')
    return root, dst


CHECK_RE = re.compile(r'^Check (\d+): (\S+)\n\s+- Status: (\w+)\n\s+- Description: "(.*?)"\n\s+- Location: (.*?)$', re.M | re.S)


def parse_kani(out):
    """line-based parse of Kani's per-check table (check ids may contain spaces, descriptions may
    contain quotes)"""
    checks = []
    cur = None
    for ln in out.split('\n'):
        m = re.match(r'^Check (\d+): (.*)$', ln)
        if m:
            cur = dict(id=m.group(2).strip(), status=None, desc='', loc='')
            checks.append(cur)
            continue
        if cur is None:
            continue
        t = ln.strip()
        if t.startswith('- Status:'):
            cur['status'] = t[len('- Status:'):].strip()
        elif t.startswith('- Description:'):
            d = t[len('- Description:'):].strip()
            if len(d) >= 2 and d[0] == '"' and d[-1] == '"':
                d = d[1:-1]
            cur['desc'] = d
        elif t.startswith('- Location:'):
            cur['loc'] = t[len('- Location:'):].strip()
            cur = None
    checks = [c for c in checks if c['status']]
    summary = re.search(r'\*\* (\d+) of (\d+) failed', out)
    verdict = re.search(r'VERIFICATION:- (\w+)', out)
    t = re.search(r'Verification Time: ([\d.]+)s', out)
    return checks, (int(summary.group(1)), int(summary.group(2))) if summary else None, verdict.group(1) if verdict else None, float(t.group(1)) if t else None


def run_group(cmd, cwd, env, timeout):
    """run a command in its own process group; on timeout kill the whole group (cargo-kani leaves cbmc / z3
    children behind otherwise)"""
    import signal
    p = subprocess.Popen(cmd, cwd=cwd, env=env, stdout=subprocess.PIPE, stderr=subprocess.STDOUT, text=True,
                         start_new_session=True)
    try:
        out, _ = p.communicate(timeout=timeout)
        return out, p.returncode
    except subprocess.TimeoutExpired:
        try:
            os.killpg(p.pid, signal.SIGKILL)
        except OSError:
            pass
        try:
            out, _ = p.communicate(timeout=10)
        except Exception:  # noqa
            out = ''
        return (out or '') + '\nTIMEOUT', -9


def run_harness(ws, cfg, h, log_dir):
    flags = ['-Z', 'function-contracts', '-Z', 'stubbing'] + h.get('flags', [])
    # NB: --harness must precede flags: `--cbmc-args` swallows everything after it
    cmd = ['cargo', 'kani', '-p', cfg['package']] + cfg.get('cargo_flags', []) + ['--harness', h['name']] + flags
    env = dict(os.environ, CARGO_NET_OFFLINE='true')
    shell = 'ulimit -v %d; exec %s' % (MEM_KB, ' '.join("'%s'" % c for c in cmd))
    t0 = time.time()
    out, rc = run_group(['bash', '-c', shell], ws, env, h.get('timeout', 900))
    wall = time.time() - t0
    if log_dir:
        open(os.path.join(log_dir, re.sub(r'\W+', '_', h['name']) + '.log'), 'w').write(out)
    # `--harness X` matches by substring: if more than one harness ran, keep only the section of the one asked for
    secs = re.split(r'(?m)^(?=Checking harness )', out)
    if len([x for x in secs if x.startswith('Checking harness ')]) > 1:
        want = [x for x in secs if re.match(r'Checking harness (\S*::)?%s\.\.\.' % re.escape(h['name']), x)]
        if len(want) == 1:
            out = secs[0] + want[0]
    checks, summary, verdict, vtime = parse_kani(out)
    ob = dict(name='kani:%s/%s' % (cfg['package'], h['name']), unit=', '.join(h.get('functions', [])),
              file=h.get('file') or (cfg.get('append') or [{}])[0].get('to'), engine='kani/cbmc',
              bounded=h.get('bounded'), smt_ms=int((vtime or 0) * 1000), wall_s=round(wall, 1), status='undecided',
              kind='', clause='', detail='', src_lines=None, sha256=None,
              n_checks=summary[1] if summary else len(checks))
    ignore = h.get('ignore', [])
    oom = 'out of memory' in out or 'std::bad_alloc' in out or 'memory exhausted' in out.lower()
    if rc == -9 or 'TIMEOUT' in out[-20:]:
        ob['kind'] = 'timeout'
        ob['detail'] = out[-1500:]
        return ob
    if verdict is None:
        ob['kind'] = 'oom' if oom else 'tool-error'
        ob['detail'] = out[-3000:]
        return ob
    failed = [c for c in checks if c['status'] == 'FAILURE' and not any(i in c['desc'] or i in c['id'] for i in ignore)]
    n_fail_parsed = len([c for c in checks if c['status'] == 'FAILURE'])
    if summary and summary[0] != n_fail_parsed:
        # the table parse disagrees with Kani's own summary line: never report success
        ob['kind'] = 'tool-error'
        ob['detail'] = 'parsed %d FAILURE checks but Kani reports %d of %d failed\n%s' % (n_fail_parsed, summary[0], summary[1], out[-1500:])
        return ob
    if verdict == 'FAILED' and not summary:
        ob['kind'] = 'oom' if oom else 'tool-error'
        ob['detail'] = out[-2000:]
        return ob
    undet = [c for c in checks if c['status'] in ('UNDETERMINED',)]
    unreachable_cover = [c for c in checks if c['status'] in ('UNSATISFIABLE',) and 'cover' in c['id']]
    oom = oom or 'ran out of memory' in out or 'out of memory' in out.lower()
    if oom:
        # CBMC prints VERIFICATION:- FAILED / status ERROR after a solver OOM: undecided, never a verdict
        ob['kind'] = 'oom'
        ob['detail'] = out[-1500:]
        return ob
    bad_status = [c for c in checks if c['status'] not in ('SUCCESS', 'FAILURE', 'SATISFIED', 'UNSATISFIABLE', 'UNREACHABLE')]
    if bad_status:
        ob['kind'] = 'undetermined'
        ob['detail'] = '%d checks with status %s\n%s' % (len(bad_status), bad_status[0]['status'], out[-1200:])
        return ob
    if failed:
        ob['status'] = 'refuted'
        ob['kind'] = 'kani-check'
        ob['clause'] = failed[0]['desc']
        ob['detail'] = '\n'.join('%s: %s @ %s' % (c['id'], c['desc'], c['loc']) for c in failed[:20])
        ob['_cmd'] = cmd
        return ob
    if unreachable_cover:
        ob['status'] = 'undecided'
        ob['kind'] = 'vacuous (cover unreachable): ' + unreachable_cover[0]['desc']
        return ob
    if undet:
        ob['kind'] = 'undetermined'
        ob['detail'] = '\n'.join(c['desc'] for c in undet[:5])
        return ob
    if verdict == 'SUCCESSFUL' or (verdict == 'FAILED' and not failed and summary and checks and n_fail_parsed > 0):
        # FAILED only because of explicitly ignored built-in checks (e.g. CBMC's `NaN on` float checks)
        ob['status'] = 'discharged'
        ob['canary_fails_as_expected'] = None
        ob['ignored_failures'] = n_fail_parsed
        return ob
    ob['kind'] = 'tool-error'
    ob['detail'] = out[-2000:]
    return ob


def native_tests_replay(ws, cfg, ob, env):
    """harness without (useful) symbolic input: the suite may name native tests that run the same concrete scenarios"""
    for t in cfg.get('native_tests', []):
        p3 = subprocess.run(['cargo', 'test', '-p', cfg['package'], '--offline', t, '--', '--test-threads=1'], cwd=ws, env=env,
                            capture_output=True, text=True, timeout=1500)
        out3 = p3.stdout + p3.stderr
        if 'test result: FAILED' in out3 or (p3.returncode != 0 and 'Running unittests' in out3):
            m3 = re.search(r"(thread '[^']*' \(?\d*\)? ?panicked at [^\n]*\n[^\n]*)", out3)
            ob['witness'] = dict(kind='the harness has no symbolic input; the suite\'s native test `%s` (same concrete scenarios, real code, cargo test) fails' % t,
                                 test=t, native_replay_failed_as_predicted=True, native_output=(m3.group(1) if m3 else out3[-600:]))
            ob['replay_cmd'] = 'scratch copy of /repo + /verif/kani/<suite> appended; cargo test -p %s %s' % (cfg['package'], t)
            return True
    return False


def playback(ws, cfg, h, ob):
    """replay Kani's counterexample on the natively compiled real code (cargo kani playback)"""
    env = dict(os.environ, CARGO_NET_OFFLINE='true')
    cmd = ob.pop('_cmd')
    base = [c for c in cmd]
    k = base.index('--harness') + 2
    cmd2 = base[:k] + ['-Z', 'concrete-playback', '--concrete-playback=inplace'] + base[k:]
    try:
        p = subprocess.run(cmd2, cwd=ws, env=env, capture_output=True, text=True, timeout=h.get('timeout', 900))
        names = re.findall(r'- (kani_concrete_playback_\w+)', p.stdout)
        if not names:
            if native_tests_replay(ws, cfg, ob, env):
                return
            ob['witness'] = None
            ob['detail'] += '\n(no concrete counterexample produced by Kani)'
            return
        srcp = os.path.join(ws, h.get('file') or cfg['append'][0]['to'])
        src = open(srcp).read()
        # identical witnesses get identical test names (one per failed check / satisfied cover): drop the duplicates,
        # otherwise the native test build fails with E0428
        seen, out_src, last = set(), [], 0
        for mt in re.finditer(r'#\[test\]\s*fn (kani_concrete_playback_\w+)\(\).*?\n\s*\}\n', src, re.S):
            out_src.append(src[last:mt.start()])
            if mt.group(1) not in seen:
                seen.add(mt.group(1))
                out_src.append(mt.group(0))
            last = mt.end()
        out_src.append(src[last:])
        if len(''.join(out_src)) != len(src):
            src = ''.join(out_src)
            open(srcp, 'w').write(src)
        names = list(dict.fromkeys(names))
        # Kani also emits playback tests for SATISFIED cover! statements (they pass natively): try the generated tests one
        # by one and keep the first that fails natively
        tests, out, failed, m = [], '', False, None
        for n in names[:12]:
            p2 = subprocess.run(['cargo', 'kani', 'playback', '-Z', 'concrete-playback', '-p', cfg['package'], '--', n],
                                cwd=ws, env=env, capture_output=True, text=True, timeout=900)
            out = p2.stdout + p2.stderr
            if 'test result: FAILED' in out:
                failed = True
                mt = re.search(r'#\[test\]\s*fn ' + n + r'\(\).*?\n\s*\}\n', src, re.S)
                if mt:
                    tests.append(mt.group(0))
                m = re.search(r"(thread '[^']*' \(?\d*\)? ?panicked at [^\n]*\n[^\n]*)", out)
                break
        ob['witness'] = dict(kind='kani concrete playback (counterexample bytes per kani::any(), decoded values in comments), replayed natively on the real code with `cargo kani playback`',
                             test='\n'.join(tests)[:6000], native_replay_failed_as_predicted=failed,
                             native_output=(m.group(1) if m else out[-800:]))
        if not failed:
            ob['witness'] = None
            if native_tests_replay(ws, cfg, ob, env):
                return
            ob['detail'] += '\n(counterexample did not reproduce natively)'
    except Exception as e:  # noqa
        ob['witness'] = None
        ob['detail'] += '\n(playback error: %s)' % e


def run_suite(suite, prop, tier, workdir):
    suite_dir = os.path.join(VERIF, 'kani', suite)
    cfg = json.load(open(os.path.join(suite_dir, 'suite.json')))
    res = dict(cmds=[], fatals=[], obligations=[], solver_ms=0, bounded=[], assumptions={})
    hs = [h for h in cfg['harnesses'] if prop in h.get('props', []) and h.get('tier', 'quick') != 'selftest'
          and (tier == 'thorough' or h.get('tier', 'quick') == 'quick')]
    if tier == 'thorough':
        # vacuity self-tests: harnesses that must be refuted
        hs += [h for h in cfg['harnesses'] if prop in h.get('props', []) and h.get('tier') == 'selftest']
    if not hs:
        return res
    try:
        root, ws = make_scratch(suite_dir, cfg)
    except Exception as e:
        res['fatals'].append('kani suite %s: %s' % (suite, e))
        return res
    try:
        log_dir = os.path.join(workdir, 'kani-' + suite)
        os.makedirs(log_dir, exist_ok=True)
        # warm build with the first harness to avoid N concurrent identical compiles
        first = run_harness(ws, cfg, hs[0], log_dir)
        obs = [first]
        if first['kind'] == 'tool-error' and 'error' in first['detail'] and 'could not compile' in first['detail']:
            res['fatals'].append('kani suite %s does not compile against the current tree (anchor lost?): %s' % (suite, first['detail'][-1200:]))
            return res
        with cf.ThreadPoolExecutor(max_workers=cfg.get('parallel', 4)) as ex:
            futs = [ex.submit(run_harness, ws, cfg, h, log_dir) for h in hs[1:]]
            for f in futs:
                obs.append(f.result())
        for h, ob in zip(hs, obs):
            if h.get('tier') == 'selftest':
                ob.pop('_cmd', None)
                ok = ob['status'] == 'refuted'
                res.setdefault('selftests', []).append(dict(name=ob['name'], refuted_as_expected=ok))
                if not ok:
                    res['fatals'].append('vacuity self-test %s was expected to be refuted but is %s' % (ob['name'], ob['status']))
                continue
            if ob['status'] == 'refuted':
                playback(ws, cfg, h, ob)
                ob.setdefault('replay_cmd', 'scratch copy of /repo + /verif/kani/%s appended; cargo kani -p %s --harness %s -Z concrete-playback --concrete-playback=print' % (suite, cfg['package'], h['name']))
            res['obligations'].append(ob)
            res['solver_ms'] += ob.get('smt_ms') or 0
            if h.get('bounded'):
                res['bounded'].append('BOUNDED (not counted as proved unbounded): %s: %s' % (ob['name'], h['bounded']))
        res['cmds'].append('cargo kani -p %s -Z function-contracts -Z stubbing --harness <each of %d> (scratch copy of /repo + kani/%s)' % (cfg['package'], len(hs), suite))
        for a in cfg.get('assumptions', []):
            res['assumptions']['kani/%s: %s' % (suite, a)] = 1
    finally:
        shutil.rmtree(root, ignore_errors=True)
    return res
