"""Regenerate MANIFEST.json from vx/registry.py (run: python3 -m vx.mkmanifest)."""
import json, os
from . import registry
VERIF = os.path.dirname(os.path.dirname(os.path.abspath(__file__)))

def main():
    checks = []
    for pid in sorted(registry.PROPS):
        c = registry.PROPS[pid]
        checks.append(dict(
            property_id=pid,
            quick_cmd='./check %s --tier quick' % pid,
            thorough_cmd='./check %s --tier thorough' % pid,
            evidence_file='/verif/evidence/%s.json' % pid,
            replay_cmd_template='./check %s --replay {path}' % pid,
            engine=c.get('engine', 'verus+kani'),
            level_claimed=dict(category=c.get('level', 'proof'), text=c['text'], design_ref=c.get('design_ref', '')),
            level_note=c['note'],
            technique=c.get('technique', 'contract-based deductive verification: Verus contracts on function bodies extracted verbatim from /repo each run; Kani function contracts / full-domain harnesses on the real crates'),
        ))
    na = [dict(property_id=k, reason=v) for k, v in sorted(registry.NOT_APPLICABLE.items()) if k not in registry.PROPS]
    m = dict(
        version=1,
        setup_cmd='./setup.sh',
        hooks=dict(guard='none (no source hooks: Verus units are extracted from /repo, Kani harnesses are appended to scratch copies under #[cfg(kani)])',
                   enable='n/a - checks read /repo sources directly; cfg(kani) is set by cargo-kani in the scratch copy only',
                   baseline_off_cmd='cd /repo && cargo test --workspace --no-fail-fast --offline',
                   source_commits=registry.HOOK_COMMITS, add_only=True),
        engines=[
            dict(name='V', path='/verif/vx/verus_run.py', serves_properties=sorted(p for p, c in registry.PROPS.items() if c.get('verus')),
                 kind_free_text='Verus 0.2026.09.13 on function bodies extracted verbatim from /repo (vx/extract.py, vx/bundle.py) + contract preludes in /verif/contracts'),
            dict(name='K', path='/verif/vx/kani_run.py', serves_properties=sorted(p for p, c in registry.PROPS.items() if c.get('kani')),
                 kind_free_text='Kani 0.68/CBMC 6.11 on scratch copies of the real crates with harness modules from /verif/kani appended under cfg(kani)'),
        ],
        checks=checks,
        not_applicable=na,
        notes='exit 0 = all obligations discharged; exit 1 + VIOLATION = an obligation refuted; exit 2 + UNDECIDED = anchor lost / unsupported construct / resource limit (never an alarm). See DESIGN.md.',
    )
    json.dump(m, open(os.path.join(VERIF, 'MANIFEST.json'), 'w'), indent=1)
    print('wrote MANIFEST.json with %d checks, %d not_applicable' % (len(checks), len(na)))

if __name__ == '__main__':
    main()
