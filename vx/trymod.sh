#!/bin/bash
# usage: trymod.sh <file under /repo> <sed-expr> <bundle> <module>   : apply a textual mutation, verify ONE module of one bundle, revert
f=$1; e=$2; b=$3; m=$4
cd /repo && cp "$f" /tmp/w/mut.bak && sed -i "$e" "$f" && if git diff --quiet -- "$f"; then echo "NO CHANGE"; exit 3; fi
git diff -U0 -- "$f" | grep '^[+-]' | grep -v '^+++\|^---'
cd /verif && python3 -m vx.gen contracts/$b.rs.tpl /tmp/w/$b-m.rs >/dev/null 2>/tmp/w/gen.err || tail -3 /tmp/w/gen.err
cp /tmp/w/mut.bak /repo/"$f"
cd /tmp/w && verus $b-m.rs --edition 2024 --triggers-mode silent --rlimit 30 --verify-only-module $m 2>&1 | grep "^error\|verification results" -A3 | grep -v "^--" | head -${5:-12}
cd /repo && git diff --quiet || echo "WARNING: repo dirty"
