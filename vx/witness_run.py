"""Replay helper for refuted Verus obligations: search a concrete failing input on the REAL oxidd crate
(vx/witness, built against /repo's current tree).  Not the deciding step."""
import json
import os
import re
import subprocess

VERIF = os.path.dirname(os.path.dirname(os.path.abspath(__file__)))
KIND = {'bdd_simple': 'bdd', 'bcdd': 'bcdd', 'zbdd': 'zbdd', 'mtbdd': 'mtbdd', 'tdd': 'tdd'}
GROUPS = [
    (r'^eval_edge', ['eval']),
    (r'pick_cube|literal_set_pop|add_literal', ['pick_cube']),
    (r'apply_quant|apply_(forall|exists|unique)', ['apply_quant', 'quant']),
    (r'quant|forall|exists|unique|set_pop', ['quant', 'apply_quant']),
    (r'restrict', ['restrict']),
    (r'substitute', ['substitute']),
    (r'ite', ['ite', 'bin']),
    (r'.*', ['bin', 'ite']),
]


def search(obligation_name, timeout=600):
    bundle, _, fn = obligation_name.partition('/')
    kind = KIND.get(bundle)
    if not kind:
        return None
    groups = ['bin']
    if kind == 'zbdd':
        if re.search(r'union|intsec|diff|subset|change|make_node|singleton|api_', fn):
            groups = ['vecset', 'bin']
        elif re.search(r'ite', fn):
            groups = ['ite', 'bin']
        else:
            groups = ['bin', 'vecset', 'ite']
    elif kind in ('bdd', 'bcdd'):
        for pat, gs in GROUPS:
            if re.search(pat, fn):
                groups = gs
                break
    env = dict(os.environ, CARGO_TARGET_DIR=os.path.join(VERIF, '.build', 'witness'), CARGO_NET_OFFLINE='true')
    wdir = os.path.join(VERIF, 'vx', 'witness')
    try:
        b = subprocess.run(['cargo', 'build', '--offline', '-q'], cwd=wdir, env=env, capture_output=True, text=True, timeout=timeout)
        if b.returncode != 0:
            return dict(found=False, error='witness tool does not build against the current tree: ' + b.stderr[-400:])
        last = None
        for g in groups:
            p = subprocess.run(['cargo', 'run', '--offline', '-q', '--', kind, g], cwd=wdir, env=env, capture_output=True, text=True, timeout=timeout)
            out = (p.stdout or '').strip().split('\n')[-1] if p.stdout.strip() else ''
            if p.returncode != 0 and not out.startswith('{'):
                # the real code panicked / aborted on some input: that is a witness too
                return dict(found=True, dd=kind, op=g, panic=(p.stderr or '')[-600:],
                            cmd='cd /verif/vx/witness && cargo run --offline -- %s %s' % (kind, g))
            try:
                r = json.loads(out)
            except ValueError:
                continue
            r['cmd'] = 'cd /verif/vx/witness && cargo run --offline -- %s %s' % (kind, g)
            if r.get('found'):
                return r
            last = r
        return last
    except Exception as e:  # noqa
        return dict(found=False, error=str(e))
