"""Run Verus on a generated bundle and classify every obligation."""
import json
import os
import re
import subprocess
import time

from . import bundle
from .extract import AnchorLost

VERIF = os.path.dirname(os.path.dirname(os.path.abspath(__file__)))

REFUTE_KINDS = [
    ('postcondition not satisfied', 'postcondition'),
    ('precondition not satisfied', 'precondition'),
    ('assertion failed', 'assertion'),
    ('possible arithmetic underflow/overflow', 'arithmetic-overflow'),
    ('possible division by zero', 'division-by-zero'),
    ('possible bit shift underflow/overflow', 'shift-overflow'),
    ('invariant not satisfied', 'invariant'),
    ('loop ensures not satisfied', 'loop-ensures'),
    ('ensures not satisfied', 'loop-ensures'),
    ('decreases not satisfied', 'decreases'),
    ('could not prove termination', 'decreases'),
    ('unreachable', 'reached-unreachable'),
    ('index', 'index-out-of-bounds'),
]
UNDECIDED_KINDS = ['Resource limit', 'rlimit', 'timed out', 'could not be completed']


class ErrBlock:
    def __init__(self, msg, text):
        self.msg = msg
        self.text = text
        self.locs = [(int(a), int(b)) for a, b in re.findall(r'-->\s*\S+?:(\d+):(\d+)', text)]
        self.kind = None
        for pat, k in REFUTE_KINDS:
            if pat in msg:
                self.kind = k
                break
        self.undecided = any(p in msg for p in UNDECIDED_KINDS)
        # every source line quoted by the diagnostic: "NNN | text"
        self.lines = [int(x) for x in re.findall(r'^\s*(\d+)\s*\|', text, re.M)]
        m = re.search(r'^\s*\d+\s*\|(.*)\n\s*\|\s*(\^+)(.*)$', text, re.M)
        self.clause = ''
        if m:
            col = m.group(0).split('\n')[1].index('^') - (m.group(0).split('\n')[1].index('|') + 1)
            src = m.group(1)
            self.clause = src[col:col + len(m.group(2))].strip() if col >= 0 else src.strip()


def parse_stderr(err):
    blocks = []
    cur = None
    for ln in err.split('\n'):
        m = re.match(r'^(error(\[E\d+\])?): (.*)$', ln)
        if m:
            if cur:
                blocks.append(cur)
            cur = [m.group(3), [ln]]
        elif re.match(r'^(warning|note)(\[\w+\])?:', ln):
            if cur:
                blocks.append(cur)
            cur = None
        elif cur is not None:
            cur[1].append(ln)
    if cur:
        blocks.append(cur)
    return [ErrBlock(m, '\n'.join(t)) for m, t in blocks]


class Obligation:
    """one function-level proof obligation (one Verus query group)"""

    def __init__(self, bundle_name, unit, fn_name):
        self.bundle = bundle_name
        self.unit = unit
        self.fn = fn_name
        self.status = 'undecided'    # discharged | refuted | undecided
        self.kind = ''
        self.clause = ''
        self.detail = ''
        self.smt_ms = None
        self.rlimit = None
        self.canary_ok = None

    @property
    def name(self):
        return '%s/%s' % (self.bundle, self.fn)

    def to_json(self):
        return dict(name=self.name, unit=self.unit.id, file=self.unit.file, src_lines=self.unit.span,
                    sha256=self.unit.sha256, status=self.status, kind=self.kind, clause=self.clause,
                    smt_ms=self.smt_ms, canary_fails_as_expected=self.canary_ok, engine='verus/z3')


def run_verus(path, rlimit, extra=(), timeout=600):
    cmd = ['verus', os.path.basename(path), '--edition', '2024', '--triggers-mode', 'silent', '--output-json',
           '--time', '--rlimit', str(rlimit)] + list(extra)
    t0 = time.time()
    import signal
    p = subprocess.Popen(cmd, cwd=os.path.dirname(path), stdout=subprocess.PIPE, stderr=subprocess.PIPE, text=True,
                         start_new_session=True)
    try:
        out, err = p.communicate(timeout=timeout)
        rc = p.returncode
    except subprocess.TimeoutExpired:
        try:
            os.killpg(p.pid, signal.SIGKILL)
        except OSError:
            pass
        out, err, rc = '', 'TIMEOUT after %ds' % timeout, -9
    wall = time.time() - t0
    js = None
    try:
        js = json.loads(out[out.index('{'):]) if '{' in out else None
    except ValueError:
        js = None
    return dict(cmd=' '.join(cmd), rc=rc, json=js, err=err, wall=wall)


def fn_breakdown(js):
    res = {}
    if not js or 'times-ms' not in js:
        return res
    for mod in js['times-ms'].get('smt', {}).get('smt-run-module-times', []):
        for f in mod.get('function-breakdown', []):
            res[f['function'].split('::')[-1]] = f
            f['_module'] = '::'.join(f['function'].split('::')[1:-1])
    return res


class BundleResult:
    def __init__(self, name):
        self.name = name
        self.obligations = []
        self.units = []
        self.fatal = None          # text if the whole bundle is undecided
        self.cmd = ''
        self.wall = 0.0
        self.smt_ms = 0
        self.verified_count = 0
        self.assumption_scan = {}
        self.gen_path = None
        self.stderr = ''


def scan_assumptions(text):
    """mechanical scan of the generated file: every trusted item by name"""
    res = {}
    ext = re.findall(r'#\[verifier::external_body\]\s*(?:pub(?:\([^)]*\))?\s+)?(?:proof\s+)?fn\s+(\w+)', text)
    # stubs emitted by a `cases=` split are proved by their `__case_` copies: not assumptions
    ext = [e for e in ext if (e + '__case_') not in text]
    if ext:
        res['external_body fns (contract assumed, body not checked)'] = sorted(set(ext))
    asp = re.findall(r'assume_specification(?:<[^>]*>)?\s*\[\s*([^\]]+?)\s*\]', text)
    if asp:
        res['assume_specification'] = sorted(set(a.strip() for a in asp))
    for pat in ['assume(', 'admit(']:
        n = len(re.findall(r'(?<![\w_])' + re.escape(pat), text))
        if n:
            res[pat] = n
    n = text.count('exec_allows_no_decreases_clause')
    if n:
        res['exec_allows_no_decreases_clause (partial correctness)'] = n
    un = re.findall(r'uninterp\s+spec\s+fn\s+(\w+)', text)
    if un:
        res['uninterpreted spec fns'] = sorted(set(un))
    traits = re.findall(r'^pub trait (\w+)', text, re.M)
    if traits:
        res['stub traits carrying the ASSUMED manager/cache contracts'] = sorted(set(traits))
    return res


def verify_bundle(name, workdir, rlimit=30, canary=True):
    """Expand contracts/<name>.rs.tpl, run Verus (and the ensures-false canary)."""
    res = BundleResult(name)
    tpl = os.path.join(VERIF, 'contracts', name + '.rs.tpl')
    t0 = time.time()
    try:
        text, units = bundle.expand(tpl)
        ctext, cunits = bundle.expand(tpl, canary=True) if canary else (None, None)
    except AnchorLost as e:
        res.fatal = 'anchor lost: %s' % e
        return res
    res.units = units
    cranges = {}
    for cu in (cunits or []):
        for n, a, b in cu.emitted:
            cranges[n] = (a, b)
    os.makedirs(workdir, exist_ok=True)
    path = os.path.join(workdir, name + '.rs')
    open(path, 'w').write(text)
    res.gen_path = path
    res.assumption_scan = scan_assumptions(text)
    procs = {}
    import concurrent.futures as cf
    with cf.ThreadPoolExecutor(2) as ex:
        fut = ex.submit(run_verus, path, rlimit)
        cfut = None
        if canary:
            cpath = os.path.join(workdir, name + '__canary.rs')
            open(cpath, 'w').write(ctext)
            cfut = ex.submit(run_verus, cpath, 3, ['--multiple-errors', '0'])
        r = fut.result()
        c = cfut.result() if cfut else None
    res.cmd = r['cmd']
    res.wall = time.time() - t0
    res.stderr = r['err']
    js = r['json']
    blocks = parse_stderr(r['err'])
    if js is None or 'verification-results' not in js:
        res.fatal = 'verus produced no result (rc=%s): %s' % (r['rc'], r['err'][-2000:])
        return res
    vr = js['verification-results']
    res.verified_count = vr.get('verified', 0)
    hard = [b for b in blocks if b.kind is None and not b.undecided and 'aborting due to' not in b.msg]
    if vr.get('encountered-vir-error') or (vr.get('encountered-error') and not vr.get('errors') and hard):
        res.fatal = 'verus rejected the generated file (unsupported construct or type error): ' + \
            '\n'.join(b.text[:600] for b in hard[:3])
        return res
    bd = fn_breakdown(js)
    if c is not None and (c['json'] is None or 'verification-results' not in c['json']
                          or c['json']['verification-results'].get('encountered-vir-error')
                          or (c['json']['verification-results'].get('encountered-error') and not c['json']['verification-results'].get('errors'))):
        # the canary file itself was rejected (e.g. a unit whose header name differs from its `name`): no vacuity verdict possible
        res.fatal = 'the ensures-false canary file was rejected by Verus (machinery error, not a verdict): ' + (c['err'] or '')[-1500:]
        return res
    cbd = fn_breakdown(c['json']) if c else {}
    cblocks = parse_stderr(c['err']) if c else []
    try:
        res.smt_ms = js['times-ms']['smt']['smt-run']
    except (KeyError, TypeError):
        pass
    for u in units:
        if u.kind not in ('fn', 'lemma') or u.mode != 'prove':
            continue
        for fn, l0, l1 in u.emitted:
            ob = Obligation(name, u, fn)
            info = bd.get(fn)
            mine = [b for b in blocks if any(l0 <= l <= l1 for l, _ in b.locs) or any(l0 <= l <= l1 for l in b.lines)]
            if info is not None:
                ob.smt_ms = info.get('time')
                ob.rlimit = info.get('rlimit')
            ref = [b for b in mine if b.kind]
            und = [b for b in mine if b.undecided]
            if info is not None and info.get('success') and not ref and not und:
                ob.status = 'discharged'
            elif ref:
                ob.status = 'refuted'
                ob.kind = ref[0].kind
                ob.clause = ref[0].clause
                ob.detail = '\n\n'.join(b.text for b in ref)
            elif und:
                ob.status = 'undecided'
                ob.kind = 'rlimit'
                ob.detail = und[0].text
                # retry this function alone with a much larger resource limit: a refuted obligation often needs more
                # solver effort than a provable one, and "undecided" would hide a real violation
                mod = (info or {}).get('_module', '')
                extra = ['--verify-function', fn] + (['--verify-only-module', mod] if mod else ['--verify-root'])
                r2 = run_verus(path, max(200, rlimit * 6), extra, timeout=900)
                b2 = parse_stderr(r2['err'])
                ref2 = [b for b in b2 if b.kind and (any(l0 <= l <= l1 for l, _ in b.locs) or any(l0 <= l <= l1 for l in b.lines))]
                und2 = [b for b in b2 if b.undecided]
                ok2 = r2['json'] and r2['json'].get('verification-results', {}).get('errors') == 0 and \
                    r2['json'].get('verification-results', {}).get('verified', 0) >= 1
                if ref2:
                    ob.status = 'refuted'
                    ob.kind = ref2[0].kind
                    ob.clause = ref2[0].clause
                    ob.detail = '(after retry with rlimit %d)\n' % max(200, rlimit * 6) + '\n\n'.join(b.text for b in ref2)
                elif ok2 and not und2:
                    ob.status = 'discharged'
                    ob.kind = ''
                    ob.detail = 'discharged on retry with rlimit %d' % max(200, rlimit * 6)
            elif info is None and not mine and vr.get('success'):
                # function generated no SMT query of its own (trivial body): Verus counts it verified
                ob.status = 'discharged'
            else:
                ob.status = 'undecided'
                ob.kind = 'unknown'
                ob.detail = '\n'.join(b.text for b in mine)[:3000]
            if canary and u.kind == 'fn':
                ci = cbd.get(fn + '__canary') or cbd.get(fn) if '__case_' not in fn else cbd.get(fn)
                c0, c1 = cranges.get(fn, (l0, l1))
                cfail = [b for b in cblocks if any(c0 <= l <= c1 for l in b.lines)]
                # the canary (ensures false) must NOT verify
                ob.canary_ok = bool((ci is not None and not ci.get('success')) or cfail)
            res.obligations.append(ob)
    return res
