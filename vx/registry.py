"""Which engines/bundles/harnesses decide which property."""

# verus bundles: contracts/<name>.rs.tpl ; kani suites: kani/<name>.py (see vx/kani_run.py)
PROPS = {
    'C01': dict(
        verus=['bdd_simple', 'mtbdd', 'tdd'],
        kani=[],
        level='proof',
        design_ref='6/C01',
        text='Verus proves (a) the canonicity lemmas: two well-formed (ordered, reduced) BDD/MTBDD/TDD diagrams with the same truth/value table are identical, hence (hash-consing contract) the handles are equal, and conversely; (b) that the real reduction rules (reduce, DiagramRules::reduce + then_insert) return exactly the reduced node; every operation unit of C02/C04/C10/C11/C13 ensures a well-formed result, so the lemma applies to all handles after any history; (c) that adding levels below a diagram does not change its function',
        note='hash-consing (unique table: equal handles iff same stored diagram) is the ASSUMED manager contract; reordering is C08; threads C07; BCDD/ZBDD variants listed only when their bundles exist',
    ),
    'C03': dict(
        verus=['bdd_simple', 'mtbdd', 'tdd'],
        kani=[],
        level='proof',
        design_ref='6/C03',
        text='per-handle structural invariants: every unit that builds a node proves ordered (children strictly below), reduced, levels < num_levels for its result (ok(res)); canonicity gives minimal node count (the reduced diagram of a function is unique); var<->level maps: Kani suite varlevelmap',
        note='per-level unique-table facts (no two nodes with identical children per level, node listed in the level it reports) are the ASSUMED manager contract',
    ),
    'C06': dict(
        verus=['bdd_simple', 'mtbdd', 'tdd'],
        kani=[],
        level='proof',
        design_ref='6/C06',
        text='rules layer: every apply-cache get/add in the verified functions is checked against a per-operator invariant inv(operator, operands, result): add requires the entry to be justified under exactly the key used, get may rely only on the key asked for (wrong operator tag, operand order, or numeric key breaks an obligation); result_determined_by_spec + canonicity: the returned handle is independent of which justified answers the cache gives; cache layer (key exactness, gc bracketing): Kani suite apply_cache',
        note='ApplyCache::get/add contract is assumed at the rules layer and checked separately on the real oxidd-cache code by Kani (bounded capacity); Manager event bracketing (pre/post gc) assumed',
    ),
    'C16': dict(
        verus=['bdd_simple', 'mtbdd', 'tdd'],
        kani=[],
        level='proof',
        design_ref='6/C16',
        text='"adding variables never changes the function denoted by an existing BDD/MTBDD/TDD handle": lemma add_vars_preserves_function over the term view (new levels are appended below all existing levels)',
        note='name<->variable bijection of VarNameMap (HashMap<String>) is outside both tools unless the bounded Kani attempt (kani/var_names) is listed in the evidence; that add_vars appends levels at the bottom is the manager contract',
    ),
    'C02': dict(
        verus=['bdd_simple'],
        kani=[],
        level='proof',
        design_ref='6/C02',
        text='Verus proves, for all diagrams/levels/cache behaviours, that the real bodies of terminal_bin, reduce, apply_not, apply_bin, apply_ite return a well-formed diagram whose semantics is the propositional connective of the operand semantics',
        note='manager + apply-cache contracts assumed (prelude); partial correctness; sequential recursor; see evidence.assumptions',
    ),
    'C04': dict(
        verus=['bdd_simple'],
        kani=[],
        level='proof',
        design_ref='6/C04',
        text='Verus proves the real bodies of set_pop, quant, restrict, apply_quant, substitute (simple BDD) against iterated-cofactor / override / simultaneous-substitution semantics for all diagrams and variable sets',
        note='manager + apply-cache contracts assumed (prelude); partial correctness; sequential recursor; see evidence.assumptions',
    ),
    'C11': dict(
        verus=['tdd'],
        kani=[],
        level='proof',
        design_ref='6/C11',
        text='Verus proves the real TDD terminal_bin (8 operators), apply_not, apply_bin, apply_ite_rec, reduce rule + then_insert, var/constant constructors and all *_edge wrappers against three-valued truth tables written from the property statement (Kleene not/and/or, Lukasiewicz imp/equiv, xor = not equiv, imp_strict(a,b) = not imp(b,a), the stated ite table), for all diagrams and all three-valued assignments',
        note='manager + apply-cache contracts assumed (prelude); partial correctness for the recursions; eval (bit-packed choice vector) and cofactors not covered',
    ),
    'C13': dict(
        verus=['bdd_simple'],
        kani=[],
        level='proof',
        design_ref='6/C13',
        text='Verus proves the real pick_cube_dd / pick_cube_dd_set recursions against pick_ok (one node per level, never into a false child, polarity of the literal set followed where both children are satisfiable; choice closure callable only on such nodes with their own level); cube-ness and implication follow by lemma_pick_ok_props',
        note='manager contract assumed (prelude); uniform picking (probabilities) not covered; pick_cube (Vec<OptBool> output) covered only where listed in evidence',
    ),
    'C10': dict(
        verus=['mtbdd'],
        kani=['mtbdd_terminal'],
        level='proof',
        design_ref='6/C10',
        text='Kani proves the real I64/F64 terminal arithmetic against a specification written from the property statement, for all operand values (loop-free harnesses over the full domain); quotient/float value checks that need a second divider/FPU circuit are bounded and labelled so',
        note='CBMC bit-precise semantics and IEEE float model; bounded sub-harnesses listed in evidence.assumptions',
    ),
}

TRUSTED_BASE_COMMON = [
    'Verus 0.2026.09.13 + bundled Z3; rustc front end',
    'manager contract over the stateless term view (contract prelude): get_node/clone_edge/get_terminal/level().get_or_insert, hash-consing (handles equal iff same stored diagram), nodes immutable while referenced',
    'apply-cache contract: get returns only entries justified under exactly the queried key (cache layer itself: C06 Kani units)',
    'extraction rewrites R1-R13 (DESIGN.md section 2); debug assertions and stat! dropped; SequentialRecursor inlined (ParallelRecursor not verified)',
    'partial correctness for recursion polymorphic in the Recursor type (exec_allows_no_decreases_clause)',
    'Borrowed<E> modelled as &E (ownership discipline of Borrowed not checked)',
]

HOOK_COMMITS = []

NOT_APPLICABLE = {
    'C01': 'not yet built in this round (planned: canonicity lemmas + reduce units)',
    'C03': 'not yet built in this round',
    'C04': 'not yet built in this round',
    'C05': 'reference-count ledger is not expressible as a contract on the &self interior-mutable API (Verus has no view of interior state, Kani has no threads); see DESIGN.md 6/C05',
    'C06': 'not yet built in this round',
    'C07': 'schedules: Kani has no thread support and Verus would need its permission types threaded through code we may not rewrite; see DESIGN.md 6/C07',
    'C08': 'not yet built in this round',
    'C09': 'not yet built in this round',
    'C10': 'not yet built in this round',
    'C11': 'not yet built in this round',
    'C12': 'not yet built in this round',
    'C13': 'not yet built in this round',
    'C14': 'release-everything-on-failure is the reference ledger again (C05); error propagation itself is proved inside the C02/C04 units; see DESIGN.md 6/C14',
    'C15': 'not yet built in this round',
    'C16': 'not yet built in this round',
    'C17': 'not yet built in this round',
    'C18': 'nom parser combinators, str/format! diagnostics and HashMap-based structural hashing are outside Verus (iterator adapters, closures, str) and in Kani\'s prohibitive cost class; see DESIGN.md 6/C18',
    'C19': 'raw-pointer ownership across extern "C" over the real threaded Arc-based manager is outside both tools; see DESIGN.md 6/C19',
    'C20': 'not yet built in this round',
}
