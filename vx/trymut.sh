#!/bin/bash
# usage: trymut.sh <file under /repo> <sed-expr> <PROP>...   : apply a textual mutation, run checks, revert
f=$1; e=$2; shift 2
cd /repo && cp "$f" /tmp/w/mut.bak && sed -i "$e" "$f" && if git diff --quiet -- "$f"; then echo "NO CHANGE"; exit 3; fi
git diff -U0 -- "$f" | grep '^[+-]' | grep -v '^+++\|^---'
cd /verif
export VERIF_EVIDENCE_DIR=/tmp/w/mut-evidence VERIF_REPLAY_DIR=/tmp/w/mut-replays
for p in "$@"; do ./check $p | grep -v "^KNOWN" | cut -c1-220; done
cp /tmp/w/mut.bak /repo/"$f"
cd /repo && git diff --quiet || echo "WARNING: repo dirty"
