import sys, json
from . import bundle
if __name__ == '__main__':
    canary = '--canary' in sys.argv
    args = [a for a in sys.argv[1:] if not a.startswith('--')]
    text, units = bundle.expand(args[0], canary=canary)
    open(args[1], 'w').write(text)
    for u in units:
        print(json.dumps(u.to_json()))
