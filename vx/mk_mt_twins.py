"""python3 -m vx.mk_mt_twins <bundle> <Kind>   (Kind = BDD | BCDD | ZBDD ...)
For every wrapper unit `impl:<Trait>~for~<Kind>Function<F>/fn:<name>` of the bundle that has a //@header, insert (once) a twin unit
for the multi-threaded wrapper `mod:mt/impl:<Trait>~for~<Kind>FunctionMT<F>/fn:<name>` with the SAME contract.  The twin's body is
the real MT wrapper (it passes `ParallelRecursor::new(manager)` or delegates to `<Kind>Function::<F>::<name>`)."""
import re, sys
from . import extract as X, bundle as B

def main():
    name, kind = sys.argv[1], sys.argv[2]
    p = 'contracts/%s.rs.tpl' % name
    lines = open(p).read().split('\n')
    out = []
    i = 0
    made, skipped = [], []
    existing = set(re.findall(r'name=(\w+__mt)\b', '\n'.join(lines)))
    while i < len(lines):
        ln = lines[i]
        if not ln.startswith('//@fn'):
            out.append(ln); i += 1; continue
        j = i
        while lines[j].strip() != '//@end':
            j += 1
        block = lines[i:j + 1]
        out.extend(block)
        i = j + 1
        opts = B.parse_kv(ln[5:])
        path = opts.get('path', '').split('/')
        m = re.match(r'impl:(\w+)~for~%sFunction<F>$' % kind, path[0]) if path else None
        if not m or len(path) != 2 or opts.get('mode') == 'stub' or '//@header' not in [b.strip() for b in block]:
            continue
        fname = path[1].split(':', 1)[1]
        base = opts.get('rename', fname)
        twin = base + '__mt'
        if twin in existing:
            continue
        mt_path = ['mod:mt', 'impl:%s~for~%sFunctionMT<F>' % (m.group(1), kind), 'fn:' + fname]
        try:
            src, msk = B.load(opts['file'])
            it = X.locate(src, msk, mt_path, opts['file'])
        except X.AnchorLost as e:
            skipped.append('%s: %s' % (fname, e)); continue
        body = it.body
        keep = ['file=' + opts['file'], 'path=' + '/'.join(mt_path), 'name=' + twin]
        if opts.get('props'): keep.append('props=' + opts['props'])
        if opts.get('ret'): keep.append('ret=' + opts['ret'])
        if opts.get('selfcall') and opts['selfcall'].split('>')[0] in body: keep.append('selfcall=' + opts['selfcall'])
        st = []
        if opts.get('subst_text'):
            for pair in opts['subst_text'].split(';;'):
                a = pair.partition('::=')[0].replace('~', ' ').replace('@Q@', "'")
                if a in body: st.append(pair)
        deleg = '%sFunction::<F>::' % kind
        if deleg in body: st.append(deleg + '::=')
        if st: keep.append('subst_text=' + ';;'.join(st))
        hoist_ok = True
        for k in ('hoist', 'forinv', 'loopbody', 'cases'):
            if opts.get(k) is not None and (k != 'hoist' or re.search(r'\bfn\s+\w+', X.mask(body))):
                if k == 'hoist':
                    keep.append('hoist=' + opts['hoist'])
                else:
                    hoist_ok = hoist_ok and (k not in ('forinv', 'loopbody') or bool(X.for_loops(body)))
                    if k in ('forinv', 'loopbody') and X.for_loops(body): keep.append('%s=%s' % (k, opts[k]))
        tb = ['//@fn ' + ' '.join(keep)]
        sect = None
        for b in block[1:]:
            t = b.strip()
            if t in ('//@header', '//@spec', '//@loop', '//@end'):
                sect = t
                if t == '//@loop' and not X.for_loops(body):
                    sect = 'skip'; continue
                tb.append(b); continue
            if sect == 'skip': continue
            if sect == '//@header':
                b = re.sub(r'\bfn\s+%s\b' % re.escape(base), 'fn ' + twin, b)
            tb.append(b)
        out.extend(tb)
        made.append(twin)
    open(p, 'w').write('\n'.join(out))
    print('twins added:', len(made), made)
    for s in skipped: print('skipped', s)

if __name__ == '__main__':
    main()
