// ---- appended by /verif (engine K): DDDMP header loader `DumpHeader::load` on TEMPLATE inputs (property C15) ----
#[cfg(kani)]
mod verif_header {
    use super::*;

    // ------------------------------------------------------------------ stubs

    /// replaces `alloc::fmt::format` on error paths (error TEXT is not part of the contract)
    fn stub_format(_args: core::fmt::Arguments<'_>) -> String {
        String::new()
    }

    /// replaces the `cpuid` instruction (inline assembly, not translatable by Kani): a CPU that
    /// reports no optional features, so the memchr crate's run-time dispatch (`memchr2`,
    /// `memchr2_iter`) selects its SSE2 / byte-by-byte code, which Kani executes for real
    fn stub_cpuid(_leaf: u32, _sub_leaf: u32) -> core::arch::x86_64::CpuidResult {
        core::arch::x86_64::CpuidResult { eax: 0, ebx: 0, ecx: 0, edx: 0 }
    }

    // ------------------------------------------------------------------ templates

    /// position of the `n`-th (0-based) placeholder `#` in a template (evaluated at compile time)
    const fn hole_pos<const L: usize>(t: &[u8; L], n: usize) -> usize {
        let mut i = 0;
        let mut k = 0;
        while i < L {
            if t[i] == b'#' {
                if k == n {
                    return i;
                }
                k += 1;
            }
            i += 1;
        }
        panic!("template has too few holes")
    }
    const fn count_lines<const L: usize>(t: &[u8; L]) -> usize {
        let mut i = 0;
        let mut n = 0;
        while i < L {
            if t[i] == b'\n' {
                n += 1;
            }
            i += 1;
        }
        n
    }
    /// offsets one past each `\n`
    const fn line_ends<const L: usize, const N: usize>(t: &[u8; L]) -> [usize; N] {
        let mut e = [0usize; N];
        let mut i = 0;
        let mut n = 0;
        while i < L {
            if t[i] == b'\n' {
                e[n] = i + 1;
                n += 1;
            }
            i += 1;
        }
        e
    }

    /// `template!(name, b"text with # holes")` defines module `name` with the text `T`, its line
    /// end offsets `E` and the hole positions `H0..H2` as compile-time constants
    macro_rules! template {
        ($m:ident, $holes:expr, $s:expr) => {
            mod $m {
                pub const T: [u8; $s.len()] = *$s;
                pub const N: usize = super::count_lines(&T);
                pub const E: [usize; N] = super::line_ends(&T);
                pub const H0: usize = super::hole_pos(&T, 0);
                pub const H1: usize = super::hole_pos(&T, if $holes > 1 { 1 } else { 0 });
                pub const H2: usize = super::hole_pos(&T, if $holes > 2 { 2 } else { 0 });
            }
        };
    }

    /// In-memory reader over a template instance.  `read_until(b'\n')` hands out the template's
    /// lines (line boundaries are compile-time constants; every harness keeps `\n` out of the
    /// holes, so these ARE the lines of the input).  Everything else behaves like `&[u8]`.
    /// Why not std's `impl BufRead for &[u8]`: its `read_until` uses `core::slice::memchr`
    /// (word-at-a-time after `align_offset`, symbolic under CBMC): a fully concrete 119-byte
    /// header took 365 s of symbolic execution and then exhausted 12 GB.
    struct LineRd<'a> {
        buf: &'a [u8],
        ends: &'a [usize],
        next: usize,
        pos: usize,
    }
    impl<'a> LineRd<'a> {
        fn new(buf: &'a [u8], ends: &'a [usize]) -> Self {
            LineRd { buf, ends, next: 0, pos: 0 }
        }
        fn exhausted(&self) -> bool {
            self.pos == self.buf.len()
        }
    }
    impl io::Read for LineRd<'_> {
        fn read(&mut self, out: &mut [u8]) -> io::Result<usize> {
            if out.is_empty() || self.pos >= self.buf.len() {
                return Ok(0);
            }
            out[0] = self.buf[self.pos];
            self.pos += 1;
            Ok(1)
        }
    }
    impl io::BufRead for LineRd<'_> {
        fn fill_buf(&mut self) -> io::Result<&[u8]> {
            Ok(&self.buf[self.pos..])
        }
        fn consume(&mut self, n: usize) {
            self.pos += n;
        }
        fn read_until(&mut self, byte: u8, out: &mut Vec<u8>) -> io::Result<usize> {
            assert!(byte == b'\n');
            if self.next >= self.ends.len() {
                return Ok(0);
            }
            let e = self.ends[self.next];
            let n = e - self.pos;
            out.extend_from_slice(&self.buf[self.pos..e]);
            self.pos = e;
            self.next += 1;
            Ok(n)
        }
    }

    fn digit(c: u8) -> bool {
        c >= b'0' && c <= b'9'
    }

    // ------------------------------------------------------------------ specification (I)
    // Written from the documentation of the accessors of `DumpHeader` (import.rs:359-471) and of
    // `import()` (import.rs:474-495), not from the validation code.

    /// (I) for a header with at most 4 support variables / 4 roots
    fn check_invariant(h: &DumpHeader) {
        let n = h.ids.len();
        assert!(n <= 4, "template bound");
        // support_vars(): "integers in strictly ascending order", indices of the original numbering
        let mut i = 0;
        while i < n {
            assert!(h.ids[i] < h.nvars, "(I) every .ids entry < .nvars");
            if i + 1 < n {
                assert!(h.ids[i] < h.ids[i + 1], "(I) .ids strictly ascending");
            }
            i += 1;
        }
        // support_var_to_level(): "always num_support_vars() elements long", a level per support variable
        assert!(h.permids.len() == n, "(I) |permids| == |ids|");
        let mut i = 0;
        while i < n {
            assert!(h.permids[i] < h.nvars, "(I) every .permids entry < .nvars");
            let mut j = i + 1;
            while j < n {
                assert!(h.permids[i] != h.permids[j], "(I) .permids pairwise distinct");
                j += 1;
            }
            i += 1;
        }
        // support_var_order(): "always num_support_vars() elements long ... mapping from positions
        // to variable numbers": position = rank of the variable's level among the support levels
        assert!(h.support_var_order.len() == n, "(I) |support_var_order| == |ids|");
        let mut i = 0;
        while i < n {
            let mut rank = 0usize;
            let mut j = 0;
            while j < n {
                if h.permids[j] < h.permids[i] {
                    rank += 1;
                }
                j += 1;
            }
            assert!(h.support_var_order[rank] == h.ids[i], "(I) support_var_order = ids sorted by permid");
            i += 1;
        }
        // auxiliary_var_ids(): "contains num_support_vars() elements" (optional field)
        assert!(h.auxids.is_empty() || h.auxids.len() == n, "(I) |auxids| == |ids| if present");
        // var_names(): "If present, the returned slice contains num_vars() many elements"
        assert!(h.varnames.is_empty() || h.varnames.len() == h.nvars as usize, "(I) |varnames| == nvars if present");
        // root ids: non-zero node ids 1..=nnodes, sign = complement (what import() indexes with)
        let m = h.rootids.len();
        assert!(m <= 4, "template bound");
        let mut i = 0;
        while i < m {
            let r = h.rootids[i];
            assert!(r != 0, "(I) root id != 0");
            assert!(r.unsigned_abs() <= h.nnodes, "(I) |root id| <= nnodes");
            i += 1;
        }
        // root_names(): "if present, in the same order as returned by import()"
        assert!(h.rootnames.is_empty() || h.rootnames.len() == m, "(I) |rootnames| == nroots if present");
    }

    // ------------------------------------------------------------------ template T1
    // 3 variables, support {0, 2} (variable 2 on level 0, variable 0 on level 1), 3 nodes, 2 roots.

    template!(t_root1, 1, b".ver DDDMP-2.0\n.mode A\n.varinfo 4\n.nnodes 3\n.nvars 3\n.nsuppvars 2\n.ids 0 2\n.permids 1 0\n.nroots 2\n.rootids -# 2\n.nodes\n");

    #[kani::proof]
    #[kani::unwind(20)]
    #[kani::stub(alloc::fmt::format, stub_format)]
    #[kani::stub(core::arch::x86_64::__cpuid_count, stub_cpuid)]
    fn x_mid_linerd() {
        use t_root1::*;
        let mut buf = T;
        let d: u8 = kani::any();
        kani::assume(digit(d));
        buf[H0] = d;
        let mut inp = LineRd::new(&buf, &E);
        let r = DumpHeader::load(&mut inp);
        let v = d - b'0';
        assert!(r.is_ok() == (v != 0 && v <= 3));
        core::mem::forget(r);
    }
}
