// ---- appended by /verif (engine K): DDDMP header loader `DumpHeader::load` on TEMPLATE inputs (property C15) ----
// Harnesses in this file that are NOT listed in suite.json (never completed under the 12 GB / 1200 s budget; kept
// for machines with more memory): nvars_digit (discharged in 822 s under a 24 GB cap), nsuppvars_digit, nroots_digit
// (the loader allocates by the symbolic count: solver out of memory at 12 GB), orderedvarnames_permid_digit (1200 s
// timeout: lines of 16 bytes or more take the memchr crate's SSE2 path, which Kani's SIMD model does not get through).
#[cfg(kani)]
mod verif_header {
    use super::*;

    // ------------------------------------------------------------------ stubs

    /// replaces `alloc::fmt::format` on error paths (error TEXT is not part of the contract)
    fn stub_format(_args: core::fmt::Arguments<'_>) -> String {
        String::new()
    }

    /// replaces the `cpuid` instruction (inline assembly, not translatable by Kani): a CPU that
    /// reports no optional features, so the memchr crate's run-time dispatch (`memchr2`,
    /// `memchr2_iter`) selects its SSE2 / byte-by-byte code, which Kani executes for real
    fn stub_cpuid(_leaf: u32, _sub_leaf: u32) -> core::arch::x86_64::CpuidResult {
        core::arch::x86_64::CpuidResult { eax: 0, ebx: 0, ecx: 0, edx: 0 }
    }

    /// replaces `String::from_utf8_lossy` in the harnesses WITHOUT name fields / `.dd`: there it is
    /// only called to quote the offending text in error messages (error TEXT is not part of the
    /// contract; `Utf8Chunks` over a symbolic line is out of CBMC's reach: > 900 s)
    fn stub_lossy(_v: &[u8]) -> std::borrow::Cow<'_, str> {
        std::borrow::Cow::Borrowed("")
    }

    // ------------------------------------------------------------------ templates

    /// position of the `n`-th (0-based) placeholder `#` in a template (evaluated at compile time)
    const fn hole_pos<const L: usize>(t: &[u8; L], n: usize) -> usize {
        let mut i = 0;
        let mut k = 0;
        while i < L {
            if t[i] == b'#' {
                if k == n {
                    return i;
                }
                k += 1;
            }
            i += 1;
        }
        usize::MAX // no such hole: using it as an index fails
    }
    const fn count_lines<const L: usize>(t: &[u8; L]) -> usize {
        let mut i = 0;
        let mut n = 0;
        while i < L {
            if t[i] == b'\n' {
                n += 1;
            }
            i += 1;
        }
        n
    }
    /// offsets one past each `\n`
    const fn line_ends<const L: usize, const N: usize>(t: &[u8; L]) -> [usize; N] {
        let mut e = [0usize; N];
        let mut i = 0;
        let mut n = 0;
        while i < L {
            if t[i] == b'\n' {
                e[n] = i + 1;
                n += 1;
            }
            i += 1;
        }
        e
    }

    /// `template!(name, number_of_holes, b"text with # holes")` defines module `name` with the
    /// text `T`, its number of lines `N`, line end offsets `E` and the hole positions `H0..H2` as
    /// compile-time constants
    macro_rules! template {
        ($m:ident, $holes:expr, $s:expr) => {
            mod $m {
                pub const T: [u8; $s.len()] = *$s;
                pub const N: usize = super::count_lines(&T);
                pub const E: [usize; N] = super::line_ends(&T);
                pub const H0: usize = super::hole_pos(&T, 0);
                pub const H1: usize = super::hole_pos(&T, if $holes > 1 { 1 } else { 0 });
                pub const H2: usize = super::hole_pos(&T, if $holes > 2 { 2 } else { 0 });
            }
        };
    }

    /// In-memory reader over a template instance.  `read_until(b'\n')` hands out the template's
    /// lines (line boundaries are compile-time constants; every harness keeps `\n` out of the
    /// holes, so these ARE the lines of the input).  Everything else behaves like `&[u8]`.
    /// Why not std's `impl BufRead for &[u8]`: its `read_until` uses `core::slice::memchr`
    /// (word-at-a-time after `align_offset`, which is symbolic under CBMC): one symbolic digit
    /// in the 119-byte template: out of memory at 12 GB after 507 s; even the fully concrete
    /// template: 365 s of symbolic execution, then the solver ran out of memory.
    struct LineRd<'a> {
        buf: &'a [u8],
        ends: &'a [usize],
        next: usize,
        pos: usize,
        /// number of lines before end of file (<= ends.len(); for truncated inputs)
        limit: usize,
    }
    impl<'a> LineRd<'a> {
        fn new(buf: &'a [u8], ends: &'a [usize]) -> Self {
            LineRd { buf, ends, next: 0, pos: 0, limit: ends.len() }
        }
        fn exhausted(&self) -> bool {
            self.pos == self.buf.len()
        }
    }
    impl io::Read for LineRd<'_> {
        fn read(&mut self, out: &mut [u8]) -> io::Result<usize> {
            if out.is_empty() || self.pos >= self.buf.len() {
                return Ok(0);
            }
            out[0] = self.buf[self.pos];
            self.pos += 1;
            Ok(1)
        }
    }
    impl io::BufRead for LineRd<'_> {
        fn fill_buf(&mut self) -> io::Result<&[u8]> {
            Ok(&self.buf[self.pos..])
        }
        fn consume(&mut self, n: usize) {
            self.pos += n;
        }
        fn read_until(&mut self, byte: u8, out: &mut Vec<u8>) -> io::Result<usize> {
            assert!(byte == b'\n');
            if self.next >= self.limit || self.next >= self.ends.len() {
                return Ok(0);
            }
            let e = self.ends[self.next];
            let n = e - self.pos;
            // byte-wise copy into a buffer that never has to grow: CBMC keeps the concrete bytes
            // of the line as constants (memcpy / realloc are whole-array operations to CBMC
            // which hide every byte of the line, including the key, from constant propagation)
            out.reserve(MAX_LINE);
            while self.pos < e {
                out.push(self.buf[self.pos]);
                self.pos += 1;
            }
            self.next += 1;
            Ok(n)
        }
    }

    /// upper bound on the length of a template line including its `\n`
    const MAX_LINE: usize = 40;

    fn digit(c: u8) -> bool {
        c >= b'0' && c <= b'9'
    }

    // ------------------------------------------------------------------ specification (I)
    // Written from the documentation of the accessors of `DumpHeader` (import.rs:359-471) and of
    // `import()` (import.rs:474-495), not from the validation code.

    /// (I) for a header with `NS` support variables and `NR` roots (the numbers announced by the
    /// template; compile-time constants so that the loops below are concrete for CBMC)
    fn check_invariant<const NS: usize, const NR: usize>(h: &DumpHeader) {
        let n = NS;
        assert!(h.ids.len() == NS, "(I) num_support_vars() == announced .nsuppvars");
        // support_vars(): "integers in strictly ascending order", indices of the original numbering
        let mut i = 0;
        while i < n {
            assert!(h.ids[i] < h.nvars, "(I) every .ids entry < .nvars");
            if i + 1 < n {
                assert!(h.ids[i] < h.ids[i + 1], "(I) .ids strictly ascending");
            }
            i += 1;
        }
        // support_var_to_level(): "always num_support_vars() elements long", a level per support variable
        assert!(h.permids.len() == n, "(I) |permids| == |ids|");
        let mut i = 0;
        while i < n {
            assert!(h.permids[i] < h.nvars, "(I) every .permids entry < .nvars");
            let mut j = i + 1;
            while j < n {
                assert!(h.permids[i] != h.permids[j], "(I) .permids pairwise distinct");
                j += 1;
            }
            i += 1;
        }
        // support_var_order(): "always num_support_vars() elements long ... mapping from positions
        // to variable numbers": position = rank of the variable's level among the support levels
        assert!(h.support_var_order.len() == n, "(I) |support_var_order| == |ids|");
        let mut i = 0;
        while i < n {
            let mut rank = 0usize;
            let mut j = 0;
            while j < n {
                if h.permids[j] < h.permids[i] {
                    rank += 1;
                }
                j += 1;
            }
            assert!(h.support_var_order[rank] == h.ids[i], "(I) support_var_order = ids sorted by permid");
            i += 1;
        }
        // auxiliary_var_ids(): "contains num_support_vars() elements" (optional field)
        assert!(h.auxids.is_empty() || h.auxids.len() == n, "(I) |auxids| == |ids| if present");
        // var_names(): "If present, the returned slice contains num_vars() many elements"
        assert!(h.varnames.is_empty() || h.varnames.len() == h.nvars as usize, "(I) |varnames| == nvars if present");
        // root ids: non-zero node ids 1..=nnodes, sign = complement (what import() indexes with)
        let m = NR;
        assert!(h.rootids.len() == NR, "(I) num_roots() == announced .nroots");
        let mut i = 0;
        while i < m {
            let r = h.rootids[i];
            assert!(r != 0, "(I) root id != 0");
            assert!(r.unsigned_abs() <= h.nnodes, "(I) |root id| <= nnodes");
            i += 1;
        }
        // root_names(): "if present, in the same order as returned by import()"
        assert!(h.rootnames.is_empty() || h.rootnames.len() == m, "(I) |rootnames| == nroots if present");
    }

    // ------------------------------------------------------------------ harness helpers

    fn blank(c: u8) -> bool {
        c == b' ' || c == b'\t'
    }

    /// the real loader on a template instance; second component: input consumed up to the end
    /// (the templates end with the `.nodes` line, where `import()` expects the cursor)
    fn load_from(buf: &[u8], ends: &[usize]) -> (io::Result<DumpHeader>, bool) {
        let mut inp = LineRd::new(buf, ends);
        let r = DumpHeader::load(&mut inp);
        let done = inp.exhausted();
        (r, done)
    }

    /// metadata of template T1 that no harness varies: ASCII mode, no variable info
    fn check_t1_mode(h: &DumpHeader) {
        assert!(h.ascii, "metadata: .mode A");
        assert!(h.varinfo == VarInfo::None, "metadata: .varinfo 4");
        assert!(h.dd.is_empty() && h.auxids.is_empty() && h.rootnames.is_empty() && h.varnames.is_empty());
    }

    /// T1: support {0, 2}, variable 0 on level 1, variable 2 on level 0
    fn check_t1_support(h: &DumpHeader) {
        assert!(h.ids.len() == 2 && h.ids[0] == 0 && h.ids[1] == 2, "metadata: .ids 0 2");
        assert!(h.permids.len() == 2 && h.permids[0] == 1 && h.permids[1] == 0, "metadata: .permids 1 0");
        assert!(h.support_var_order[0] == 2 && h.support_var_order[1] == 0, "support order: level 0 = var 2, level 1 = var 0");
    }

    // ------------------------------------------------------------------ template T1
    // 3 variables, support {0, 2} (variable 2 on level 0, variable 0 on level 1), 3 nodes, 2 roots:
    //   .ver DDDMP-2.0 / .mode A / .varinfo 4 / .nnodes 3 / .nvars 3 / .nsuppvars 2 / .ids 0 2 /
    //   .permids 1 0 / .nroots 2 / .rootids 2 -3 / .nodes
    // Each harness opens 1-2 positions (`#`).  A byte hole ranges over ALL bytes except `\n`.

    // ---------------- .rootids
    template!(t_root1, 1, b".ver DDDMP-2.0\n.mode A\n.varinfo 4\n.nnodes 3\n.nvars 3\n.nsuppvars 2\n.ids 0 2\n.permids 1 0\n.nroots 2\n.rootids -# 2\n.nodes\n");

    /// `.rootids -B 2`, B any byte but `\n`.  Documented: root ids are non-zero decimal integers
    /// (negative = complemented) referring to nodes 1..=nnodes (=3).
    /// (P) no panic; (R) anything but a digit 1..=3 => Err; digit 1..=3 => Ok, (I), metadata.
    #[kani::proof]
    #[kani::unwind(17)]
    #[kani::stub(alloc::fmt::format, stub_format)]
    #[kani::stub(core::arch::x86_64::__cpuid_count, stub_cpuid)]
    #[kani::stub(alloc::string::String::from_utf8_lossy, stub_lossy)]
    fn rootids_one_byte() {
        use t_root1::*;
        let mut buf = T;
        let c: u8 = kani::any();
        kani::assume(c != b'\n');
        buf[H0] = c;
        let (r, done) = load_from(&buf, &E);
        let valid = c >= b'1' && c <= b'3';
        match &r {
            Ok(h) => {
                assert!(valid, "(R) root id 0, > nnodes, or malformed must be rejected");
                check_invariant::<2, 2>(h);
                check_t1_mode(h);
                check_t1_support(h);
                assert!(h.nnodes == 3 && h.nvars == 3);
                assert!(h.rootids.len() == 2 && h.rootids[0] == -((c - b'0') as isize) && h.rootids[1] == 2, "metadata: .rootids");
                assert!(done, "cursor is positioned after the .nodes line");
            }
            Err(_) => assert!(!valid, "a header satisfying all documented requirements is accepted"),
        }
        kani::cover!(r.is_ok() && c == b'3', "in range, upper end");
        kani::cover!(r.is_ok() && c == b'1', "in range, lower end");
        kani::cover!(r.is_err() && c == b'0', "zero");
        kani::cover!(r.is_err() && c == b'4', "out of range");
        kani::cover!(r.is_err() && c == b'-', "double sign");
        kani::cover!(r.is_err() && c == b' ', "blank after sign");
        kani::cover!(r.is_err() && c == b'\r', "carriage return");
        kani::cover!(r.is_err() && c == 0xff, "non-ASCII byte");
        core::mem::forget(r);
    }

    template!(t_root2, 1, b".ver DDDMP-2.0\n.mode A\n.varinfo 4\n.nnodes 3\n.nvars 3\n.nsuppvars 2\n.ids 0 2\n.permids 1 0\n.nroots 2\n.rootids 2 #3\n.nodes\n");

    /// `.rootids 2 S3`, S any byte but `\n` (sign, blank, or a leading digit).  The second entry
    /// denotes -3 (S = '-'), 3 (S blank or '0'), or 13..93; valid iff S in {'-', ' ', TAB, '0'}.
    #[kani::proof]
    #[kani::unwind(17)]
    #[kani::stub(alloc::fmt::format, stub_format)]
    #[kani::stub(core::arch::x86_64::__cpuid_count, stub_cpuid)]
    #[kani::stub(alloc::string::String::from_utf8_lossy, stub_lossy)]
    fn rootids_sign_byte() {
        use t_root2::*;
        let mut buf = T;
        let s: u8 = kani::any();
        kani::assume(s != b'\n');
        buf[H0] = s;
        let (r, done) = load_from(&buf, &E);
        let valid = s == b'-' || blank(s) || s == b'0';
        match &r {
            Ok(h) => {
                assert!(valid, "(R) root id > nnodes or malformed must be rejected");
                check_invariant::<2, 2>(h);
                check_t1_mode(h);
                check_t1_support(h);
                assert!(h.nnodes == 3 && h.nvars == 3);
                let v: isize = if s == b'-' { -3 } else { 3 };
                assert!(h.rootids.len() == 2 && h.rootids[0] == 2 && h.rootids[1] == v, "metadata: .rootids (sign = complement)");
                assert!(done);
            }
            Err(_) => assert!(!valid, "a header satisfying all documented requirements is accepted"),
        }
        kani::cover!(r.is_ok() && s == b'-', "complemented root");
        kani::cover!(r.is_ok() && s == b'0', "leading zero");
        kani::cover!(r.is_ok() && s == b'\t', "tab separated");
        kani::cover!(r.is_err() && s == b'1', "two digits, out of range");
        kani::cover!(r.is_err() && s == b'+', "plus sign is not allowed");
        kani::cover!(r.is_err() && s == b'\r', "carriage return inside the line");
        core::mem::forget(r);
    }

    // ---------------- .ids / .permids
    // ------------------------------------------------------------------ template T3
    // 4 variables, support {0, x, 3} on levels {2, 1, 0}, 3 nodes, 2 roots (three list entries, so
    // that a hole can sit in the MIDDLE of a list: a hole in the first byte of a value makes the
    // start of the trimmed slice symbolic, which alone exceeds 12 GB)

    template!(t3_ids, 1, b".ver DDDMP-2.0\n.mode A\n.varinfo 4\n.nnodes 3\n.nvars 4\n.nsuppvars 3\n.ids 0 # 3\n.permids 2 1 0\n.nroots 2\n.rootids 2 -3\n.nodes\n");

    /// `.ids 0 A 3`, A any byte but `\n`.  Documented (support_vars()): num_support_vars() (=3)
    /// integers in strictly ascending order (< nvars = 4).  valid iff A is the digit 1 or 2.
    #[kani::proof]
    #[kani::unwind(17)]
    #[kani::stub(alloc::fmt::format, stub_format)]
    #[kani::stub(core::arch::x86_64::__cpuid_count, stub_cpuid)]
    #[kani::stub(alloc::string::String::from_utf8_lossy, stub_lossy)]
    fn ids_middle_byte() {
        use t3_ids::*;
        let mut buf = T;
        let a: u8 = kani::any();
        kani::assume(a != b'\n');
        buf[H0] = a;
        let (r, done) = load_from(&buf, &E);
        let valid = a == b'1' || a == b'2';
        match &r {
            Ok(h) => {
                assert!(valid, "(R) .ids not strictly ascending / wrong count / malformed must be rejected");
                check_invariant::<3, 2>(h);
                check_t1_mode(h);
                assert!(h.nnodes == 3 && h.nvars == 4);
                let d = (a - b'0') as u32;
                assert!(h.ids[0] == 0 && h.ids[1] == d && h.ids[2] == 3, "metadata: .ids");
                assert!(h.permids[0] == 2 && h.permids[1] == 1 && h.permids[2] == 0, "metadata: .permids");
                assert!(h.support_var_order[0] == 3 && h.support_var_order[1] == d && h.support_var_order[2] == 0, "support variables by level");
                assert!(h.rootids[0] == 2 && h.rootids[1] == -3);
                assert!(done);
            }
            Err(_) => assert!(!valid, "a header satisfying all documented requirements is accepted"),
        }
        kani::cover!(r.is_ok() && a == b'1', "in range");
        kani::cover!(r.is_ok() && a == b'2', "in range, upper end");
        kani::cover!(r.is_err() && a == b'0', "duplicate of the predecessor");
        kani::cover!(r.is_err() && a == b'3', "duplicate of the successor");
        kani::cover!(r.is_err() && a == b'4', "descending and == nvars");
        kani::cover!(r.is_err() && a == b' ', "too few entries");
        kani::cover!(r.is_err() && a == b'-', "sign not allowed");
        core::mem::forget(r);
    }

    template!(t3_ids_last, 1, b".ver DDDMP-2.0\n.mode A\n.varinfo 4\n.nnodes 3\n.nvars 4\n.nsuppvars 3\n.ids 0 1 #3\n.permids 2 1 0\n.nroots 2\n.rootids 2 -3\n.nodes\n");

    /// `.ids 0 1 S3`, S any byte but `\n`: the last entry is 3 (S blank or '0') or 13..93, i.e.
    /// ascending but >= nvars (= 4).  valid iff S in {' ', TAB, '0'}.
    #[kani::proof]
    #[kani::unwind(17)]
    #[kani::stub(alloc::fmt::format, stub_format)]
    #[kani::stub(core::arch::x86_64::__cpuid_count, stub_cpuid)]
    #[kani::stub(alloc::string::String::from_utf8_lossy, stub_lossy)]
    fn ids_last_entry_tens_byte() {
        use t3_ids_last::*;
        let mut buf = T;
        let c: u8 = kani::any();
        kani::assume(c != b'\n');
        buf[H0] = c;
        let (r, done) = load_from(&buf, &E);
        let valid = blank(c) || c == b'0';
        match &r {
            Ok(h) => {
                assert!(valid, "(R) .ids entry >= .nvars / malformed must be rejected");
                check_invariant::<3, 2>(h);
                check_t1_mode(h);
                assert!(h.nnodes == 3 && h.nvars == 4);
                assert!(h.ids[0] == 0 && h.ids[1] == 1 && h.ids[2] == 3, "metadata: .ids");
                assert!(h.support_var_order[0] == 3 && h.support_var_order[1] == 1 && h.support_var_order[2] == 0, "support variables by level");
                assert!(done);
            }
            Err(_) => assert!(!valid, "a header satisfying all documented requirements is accepted"),
        }
        kani::cover!(r.is_ok() && c == b'0', "leading zero");
        kani::cover!(r.is_ok() && c == b' ', "two blanks");
        kani::cover!(r.is_err() && c == b'1', "13 >= nvars");
        kani::cover!(r.is_err() && c == b'9', "93 >= nvars");
        kani::cover!(r.is_err() && c == b'-', "sign not allowed");
        core::mem::forget(r);
    }

    template!(t3_perm, 1, b".ver DDDMP-2.0\n.mode A\n.varinfo 4\n.nnodes 3\n.nvars 4\n.nsuppvars 3\n.ids 0 1 3\n.permids 2 # 0\n.nroots 2\n.rootids 2 -3\n.nodes\n");

    /// `.permids 2 P 0`, P any byte but `\n`.  Documented (support_var_to_level()): one level per
    /// support variable; levels are positions in the variable order (< nvars = 4), hence distinct.
    /// valid iff P is the digit 1 or 3.  Ok => support_var_order is ids sorted by level.
    #[kani::proof]
    #[kani::unwind(17)]
    #[kani::stub(alloc::fmt::format, stub_format)]
    #[kani::stub(core::arch::x86_64::__cpuid_count, stub_cpuid)]
    #[kani::stub(alloc::string::String::from_utf8_lossy, stub_lossy)]
    fn permids_middle_byte() {
        use t3_perm::*;
        let mut buf = T;
        let p: u8 = kani::any();
        kani::assume(p != b'\n');
        buf[H0] = p;
        let (r, done) = load_from(&buf, &E);
        let valid = p == b'1' || p == b'3';
        match &r {
            Ok(h) => {
                assert!(valid, "(R) duplicate / out-of-range / malformed .permids must be rejected");
                check_invariant::<3, 2>(h);
                check_t1_mode(h);
                assert!(h.nnodes == 3 && h.nvars == 4);
                assert!(h.ids[0] == 0 && h.ids[1] == 1 && h.ids[2] == 3, "metadata: .ids");
                assert!(h.permids[0] == 2 && h.permids[1] == (p - b'0') as u32 && h.permids[2] == 0, "metadata: .permids");
                if p == b'1' {
                    // levels: var 3 -> 0, var 1 -> 1, var 0 -> 2
                    assert!(h.support_var_order[0] == 3 && h.support_var_order[1] == 1 && h.support_var_order[2] == 0, "order by level");
                } else {
                    // levels: var 3 -> 0, var 0 -> 2, var 1 -> 3
                    assert!(h.support_var_order[0] == 3 && h.support_var_order[1] == 0 && h.support_var_order[2] == 1, "order by level");
                }
                assert!(h.rootids[0] == 2 && h.rootids[1] == -3);
                assert!(done);
            }
            Err(_) => assert!(!valid, "a header satisfying all documented requirements is accepted"),
        }
        kani::cover!(r.is_ok() && p == b'1', "in range, dense levels");
        kani::cover!(r.is_ok() && p == b'3', "in range, gap in the levels");
        kani::cover!(r.is_err() && p == b'0', "duplicate level");
        kani::cover!(r.is_err() && p == b'2', "duplicate level (first entry)");
        kani::cover!(r.is_err() && p == b'4', "out of range (== nvars)");
        kani::cover!(r.is_err() && p == b' ', "too few entries");
        core::mem::forget(r);
    }

    template!(t3_nsupp2, 1, b".ver DDDMP-2.0\n.mode A\n.varinfo 4\n.nnodes 3\n.nvars 4\n.nsuppvars 2\n.ids 0 # 3\n.permids 2 1 0\n.nroots 2\n.rootids 2 -3\n.nodes\n");

    /// `.nsuppvars 2` but three entries in .permids and `.ids 0 A 3` (A any byte but `\n`; two
    /// entries if A is blank): (R) Err for EVERY A.
    #[kani::proof]
    #[kani::unwind(17)]
    #[kani::stub(alloc::fmt::format, stub_format)]
    #[kani::stub(core::arch::x86_64::__cpuid_count, stub_cpuid)]
    #[kani::stub(alloc::string::String::from_utf8_lossy, stub_lossy)]
    fn nsuppvars_fewer_than_listed() {
        use t3_nsupp2::*;
        let mut buf = T;
        let a: u8 = kani::any();
        kani::assume(a != b'\n');
        kani::cover!(a == b'1', "ids themselves valid");
        kani::cover!(a == b' ', "two ids, three levels");
        buf[H0] = a;
        let (r, _) = load_from(&buf, &E);
        assert!(r.is_err(), "(R) .nsuppvars does not match the number of .ids / .permids entries");
        core::mem::forget(r);
    }

    // ---------------- .nnodes
    template!(t_nnodes, 1, b".ver DDDMP-2.0\n.mode A\n.varinfo 4\n.nnodes #\n.nvars 3\n.nsuppvars 2\n.ids 0 2\n.permids 1 0\n.nroots 2\n.rootids 2 -3\n.nodes\n");

    /// `.nnodes B`, any byte but `\n`; roots are 2 and -3.  valid iff B is a digit >= 3.
    #[kani::proof]
    #[kani::unwind(17)]
    #[kani::stub(alloc::fmt::format, stub_format)]
    #[kani::stub(core::arch::x86_64::__cpuid_count, stub_cpuid)]
    #[kani::stub(alloc::string::String::from_utf8_lossy, stub_lossy)]
    fn nnodes_one_byte() {
        use t_nnodes::*;
        let mut buf = T;
        let c: u8 = kani::any();
        kani::assume(c != b'\n');
        buf[H0] = c;
        let (r, done) = load_from(&buf, &E);
        let valid = digit(c) && c >= b'3';
        match &r {
            Ok(h) => {
                assert!(valid, "(R) a root id beyond .nnodes must be rejected");
                check_invariant::<2, 2>(h);
                check_t1_mode(h);
                check_t1_support(h);
                assert!(h.nnodes == (c - b'0') as usize && h.nvars == 3, "metadata: .nnodes");
                assert!(h.rootids.len() == 2 && h.rootids[0] == 2 && h.rootids[1] == -3);
                assert!(done);
            }
            Err(_) => assert!(!valid, "a header satisfying all documented requirements is accepted"),
        }
        kani::cover!(r.is_ok() && c == b'3', "exactly enough nodes");
        kani::cover!(r.is_ok() && c == b'9', "more nodes");
        kani::cover!(r.is_err() && c == b'2', "root beyond nnodes");
        kani::cover!(r.is_err() && c == b'0', "zero nodes");
        kani::cover!(r.is_err() && c == b'-', "negative");
        kani::cover!(r.is_err() && c == b' ', "missing value");
        kani::cover!(r.is_err() && c == b'\r', "carriage return only");
        core::mem::forget(r);
    }

    // ---------------- .mode / .varinfo
    template!(t_mode, 2, b".ver DDDMP-2.0\n.mode #\n.varinfo #\n.nnodes 3\n.nvars 3\n.nsuppvars 2\n.ids 0 2\n.permids 1 0\n.nroots 2\n.rootids 2 -3\n.nodes\n");

    /// `.mode M` / `.varinfo V`, any bytes but `\n`.  Documented: `.mode A|B`; .varinfo 0..=4.
    #[kani::proof]
    #[kani::unwind(17)]
    #[kani::stub(alloc::fmt::format, stub_format)]
    #[kani::stub(core::arch::x86_64::__cpuid_count, stub_cpuid)]
    #[kani::stub(alloc::string::String::from_utf8_lossy, stub_lossy)]
    fn mode_varinfo_bytes() {
        use t_mode::*;
        let mut buf = T;
        let (m, v): (u8, u8) = (kani::any(), kani::any());
        kani::assume(m != b'\n' && v != b'\n');
        buf[H0] = m;
        buf[H1] = v;
        let (r, done) = load_from(&buf, &E);
        let valid = (m == b'A' || m == b'B') && v >= b'0' && v <= b'4';
        match &r {
            Ok(h) => {
                assert!(valid, "(R) unknown .mode / .varinfo must be rejected");
                check_invariant::<2, 2>(h);
                check_t1_support(h);
                assert!(h.ascii == (m == b'A'), "metadata: .mode");
                let vi = match v {
                    b'0' => VarInfo::VariableID,
                    b'1' => VarInfo::PermutationID,
                    b'2' => VarInfo::AuxiliaryID,
                    b'3' => VarInfo::VariableName,
                    _ => VarInfo::None,
                };
                assert!(h.varinfo == vi, "metadata: .varinfo");
                assert!(h.nnodes == 3 && h.nvars == 3);
                assert!(h.rootids.len() == 2 && h.rootids[0] == 2 && h.rootids[1] == -3);
                assert!(done);
            }
            Err(_) => assert!(!valid, "a header satisfying all documented requirements is accepted"),
        }
        kani::cover!(r.is_ok() && m == b'B' && v == b'0', "binary mode");
        kani::cover!(r.is_ok() && m == b'A' && v == b'4', "ascii mode");
        kani::cover!(r.is_err() && m == b'C', "unknown mode");
        kani::cover!(r.is_err() && m == b'A' && v == b'5', "unknown varinfo");
        kani::cover!(r.is_err() && m == b' ', "missing mode");
        core::mem::forget(r);
    }

    // ---------------- counts (.nvars / .nsuppvars / .nroots): the loader allocates by these
    // numbers, so every value is run with a CONCRETE digit (no symbolic allocation sizes)

    template!(t_nvars, 1, b".ver DDDMP-2.0\n.mode A\n.varinfo 4\n.nnodes 3\n.nvars #\n.nsuppvars 2\n.ids 0 2\n.permids 1 0\n.nroots 2\n.rootids 2 -3\n.nodes\n");

    /// `.nvars D`, D digit; support is {0, 2} on levels {1, 0}, .nsuppvars 2.
    /// valid iff D >= 3 (all ids / levels < nvars, nsuppvars <= nvars).
    #[kani::proof]
    #[kani::unwind(17)]
    #[kani::stub(alloc::fmt::format, stub_format)]
    #[kani::stub(core::arch::x86_64::__cpuid_count, stub_cpuid)]
    #[kani::stub(alloc::string::String::from_utf8_lossy, stub_lossy)]
    fn nvars_digit() {
        use t_nvars::*;
        let d: u8 = kani::any();
        kani::assume(digit(d));
        let k = d;
        {
            {
                let mut buf = T;
                buf[H0] = k;
                let (r, done) = load_from(&buf, &E);
                let valid = k >= b'3';
                match &r {
                    Ok(h) => {
                        assert!(valid, "(R) .ids / .permids entry >= .nvars or .nsuppvars > .nvars must be rejected");
                        check_invariant::<2, 2>(h);
                        check_t1_mode(h);
                        check_t1_support(h);
                        assert!(h.nvars == (k - b'0') as u32 && h.nnodes == 3, "metadata: .nvars");
                        assert!(h.rootids.len() == 2 && h.rootids[0] == 2 && h.rootids[1] == -3);
                        assert!(done);
                    }
                    Err(_) => assert!(!valid, "a header satisfying all documented requirements is accepted"),
                }
                kani::cover!(r.is_ok() && k == b'3', "just enough variables");
                kani::cover!(r.is_ok() && k == b'9', "unused variables");
                kani::cover!(r.is_err() && k == b'2', "id == nvars");
                kani::cover!(r.is_err() && k == b'1', "nsuppvars > nvars");
                kani::cover!(r.is_err() && k == b'0', "no variables");
                core::mem::forget(r);
            }
        }
    }

    template!(t_nsupp, 1, b".ver DDDMP-2.0\n.mode A\n.varinfo 4\n.nnodes 3\n.nvars 3\n.nsuppvars #\n.ids 0 2\n.permids 1 0\n.nroots 2\n.rootids 2 -3\n.nodes\n");

    /// `.nsuppvars D`, D digit; two entries in .ids / .permids.  valid iff D == 2.
    #[kani::proof]
    #[kani::unwind(17)]
    #[kani::stub(alloc::fmt::format, stub_format)]
    #[kani::stub(core::arch::x86_64::__cpuid_count, stub_cpuid)]
    #[kani::stub(alloc::string::String::from_utf8_lossy, stub_lossy)]
    fn nsuppvars_digit() {
        use t_nsupp::*;
        let d: u8 = kani::any();
        kani::assume(digit(d));
        let k = d;
        {
            {
                let mut buf = T;
                buf[H0] = k;
                let (r, done) = load_from(&buf, &E);
                let valid = k == b'2';
                match &r {
                    Ok(h) => {
                        assert!(valid, "(R) .nsuppvars different from the number of .ids / .permids entries must be rejected");
                        check_invariant::<2, 2>(h);
                        check_t1_mode(h);
                        check_t1_support(h);
                        assert!(h.nvars == 3 && h.nnodes == 3);
                        assert!(h.rootids.len() == 2 && h.rootids[0] == 2 && h.rootids[1] == -3);
                        assert!(done);
                    }
                    Err(_) => assert!(!valid, "a header satisfying all documented requirements is accepted"),
                }
                kani::cover!(r.is_ok() && k == b'2', "matching count");
                kani::cover!(r.is_err() && k == b'3', "announces more than listed");
                kani::cover!(r.is_err() && k == b'1', "announces fewer than listed");
                kani::cover!(r.is_err() && k == b'4', "more than nvars");
                core::mem::forget(r);
            }
        }
    }

    template!(t_nroots, 1, b".ver DDDMP-2.0\n.mode A\n.varinfo 4\n.nnodes 3\n.nvars 3\n.nsuppvars 2\n.ids 0 2\n.permids 1 0\n.nroots #\n.rootids 2 -3\n.nodes\n");

    /// `.nroots D`, D digit; two entries in .rootids.  valid iff D == 2 ("import() returns
    /// this number of roots").
    #[kani::proof]
    #[kani::unwind(17)]
    #[kani::stub(alloc::fmt::format, stub_format)]
    #[kani::stub(core::arch::x86_64::__cpuid_count, stub_cpuid)]
    #[kani::stub(alloc::string::String::from_utf8_lossy, stub_lossy)]
    fn nroots_digit() {
        use t_nroots::*;
        let d: u8 = kani::any();
        kani::assume(digit(d));
        let k = d;
        {
            {
                let mut buf = T;
                buf[H0] = k;
                let (r, done) = load_from(&buf, &E);
                let valid = k == b'2';
                match &r {
                    Ok(h) => {
                        assert!(valid, "(R) .nroots different from the number of .rootids entries must be rejected");
                        check_invariant::<2, 2>(h);
                        check_t1_mode(h);
                        check_t1_support(h);
                        assert!(h.nvars == 3 && h.nnodes == 3);
                        assert!(h.rootids.len() == (k - b'0') as usize, "num_roots() == .nroots");
                        assert!(h.rootids[0] == 2 && h.rootids[1] == -3);
                        assert!(done);
                    }
                    Err(_) => assert!(!valid, "a header satisfying all documented requirements is accepted"),
                }
                kani::cover!(r.is_ok() && k == b'2', "matching count");
                kani::cover!(r.is_err() && k == b'3', "announces more than listed");
                kani::cover!(r.is_err() && k == b'1', "announces fewer than listed");
                kani::cover!(r.is_err() && k == b'0', "announces none");
                core::mem::forget(r);
            }
        }
    }

    // ---------------- count mismatches with CONCRETE counts (the loader allocates by the counts;
    // symbolic counts exceed 12 GB, see nvars_digit / nsuppvars_digit / nroots_digit above)

    template!(t_nroots3, 1, b".ver DDDMP-2.0\n.mode A\n.varinfo 4\n.nnodes 3\n.nvars 3\n.nsuppvars 2\n.ids 0 2\n.permids 1 0\n.nroots 3\n.rootids -# 2\n.nodes\n");

    /// `.nroots 3` but two entries `-D 2` (D digit) in .rootids: (R) Err for every D
    /// ("import() returns this number of roots").
    #[kani::proof]
    #[kani::unwind(17)]
    #[kani::stub(alloc::fmt::format, stub_format)]
    #[kani::stub(core::arch::x86_64::__cpuid_count, stub_cpuid)]
    #[kani::stub(alloc::string::String::from_utf8_lossy, stub_lossy)]
    fn nroots_more_than_listed() {
        use t_nroots3::*;
        let mut buf = T;
        let d: u8 = kani::any();
        kani::assume(digit(d));
        kani::cover!(d == b'3', "root ids themselves valid");
        kani::cover!(d == b'9', "assumed region");
        buf[H0] = d;
        let (r, _) = load_from(&buf, &E);
        assert!(r.is_err(), "(R) .nroots does not match the number of .rootids entries");
        core::mem::forget(r);
    }

    // `.nroots` = usize::MAX (concrete: the loader reserves memory by this number), one open root digit
    template!(t_nroots_huge, 1, b".ver DDDMP-2.0\n.mode A\n.varinfo 4\n.nnodes 3\n.nvars 3\n.nsuppvars 2\n.ids 0 2\n.permids 1 0\n.nroots 18446744073709551615\n.rootids -# 2\n.nodes\n");

    /// `.nroots 18446744073709551615` with two entries in .rootids (`-D 2`, D digit): malformed for
    /// every D (count mismatch).  (P) no panic, (R) Err.
    #[kani::proof]
    #[kani::unwind(31)]
    #[kani::stub(alloc::fmt::format, stub_format)]
    #[kani::stub(core::arch::x86_64::__cpuid_count, stub_cpuid)]
    #[kani::stub(alloc::string::String::from_utf8_lossy, stub_lossy)]
    fn nroots_usize_max() {
        use t_nroots_huge::*;
        let mut buf = T;
        let d: u8 = kani::any();
        kani::assume(digit(d));
        kani::cover!(d == b'3', "root ids themselves valid");
        kani::cover!(d == b'9', "assumed region");
        buf[H0] = d;
        let (r, _) = load_from(&buf, &E);
        assert!(r.is_err(), "(R) .nroots does not match the number of .rootids entries");
        core::mem::forget(r);
    }

    // ---------------- integer boundaries (20-digit numbers; usize::MAX = 18446744073709551615)
    template!(t_nnodes_max, 1, b".ver DDDMP-2.0\n.mode A\n.varinfo 4\n.nnodes 1844674407370955161#\n.nvars 3\n.nsuppvars 2\n.ids 0 2\n.permids 1 0\n.nroots 2\n.rootids 2 -3\n.nodes\n");

    /// `.nnodes 1844674407370955161D`: "Fails if ... the integer is too large for the return
    /// type".  D <= 5: Ok with exactly that value (no wrap-around); D > 5: Err.
    #[kani::proof]
    #[kani::unwind(31)]
    #[kani::stub(alloc::fmt::format, stub_format)]
    #[kani::stub(core::arch::x86_64::__cpuid_count, stub_cpuid)]
    #[kani::stub(alloc::string::String::from_utf8_lossy, stub_lossy)]
    fn nnodes_usize_boundary() {
        use t_nnodes_max::*;
        let mut buf = T;
        let d: u8 = kani::any();
        kani::assume(digit(d));
        buf[H0] = d;
        let (r, done) = load_from(&buf, &E);
        let valid = d <= b'5';
        match &r {
            Ok(h) => {
                assert!(valid, "(R) a number that does not fit into usize must be rejected, not wrapped");
                check_invariant::<2, 2>(h);
                check_t1_mode(h);
                check_t1_support(h);
                assert!(h.nnodes == 18446744073709551610usize + (d - b'0') as usize, "metadata: .nnodes exact");
                assert!(h.nvars == 3 && h.rootids[0] == 2 && h.rootids[1] == -3);
                assert!(done);
            }
            Err(_) => assert!(!valid, "a header satisfying all documented requirements is accepted"),
        }
        kani::cover!(r.is_ok() && d == b'5', "usize::MAX");
        kani::cover!(r.is_err() && d == b'6', "usize::MAX + 1");
        kani::cover!(r.is_err() && d == b'9', "assumed region");
        core::mem::forget(r);
    }

    // ---------------- truncated files (fully concrete inputs, one per harness)
    template!(t_full, 0, b".ver DDDMP-2.0\n.mode A\n.varinfo 4\n.nnodes 3\n.nvars 3\n.nsuppvars 2\n.ids 0 2\n.permids 1 0\n.nroots 2\n.rootids 2 -3\n.nodes\n");

    /// The template cut off after `K` complete lines (K < 11): a header that ends before its
    /// `.nodes` line is rejected ("unexpected end of file"), not accepted, no panic.
    fn truncated<const K: usize>() {
        use t_full::*;
        let mut buf = T;
        buf[0] = b'.'; // (a store makes CBMC keep the array as individual constants)
        let mut inp = LineRd::new(&buf, &E);
        inp.limit = K;
        let r = DumpHeader::load(&mut inp);
        assert!(r.is_err(), "(R) a header that ends before .nodes must be rejected");
        core::mem::forget(r);
    }

    /// only the `.nodes` line is missing
    #[kani::proof]
    #[kani::unwind(17)]
    #[kani::stub(alloc::fmt::format, stub_format)]
    #[kani::stub(core::arch::x86_64::__cpuid_count, stub_cpuid)]
    #[kani::stub(alloc::string::String::from_utf8_lossy, stub_lossy)]
    fn truncated_before_nodes() {
        truncated::<{ t_full::N - 1 }>();
    }

    /// the file ends in the middle of the header (after `.nsuppvars`)
    #[kani::proof]
    #[kani::unwind(17)]
    #[kani::stub(alloc::fmt::format, stub_format)]
    #[kani::stub(core::arch::x86_64::__cpuid_count, stub_cpuid)]
    #[kani::stub(alloc::string::String::from_utf8_lossy, stub_lossy)]
    fn truncated_after_6_lines() {
        truncated::<6>();
    }

    /// The complete concrete template T1 is accepted with exactly the announced metadata
    /// ("header metadata survives"), including the number of header lines used by `import()`
    /// for error messages.
    #[kani::proof]
    #[kani::unwind(17)]
    #[kani::stub(alloc::fmt::format, stub_format)]
    #[kani::stub(core::arch::x86_64::__cpuid_count, stub_cpuid)]
    #[kani::stub(alloc::string::String::from_utf8_lossy, stub_lossy)]
    fn complete_template_accepted() {
        use t_full::*;
        let mut buf = T;
        buf[0] = b'.';
        let (r, done) = load_from(&buf, &E);
        match &r {
            Ok(h) => {
                check_invariant::<2, 2>(h);
                check_t1_mode(h);
                check_t1_support(h);
                assert!(h.nnodes == 3 && h.nvars == 3 && h.rootids[0] == 2 && h.rootids[1] == -3);
                assert!(h.lines == N, "number of header lines including .nodes");
                assert!(done);
            }
            Err(_) => assert!(false, "the complete header is accepted"),
        }
        core::mem::forget(r);
    }

    // ------------------------------------------------------------------ template T4: names
    // T3 plus `.orderedvarnames d c a b` (names by level) and `.rootnames f g`

    template!(t_names, 1, b".ver DDDMP-2.0\n.mode A\n.varinfo 4\n.nnodes 3\n.nvars 4\n.nsuppvars 3\n.orderedvarnames d c a b\n.ids 0 1 3\n.permids 2 # 0\n.nroots 2\n.rootids 2 -3\n.rootnames f g\n.nodes\n");

    /// `.permids 2 P 0` (P digit) with `.orderedvarnames d c a b` as the only name table.
    /// Documented (var_names()): nvars names in the ORIGINAL variable order, all non-empty; the
    /// support variable ids[i] is the one on level permids[i], so it carries the name at that
    /// position of `.orderedvarnames`.  valid iff P in {1, 3}.
    /// (`String::from_utf8_lossy` is NOT stubbed here.)
    #[kani::proof]
    #[kani::unwind(27)]
    #[kani::stub(alloc::fmt::format, stub_format)]
    #[kani::stub(core::arch::x86_64::__cpuid_count, stub_cpuid)]
    fn orderedvarnames_permid_digit() {
        use t_names::*;
        let mut buf = T;
        let p: u8 = kani::any();
        kani::assume(digit(p));
        buf[H0] = p;
        let (r, done) = load_from(&buf, &E);
        let valid = p == b'1' || p == b'3';
        match &r {
            Ok(h) => {
                assert!(valid, "(R) duplicate / out-of-range .permids must be rejected");
                check_invariant::<3, 2>(h);
                assert!(h.nvars == 4 && h.ids[0] == 0 && h.ids[1] == 1 && h.ids[2] == 3);
                assert!(h.varnames.len() == 4, "var_names(): nvars entries");
                let n0 = h.varnames[0].as_bytes();
                let n1 = h.varnames[1].as_bytes();
                let n2 = h.varnames[2].as_bytes();
                let n3 = h.varnames[3].as_bytes();
                assert!(n0.len() == 1 && n1.len() == 1 && n2.len() == 1 && n3.len() == 1, "all names non-empty (single letters here)");
                // levels: 0 -> d, 1 -> c, 2 -> a, 3 -> b; variable 3 on level 0, variable 0 on level 2,
                // variable 1 on level P, variable 2 unused
                assert!(n3[0] == b'd', "variable 3 is on level 0");
                assert!(n0[0] == b'a', "variable 0 is on level 2");
                if p == b'1' {
                    assert!(n1[0] == b'c' && n2[0] == b'b', "variable 1 on level 1; the unused variable gets the remaining name");
                } else {
                    assert!(n1[0] == b'b' && n2[0] == b'c', "variable 1 on level 3; the unused variable gets the remaining name");
                }
                assert!(h.rootnames.len() == 2, "root_names(): one per root");
                let (f, g) = (h.rootnames[0].as_bytes(), h.rootnames[1].as_bytes());
                assert!(f.len() == 1 && f[0] == b'f' && g.len() == 1 && g[0] == b'g', "metadata: .rootnames");
                assert!(done);
            }
            Err(_) => assert!(!valid, "a header satisfying all documented requirements is accepted"),
        }
        kani::cover!(r.is_ok() && p == b'1', "valid, dense levels");
        kani::cover!(r.is_ok() && p == b'3', "valid, gap");
        kani::cover!(r.is_err() && p == b'4', "level == nvars (index past the name table)");
        kani::cover!(r.is_err() && p == b'0', "duplicate level");
        core::mem::forget(r);
    }

    // ------------------------------------------------------------------ self tests (must FAIL)

    /// selftest: claims every digit is an acceptable root id -- must be refuted
    #[kani::proof]
    #[kani::unwind(17)]
    #[kani::stub(alloc::fmt::format, stub_format)]
    #[kani::stub(core::arch::x86_64::__cpuid_count, stub_cpuid)]
    #[kani::stub(alloc::string::String::from_utf8_lossy, stub_lossy)]
    fn selftest_every_root_digit_accepted() {
        use t_root1::*;
        let mut buf = T;
        let c: u8 = kani::any();
        kani::assume(digit(c));
        buf[H0] = c;
        let (r, _) = load_from(&buf, &E);
        assert!(r.is_ok(), "SELFTEST: deliberately wrong");
        core::mem::forget(r);
    }

    /// selftest: claims support_var_order() == support_vars() (ignores the levels) -- must be refuted
    #[kani::proof]
    #[kani::unwind(17)]
    #[kani::stub(alloc::fmt::format, stub_format)]
    #[kani::stub(core::arch::x86_64::__cpuid_count, stub_cpuid)]
    #[kani::stub(alloc::string::String::from_utf8_lossy, stub_lossy)]
    fn selftest_order_is_identity() {
        use t_root1::*;
        let mut buf = T;
        let c: u8 = kani::any();
        kani::assume(c >= b'1' && c <= b'3');
        buf[H0] = c;
        let (r, _) = load_from(&buf, &E);
        if let Ok(h) = &r {
            assert!(h.support_var_order[0] == h.ids[0] && h.support_var_order[1] == h.ids[1], "SELFTEST: deliberately wrong");
        }
        core::mem::forget(r);
    }
}
