// Native reproduction of finding H1 (suite kani/dddmp_header): DumpHeader::load / import() allocate by the
// untrusted counts .nroots / .nvars / .nnodes of a DDDMP header and panic ("capacity overflow") or abort
// ("memory allocation of N bytes failed") instead of returning Err.  Public API only.
// Build: scratch crate with `oxidd-dump = { path = "/repo/crates/oxidd-dump" }`, `oxidd = { path = "/repo/crates/oxidd" }`,
// an empty `[workspace]` table and a copy of /repo/Cargo.lock; `cargo build --offline`; run under `ulimit -v 4000000`
// (the three "memory allocation failed" cases need an address-space limit below 17 / 103 GB; the panics do not).
// Observed on the pinned tree (2026-09-26):
//  [1] .nroots 18446744073709551615 + `.rootids -3 2`  -> panic raw_vec: capacity overflow   (the Kani harness input, D = 3)
//  [2] .nroots 1152921504606846976 (2^60)              -> panic capacity overflow
//  [3] .nroots 100000000000000                         -> abort: memory allocation of 800000000000000 bytes failed
//  [4] .nroots usize::MAX + `.rootnames f g`           -> panic capacity overflow (parse_str_list)
//  [5] .nvars 4294967295 + `.varnames a b c`           -> abort: memory allocation of 103079215080 bytes failed
//  [6] .nvars 4294967295                               -> abort: memory allocation of 17179869180 bytes failed (vec![0u32; nvars])
//  [7] .nnodes usize::MAX: load Ok, then import()      -> panic capacity overflow (import_ascii: Vec::with_capacity(header.nnodes))
use oxidd::bdd::BDDFunction;
use oxidd::{Manager, ManagerRef};
use oxidd_dump::dddmp::DumpHeader;

const CASES: &[(&str, &[u8])] = &[
    ("valid template", b".ver DDDMP-2.0\n.mode A\n.varinfo 4\n.nnodes 3\n.nvars 3\n.nsuppvars 2\n.ids 0 2\n.permids 1 0\n.nroots 2\n.rootids 2 -3\n.nodes\n"),
    ("harness input D=3: nroots = usize::MAX", b".ver DDDMP-2.0\n.mode A\n.varinfo 4\n.nnodes 3\n.nvars 3\n.nsuppvars 2\n.ids 0 2\n.permids 1 0\n.nroots 18446744073709551615\n.rootids -3 2\n.nodes\n"),
    ("nroots = 2^60, two rootids", b".ver DDDMP-2.0\n.mode A\n.varinfo 4\n.nnodes 3\n.nvars 3\n.nsuppvars 2\n.ids 0 2\n.permids 1 0\n.nroots 1152921504606846976\n.rootids 2 -3\n.nodes\n"),
    ("nroots = 10^14, two rootids", b".ver DDDMP-2.0\n.mode A\n.varinfo 4\n.nnodes 3\n.nvars 3\n.nsuppvars 2\n.ids 0 2\n.permids 1 0\n.nroots 100000000000000\n.rootids 2 -3\n.nodes\n"),
    ("nroots = usize::MAX, rootnames only", b".ver DDDMP-2.0\n.mode A\n.nnodes 3\n.nvars 3\n.nsuppvars 2\n.ids 0 2\n.permids 1 0\n.nroots 18446744073709551615\n.rootnames f g\n.nodes\n"),
    ("nvars = u32::MAX, varnames", b".ver DDDMP-2.0\n.mode A\n.nnodes 3\n.nvars 4294967295\n.varnames a b c\n.nsuppvars 2\n.ids 0 2\n.permids 1 0\n.nroots 2\n.rootids 2 -3\n.nodes\n"),
    ("nvars = u32::MAX, no names", b".ver DDDMP-2.0\n.mode A\n.nnodes 3\n.nvars 4294967295\n.nsuppvars 2\n.ids 0 2\n.permids 1 0\n.nroots 2\n.rootids 2 -3\n.nodes\n"),
    ("nnodes = usize::MAX then import()", b".ver DDDMP-2.0\n.mode A\n.varinfo 4\n.nnodes 18446744073709551615\n.nvars 3\n.nsuppvars 2\n.ids 0 2\n.permids 0 1\n.nroots 2\n.rootids 2 -3\n.nodes\n1 T 1 0 0\n.end\n"),
];

fn main() {
    let args: Vec<String> = std::env::args().collect();
    if args.len() < 2 {
        // run every case in a child process (allocation failure aborts, which cannot be caught)
        for i in 0..CASES.len() {
            let out = std::process::Command::new(&args[0]).arg(i.to_string()).output().unwrap();
            let err = String::from_utf8_lossy(&out.stderr);
            let first = err.lines().filter(|l| !l.starts_with("note:")).collect::<Vec<_>>().join(" | ");
            println!("[{i}] {:<38} exit={:?} stdout={:?} stderr={:?}", CASES[i].0, out.status, String::from_utf8_lossy(&out.stdout).trim(), first);
        }
        return;
    }
    let i: usize = args[1].parse().unwrap();
    let mut rd: &[u8] = CASES[i].1;
    let r = DumpHeader::load(&mut rd);
    match &r {
        Ok(h) => print!("load: Ok(nnodes={}, nvars={}, roots={})", h.num_nodes(), h.num_vars(), h.num_roots()),
        Err(e) => print!("load: Err({e})"),
    }
    if CASES[i].0.contains("import") {
        let header = r.unwrap();
        let mref = oxidd::bdd::new_manager(1024, 1024, 1);
        mref.with_manager_exclusive(|m| {
            let _ = m.add_vars(3).count();
        });
        let res = mref.with_manager_shared(|m| {
            oxidd_dump::dddmp::import::<BDDFunction>(&mut rd, &header, m, header.support_var_order().iter().copied(), |_, _| unreachable!())
                .map(|v| v.len())
        });
        print!("; import: {:?}", res.map_err(|e| e.to_string()));
    }
}
