// ---- appended by /verif (engine K): apply-cache layer contracts (property C06) ----
//
// Real `DMApplyCache` (entries with unions / UnsafeCell / spin lock) over
// `oxidd_test_utils::edge::{DummyManager, DummyEdge}`.  The hash function is ADVERSARIAL:
//  * key-exactness harnesses use `SeqHasher`: the hash of the i-th hashed key is a value chosen by
//    Kani, constrained only by the `Hash`/`Hasher` contract "equal keys have equal hashes"
//    (so every bucket placement of distinct keys is explored: total collision, different buckets);
//  * all other harnesses use `SymHasher`, whose `finish()` returns a fresh unconstrained value at
//    every call (their postconditions must hold whatever bucket is probed).
#[cfg(kani)]
mod verif_cache {
    use super::*;
    use oxidd_test_utils::edge::{DummyEdge, DummyManager};

    /// hasher whose result is chosen by Kani (independently at every call)
    #[derive(Default)]
    struct SymHasher;
    impl Hasher for SymHasher {
        fn finish(&self) -> u64 {
            kani::any()
        }
        fn write(&mut self, _bytes: &[u8]) {}
    }

    /// Hasher whose i-th result (in call order; the cache hashes exactly once per add/get) is
    /// `SEQ[i]`, set by the harness to values chosen by Kani.
    #[derive(Default)]
    struct SeqHasher;
    static SEQ: [core::sync::atomic::AtomicU64; 3] = [
        core::sync::atomic::AtomicU64::new(0),
        core::sync::atomic::AtomicU64::new(0),
        core::sync::atomic::AtomicU64::new(0),
    ];
    static SEQ_CALLS: core::sync::atomic::AtomicUsize = core::sync::atomic::AtomicUsize::new(0);
    impl Hasher for SeqHasher {
        fn finish(&self) -> u64 {
            use core::sync::atomic::Ordering::Relaxed;
            let i = SEQ_CALLS.fetch_add(1, Relaxed);
            assert!(i < 3, "harness: at most three keys are hashed");
            if i == 0 {
                SEQ[0].load(Relaxed)
            } else if i == 1 {
                SEQ[1].load(Relaxed)
            } else {
                SEQ[2].load(Relaxed)
            }
        }
        fn write(&mut self, _bytes: &[u8]) {}
    }
    /// choose the hashes of k1, k2, k3: arbitrary, but equal keys get equal hashes
    fn choose_hashes<const A: usize, const N: usize>(k1: &Key<A, N>, k2: &Key<A, N>, k3: &Key<A, N>) {
        use core::sync::atomic::Ordering::Relaxed;
        let h: [u64; 3] = kani::any();
        kani::assume(!key_eq(k1, k2) || h[0] == h[1]);
        kani::assume(!key_eq(k1, k3) || h[0] == h[2]);
        kani::assume(!key_eq(k2, k3) || h[1] == h[2]);
        kani::cover!(key_eq(k1, k2) && key_eq(k2, k3) && h[0] == h[1] && h[1] == h[2], "assumed region: all keys equal");
        kani::cover!(!key_eq(k1, k2) && h[0] == h[1], "assumed region: distinct keys colliding");
        kani::cover!(!key_eq(k1, k2) && (h[0] & 1) != (h[1] & 1), "assumed region: distinct keys in different buckets");
        SEQ[0].store(h[0], Relaxed);
        SEQ[1].store(h[1], Relaxed);
        SEQ[2].store(h[2], Relaxed);
        SEQ_CALLS.store(0, Relaxed);
    }
    type SeqCache<const ENTRY_CAP: usize> = DMApplyCache<DummyManager, u8, SeqHasher, ENTRY_CAP>;

    /// entry capacity used by the key-exactness harnesses: 3 edge operands + 2 numeric operands
    /// + 1 edge value + 1 numeric value
    const EC: usize = 7;
    type Cache<const ENTRY_CAP: usize> = DMApplyCache<DummyManager, u8, SymHasher, ENTRY_CAP>;

    fn pick<'a>(es: &'a [DummyEdge; 3], i: u8) -> Borrowed<'a, DummyEdge> {
        if i == 0 {
            es[0].borrowed()
        } else if i == 1 {
            es[1].borrowed()
        } else {
            es[2].borrowed()
        }
    }

    /// symbolic key of shape (A edge operands among 3 distinct edges, N numeric operands)
    #[derive(Clone, Copy)]
    struct Key<const A: usize, const N: usize> {
        op: u8,
        e: [u8; A],
        n: [u32; N],
    }
    fn any_key<const A: usize, const N: usize>() -> Key<A, N> {
        let k = Key { op: kani::any(), e: kani::any(), n: kani::any() };
        let mut i = 0;
        while i < A {
            kani::assume(k.e[i] < 3);
            i += 1;
        }
        k
    }
    fn key_eq<const A: usize, const N: usize>(a: &Key<A, N>, b: &Key<A, N>) -> bool {
        let mut eq = a.op == b.op;
        let mut i = 0;
        while i < A {
            eq &= a.e[i] == b.e[i];
            i += 1;
        }
        let mut i = 0;
        while i < N {
            eq &= a.n[i] == b.n[i];
            i += 1;
        }
        eq
    }
    fn ops<'a, const A: usize, const N: usize>(es: &'a [DummyEdge; 3], k: &Key<A, N>) -> [Borrowed<'a, DummyEdge>; A] {
        core::array::from_fn(|i| pick(es, k.e[i]))
    }
    fn any_val() -> u8 {
        let v: u8 = kani::any();
        kani::assume(v < 3);
        v
    }
    fn release(m: &DummyManager, es: [DummyEdge; 3]) {
        let [e0, e1, e2] = es;
        m.drop_edge(e0);
        m.drop_edge(e1);
        m.drop_edge(e2);
    }

    // ------------------------------------------------------------------ 1. key exactness

    /// add_extended(k1 -> (v1,w1)); add_extended(k2 -> (v2,w2)); get_extended(k3)
    /// C06: "A result memoised for one operator, operand tuple ... is never served for another":
    ///   Some(v,w)  ==>  k3 equals the key of the most recent add of an equal key, and (v,w) is
    ///   exactly that add's value (same edge, same number).
    /// Holds for every lawful hash placement; BUCKETS = 1: every key collides; BUCKETS = 2: both cases.
    fn key_exact_extended<const A: usize, const N: usize, const BUCKETS: usize>() {
        let m = DummyManager;
        let es = [DummyEdge::new(), DummyEdge::new(), DummyEdge::new()];
        // SAFETY: no node is ever deleted in this harness
        let cache: SeqCache<EC> = unsafe { DMApplyCache::with_capacity(BUCKETS) };
        let (k1, k2, k3) = (any_key::<A, N>(), any_key::<A, N>(), any_key::<A, N>());
        choose_hashes(&k1, &k2, &k3);
        let (v1, v2) = (any_val(), any_val());
        let (w1, w2): (u32, u32) = (kani::any(), kani::any());
        let (o1, o2, o3) = (ops(&es, &k1), ops(&es, &k2), ops(&es, &k3));

        cache.add_extended(&m, k1.op, (&o1, &k1.n), (&[pick(&es, v1)], &[w1]));
        cache.add_extended(&m, k2.op, (&o2, &k2.n), (&[pick(&es, v2)], &[w2]));
        let r = cache.get_extended::<1, 1>(&m, k3.op, (&o3, &k3.n));

        let hit = r.is_some();
        if let Some(([e], [w])) = r {
            if key_eq(&k3, &k2) {
                assert!(e == *pick(&es, v2) && w == w2, "hit returns the value of the most recent add of this key");
            } else {
                assert!(key_eq(&k3, &k1), "a hit is only possible for a key that was added");
                assert!(e == *pick(&es, v1) && w == w1, "hit returns exactly the memoised value");
            }
            m.drop_edge(e);
        }
        kani::cover!(hit && key_eq(&k3, &k2), "hit on the most recent entry (assumed index region reachable)");
        kani::cover!(BUCKETS == 1 || (hit && !key_eq(&k3, &k2)), "BUCKETS > 1: hit on the older entry (it survived in the other bucket)");
        kani::cover!(!hit && !key_eq(&k3, &k2) && key_eq(&k3, &k1), "older entry evicted by a colliding key: miss");
        kani::cover!(!hit && k3.op != k2.op, "miss on a different operator");
        release(&m, es);
        core::mem::forget(cache);
    }

    /// same with the `add` / `get` shorthands of the `ApplyCache` trait (edge operands only)
    fn key_exact_shorthand<const A: usize, const BUCKETS: usize>() {
        let m = DummyManager;
        let es = [DummyEdge::new(), DummyEdge::new(), DummyEdge::new()];
        let cache: SeqCache<4> = unsafe { DMApplyCache::with_capacity(BUCKETS) };
        let (k1, k2, k3) = (any_key::<A, 0>(), any_key::<A, 0>(), any_key::<A, 0>());
        choose_hashes(&k1, &k2, &k3);
        let (v1, v2) = (any_val(), any_val());
        let (o1, o2, o3) = (ops(&es, &k1), ops(&es, &k2), ops(&es, &k3));

        cache.add(&m, k1.op, &o1, pick(&es, v1));
        cache.add(&m, k2.op, &o2, pick(&es, v2));
        let r = cache.get(&m, k3.op, &o3);

        let hit = r.is_some();
        if let Some(e) = r {
            if key_eq(&k3, &k2) {
                assert!(e == *pick(&es, v2), "hit returns the value of the most recent add of this key");
            } else {
                assert!(key_eq(&k3, &k1), "a hit is only possible for a key that was added");
                assert!(e == *pick(&es, v1), "hit returns exactly the memoised value");
            }
            m.drop_edge(e);
        }
        kani::cover!(hit && key_eq(&k3, &k2), "hit on the most recent entry (assumed index region reachable)");
        kani::cover!(BUCKETS == 1 || (hit && !key_eq(&k3, &k2)), "BUCKETS > 1: hit on the older entry (it survived in the other bucket)");
        kani::cover!(!hit && !key_eq(&k3, &k2) && key_eq(&k3, &k1), "older entry evicted by a colliding key: miss");
        release(&m, es);
        core::mem::forget(cache);
    }

    macro_rules! shape {
        ($name:ident, $f:ident, $($g:tt)*) => {
            #[kani::proof]
            #[kani::unwind(9)]
            fn $name() {
                $f::<$($g)*>()
            }
        };
    }
    // BUCKETS = 1 (capacity 1: every key collides)
    shape!(key_exact_short_cap1_a1, key_exact_shorthand, 1, 1);
    shape!(key_exact_short_cap1_a2, key_exact_shorthand, 2, 1);
    shape!(key_exact_short_cap1_a3, key_exact_shorthand, 3, 1);
    // not run (time budget), same generic body: shape!(key_exact_cap1_a1_n1, key_exact_extended, 1, 1, 1);
    shape!(key_exact_cap1_a1_n2, key_exact_extended, 1, 2, 1);
    shape!(key_exact_cap1_a2_n1, key_exact_extended, 2, 1, 1);
    // not run (time budget), same generic body: shape!(key_exact_cap1_a2_n2, key_exact_extended, 2, 2, 1);
    // not run (time budget), same generic body: shape!(key_exact_cap1_a3_n1, key_exact_extended, 3, 1, 1);
    shape!(key_exact_cap1_a3_n2, key_exact_extended, 3, 2, 1);
    // BUCKETS = 2
    // not run (time budget), same generic body: shape!(key_exact_short_cap2_a1, key_exact_shorthand, 1, 2);
    shape!(key_exact_short_cap2_a2, key_exact_shorthand, 2, 2);
    // not run (time budget), same generic body: shape!(key_exact_short_cap2_a3, key_exact_shorthand, 3, 2);
    // not run (time budget), same generic body: shape!(key_exact_cap2_a1_n1, key_exact_extended, 1, 1, 2);
    // not run (time budget), same generic body: shape!(key_exact_cap2_a1_n2, key_exact_extended, 1, 2, 2);
    shape!(key_exact_cap2_a2_n1, key_exact_extended, 2, 1, 2);
    // not run (time budget), same generic body: shape!(key_exact_cap2_a2_n2, key_exact_extended, 2, 2, 2);
    // not run (time budget), same generic body: shape!(key_exact_cap2_a3_n1, key_exact_extended, 3, 1, 2);
    shape!(key_exact_cap2_a3_n2, key_exact_extended, 3, 2, 2);

    /// Keys of DIFFERENT shape never match (operand-kind counts are part of the key), and a value is
    /// only returned in the shape it was stored in (otherwise a number would be read as an edge).
    /// add with a shape chosen by Kani among
    ///   0: (e)      1: (e,e)     2: (e | n)    3: ( | n)     4: ( | n,n)    5: (e,e,e)
    /// and value shape chosen among  0: [edge]  1: [num]  2: [edge, num];  get with an independently
    /// chosen key shape and value shape.  Capacity 1: every key collides.
    #[kani::proof]
    #[kani::unwind(9)]
    fn key_shape_exact_cap1() {
        let m = DummyManager;
        let es = [DummyEdge::new(), DummyEdge::new(), DummyEdge::new()];
        let cache: Cache<5> = unsafe { DMApplyCache::with_capacity(1) };
        let (op1, op2): (u8, u8) = (kani::any(), kani::any());
        // all keys use the same leading components, so only the SHAPE distinguishes them
        let (a, b, c) = (any_val(), any_val(), any_val());
        let (n0, n1): (u32, u32) = (kani::any(), kani::any());
        let (v, w): (u8, u32) = (any_val(), kani::any());
        let (s1, s2): (u8, u8) = (kani::any(), kani::any());
        let (vs1, vs2): (u8, u8) = (kani::any(), kani::any());
        kani::assume(s1 < 6 && s2 < 6 && vs1 < 3 && vs2 < 3);
        let (ea, eb, ec) = (pick(&es, a), pick(&es, b), pick(&es, c));
        let e1 = [ea.borrowed()];
        let e2 = [ea.borrowed(), eb.borrowed()];
        let e3 = [ea.borrowed(), eb.borrowed(), ec.borrowed()];
        let nn1 = [n0];
        let nn2 = [n0, n1];
        let none_e: [Borrowed<DummyEdge>; 0] = [];
        let none_n: [u32; 0] = [];
        let key1: (&[Borrowed<DummyEdge>], &[u32]) = match s1 {
            0 => (&e1, &none_n),
            1 => (&e2, &none_n),
            2 => (&e1, &nn1),
            3 => (&none_e, &nn1),
            4 => (&none_e, &nn2),
            _ => (&e3, &none_n),
        };
        let key2: (&[Borrowed<DummyEdge>], &[u32]) = match s2 {
            0 => (&e1, &none_n),
            1 => (&e2, &none_n),
            2 => (&e1, &nn1),
            3 => (&none_e, &nn1),
            4 => (&none_e, &nn2),
            _ => (&e3, &none_n),
        };
        let ve = [pick(&es, v)];
        let vn = [w];
        match vs1 {
            0 => cache.add_extended(&m, op1, key1, (&ve, &none_n)),
            1 => cache.add_extended(&m, op1, key1, (&none_e, &vn)),
            _ => cache.add_extended(&m, op1, key1, (&ve, &vn)),
        }
        let same = op1 == op2 && s1 == s2 && vs1 == vs2;
        let mut hit = false;
        match vs2 {
            0 => {
                if let Some(([e], [])) = cache.get_extended::<1, 0>(&m, op2, key2) {
                    hit = true;
                    assert!(same, "hit only for the same operator, key shape and value shape");
                    assert!(e == *pick(&es, v));
                    m.drop_edge(e);
                }
            }
            1 => {
                if let Some(([], [x])) = cache.get_extended::<0, 1>(&m, op2, key2) {
                    hit = true;
                    assert!(same, "hit only for the same operator, key shape and value shape");
                    assert!(x == w);
                }
            }
            _ => {
                if let Some(([e], [x])) = cache.get_extended::<1, 1>(&m, op2, key2) {
                    hit = true;
                    assert!(same, "hit only for the same operator, key shape and value shape");
                    assert!(e == *pick(&es, v) && x == w);
                    m.drop_edge(e);
                }
            }
        }
        kani::cover!(hit, "hit path (assumed region reachable)");
        kani::cover!(!hit && op1 == op2 && s1 == 2 && s2 == 1 && vs1 == vs2, "same total arity, different kinds: miss");
        kani::cover!(!hit && op1 == op2 && s1 == s2 && vs1 != vs2, "same key, other value shape: miss");
        release(&m, es);
        core::mem::forget(cache);
    }

    /// Requests that do not fit into an entry are neither stored nor answered (they must not
    /// corrupt the entry that is there): ENTRY_CAP = 3, key of 3 edges + 1 value = 4 slots.
    #[kani::proof]
    #[kani::unwind(9)]
    fn oversized_request_ignored() {
        let m = DummyManager;
        let es = [DummyEdge::new(), DummyEdge::new(), DummyEdge::new()];
        let cache: Cache<3> = unsafe { DMApplyCache::with_capacity(1) };
        let (k1, big, k3) = (any_key::<2, 0>(), any_key::<3, 0>(), any_key::<2, 0>());
        let (v1, v2) = (any_val(), any_val());
        let (o1, ob, o3) = (ops(&es, &k1), ops(&es, &big), ops(&es, &k3));
        cache.add(&m, k1.op, &o1, pick(&es, v1));
        cache.add(&m, big.op, &ob, pick(&es, v2)); // 3 + 1 > ENTRY_CAP: ignored
        let rb = cache.get(&m, big.op, &ob);
        assert!(rb.is_none(), "oversized key is never answered");
        core::mem::forget(rb);
        // no operands at all: ignored as well
        let none_e: [Borrowed<DummyEdge>; 0] = [];
        cache.add(&m, big.op, &none_e, pick(&es, v2));
        let r0 = cache.get(&m, big.op, &none_e);
        assert!(r0.is_none(), "empty key is never answered");
        core::mem::forget(r0);
        let r = cache.get(&m, k3.op, &o3);
        let hit = r.is_some();
        if let Some(e) = r {
            assert!(key_eq(&k3, &k1) && e == *pick(&es, v1), "the entry stored before is intact");
            m.drop_edge(e);
        }
        // single-threaded: no contention, the direct-mapped entry must still be there
        assert!(hit == key_eq(&k3, &k1), "capacity 1, no contention: hit iff same key");
        kani::cover!(hit, "hit path");
        release(&m, es);
        core::mem::forget(cache);
    }

    // ------------------------------------------------------------------ 2. GC bracketing / clear

    /// C06: "no memoised result outlives a garbage collection, reordering ...".  The manager wraps
    /// every node removal (gc and reorder) in pre_gc .. post_gc.  Contract at the cache level
    /// (2 buckets, symbolic placement):
    ///   after pre_gc:  get(k) == None for every k, add stores nothing;
    ///   after post_gc: the cache is empty (neither the add before pre_gc nor the one in between
    ///                  survives), and it is usable again.
    #[kani::proof]
    #[kani::unwind(6)]
    fn gc_bracket_cap2() {
        let m = DummyManager;
        let es = [DummyEdge::new(), DummyEdge::new(), DummyEdge::new()];
        let cache: Cache<4> = unsafe { DMApplyCache::with_capacity(2) };
        let (k1, k2, k3, k4, k5) = (any_key::<2, 0>(), any_key::<2, 0>(), any_key::<2, 0>(), any_key::<2, 0>(), any_key::<2, 0>());
        let (v1, v2, v5) = (any_val(), any_val(), any_val());
        let (o1, o2, o3, o4, o5) = (ops(&es, &k1), ops(&es, &k2), ops(&es, &k3), ops(&es, &k4), ops(&es, &k5));

        cache.add(&m, k1.op, &o1, pick(&es, v1));
        let before = cache.get(&m, k1.op, &o1);
        kani::cover!(before.is_some(), "entry present before pre_gc");
        if let Some(e) = before {
            m.drop_edge(e);
        }

        cache.pre_gc(&m);
        let r = cache.get(&m, k3.op, &o3);
        assert!(r.is_none(), "between pre_gc and post_gc every lookup misses");
        core::mem::forget(r);
        cache.add(&m, k2.op, &o2, pick(&es, v2)); // must not be stored
        let r = cache.get(&m, k2.op, &o2);
        assert!(r.is_none(), "between pre_gc and post_gc every lookup misses");
        core::mem::forget(r);
        // SAFETY: paired with the pre_gc above
        unsafe { cache.post_gc(&m) };

        let r = cache.get(&m, k4.op, &o4);
        assert!(r.is_none(), "after post_gc the cache is empty: nothing memoised before or during the collection survives");
        core::mem::forget(r);
        kani::cover!(key_eq(&k4, &k1), "lookup of the key added before pre_gc");
        kani::cover!(key_eq(&k4, &k2), "lookup of the key added during the collection");

        // usable again
        cache.add(&m, k5.op, &o5, pick(&es, v5));
        let r = cache.get(&m, k5.op, &o5);
        let hit = r.is_some();
        if let Some(e) = r {
            assert!(e == *pick(&es, v5));
            m.drop_edge(e);
        }
        kani::cover!(hit, "cache is unlocked and usable after post_gc");
        release(&m, es);
        core::mem::forget(cache);
    }

    /// `pre_reorder` / `post_reorder` (and the `_mut` forms, `init`) are the trait's default no-ops
    /// for `DMApplyCache`: they neither lock nor clear.  Recorded as a checked fact (the manager
    /// relies on pre_gc/post_gc for reordering and on "add_vars removes no node" for variable
    /// addition): an entry added before pre_reorder..post_reorder is still served afterwards.
    #[kani::proof]
    #[kani::unwind(6)]
    fn reorder_events_are_noops_cap1() {
        let m = DummyManager;
        let es = [DummyEdge::new(), DummyEdge::new(), DummyEdge::new()];
        let cache: Cache<4> = unsafe { DMApplyCache::with_capacity(1) };
        let k1 = any_key::<2, 0>();
        let v1 = any_val();
        let o1 = ops(&es, &k1);
        cache.add(&m, k1.op, &o1, pick(&es, v1));
        cache.pre_reorder(&m);
        let r = cache.get(&m, k1.op, &o1);
        assert!(r.is_some(), "pre_reorder does not lock");
        if let Some(e) = r {
            m.drop_edge(e);
        }
        cache.post_reorder(&m);
        let r = cache.get(&m, k1.op, &o1);
        match r {
            Some(e) => {
                assert!(e == *pick(&es, v1));
                m.drop_edge(e);
            }
            None => assert!(false, "post_reorder does not clear (capacity 1, no contention)"),
        }
        release(&m, es);
        core::mem::forget(cache);
    }

    /// `clear` empties every bucket (4 buckets, two adds with symbolic placement).
    #[kani::proof]
    #[kani::unwind(7)]
    fn clear_empties_cap4() {
        let m = DummyManager;
        let es = [DummyEdge::new(), DummyEdge::new(), DummyEdge::new()];
        let cache: Cache<4> = unsafe { DMApplyCache::with_capacity(4) };
        let (k1, k2, k3) = (any_key::<2, 0>(), any_key::<2, 0>(), any_key::<2, 0>());
        let (v1, v2) = (any_val(), any_val());
        let (o1, o2, o3) = (ops(&es, &k1), ops(&es, &k2), ops(&es, &k3));
        cache.add(&m, k1.op, &o1, pick(&es, v1));
        cache.add(&m, k2.op, &o2, pick(&es, v2));
        cache.clear(&m);
        let r = cache.get(&m, k3.op, &o3);
        assert!(r.is_none(), "after clear every lookup misses");
        core::mem::forget(r);
        kani::cover!(key_eq(&k3, &k1) && !key_eq(&k1, &k2), "lookup of a key added before clear");
        // still usable (clear unlocks)
        cache.add(&m, k3.op, &o3, pick(&es, v1));
        let r = cache.get(&m, k3.op, &o3);
        let hit = r.is_some();
        if let Some(e) = r {
            m.drop_edge(e);
        }
        kani::cover!(hit, "usable after clear");
        release(&m, es);
        core::mem::forget(cache);
    }

    // ------------------------------------------------------------------ 3. loop-free helpers

    /// `CountPair` packing round-trips for all counts below KIND_COUNT, and only (0,0) is NULL
    /// ("entry not occupied").  Loop-free, complete.
    #[kani::proof]
    fn count_pair_roundtrip() {
        let (e, n): (usize, usize) = (kani::any(), kani::any());
        kani::assume(e < KIND_COUNT && n < KIND_COUNT);
        let p = CountPair::new(e, n);
        assert!(p.edge() == e && p.numeric() == n);
        assert!((p == CountPair::NULL) == (e == 0 && n == 0));
        let (e2, n2): (usize, usize) = (kani::any(), kani::any());
        kani::assume(e2 < KIND_COUNT && n2 < KIND_COUNT);
        assert!((CountPair::new(e2, n2) == p) == (e == e2 && n == n2), "packing is injective");
        kani::cover!(e == KIND_COUNT - 1 && n == KIND_COUNT - 1, "assumed region, upper corner");
        kani::cover!(e2 == 3 && n2 == 2, "assumed region");
    }

    /// The public guards of `get_extended` / `add_extended` admit up to KIND_COUNT operands (and
    /// values) of each kind (`len > KIND_COUNT` is rejected, `len == KIND_COUNT` is not).  Every
    /// admitted count pair must be packable: no panic, injective.
    #[kani::proof]
    fn count_pair_covers_guard_range() {
        let (e, n): (usize, usize) = (kani::any(), kani::any());
        // exactly the negation of the guards `operands.0.len() >= KIND_COUNT || operands.1.len() >= KIND_COUNT`
        // (the guards read `> KIND_COUNT` on the pinned tree: finding F1, fixed in /repo; the real guards are exercised
        // through the public API by sixteen_operands_entry_cap_18 below)
        kani::assume(!(e >= KIND_COUNT || n >= KIND_COUNT));
        let p = CountPair::new(e, n);
        assert!(p.edge() == e && p.numeric() == n, "admitted counts are represented exactly");
        kani::cover!(e == KIND_COUNT - 1, "assumed region includes the boundary");
    }

    /// The same through the public API: ENTRY_CAP = 18 (legal: "must be in range [1, 64]"), a key
    /// of 16 edge operands passes the guard of `add_extended`.  It must be stored without panic
    /// and must not be confused with the key ( | n) of one numeric operand.
    #[kani::proof]
    #[kani::unwind(19)]
    fn sixteen_operands_entry_cap_18() {
        let m = DummyManager;
        let e0 = DummyEdge::new();
        let cache: Cache<18> = unsafe { DMApplyCache::with_capacity(1) };
        let op: u8 = kani::any();
        let n: u32 = kani::any();
        let o16: [Borrowed<DummyEdge>; 16] = core::array::from_fn(|_| e0.borrowed());
        let none_n: [u32; 0] = [];
        let none_e: [Borrowed<DummyEdge>; 0] = [];
        cache.add_extended(&m, op, (&o16, &none_n), (&[e0.borrowed()], &none_n));
        let r = cache.get_extended::<1, 0>(&m, op, (&none_e, &[n]));
        assert!(r.is_none(), "key ( | n) was never added");
        core::mem::forget(r);
        m.drop_edge(e0);
        core::mem::forget(cache);
    }

    /// bucket index computation: for EVERY hash value the entry returned by the private `bucket`
    /// lies inside the table (the code uses `get_unchecked`).  One harness per table size;
    /// requested capacities 0, 1, 2, 3, 5 give 1, 1, 2, 4, 8 buckets.
    fn bucket_in_range<const CAPACITY: usize, const BUCKETS: usize>() {
        let es = [DummyEdge::new(), DummyEdge::new(), DummyEdge::new()];
        let cache: Cache<4> = unsafe { DMApplyCache::with_capacity(CAPACITY) };
        assert!(cache.0.len() == BUCKETS, "bucket count = capacity rounded up to a power of two (at least 1)");
        let k = any_key::<2, 1>();
        let o = ops(&es, &k);
        let entry: *const Entry<DummyManager, u8, EC_BUCKET> = cache.bucket(k.op, (&o, &k.n));
        let base = cache.0.as_ptr();
        let mut found = false;
        let mut i = 0;
        while i < BUCKETS {
            // SAFETY: i < len
            found |= core::ptr::eq(entry, unsafe { base.add(i) });
            i += 1;
        }
        assert!(found, "bucket() returns one of the table's entries");
        kani::cover!(BUCKETS == 1 || core::ptr::eq(entry, unsafe { base.add(BUCKETS - 1) }), "last bucket reachable");
        let m = DummyManager;
        release(&m, es);
        core::mem::forget(cache);
    }
    const EC_BUCKET: usize = 4;
    macro_rules! bucket {
        ($name:ident, $c:expr, $b:expr) => {
            #[kani::proof]
            #[kani::unwind(10)]
            fn $name() {
                bucket_in_range::<$c, $b>()
            }
        };
    }
    bucket!(bucket_in_range_capacity0, 0, 1);
    bucket!(bucket_in_range_capacity1, 1, 1);
    bucket!(bucket_in_range_capacity2, 2, 2);
    bucket!(bucket_in_range_capacity3, 3, 4);
    bucket!(bucket_in_range_capacity5, 5, 8);

    // ------------------------------------------------------------------ self tests (must FAIL)

    /// selftest: wrong postcondition (claims a lookup after add always misses) -- must be refuted
    #[kani::proof]
    #[kani::unwind(9)]
    fn selftest_get_always_misses() {
        let m = DummyManager;
        let es = [DummyEdge::new(), DummyEdge::new(), DummyEdge::new()];
        let cache: Cache<4> = unsafe { DMApplyCache::with_capacity(1) };
        let (k1, k3) = (any_key::<2, 0>(), any_key::<2, 0>());
        let v1 = any_val();
        let (o1, o3) = (ops(&es, &k1), ops(&es, &k3));
        cache.add(&m, k1.op, &o1, pick(&es, v1));
        let r = cache.get(&m, k3.op, &o3);
        assert!(r.is_none(), "SELFTEST: deliberately wrong");
        core::mem::forget(r);
        release(&m, es);
        core::mem::forget(cache);
    }

    /// selftest: wrong postcondition (claims a hit implies only the operator matches, and returns
    /// the FIRST operand instead of the value) -- must be refuted
    #[kani::proof]
    #[kani::unwind(9)]
    fn selftest_hit_returns_operand() {
        let m = DummyManager;
        let es = [DummyEdge::new(), DummyEdge::new(), DummyEdge::new()];
        let cache: Cache<4> = unsafe { DMApplyCache::with_capacity(1) };
        let (k1, k3) = (any_key::<2, 0>(), any_key::<2, 0>());
        let v1 = any_val();
        let (o1, o3) = (ops(&es, &k1), ops(&es, &k3));
        cache.add(&m, k1.op, &o1, pick(&es, v1));
        let r = cache.get(&m, k3.op, &o3);
        if let Some(e) = r {
            assert!(e == *pick(&es, k3.e[0]), "SELFTEST: deliberately wrong");
            m.drop_edge(e);
        }
        release(&m, es);
        core::mem::forget(cache);
    }
}
