"""Regenerates suite.json from the harness!(..) instances in the two harness files (run in this directory)."""
import json, re
FM = 'crates/oxidd-reorder/src/set_var_order/mod.rs'
FS = 'crates/oxidd-reorder/src/set_var_order/segtree.rs'
UNLISTED = {'concurrent_one_worker_n4', 'bubble_sort_n5'}  # see REPORT.md
hs = []


def add(mod, name, funcs, file, bounded, **kw):
    h = dict(name=mod + '::' + name, props=['C08'], tier='quick', functions=funcs, file=file, timeout=900, bounded=bounded)
    h.update(kw)
    hs.append(h)


TH = dict(tier='thorough', timeout=1500)
src = open('order_harness.rs').read()
for m in re.finditer(r'harness(?:_one_worker)?!\((\w+),', src):
    n = m.group(1)
    if n in UNLISTED:
        continue
    if n.startswith('sort_order'):
        N, M = re.match(r'sort_order_n(\d)_m(\d)', n).groups()
        extra = '' if int(M) >= 2 else ' (length not producible by the callers, accepted by sort_order)'
        add('verif_order', n, ['sort_order', 'MinSegTree::new', 'MinSegTree::add_split', 'MinSegTree::min_index'], FM,
            'num_levels fixed to N=%s, request length fixed to m=%s%s; all duplicate-free requests, all competing completions' % (N, M, extra),
            **(TH if N == '5' or int(M) < 2 else {}))
    elif n.startswith('bubble_sort'):
        N = n[13]
        dom = 'start sequences restricted to permutations of 0..N' if n.endswith('_perm') else 'all u32 start sequences'
        kw = dict(tier='thorough', timeout=1800 if not n.endswith('_perm') else 1500) if N == '5' else {}
        add('verif_order', n, ['bubble_sort'], FM, 'sequence length fixed to N=%s; %s' % (N, dom), **kw)
    elif n.startswith('concurrent'):
        N = n[-1]
        add('verif_order', n, ['concurrent_bubble_sort'], FM,
            'sequence length fixed to N=%s; ONLY the schedule in which a single worker processes all tasks (Kani has no threads); all u32 start sequences' % N)
src = open('segtree_harness.rs').read()
for m in re.finditer(r'harness!\((\w+),', src):
    n = m.group(1)
    if n.startswith('api'):
        g = re.match(r'api_n(\d)(?:_s(\d))?', n)
        N, S = g.group(1), g.group(2) or '2'
        th = g.group(2) == '2' or n in ('api_n6_s1', 'api_n7_s1', 'api_n8_s1')
        add('verif_segtree', n, ['MinSegTree::new', 'MinSegTree::add_split', 'MinSegTree::min_index'], FS,
            'n=%s elements; new + %s add_split step(s); |values|,|arguments| <= 2^24' % (N, S), **(TH if th else {}))
    elif n.startswith('step_add'):
        g = re.match(r'step_add_split_n(\d)(?:_i(\d)to(\d))?', n)
        rng = 'all split points' if not g.group(2) else 'split point in %s..=%s (the three instances for this size cover 0..=8)' % (g.group(2), g.group(3))
        add('verif_segtree', n, ['MinSegTree::add_split'], FS,
            'n=%s elements; one step from any tree satisfying rep_inv; %s; |deltas|,|arguments| <= 2^24' % (g.group(1), rng),
            **(TH if g.group(1) in '578' else {}))
    else:
        add('verif_segtree', n, ['MinSegTree::min_index'], FS, 'n=%s elements; any tree satisfying rep_inv; |deltas| <= 2^24' % n[-1],
            **(TH if n[-1] in '578' else {}))
# realistic timeouts: about 2-3x the measured wall time on the shared 16-core machine (see REPORT.md)
MEASURED = {'sort_order_n5_m2': 102, 'sort_order_n5_m3': 169, 'sort_order_n5_m4': 322, 'sort_order_n5_m5': 19,
            'bubble_sort_n5_perm': 383, 'api_n6_s1': 93, 'api_n7_s1': 104, 'api_n8_s1': 178, 'api_n5_s2': 749,
            'api_n6_s2': 1081, 'step_add_split_n5': 204, 'step_min_index_n5': 283, 'step_min_index_n7': 124,
            'step_min_index_n8': 230}
for h in hs:
    n = h['name'].split('::')[1]
    if h['tier'] == 'quick':
        h['timeout'] = 600
    else:
        h['timeout'] = max(900, int(2.2 * MEASURED.get(n, 170)))
ST = dict(tier='selftest', expect='refuted', timeout=300)
add('verif_order', 'selftest_sort_order_identity_must_fail', ['sort_order'], FM, 'N=3,m=2', **ST)
add('verif_order', 'selftest_bubble_sort_one_swap_must_fail', ['bubble_sort'], FM, 'N=3', **ST)
add('verif_segtree', 'selftest_min_index_highest_must_fail', ['MinSegTree::min_index'], FS, 'n=3', **ST)
cfg = dict(package='oxidd-reorder',
           append=[{'to': FM, 'from': 'order_harness.rs'}, {'to': FS, 'from': 'segtree_harness.rs'}],
           parallel=4,
           assumptions=[
               "sort_order: request entries are existing levels (< num_levels) and duplicate-free (callers: var_to_level panics on unknown variables; duplicates are a documented panic); assume paired with cover",
               "the number of adjacent level swaps needed to reach a target order from the current order is the inversion count of the map current level -> target level (standard fact, used as the definition of the cost in (c))",
               "MinSegTree: element values, pending deltas and add_split arguments are bounded by 2^24 in magnitude (no i32 overflow; sort_order keeps all values within +-num_levels); add_split split point i <= padded size (the function's own assert)",
               "concurrent_bubble_sort: verified only under the single-worker schedule (WorkerPool::broadcast runs the closure once on the calling thread); interleavings of several workers are NOT covered (Kani has no threads). parking_lot's contended slow paths (RawMutex::lock_slow/unlock_slow, Condvar::wait_until_internal) are stubbed by panicking functions because kani-compiler 0.68 crashes on them; their unreachability under this schedule is thereby checked, not assumed",
               "level_swap / the manager are not part of this suite: the swap callback is a recorder"],
           harnesses=hs)
json.dump(cfg, open('suite.json', 'w'), indent=1)
print(len(hs), 'harnesses;', {t: sum(1 for h in hs if h['tier'] == t) for t in ('quick', 'thorough', 'selftest')})
