// Kani harnesses for the ordering logic of `set_var_order` (appended to
// crates/oxidd-reorder/src/set_var_order/mod.rs): `sort_order`, `bubble_sort`, and the
// single-worker schedule of `concurrent_bubble_sort`.
//
// Property C08 (ordering logic part): "After set_var_order (sequential or concurrent variant) every
// pair of variables named in the request appears in the requested relative order, unnamed variables
// are placed so that the number of adjacent level swaps is minimal ..."
//
// Interface facts read from the real code:
//  * `sort_order(num_levels, input_order)` receives the request already translated to CURRENT LEVEL
//    numbers (`order.iter().map(|&v| manager.var_to_level(v))`) and returns `target_order`, the map
//    current level -> target level.  In level space the current order is the identity, hence the
//    number of adjacent level swaps needed to establish `target_order` is its inversion count.
//  * preconditions established by the callers: every entry is an existing level (< num_levels;
//    `var_to_level` panics otherwise); duplicate entries are a documented panic; `order.len() >= 2`
//    (shorter requests return early in `set_var_order{,_seq}`).  `sort_order` itself also accepts
//    lengths 0 and 1; these are covered by extra harnesses.
//  * `bubble_sort(manager, seq, swap)` sorts `seq` (target positions) and calls `swap(manager, i)`
//    for every exchange of the ADJACENT positions i, i+1.
#[cfg(kani)]
mod verif_order {
    use super::*;
    use std::sync::atomic::{AtomicU32, AtomicUsize};

    // ---------------------------------------------------------------- spec helpers

    /// number of inversions = number of adjacent transpositions needed to sort `p`
    fn inversions<const N: usize>(p: &[u32; N]) -> u32 {
        let mut c = 0;
        let mut i = 0;
        while i < N {
            let mut j = i + 1;
            while j < N {
                if p[i] > p[j] {
                    c += 1;
                }
                j += 1;
            }
            i += 1;
        }
        c
    }

    /// `p` is a permutation of 0..N
    fn is_perm<const N: usize>(p: &[u32; N]) -> bool {
        let mut seen = [false; N];
        let mut i = 0;
        while i < N {
            if p[i] as usize >= N || seen[p[i] as usize] {
                return false;
            }
            seen[p[i] as usize] = true;
            i += 1;
        }
        true
    }

    /// every pair of requested levels is in the requested relative order under `p`
    /// (`p`: current level -> target level; `req[..m]`: requested levels, top to bottom)
    fn respects<const N: usize>(p: &[u32; N], req: &[u32; N], m: usize) -> bool {
        let mut a = 0;
        while a < m {
            let mut b = a + 1;
            while b < m {
                if !(p[req[a] as usize] < p[req[b] as usize]) {
                    return false;
                }
                b += 1;
            }
            a += 1;
        }
        true
    }

    /// symbolic duplicate-free request of length M over N levels (entries M.. are unused zeros)
    fn any_request<const N: usize, const M: usize>() -> [u32; N] {
        let mut req = [0u32; N];
        let mut i = 0;
        while i < M {
            req[i] = kani::any();
            kani::assume((req[i] as usize) < N);
            let mut j = 0;
            while j < i {
                kani::assume(req[i] != req[j]);
                j += 1;
            }
            i += 1;
        }
        kani::cover!(true, "duplicate-free in-range request exists");
        kani::cover!(M < 2 || req[0] > req[1], "request that contradicts the current order exists");
        req
    }

    // ---------------------------------------------------------------- sort_order

    /// (a) permutation, (b) requested relative order, (c) minimal number of adjacent swaps among
    /// ALL completions satisfying (a) and (b)
    fn sort_order_contract<const N: usize, const M: usize>() {
        let req = any_request::<N, M>();

        let res = sort_order(N as u32, req[..M].iter().copied());

        kani::cover!(true, "sort_order returns");
        assert!(res.len() == N);
        let mut r = [0u32; N];
        let mut i = 0;
        while i < N {
            r[i] = res[i];
            i += 1;
        }
        assert!(is_perm(&r)); // (a)
        assert!(respects(&r, &req, M)); // (b)

        // (c) competing completion: any permutation honouring the request
        let q: [u32; N] = kani::any();
        kani::assume(is_perm(&q) && respects(&q, &req, M));
        kani::cover!(true, "a competing completion exists");
        kani::cover!(M >= N || inversions(&q) > inversions(&r), "a strictly worse completion exists (if the request is partial)");
        assert!(inversions(&r) <= inversions(&q));
    }

    // ---------------------------------------------------------------- bubble sort

    /// Recorder for swap callbacks: shadow copy of the start sequence to which the reported swaps
    /// are applied, and a log of the reported indices.  S = N(N-1)/2 = maximal inversion count.
    struct Recorder<const N: usize, const S: usize> {
        shadow: [AtomicU32; N],
        log: [AtomicU32; S],
        count: AtomicUsize,
    }

    impl<const N: usize, const S: usize> Recorder<N, S> {
        fn new(start: &[u32; N]) -> Self {
            let r = Recorder {
                shadow: [const { AtomicU32::new(0) }; N],
                log: [const { AtomicU32::new(0) }; S],
                count: AtomicUsize::new(0),
            };
            let mut i = 0;
            while i < N {
                r.shadow[i].store(start[i], Relaxed);
                i += 1;
            }
            r
        }

        /// the swap callback: checks adjacency (index in range) and that the exchanged pair is an
        /// inversion of the current sequence, then applies and records the swap
        fn swap(&self, i: u32) {
            let i = i as usize;
            assert!(i + 1 < N); // swap index out of range
            let a = self.shadow[i].load(Relaxed);
            let b = self.shadow[i + 1].load(Relaxed);
            assert!(a > b); // swap of a pair that is not an inversion
            self.shadow[i].store(b, Relaxed);
            self.shadow[i + 1].store(a, Relaxed);
            let c = self.count.load(Relaxed);
            assert!(c < S); // more swaps than the maximal inversion count
            self.log[c].store(i as u32, Relaxed);
            self.count.store(c + 1, Relaxed);
        }

        fn check(&self, start: &[u32; N], seq: &[u32; N]) {
            // final sequence is sorted (= the target order) ...
            let mut i = 0;
            while i + 1 < N {
                assert!(seq[i] <= seq[i + 1]); // final sequence not sorted
                i += 1;
            }
            // ... and is what the reported swaps produce from the start order
            let mut i = 0;
            while i < N {
                assert!(self.shadow[i].load(Relaxed) == seq[i]); // swaps do not produce the final sequence
                i += 1;
            }
            // number of swaps = inversion count of the start order (minimal)
            let c = self.count.load(Relaxed);
            assert!(c as u32 == inversions(start)); // number of swaps is not the inversion count
            // replay of the log on the start order yields the final sequence
            let mut replay = *start;
            let mut k = 0;
            while k < S {
                if k < c {
                    let i = self.log[k].load(Relaxed) as usize;
                    assert!(i + 1 < N);
                    assert!(replay[i] > replay[i + 1]);
                    replay.swap(i, i + 1);
                }
                k += 1;
            }
            let mut i = 0;
            while i < N {
                assert!(replay[i] == seq[i]); // replayed log does not produce the final sequence
                i += 1;
            }
        }
    }

    /// sequential `bubble_sort` with a recording swap.  PERM = false: arbitrary start sequence of
    /// N u32 values (duplicates allowed); PERM = true: start sequence restricted to permutations of
    /// 0..N (what `set_var_order_common` passes when all levels are non-empty) -- cheaper for N = 5.
    fn bubble_sort_contract<const N: usize, const S: usize, const PERM: bool>() {
        assert!(S == N * (N - 1) / 2);
        let start: [u32; N] = kani::any();
        if PERM {
            kani::assume(is_perm(&start));
        }
        kani::cover!(is_perm(&start), "start sequence can be a permutation of 0..N");
        let rec = Recorder::<N, S>::new(&start);
        let mut seq = start;
        let swap: SwapFn<'_, ()> = &|_m, i| rec.swap(i);

        bubble_sort(&(), &mut seq, swap);

        kani::cover!(rec.count.load(Relaxed) == S, "worst case (reversed order) reachable");
        kani::cover!(rec.count.load(Relaxed) == 0, "already sorted reachable");
        rec.check(&start, &seq);
    }

    // ---------------------------------------------------------------- concurrent bubble sort, one worker

    /// Worker pool with a single worker that runs every task on the calling thread.  This drives
    /// the REAL `concurrent_bubble_sort` (task generation, blocked set, task hand-over logic)
    /// under the one legal schedule in which a single worker processes all tasks.
    struct OneWorker;
    impl WorkerPool for OneWorker {
        fn current_num_threads(&self) -> usize {
            1
        }
        fn split_depth(&self) -> u32 {
            0
        }
        fn set_split_depth(&self, _depth: Option<u32>) {}
        fn install<R: Send>(&self, op: impl FnOnce() -> R + Send) -> R {
            op()
        }
        fn join<RA: Send, RB: Send>(
            &self,
            op_a: impl FnOnce() -> RA + Send,
            op_b: impl FnOnce() -> RB + Send,
        ) -> (RA, RB) {
            (op_a(), op_b())
        }
        fn broadcast<R: Send>(
            &self,
            op: impl Fn(oxidd_core::BroadcastContext) -> R + Sync,
        ) -> Vec<R> {
            let mut v = Vec::with_capacity(1);
            v.push(op(oxidd_core::BroadcastContext {
                index: 0,
                num_threads: 1,
            }));
            v
        }
    }
    struct OneWorkerManager(OneWorker);
    impl HasWorkers for OneWorkerManager {
        type WorkerPool = OneWorker;
        fn workers(&self) -> &OneWorker {
            &self.0
        }
    }

    fn concurrent_bubble_sort_one_worker_contract<const N: usize, const S: usize>() {
        assert!(S == N * (N - 1) / 2);
        let start: [u32; N] = kani::any();
        let rec = Recorder::<N, S>::new(&start);
        let mut seq = start;
        let m = OneWorkerManager(OneWorker);
        let swap: SwapFn<'_, OneWorkerManager> = &|_m, i| rec.swap(i);

        concurrent_bubble_sort(&m, &mut seq, swap);

        kani::cover!(rec.count.load(Relaxed) == S, "worst case (reversed order) reachable");
        kani::cover!(rec.count.load(Relaxed) == 0, "already sorted reachable");
        rec.check(&start, &seq);
    }

    /// concrete worst cases (every pair inverted / two swapped halves) for larger N: cheap for CBMC (no symbolic
    /// input), and the only one-worker instances beyond N = 3 that fit the memory cap
    fn concurrent_bubble_sort_one_worker_concrete<const N: usize, const S: usize>(start: [u32; N]) {
        assert!(S == N * (N - 1) / 2);
        let rec = Recorder::<N, S>::new(&start);
        let mut seq = start;
        let m = OneWorkerManager(OneWorker);
        let swap: SwapFn<'_, OneWorkerManager> = &|_m, i| rec.swap(i);
        concurrent_bubble_sort(&m, &mut seq, swap);
        rec.check(&start, &seq);
    }

    // ---------------------------------------------------------------- harness instances

    macro_rules! harness {
        ($name:ident, $unwind:expr, $body:expr) => {
            #[kani::proof]
            #[kani::unwind($unwind)]
            fn $name() {
                $body
            }
        };
    }

    // request lengths the callers can produce: 2..=N
    harness!(sort_order_n3_m2, 8, sort_order_contract::<3, 2>());
    harness!(sort_order_n3_m3, 8, sort_order_contract::<3, 3>());
    harness!(sort_order_n4_m2, 8, sort_order_contract::<4, 2>());
    harness!(sort_order_n4_m3, 8, sort_order_contract::<4, 3>());
    harness!(sort_order_n4_m4, 8, sort_order_contract::<4, 4>());
    harness!(sort_order_n5_m2, 10, sort_order_contract::<5, 2>());
    harness!(sort_order_n5_m3, 10, sort_order_contract::<5, 3>());
    harness!(sort_order_n5_m4, 10, sort_order_contract::<5, 4>());
    harness!(sort_order_n5_m5, 10, sort_order_contract::<5, 5>());
    // lengths 0 and 1: accepted by sort_order, never passed by the callers
    harness!(sort_order_n3_m0, 8, sort_order_contract::<3, 0>());
    harness!(sort_order_n3_m1, 8, sort_order_contract::<3, 1>());
    harness!(sort_order_n4_m0, 8, sort_order_contract::<4, 0>());
    harness!(sort_order_n4_m1, 8, sort_order_contract::<4, 1>());

    harness!(bubble_sort_n2, 4, bubble_sort_contract::<2, 1, false>());
    harness!(bubble_sort_n3, 5, bubble_sort_contract::<3, 3, false>());
    harness!(bubble_sort_n4, 8, bubble_sort_contract::<4, 6, false>());
    // bubble_sort_n5 (all u32 sequences) is NOT listed in suite.json: 1212 s / 6.5 GB, just above the
    // 20 min limit for this suite; bubble_sort_n5_perm is the listed N = 5 instance (see REPORT.md)
    harness!(bubble_sort_n5, 12, bubble_sort_contract::<5, 10, false>());
    harness!(bubble_sort_n5_perm, 12, bubble_sort_contract::<5, 10, true>());

    // The contended slow paths of parking_lot (thread parking: thread-locals, futex, Instant) make
    // kani-compiler 0.68 crash (internal compiler error in kani-compiler/src/intrinsics.rs:243).
    // They are replaced by stubs that PANIC: "a single worker never blocks" is therefore checked by
    // these harnesses, not assumed (a reachable stub would refute the harness).
    fn stub_lock_slow(_m: &parking_lot::RawMutex, _timeout: Option<std::time::Instant>) -> bool {
        panic!()
    }
    fn stub_unlock_slow(_m: &parking_lot::RawMutex, _force_fair: bool) {
        panic!()
    }
    fn stub_condvar_wait(
        _c: &parking_lot::Condvar,
        _m: &parking_lot::RawMutex,
        _timeout: Option<std::time::Instant>,
    ) -> parking_lot::WaitTimeoutResult {
        panic!()
    }
    macro_rules! harness_one_worker {
        ($name:ident, $unwind:expr, $body:expr) => {
            #[kani::proof]
            #[kani::unwind($unwind)]
            #[kani::stub(parking_lot::RawMutex::lock_slow, stub_lock_slow)]
            #[kani::stub(parking_lot::RawMutex::unlock_slow, stub_unlock_slow)]
            #[kani::stub(parking_lot::Condvar::wait_until_internal, stub_condvar_wait)]
            fn $name() {
                $body
            }
        };
    }
    harness_one_worker!(concurrent_one_worker_n2, 3, concurrent_bubble_sort_one_worker_contract::<2, 1>());
    harness_one_worker!(concurrent_one_worker_n3, 4, concurrent_bubble_sort_one_worker_contract::<3, 3>());
    // NOT listed in suite.json: CBMC runs out of memory under the 12 GB cap (see REPORT.md)
    harness_one_worker!(concurrent_one_worker_n4, 7, concurrent_bubble_sort_one_worker_contract::<4, 6>());

    harness_one_worker!(concurrent_one_worker_reversed_n5, 12, concurrent_bubble_sort_one_worker_concrete::<5, 10>([4, 3, 2, 1, 0]));
    harness_one_worker!(concurrent_one_worker_reversed_n6, 17, concurrent_bubble_sort_one_worker_concrete::<6, 15>([5, 4, 3, 2, 1, 0]));
    harness_one_worker!(concurrent_one_worker_halves_n6, 17, concurrent_bubble_sort_one_worker_concrete::<6, 15>([3, 4, 5, 0, 1, 2]));

    // ---------------------------------------------------------------- self tests (MUST fail)

    /// wrong postcondition: sort_order always returns the identity
    #[kani::proof]
    #[kani::unwind(8)]
    fn selftest_sort_order_identity_must_fail() {
        let req = any_request::<3, 2>();
        let res = sort_order(3, req[..2].iter().copied());
        assert!(res[0] == 0 && res[1] == 1 && res[2] == 2); // SELFTEST: must be refuted
    }

    /// wrong postcondition: bubble_sort never needs more than one swap
    #[kani::proof]
    #[kani::unwind(5)]
    fn selftest_bubble_sort_one_swap_must_fail() {
        let start: [u32; 3] = kani::any();
        let rec = Recorder::<3, 3>::new(&start);
        let mut seq = start;
        let swap: SwapFn<'_, ()> = &|_m, i| rec.swap(i);
        bubble_sort(&(), &mut seq, swap);
        assert!(rec.count.load(Relaxed) <= 1); // SELFTEST: must be refuted
    }
}
