"""Development runner used for REPORT.md (same machinery as `python3 -m vx.kani_dev`, i.e.
vx.kani_run.make_scratch / run_harness / playback), but additionally
  * keeps the raw Kani log per harness under <suite>/.logs/ (git-ignored scratch, delete at will),
  * cross-checks the parsed verdict against Kani's own summary line `** n of m failed`
    (vx.kani_run.parse_kani drops checks whose description contains a double quote, e.g. asserts with a
    custom message, so a failure could otherwise be reported as `discharged`),
  * prints the peak RSS of the child processes (ru_maxrss is cumulative over the invocation: run heavy
    harnesses in separate invocations for a per-harness figure).

usage (cwd /verif):  VERIF_KANI_MEM_KB=12000000 python3 kani/reorder/devrun.py <suite> [substr ...] [--playback]
"""
import json, os, re, resource, shutil, sys, time
sys.path.insert(0, os.path.dirname(os.path.dirname(os.path.dirname(os.path.abspath(__file__)))))
from vx import kani_run


def main():
    args = [a for a in sys.argv[1:] if not a.startswith('--')]
    suite, subs = args[0], args[1:]
    sd = os.path.join(kani_run.VERIF, 'kani', suite)
    cfg = json.load(open(os.path.join(sd, 'suite.json')))
    logs = os.path.join(sd, '.logs')
    os.makedirs(logs, exist_ok=True)
    root, ws = kani_run.make_scratch(sd, cfg)
    try:
        for h in cfg['harnesses']:
            if subs and not any(s in h['name'] for s in subs):
                continue
            t = time.time()
            ob = kani_run.run_harness(ws, cfg, h, logs)
            wall = time.time() - t
            raw = open(os.path.join(logs, re.sub(r'\W+', '_', h['name']) + '.log')).read()
            m = re.search(r'\*\* (\d+) of (\d+) failed', raw)
            c = re.search(r'\*\* (\d+) of (\d+) cover properties satisfied', raw)
            v = re.search(r'VERIFICATION:- (\w+)', raw)
            vt = re.search(r'Verification Time: ([\d.]+)s', raw)
            rss = resource.getrusage(resource.RUSAGE_CHILDREN).ru_maxrss / 1e6
            status = ob['status']
            if m and int(m.group(1)) > 0 and status == 'discharged' and not h.get('ignore'):
                status = 'REFUTED(raw)'  # parser missed the failing check
            print('%-58s %-12s %-14s wall=%6.1fs cbmc=%6ss failed=%s cover=%s kani=%s maxrss<=%.1fGB' % (
                h['name'], status, ob['kind'][:14], wall, vt.group(1) if vt else '-',
                '%s/%s' % m.groups() if m else '-', '%s/%s' % c.groups() if c else '-', v.group(1) if v else '-', rss), flush=True)
            if status != 'discharged':
                print('    ' + (ob.get('detail') or '')[-1200:].replace('\n', '\n    '))
                for fm in re.finditer(r'Failed Checks: ([^\n]*)\n\s*File: ([^\n]*)', raw):
                    print('    FAILED CHECK: %s @ %s' % fm.groups())
            if ob['status'] == 'refuted' and '--playback' in sys.argv:
                kani_run.playback(ws, cfg, h, ob)
                print(json.dumps(ob.get('witness'), indent=1)[:4000])
    finally:
        shutil.rmtree(root, ignore_errors=True)


if __name__ == '__main__':
    main()
