// Kani harnesses for `MinSegTree` (appended to crates/oxidd-reorder/src/set_var_order/segtree.rs).
//
// Model: a plain array `a[0..N]` of integers.
//   new(data)            a = data
//   add_split(i, l, r)   a[k] += l for k < i,  a[k] += r for k >= i
//   min_index()          the LOWEST index k with a[k] = min(a)
//
// Two kinds of harnesses:
//  * `api_*`  : only the public API: `new(symbolic data)` followed by one or two `add_split` calls with
//               symbolic arguments; after every step the projection of the tree equals the array
//               model and `min_index()` equals the model's answer.
//  * `step_*` : one-step inductive contracts from an ARBITRARY tree satisfying the representation
//               invariant `rep_inv` (established by `new`, see `api_*`), so that any number of
//               operations is covered for the given size.
// All sizes are concrete (const generics); contents and arguments are symbolic but bounded in
// magnitude (BOUND) so that i32 arithmetic cannot overflow (the real user `sort_order` keeps all
// values within +-num_levels).
#[cfg(kani)]
mod verif_segtree {
    use super::*;

    /// magnitude bound for element values, deltas and `add_split` arguments
    const BOUND: i32 = 1 << 24;

    fn bounded(v: i32, b: i32) -> bool {
        -b <= v && v <= b
    }

    // ---------------------------------------------------------------- abstract view / model

    /// value of element `k`: sum of the deltas on the root-to-leaf path (what `proj` computes,
    /// but in i64 and for real elements only)
    fn elem(t: &MinSegTree, k: usize) -> i64 {
        let size = t.0.len() / 2;
        let mut i = size + k;
        let mut s = 0i64;
        while i >= 1 {
            s += t.0[i].delta as i64;
            i /= 2;
        }
        s
    }

    fn view<const N: usize>(t: &MinSegTree) -> [i64; N] {
        let mut a = [0i64; N];
        let mut k = 0;
        while k < N {
            a[k] = elem(t, k);
            k += 1;
        }
        a
    }

    /// model of `min_index`: lowest index of a minimal element
    fn argmin<const N: usize>(a: &[i64; N]) -> usize {
        let mut best = 0;
        let mut k = 1;
        while k < N {
            if a[k] < a[best] {
                best = k;
            }
            k += 1;
        }
        best
    }

    /// model of `add_split`
    fn model_add_split<const N: usize>(a: &mut [i64; N], i: usize, l: i32, r: i32) {
        let mut k = 0;
        while k < N {
            a[k] += if k < i { l as i64 } else { r as i64 };
            k += 1;
        }
    }

    fn same<const N: usize>(a: &[i64; N], b: &[i64; N]) -> bool {
        let mut k = 0;
        while k < N {
            if a[k] != b[k] {
                return false;
            }
            k += 1;
        }
        true
    }

    /// Representation invariant for a tree with N real elements and SIZE = N.next_power_of_two()
    /// leaves; `b` bounds every delta of a live node.
    ///  * real leaves: `min == delta`
    ///  * padding leaves: `delta == min == i32::MAX`
    ///  * inner node over padding only: `delta == 0`, `min == i32::MAX` (never updated)
    ///  * other inner nodes: `min == delta + min(left.min, right.min)`
    fn rep_inv<const N: usize>(t: &MinSegTree, b: i32) -> bool {
        let size = N.next_power_of_two();
        if t.0.len() != 2 * size {
            return false;
        }
        let mut k = 0;
        while k < size {
            let e = t.0[size + k];
            if k < N {
                if !(e.min == e.delta && bounded(e.delta, b)) {
                    return false;
                }
            } else if !(e.min == i32::MAX && e.delta == i32::MAX) {
                return false;
            }
            k += 1;
        }
        let mut i = size - 1;
        while i >= 1 {
            let e = t.0[i];
            let l = t.0[2 * i].min;
            let r = t.0[2 * i + 1].min;
            let c = if l <= r { l } else { r };
            if c == i32::MAX {
                if !(e.delta == 0 && e.min == i32::MAX) {
                    return false;
                }
            } else {
                if !bounded(e.delta, b) {
                    return false;
                }
                if e.min as i64 != e.delta as i64 + c as i64 {
                    return false;
                }
            }
            i -= 1;
        }
        true
    }

    /// arbitrary tree satisfying `rep_inv` with bound BOUND (LEN = 2 * N.next_power_of_two())
    fn any_tree<const N: usize, const LEN: usize>() -> MinSegTree {
        assert!(LEN == 2 * N.next_power_of_two());
        let mut v = Vec::with_capacity(LEN);
        let mut i = 0;
        while i < LEN {
            v.push(MinSegTreeEntry {
                delta: kani::any(),
                min: kani::any(),
            });
            i += 1;
        }
        let t = MinSegTree(v);
        kani::assume(rep_inv::<N>(&t, BOUND));
        kani::cover!(true, "assumed region (rep_inv) is reachable");
        kani::cover!(t.0[1].delta != 0, "rep_inv admits pending deltas at the root");
        t
    }

    // ---------------------------------------------------------------- contracts

    /// public API only: new + STEPS x add_split, min_index after every step
    fn api_sequence<const N: usize, const STEPS: usize>() {
        let size = N.next_power_of_two();
        let data: [i32; N] = kani::any();
        let mut model = [0i64; N];
        let mut k = 0;
        while k < N {
            kani::assume(bounded(data[k], BOUND));
            model[k] = data[k] as i64;
            k += 1;
        }
        kani::cover!(true, "bounded data exists");

        let mut t = MinSegTree::new(data.into_iter());

        assert!(rep_inv::<N>(&t, BOUND)); // base case of the step_* contracts
        assert!(same(&view::<N>(&t), &model));
        assert!(t.min_index() == argmin(&model));

        let mut step = 0;
        while step < STEPS {
            let i: usize = kani::any();
            let l: i32 = kani::any();
            let r: i32 = kani::any();
            // accepted domain of add_split: its own `assert!(i <= size)` (size = padded length)
            kani::assume(i <= size && bounded(l, BOUND) && bounded(r, BOUND));
            kani::cover!(true, "valid add_split arguments exist");
            kani::cover!(size == N || i > N, "split point inside the padding is reachable (if there is padding)");
            t.add_split(i, l, r);
            model_add_split(&mut model, i, l, r);
            assert!(same(&view::<N>(&t), &model));
            assert!(t.min_index() == argmin(&model));
            step += 1;
        }
        kani::cover!(argmin(&model) == N - 1, "minimum can be the last element");
    }

    /// one step of `add_split` from an arbitrary tree: effect on the view, invariant preserved
    /// (with the delta bound grown by the argument bound).  The split point ranges over LO..=HI;
    /// the instances for one size together cover 0..=size (case split to keep SAT instances small).
    fn step_add_split<const N: usize, const LEN: usize, const LO: usize, const HI: usize>() {
        let size = N.next_power_of_two();
        let mut t = any_tree::<N, LEN>();
        let mut model = view::<N>(&t);
        let i: usize = kani::any();
        let l: i32 = kani::any();
        let r: i32 = kani::any();
        assert!(HI <= size);
        kani::assume(LO <= i && i <= HI && bounded(l, BOUND) && bounded(r, BOUND));
        kani::cover!(i == LO, "lower end of the split point range reachable");
        kani::cover!(i == HI, "upper end of the split point range reachable");
        kani::cover!(size < 2 || HI == 0 || LO == size || (i != 0 && i != size), "inner split point reachable (if there is one)");
        kani::cover!(HI <= N || i > N, "split point inside the padding is reachable (if the range has one)");

        t.add_split(i, l, r);

        model_add_split(&mut model, i, l, r);
        assert!(same(&view::<N>(&t), &model));
        assert!(rep_inv::<N>(&t, 2 * BOUND));
    }

    /// `min_index` on an arbitrary tree: lowest index of a minimal element of the view;
    /// does not modify the tree
    fn step_min_index<const N: usize, const LEN: usize>() {
        let t = any_tree::<N, LEN>();
        let a = view::<N>(&t);
        let m = t.min_index();
        assert!(m < N);
        assert!(m == argmin(&a));
        // spelled out: minimal, and no smaller index is minimal
        let mut k = 0;
        while k < N {
            assert!(a[m] <= a[k]);
            if k < m {
                assert!(a[k] > a[m]);
            }
            k += 1;
        }
        assert!(same(&view::<N>(&t), &a));
    }

    macro_rules! harness {
        ($name:ident, $unwind:expr, $body:expr) => {
            #[kani::proof]
            #[kani::unwind($unwind)]
            fn $name() {
                $body
            }
        };
    }

    harness!(api_n1, 4, api_sequence::<1, 2>());
    harness!(api_n2, 5, api_sequence::<2, 2>());
    harness!(api_n3, 6, api_sequence::<3, 2>());
    harness!(api_n4, 6, api_sequence::<4, 2>());
    // sizes 5..8: one add_split step in the quick tier, two steps in the thorough tier
    harness!(api_n5_s1, 10, api_sequence::<5, 1>());
    harness!(api_n6_s1, 10, api_sequence::<6, 1>());
    harness!(api_n7_s1, 10, api_sequence::<7, 1>());
    harness!(api_n8_s1, 10, api_sequence::<8, 1>());
    harness!(api_n5_s2, 10, api_sequence::<5, 2>());
    harness!(api_n6_s2, 10, api_sequence::<6, 2>());
    // api_sequence::<7, 2> / <8, 2> are not instantiated: > 25 min each (timeout); sizes 7 and 8 are
    // covered by api_n7_s1 / api_n8_s1 (base case + one step) and the inductive step_* contracts

    harness!(step_add_split_n1, 4, step_add_split::<1, 2, 0, 1>());
    harness!(step_add_split_n2, 6, step_add_split::<2, 4, 0, 2>());
    harness!(step_add_split_n3, 10, step_add_split::<3, 8, 0, 4>());
    harness!(step_add_split_n4, 10, step_add_split::<4, 8, 0, 4>());
    harness!(step_add_split_n5, 18, step_add_split::<5, 16, 0, 8>());
    // sizes 7 and 8: split point range 0..=8 divided into three instances
    harness!(step_add_split_n7_i0to2, 18, step_add_split::<7, 16, 0, 2>());
    harness!(step_add_split_n7_i3to5, 18, step_add_split::<7, 16, 3, 5>());
    harness!(step_add_split_n7_i6to8, 18, step_add_split::<7, 16, 6, 8>());
    harness!(step_add_split_n8_i0to2, 18, step_add_split::<8, 16, 0, 2>());
    harness!(step_add_split_n8_i3to5, 18, step_add_split::<8, 16, 3, 5>());
    harness!(step_add_split_n8_i6to8, 18, step_add_split::<8, 16, 6, 8>());

    harness!(step_min_index_n1, 4, step_min_index::<1, 2>());
    harness!(step_min_index_n2, 6, step_min_index::<2, 4>());
    harness!(step_min_index_n3, 10, step_min_index::<3, 8>());
    harness!(step_min_index_n4, 10, step_min_index::<4, 8>());
    harness!(step_min_index_n5, 18, step_min_index::<5, 16>());
    harness!(step_min_index_n7, 18, step_min_index::<7, 16>());
    harness!(step_min_index_n8, 18, step_min_index::<8, 16>());

    // ---------------------------------------------------------------- self test (MUST fail)

    /// wrong postcondition: min_index returns the HIGHEST index of a minimal element
    #[kani::proof]
    #[kani::unwind(10)]
    fn selftest_min_index_highest_must_fail() {
        let t = any_tree::<3, 8>();
        let a = view::<3>(&t);
        let m = t.min_index();
        let mut k = 0;
        while k < 3 {
            if k > m {
                assert!(a[k] > a[m]); // SELFTEST: must be refuted
            }
            k += 1;
        }
    }
}
