// ---- appended by /verif (engine K): full-domain, loop-free harnesses for F64 (all 2^64 bit patterns) ----
#[cfg(kani)]
mod verif_f64 {
    use super::*;
    fn any_norm() -> F64 { F64::from(f64::from_bits(kani::any())) }
    fn raw(x: F64) -> f64 { f64::from(x) }
    /// canonical: the only NaN is f64::NAN, and -0.0 never occurs
    fn canonical(x: F64) -> bool {
        let b = raw(x).to_bits();
        (!raw(x).is_nan() || b == f64::NAN.to_bits()) && b != (-0.0f64).to_bits()
    }
    /// `r` is the IEEE-754 result `ieee` with NaN and signed zero normalised
    fn is_norm_of(r: F64, ieee: f64) -> bool {
        if ieee.is_nan() { raw(r).to_bits() == f64::NAN.to_bits() }
        else if ieee == 0.0 { raw(r).to_bits() == 0.0f64.to_bits() }
        else { raw(r).to_bits() == ieee.to_bits() }
    }
    #[kani::proof]
    fn from_normalises() {
        let v = f64::from_bits(kani::any());
        let x = F64::from(v);
        assert!(canonical(x));
        assert!(is_norm_of(x, v));
    }
    #[kani::proof]
    fn add_sub_laws() {
        let (x, y) = (any_norm(), any_norm());
        assert!(canonical(x + y) && canonical(x - y));
        assert!(F64::zero() + x == x && x + F64::zero() == x && x - F64::zero() == x);
        assert!(F64::nan() + x == F64::nan() && x + F64::nan() == F64::nan());
        assert!(F64::nan() - x == F64::nan() && x - F64::nan() == F64::nan());
        // inf - inf = NaN
        let inf = F64::from(f64::INFINITY);
        let ninf = F64::from(f64::NEG_INFINITY);
        assert!(inf - inf == F64::nan() && inf + ninf == F64::nan() && ninf - ninf == F64::nan());
        assert!(NumberBase::add(&x, &y) == x + y && NumberBase::sub(&x, &y) == x - y);
    }
    #[kani::proof]
    fn mul_laws() {
        let x = any_norm();
        assert!(F64::one() * x == x && x * F64::one() == x);
        assert!(F64::nan() * x == F64::nan() && x * F64::nan() == F64::nan());
        let inf = F64::from(f64::INFINITY);
        assert!(F64::zero() * inf == F64::nan() && inf * F64::zero() == F64::nan());
    }
    #[kani::proof]
    fn mul_canonical() {
        let (x, y) = (any_norm(), any_norm());
        assert!(canonical(x * y));
    }
    #[kani::proof]
    fn div_laws() {
        let x = any_norm();
        assert!(x / F64::one() == x);
        assert!(F64::nan() / x == F64::nan() && x / F64::nan() == F64::nan());
        let inf = F64::from(f64::INFINITY);
        assert!(F64::zero() / F64::zero() == F64::nan() && inf / inf == F64::nan());
        // x/0 = +-inf by the sign of x
        if raw(x) > 0.0 { assert!(x / F64::zero() == inf); }
        if raw(x) < 0.0 { assert!(x / F64::zero() == F64::from(f64::NEG_INFINITY)); }
    }
    #[kani::proof]
    fn div_canonical() {
        let (x, y) = (any_norm(), any_norm());
        assert!(canonical(x / y));
    }
    #[kani::proof]
    fn small_int_values() {
        // bounded: exact arithmetic on integer-valued operands |x|,|y| <= 128 (all results exactly representable)
        let (xi, yi): (i8, i8) = (kani::any(), kani::any());
        let (x, y) = (F64::from(xi as f64), F64::from(yi as f64));
        assert!(x + y == F64::from((xi as i32 + yi as i32) as f64));
        assert!(x - y == F64::from((xi as i32 - yi as i32) as f64));
        assert!(x * y == F64::from((xi as i32 * yi as i32) as f64));
        if yi != 0 { assert!((x * y) / y == x); }
        assert!(NumberBase::mul(&x, &y) == x * y);
        if yi != 0 { assert!(NumberBase::div(&x, &y) == x / y); }
    }
    #[kani::proof]
    fn eq_ord() {
        use std::cmp::Ordering::*;
        let (x, y) = (any_norm(), any_norm());
        let c = x.partial_cmp(&y);
        assert!((c == Some(Equal)) == (x == y));
        assert!((x == y) == (raw(x).to_bits() == raw(y).to_bits()));
        if x != F64::nan() && y != F64::nan() {
            assert!(c == raw(x).partial_cmp(&raw(y)));
            assert!(c.is_some());
        } else if x != y {
            assert!(c.is_none());
        }
    }

    // ---- the algebraic laws assumed by the Verus bundle contracts/mtbdd.rs.tpl (num_laws) ----
    #[kani::proof]
    fn laws_for_shortcuts() {
        use std::cmp::Ordering::*;
        let (x, y) = (any_norm(), any_norm());
        let (zero, one, nan) = (F64::zero(), F64::one(), F64::nan());
        assert!(zero != one && zero != nan && one != nan);
        assert!(x.is_zero() == (x == zero) && x.is_one() == (x == one) && NumberBase::is_nan(&x) == (x == nan));
        assert!(x.partial_cmp(&x) == Some(Equal));
        if x != nan { assert!(nan.partial_cmp(&x).is_none() && x.partial_cmp(&nan).is_none()); }
        if x.partial_cmp(&y) == Some(Equal) { assert!(x == y); }
        assert!((x.partial_cmp(&y) == Some(Less)) == (y.partial_cmp(&x) == Some(Greater)));
        assert!(x.partial_cmp(&y).is_none() == y.partial_cmp(&x).is_none());
    }
}
