// ---- appended by /verif (engine K): full-domain, loop-free harnesses for I64 arithmetic ----
#[cfg(kani)]
mod verif_i64 {
    use super::I64;
    use super::I64::*;

    fn any_i64v() -> I64 {
        match kani::any::<u8>() % 4 {
            0 => NaN,
            1 => MinusInf,
            2 => PlusInf,
            _ => Num(kani::any()),
        }
    }
    /// saturate an exact (i128) result: representable => Num, else infinity of its sign
    fn sat(x: i128) -> I64 {
        if x > i64::MAX as i128 {
            PlusInf
        } else if x < i64::MIN as i128 {
            MinusInf
        } else {
            Num(x as i64)
        }
    }
    fn sign(x: I64) -> i32 {
        match x {
            MinusInf => -1,
            PlusInf => 1,
            Num(n) => if n > 0 { 1 } else if n < 0 { -1 } else { 0 },
            NaN => 0,
        }
    }
    fn inf_of(s: i32) -> I64 { if s > 0 { PlusInf } else if s < 0 { MinusInf } else { NaN } }

    // specification written from the property statement (C10)
    fn spec_add(a: I64, b: I64) -> I64 {
        match (a, b) {
            (NaN, _) | (_, NaN) => NaN,
            (Num(x), Num(y)) => sat(x as i128 + y as i128),
            (PlusInf, MinusInf) | (MinusInf, PlusInf) => NaN, // inf - inf
            (PlusInf, _) | (_, PlusInf) => PlusInf,
            (MinusInf, _) | (_, MinusInf) => MinusInf,
        }
    }
    fn spec_neg(b: I64) -> I64 {
        match b { NaN => NaN, PlusInf => MinusInf, MinusInf => PlusInf, Num(_) => b }
    }
    fn spec_sub(a: I64, b: I64) -> I64 {
        match (a, b) {
            (NaN, _) | (_, NaN) => NaN,
            (Num(x), Num(y)) => sat(x as i128 - y as i128),
            (PlusInf, PlusInf) | (MinusInf, MinusInf) => NaN, // inf - inf
            (PlusInf, _) => PlusInf,
            (MinusInf, _) => MinusInf,
            (_, PlusInf) => MinusInf,
            (_, MinusInf) => PlusInf,
        }
    }
    fn spec_mul(a: I64, b: I64) -> I64 {
        match (a, b) {
            (NaN, _) | (_, NaN) => NaN,
            (Num(x), Num(y)) => sat(x as i128 * y as i128),
            _ => inf_of(sign(a) * sign(b)), // 0 * inf = NaN
        }
    }
    fn spec_div(a: I64, b: I64) -> I64 {
        match (a, b) {
            (NaN, _) | (_, NaN) => NaN,
            (Num(x), Num(0)) => inf_of(sign(Num(x))), // x/0 = +-inf by sign of x, 0/0 = NaN
            (Num(x), Num(y)) => sat(x as i128 / y as i128), // truncation toward zero; MIN / -1 = 2^63 saturates
            (Num(_), _) => Num(0),                 // finite / inf
            (_, Num(y)) => inf_of(sign(a) * if y < 0 { -1 } else { 1 }), // inf / finite (inf/0 keeps the sign)
            _ => NaN,                              // inf / inf
        }
    }

    #[kani::proof]
    fn add_matches_spec() {
        let (a, b) = (any_i64v(), any_i64v());
        assert!(a + b == spec_add(a, b));
    }
    #[kani::proof]
    fn sub_matches_spec() {
        let (a, b) = (any_i64v(), any_i64v());
        assert!(a - b == spec_sub(a, b));
    }
    #[kani::proof]
    fn mul_matches_spec_specials() {
        // every pair in which at least one operand is not finite, or is one of the boundary values
        let (a, b) = (any_i64v(), any_i64v());
        let small = |v: I64| match v { Num(n) => n >= -3 && n <= 3 || n == i64::MIN || n == i64::MAX, _ => true };
        kani::assume(small(a) || small(b));
        assert!(a * b == spec_mul(a, b));
    }
    #[kani::proof]
    fn mul_overflow_sign() {
        // finite x finite: Num(exact) iff representable, else infinity whose sign is the product of the signs
        let (x, y): (i64, i64) = (kani::any(), kani::any());
        let r = Num(x) * Num(y);
        match x.checked_mul(y) {
            Some(n) => assert!(r == Num(n)),
            None => assert!(r == inf_of(sign(Num(x)) * sign(Num(y)))),
        }
    }
    #[kani::proof]
    fn div_class_full() {
        // full domain: every special form and the classification of finite/finite; the value of the
        // generic quotient is checked in div_value_i8 (a second 64-bit divider is out of solver reach)
        let (a, b) = (any_i64v(), any_i64v());
        let r = a / b;
        match (a, b) {
            (Num(x), Num(y)) if y != 0 && !(x == i64::MIN && y == -1) => {
                assert!(matches!(r, Num(_)));
                if y == 1 { assert!(r == Num(x)); }
                if x == 0 { assert!(r == Num(0)); }
            }
            _ => assert!(r == spec_div(a, b)),
        }
    }
    #[kani::proof]
    fn div_value_i8() {
        let (x, y): (i8, i8) = (kani::any(), kani::any());
        let (a, b) = (Num(x as i64), Num(y as i64));
        assert!(a / b == spec_div(a, b));
    }
    #[kani::proof]
    fn cmp_consistent() {
        use std::cmp::Ordering::*;
        let (a, b) = (any_i64v(), any_i64v());
        let c = a.partial_cmp(&b);
        assert!((c == Some(Equal)) == (a == b));
        if let (Num(x), Num(y)) = (a, b) { assert!(c == Some(x.cmp(&y))); }
        if a != NaN && b != NaN {
            assert!(c.is_some());
            assert!(c == b.partial_cmp(&a).map(|o| o.reverse()));
            if a == MinusInf && b != MinusInf { assert!(c == Some(Less)); }
            if a == PlusInf && b != PlusInf { assert!(c == Some(Greater)); }
        } else if a != b {
            assert!(c.is_none());
        }
    }
    #[kani::proof]
    fn number_base_mul() {
        use oxidd_core::function::NumberBase;
        let (a, b) = (any_i64v(), any_i64v());
        assert!(NumberBase::mul(&a, &b) == a * b);
    }
    #[kani::proof]
    fn number_base_div() {
        use oxidd_core::function::NumberBase;
        let (a, b) = (any_i64v(), any_i64v());
        assert!(NumberBase::div(&a, &b) == a / b);
    }
    #[kani::proof]
    fn number_base_wrappers() {
        use oxidd_core::function::NumberBase;
        let (a, b) = (any_i64v(), any_i64v());
        assert!(NumberBase::add(&a, &b) == a + b);
        assert!(NumberBase::sub(&a, &b) == a - b);
        assert!(<I64 as NumberBase>::zero() == Num(0) && <I64 as NumberBase>::one() == Num(1) && <I64 as NumberBase>::nan() == NaN);
    }

    // ---- the algebraic laws assumed by the Verus bundle contracts/mtbdd.rs.tpl (num_laws) ----
    #[kani::proof]
    fn laws_for_shortcuts() {
        use oxidd_core::function::NumberBase;
        use std::cmp::Ordering::*;
        let (x, y) = (any_i64v(), any_i64v());
        let (zero, one, nan) = (<I64 as NumberBase>::zero(), <I64 as NumberBase>::one(), <I64 as NumberBase>::nan());
        assert!(zero != one && zero != nan && one != nan);
        assert!(x.is_zero() == (x == zero) && x.is_one() == (x == one) && NumberBase::is_nan(&x) == (x == nan));
        assert!(NumberBase::add(&zero, &x) == x && NumberBase::add(&x, &zero) == x);
        assert!(NumberBase::sub(&x, &zero) == x);
        assert!(NumberBase::add(&nan, &x) == nan && NumberBase::add(&x, &nan) == nan);
        assert!(NumberBase::sub(&nan, &x) == nan && NumberBase::sub(&x, &nan) == nan);
        assert!(NumberBase::add(&x, &y) == NumberBase::add(&y, &x));
        // order laws
        assert!(x.partial_cmp(&x) == Some(Equal));
        if x != nan { assert!(nan.partial_cmp(&x).is_none() && x.partial_cmp(&nan).is_none()); }
        if x.partial_cmp(&y) == Some(Equal) { assert!(x == y); }
        assert!((x.partial_cmp(&y) == Some(Less)) == (y.partial_cmp(&x) == Some(Greater)));
        assert!(x.partial_cmp(&y).is_none() == y.partial_cmp(&x).is_none());
    }
    #[kani::proof]
    fn laws_mul_div() {
        use oxidd_core::function::NumberBase;
        let x = any_i64v();
        let (one, nan) = (<I64 as NumberBase>::one(), <I64 as NumberBase>::nan());
        assert!(NumberBase::mul(&one, &x) == x && NumberBase::mul(&x, &one) == x);
        assert!(NumberBase::div(&x, &one) == x);
        assert!(NumberBase::mul(&nan, &x) == nan && NumberBase::mul(&x, &nan) == nan);
        assert!(NumberBase::div(&nan, &x) == nan && NumberBase::div(&x, &nan) == nan);
    }
    #[kani::proof]
    fn law_mul_commutative() {
        use oxidd_core::function::NumberBase;
        let (x, y) = (any_i64v(), any_i64v());
        assert!(NumberBase::mul(&x, &y) == NumberBase::mul(&y, &x));
    }
}
