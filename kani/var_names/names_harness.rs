// ---- appended by /verif (engine K, suite var_names): VarNameMap, property C16 — ONE bounded attempt ----
//
// Names are drawn from {"", "a", "b"} (concrete &'static str selected by a symbolic index), the map holds
// at most 2 variables, a history is `add_named([n1, n2])` (or `add_unnamed(2)`) followed by one or two
// `set_var_name` calls.  After every call the bijection invariant is asserted against a ghost model
// (array of names).  `RandomState::new` is stubbed with fixed SipHash keys (the real one asks the OS
// for randomness, which Kani cannot execute); the hash function itself is the real SipHash-1-3.
#[cfg(kani)]
mod verif_names {
    use super::*;

    fn fixed_random_state() -> std::hash::RandomState {
        // RandomState is two u64 keys
        unsafe { std::mem::transmute::<(u64, u64), std::hash::RandomState>((0x0123_4567_89ab_cdef, 0x0f1e_2d3c_4b5a_6978)) }
    }
    fn pick() -> &'static str {
        match kani::any::<u8>() {
            0 => "",
            1 => "a",
            _ => "b",
        }
    }
    /// name_to_var and var_name are mutually inverse on exactly the named variables of the ghost model,
    /// named_count counts them, len is the model length
    fn check_inv(m: &VarNameMap, model: &[&'static str; 2], len: usize) {
        assert!(m.len() as usize == len);
        let mut named = 0;
        let mut v = 0;
        while v < len {
            assert!(m.var_name(v as VarNo) == model[v]);
            if !model[v].is_empty() {
                named += 1;
                assert!(m.name_to_var(model[v]) == Some(v as VarNo));
            }
            v += 1;
        }
        assert!(m.named_count() as usize == named);
        assert!(m.name_to_var("").is_none());
        // names that the model does not contain are not found
        let has = |s: &str| (len > 0 && model[0] == s) || (len > 1 && model[1] == s);
        if !has("a") {
            assert!(m.name_to_var("a").is_none());
        }
        if !has("b") {
            assert!(m.name_to_var("b").is_none());
        }
    }
    /// ghost-model semantics of set_var_name
    fn model_set(model: &mut [&'static str; 2], len: usize, v: usize, n: &'static str) -> Result<(), usize> {
        if !n.is_empty() {
            let mut w = 0;
            while w < len {
                if w != v && model[w] == n {
                    return Err(w);
                }
                w += 1;
            }
        }
        model[v] = n;
        Ok(())
    }
    fn do_set(m: &mut VarNameMap, model: &mut [&'static str; 2], len: usize) {
        let v: usize = if kani::any() { 0 } else { 1 };
        kani::assume(v < len);
        let n = pick();
        let r = m.set_var_name(v as VarNo, n);
        match model_set(model, len, v, n) {
            Ok(()) => assert!(r.is_ok()),
            Err(w) => match r {
                Err(e) => {
                    // the rejected call reports the conflicting variable
                    assert!(e.present_var as usize == w);
                    assert!(e.name.as_str() == n);
                }
                Ok(()) => panic!("duplicate name accepted"),
            },
        }
        check_inv(m, model, len);
    }

    #[kani::proof]
    #[kani::unwind(6)]
    #[kani::stub(std::hash::RandomState::new, fixed_random_state)]
    fn add_named_then_set_twice() {
        let mut m = VarNameMap::new();
        let mut model: [&'static str; 2] = ["", ""];
        let mut len = 0usize;
        check_inv(&m, &model, len);
        // ---- call 1
        if kani::any() {
            m.add_unnamed(2);
            len = 2;
        } else {
            let (n1, n2) = (pick(), pick());
            let r = m.add_named([n1, n2]);
            if !n1.is_empty() && n1 == n2 {
                // rejected duplicate: reports variable 0, the first name stays added
                match r {
                    Err(e) => {
                        assert!(e.present_var == 0 && e.name.as_str() == n1);
                        assert!(e.added_vars == (0..1));
                    }
                    Ok(_) => panic!("duplicate name accepted"),
                }
                model = [n1, ""];
                len = 1;
            } else {
                assert!(r == Ok(0..2));
                model = [n1, n2];
                len = 2;
            }
        }
        check_inv(&m, &model, len);
        kani::cover!(len == 1);
        kani::cover!(len == 2 && !model[0].is_empty() && !model[1].is_empty());
        // ---- call 2, 3
        do_set(&mut m, &mut model, len);
        do_set(&mut m, &mut model, len);
    }

    /// smaller variant: exactly the rename path (one named variable, one set_var_name)
    #[kani::proof]
    #[kani::unwind(6)]
    #[kani::stub(std::hash::RandomState::new, fixed_random_state)]
    fn add_one_then_set() {
        let mut m = VarNameMap::new();
        let n1 = pick();
        let r = m.add_named([n1]);
        assert!(r == Ok(0..1));
        let mut model: [&'static str; 2] = [n1, ""];
        check_inv(&m, &model, 1);
        do_set(&mut m, &mut model, 1);
    }
}
