// ---- appended by /verif (engine K): byte-level codec contracts, writer side (property C15) ----
//
// The module is `pub(super)` and re-exports thin wrappers of the private writer functions so that
// the round-trip harnesses appended to `import.rs` can call the REAL `encode_7bit`/`write_escaped`
// (private items of a sibling module are not reachable otherwise).  Nothing of the real code is
// duplicated: the wrappers only forward.
#[cfg(kani)]
pub(super) mod verif_export {
    use super::*;

    /// Fixed-capacity byte sink (constant capacity: no symbolic allocation sizes).
    /// Writing more than `N` bytes is a harness-level assertion failure.
    pub(in super::super) struct Sink<const N: usize> {
        pub buf: [u8; N],
        pub len: usize,
    }
    impl<const N: usize> Sink<N> {
        pub fn new() -> Self {
            Sink { buf: [0u8; N], len: 0 }
        }
    }
    impl<const N: usize> io::Write for Sink<N> {
        fn write(&mut self, b: &[u8]) -> io::Result<usize> {
            let mut i = 0;
            while i < b.len() {
                assert!(self.len < N, "sink capacity exceeded");
                self.buf[self.len] = b[i];
                self.len += 1;
                i += 1;
            }
            Ok(b.len())
        }
        fn flush(&mut self) -> io::Result<()> {
            Ok(())
        }
    }

    /// forwarder to the real, private `encode_7bit`
    pub(in super::super) fn enc7<const N: usize>(s: &mut Sink<N>, v: usize) -> io::Result<()> {
        super::encode_7bit(s, v)
    }
    /// forwarder to the real, private `write_escaped`
    pub(in super::super) fn esc<const N: usize>(s: &mut Sink<N>, b: &[u8]) -> io::Result<()> {
        super::write_escaped(s, b)
    }

    // ------------------------------------------------------------------ specification
    // DDDMP binary mode (written from the format description, not from the code):
    //  * the bytes 0x00, 0x0a, 0x0d, 0x1a never occur verbatim; they are written as the pairs
    //    00 00, 00 01, 00 02, 00 03; every other byte is written verbatim;
    //  * an integer is a big-endian sequence of 7-bit groups, one group per (unescaped) byte,
    //    group in bits 7..1, bit 0 = 1 iff another byte follows.

    /// escape sequence of one byte: (first, Some(second)) or (byte, None)
    pub(in super::super) fn spec_escape(b: u8) -> (u8, Option<u8>) {
        if b == 0x00 {
            (0, Some(0))
        } else if b == 0x0a {
            (0, Some(1))
        } else if b == 0x0d {
            (0, Some(2))
        } else if b == 0x1a {
            (0, Some(3))
        } else {
            (b, None)
        }
    }

    /// spec reader for one escaped byte at `pos`: Some((byte, consumed)) / None = truncated or invalid
    pub(in super::super) fn spec_unescape(buf: &[u8], pos: usize) -> Option<(u8, usize)> {
        if pos >= buf.len() {
            return None;
        }
        let a = buf[pos];
        if a != 0 {
            return Some((a, 1));
        }
        if pos + 1 >= buf.len() {
            return None;
        }
        let b = buf[pos + 1];
        if b == 0 {
            Some((0x00, 2))
        } else if b == 1 {
            Some((0x0a, 2))
        } else if b == 2 {
            Some((0x0d, 2))
        } else if b == 3 {
            Some((0x1a, 2))
        } else {
            None
        }
    }

    fn forbidden(b: u8) -> bool {
        b == 0x0a || b == 0x0d || b == 0x1a
    }

    // ------------------------------------------------------------------ encode_7bit

    /// Contract (2) + writer half of (1): for EVERY usize x, `encode_7bit` succeeds, the escaped
    /// output is well formed, un-escapes to n in 1..=10 code bytes, all but the last carry the
    /// continuation bit, the last does not, the big-endian 7-bit groups denote exactly x, and the
    /// code is the shortest one.  Full 64-bit width (10 groups): complete, not bounded.
    #[kani::proof]
    #[kani::unwind(12)]
    fn encode_7bit_format() {
        let x: usize = kani::any();
        let mut s = Sink::<20>::new();
        let r = encode_7bit(&mut s, x);
        assert!(r.is_ok(), "encode_7bit into a large enough sink succeeds");
        core::mem::forget(r);

        let mut g = [0u8; 10];
        let mut n = 0usize;
        let mut pos = 0usize;
        let mut i = 0;
        while i < 10 {
            if pos < s.len {
                match spec_unescape(&s.buf[..s.len], pos) {
                    None => {
                        assert!(false, "escaped output is well formed");
                    }
                    Some((b, c)) => {
                        assert!(!forbidden(s.buf[pos]), "no verbatim 0x0a/0x0d/0x1a in the output");
                        if c == 2 {
                            assert!(!forbidden(s.buf[pos + 1]), "no verbatim 0x0a/0x0d/0x1a in the output");
                        }
                        g[n] = b;
                        n += 1;
                        pos += c;
                    }
                }
            }
            i += 1;
        }
        assert!(pos == s.len, "at most 10 code bytes");
        assert!(1 <= n && n <= 10, "between 1 and 10 code bytes");
        let mut val: u128 = 0;
        let mut i = 0;
        while i < 10 {
            if i < n {
                assert!(((g[i] & 1) == 1) == (i + 1 < n), "continuation bit on all but the last byte");
                val = (val << 7) | ((g[i] >> 1) as u128);
            }
            i += 1;
        }
        assert!(val == x as u128, "the groups denote x");
        assert!(n == 1 || (g[0] >> 1) != 0, "shortest code (no leading zero group)");
        kani::cover!(n == 10, "full-width code reachable");
        kani::cover!(n == 1 && s.len == 2, "escaped single byte reachable (0, 5, 13)");
        kani::cover!(s.len > n + 3, "several escapes in one code reachable");
    }

    // ------------------------------------------------------------------ write_escaped

    /// Contract (4), writer half: for ALL byte strings of length 3 the output is exactly the
    /// concatenation of the per-byte escape sequences of the format.
    #[kani::proof]
    #[kani::unwind(8)]
    fn write_escaped_spec_len3() {
        let inp: [u8; 3] = kani::any();
        let mut s = Sink::<6>::new();
        let r = write_escaped(&mut s, &inp);
        assert!(r.is_ok());
        core::mem::forget(r);
        let mut pos = 0usize;
        let mut i = 0;
        while i < 3 {
            let (a, b) = spec_escape(inp[i]);
            assert!(pos < s.len && s.buf[pos] == a);
            pos += 1;
            if let Some(b) = b {
                assert!(pos < s.len && s.buf[pos] == b);
                pos += 1;
            }
            i += 1;
        }
        assert!(pos == s.len, "nothing else is written");
        let mut i = 0;
        while i < 6 {
            if i < s.len {
                assert!(!forbidden(s.buf[i]));
            }
            i += 1;
        }
        kani::cover!(s.len == 6, "all three escaped");
        kani::cover!(s.len == 3, "none escaped");
    }

    /// `write_escaped` of the empty string writes nothing (used with 1-byte node codes and the
    /// 7-bit buffers only, but the contract is total).
    #[kani::proof]
    #[kani::unwind(3)]
    fn write_escaped_empty() {
        let mut s = Sink::<1>::new();
        let r = write_escaped(&mut s, &[]);
        assert!(r.is_ok() && s.len == 0);
        core::mem::forget(r);
    }

    // ------------------------------------------------------------------ name sanitising

    fn ascii<const N: usize>() -> [u8; N] {
        let b: [u8; N] = kani::any();
        let mut i = 0;
        while i < N {
            kani::assume(b[i] < 0x80);
            i += 1;
        }
        b
    }

    /// `ExportSettings::strict` documents: "Variable and function names must not contain spaces
    /// either ... In variable and function names, an underscore (`_`) is used as the replacement
    /// character."  Contract of `replace_space_and_control` (used for variable names): same length,
    /// every ASCII control character AND every space becomes '_', all other bytes are kept, and
    /// the result is `Cow::Owned` iff something was replaced (the caller reports the strict-mode
    /// error iff it sees `Owned`).  `with_space = false` restricts the input to space-free
    /// strings (isolates the space clause).
    fn replace_spec<const N: usize>(with_space: bool) {
        let b = ascii::<N>();
        let mut has_space = false;
        let mut i = 0;
        while i < N {
            has_space |= b[i] == b' ';
            i += 1;
        }
        if !with_space {
            kani::assume(!has_space);
        }
        // SAFETY: all bytes < 0x80
        let s = unsafe { core::str::from_utf8_unchecked(&b) };
        let r = replace_space_and_control(s);
        let out = r.as_bytes();
        assert!(out.len() == N, "length preserved");
        let mut any_bad = false;
        let mut i = 0;
        while i < N {
            let bad = b[i].is_ascii_control() || b[i] == b' ';
            any_bad |= bad;
            if bad {
                assert!(out[i] == b'_', "control characters and spaces are replaced by '_'");
            } else {
                assert!(out[i] == b[i], "other bytes are kept");
            }
            i += 1;
        }
        let owned = matches!(r, Cow::Owned(_));
        assert!(owned == any_bad, "Owned (=> strict-mode error) iff something had to be replaced");
        kani::cover!(any_bad, "assumed region (ASCII [, no space]), replacement case");
        kani::cover!(!any_bad, "assumed region, clean case");
        kani::cover!(b[N - 1].is_ascii_control() && b[0].is_ascii_control(), "first and last replaced");
        core::mem::forget(r);
    }

    /// full documented contract (controls AND spaces), ASCII strings of length 1
    #[kani::proof]
    #[kani::unwind(3)]
    fn replace_space_and_control_spec_len1() {
        replace_spec::<1>(true)
    }
    /// control characters only (inputs without spaces), length 1: isolates the space clause
    #[kani::proof]
    #[kani::unwind(3)]
    fn replace_control_only_spec_len1() {
        replace_spec::<1>(false)
    }

    /// Diagram name: "In the diagram name, control characters will be replaced by spaces."
    /// `write_replacing_control` writes exactly len bytes, control -> ' ', others verbatim, and
    /// returns whether something was replaced.  ASCII strings of length 3.
    #[kani::proof]
    #[kani::unwind(6)]
    fn write_replacing_control_spec_len3() {
        let b = ascii::<3>();
        let s = unsafe { core::str::from_utf8_unchecked(&b) };
        let mut sink = Sink::<3>::new();
        let r = write_replacing_control(&mut sink, s);
        let mut any_bad = false;
        assert!(sink.len == 3, "length preserved");
        let mut i = 0;
        while i < 3 {
            let bad = b[i].is_ascii_control();
            any_bad |= bad;
            assert!(sink.buf[i] == if bad { b' ' } else { b[i] });
            i += 1;
        }
        match r {
            Ok(did) => assert!(did == any_bad, "reports replacement iff one happened"),
            Err(e) => {
                core::mem::forget(e);
                assert!(false, "no error on an infallible sink");
            }
        }
        kani::cover!(any_bad, "assumed region (ASCII), replacement case");
        kani::cover!(!any_bad, "clean case");
    }

    // ------------------------------------------------------------------ self tests (must FAIL)

    /// selftest: wrong postcondition (claims the code never needs 10 bytes) -- must be refuted
    /// (NOT listed in suite.json: as expensive as encode_7bit_format, ~10 min)
    #[kani::proof]
    #[kani::unwind(12)]
    fn selftest_encode_never_10_bytes() {
        let x: usize = kani::any();
        let mut s = Sink::<20>::new();
        let r = encode_7bit(&mut s, x);
        core::mem::forget(r);
        assert!(s.len < 10, "SELFTEST: deliberately wrong");
    }

    /// selftest: wrong postcondition (claims escaping is the identity) -- must be refuted
    #[kani::proof]
    #[kani::unwind(8)]
    fn selftest_escape_is_identity() {
        let inp: [u8; 3] = kani::any();
        let mut s = Sink::<6>::new();
        let r = write_escaped(&mut s, &inp);
        core::mem::forget(r);
        assert!(s.len == 3 && s.buf[0] == inp[0], "SELFTEST: deliberately wrong");
    }
}
