"""dev helper (same pipeline as vx.kani_dev, but keeps Kani's full log per harness and prints the CBMC time):
   cd /verif && python3 kani/dddmp_codec/devlog.py <suite> <logdir> [--playback] [harness-substring ...]"""
import json, os, shutil, sys, time, re
sys.path.insert(0, '/verif')
from vx import kani_run
args = [a for a in sys.argv[1:] if not a.startswith('--')]
suite, logdir, subs = args[0], args[1], args[2:]
os.makedirs(logdir, exist_ok=True)
suite_dir = os.path.join(kani_run.VERIF, 'kani', suite)
cfg = json.load(open(os.path.join(suite_dir, 'suite.json')))
root, ws = kani_run.make_scratch(suite_dir, cfg)
try:
    for h in cfg['harnesses']:
        if subs and not any(s in h['name'] for s in subs):
            continue
        t = time.time()
        ob = kani_run.run_harness(ws, cfg, h, logdir)
        print('%-58s %-10s %-14s wall %6.1fs cbmc %6.1fs checks=%s' % (h['name'], ob['status'], ob['kind'][:40], time.time() - t, (ob.get('smt_ms') or 0) / 1000, ob.get('n_checks')), flush=True)
        if ob['status'] != 'discharged':
            print('   ', (ob.get('clause') or '')[:300])
            print('   ', (ob.get('detail') or '')[-1200:])
        if ob['status'] == 'refuted' and '--playback' in sys.argv:
            kani_run.playback(ws, cfg, h, ob)
            print(json.dumps(ob.get('witness'), indent=1)[:6000])
            print('    after playback:', (ob.get('detail') or '')[-600:], flush=True)
finally:
    shutil.rmtree(root, ignore_errors=True)
