import json, os, shutil, sys, subprocess, re
sys.path.insert(0,'/verif')
from vx import kani_run
suite, hname = sys.argv[1], sys.argv[2]
suite_dir=os.path.join(kani_run.VERIF,'kani',suite)
cfg=json.load(open(os.path.join(suite_dir,'suite.json')))
root, ws = kani_run.make_scratch(suite_dir,cfg)
env=dict(os.environ, CARGO_NET_OFFLINE='true')
try:
    h=[x for x in cfg['harnesses'] if hname in x['name']][0]
    cmd=['cargo','kani','-p',cfg['package'],'--harness',h['name'],'-Z','concrete-playback','--concrete-playback=inplace','-Z','function-contracts','-Z','stubbing']+h.get('flags',[])
    p=subprocess.run(cmd,cwd=ws,env=env,capture_output=True,text=True)
    out=p.stdout+p.stderr
    print('\n'.join(l for l in out.split('\n') if 'playback' in l.lower() or 'INFO' in l)[:3000])
    names=re.findall(r'- (kani_concrete_playback_\w+)', p.stdout)
    print('names',names)
    fpath=os.path.join(ws,h['file'])
    src=open(fpath).read()
    # Kani writes one test per failed check / satisfied cover; identical witnesses get identical names
    # (duplicate definitions -> the native test build fails, E0428): keep the first copy of each test
    seen=set()
    def dedupe(mm):
        nm=re.search(r'fn (kani_concrete_playback_\w+)', mm.group(0)).group(1)
        if nm in seen: return ''
        seen.add(nm); return mm.group(0)
    src=re.sub(r'#\[test\]\s*fn kani_concrete_playback_\w+\(\).*?\n\s*\}\n', dedupe, src, flags=re.S)
    open(fpath,'w').write(src)
    names=list(dict.fromkeys(names))
    for n in names:
        m=re.search(r'#\[test\]\s*fn '+n+r'\(\).*?\n\s*\}\n', src, re.S)
        p2=subprocess.run(['cargo','kani','playback','-Z','concrete-playback','-p',cfg['package'],'--',n],cwd=ws,env=env,capture_output=True,text=True)
        out=p2.stdout+p2.stderr
        failed='test result: FAILED' in out
        print('TEST', n, 'native FAILED' if failed else 'native passed')
        print(m.group(0) if m else 'TEST NOT FOUND')
        print(out[-700:] if not failed else '')
        if failed:
            mm=re.search(r"(thread '[^']*' \(?\d*\)? ?panicked at [^\n]*\n[^\n]*)", out)
            print(mm.group(1) if mm else out[-1500:])
finally:
    shutil.rmtree(root,ignore_errors=True)
