// ---- appended by /verif (engine K): byte-level codec contracts, reader side + round trips (property C15) ----
// Harnesses in this file that are NOT listed in suite.json (never completed under the 12 GB / time budget;
// kept for machines with more memory): roundtrip_7bit_all_usize (CBMC: "Solver ran out of memory during
// propositional reduction" after ~400 s), roundtrip_7bit_two_values, parse_u32_arbitrary_11_bytes,
// selftest_roundtrip_off_by_one.
#[cfg(kani)]
mod verif_import {
    use super::super::export::verif_export::{enc7, esc, spec_unescape, Sink};
    use super::*;

    /// replaces `alloc::fmt::format` on error paths (error TEXT is not part of the contract;
    /// building it symbolically is out of CBMC's reach)
    fn stub_format(_args: core::fmt::Arguments<'_>) -> String {
        String::new()
    }

    /// replaces the crate's error helper `err` (import.rs) in the ROUND-TRIP harnesses only: same
    /// `ErrorKind`, no boxed message (the heap-allocated payloads make the SAT instance exceed the
    /// 12 GB cap; which error is returned is irrelevant there because these harnesses assert that
    /// NO error occurs)
    fn stub_err<T>(_msg: impl Into<Box<dyn std::error::Error + Send + Sync>>) -> io::Result<T> {
        Err(io::ErrorKind::InvalidData.into())
    }

    /// Minimal in-memory reader (harness side): yields the bytes of `buf` one by one.  Cheaper for
    /// CBMC than std's `impl BufRead for &[u8]`; used by the full-width round trip only.
    struct Rd<'a> {
        buf: &'a [u8],
        pos: usize,
    }
    impl io::Read for Rd<'_> {
        fn read(&mut self, out: &mut [u8]) -> io::Result<usize> {
            if out.is_empty() || self.pos >= self.buf.len() {
                return Ok(0);
            }
            out[0] = self.buf[self.pos];
            self.pos += 1;
            Ok(1)
        }
    }
    impl io::BufRead for Rd<'_> {
        fn fill_buf(&mut self) -> io::Result<&[u8]> {
            Ok(&self.buf[self.pos..])
        }
        fn consume(&mut self, n: usize) {
            self.pos += n;
        }
    }

    // ------------------------------------------------------------------ specification
    /// Result of the mathematical decoder on a byte string
    enum Spec {
        /// truncated input or invalid escape sequence before the code ends
        Invalid,
        /// well-formed code: value (exact, no wrap-around), raw bytes consumed, number of groups
        Valid { val: u128, consumed: usize, groups: usize },
    }

    /// DDDMP 7-bit code, written from the format description: big-endian 7-bit groups, one per
    /// un-escaped byte (bits 7..1), bit 0 = "another byte follows".  `L <= 12` so that the exact
    /// value (<= 84 bits) fits into u128.
    fn spec_decode<const L: usize>(buf: &[u8; L]) -> Spec {
        let mut pos = 0usize;
        let mut val: u128 = 0;
        let mut groups = 0usize;
        let mut i = 0;
        while i < L {
            match spec_unescape(&buf[..], pos) {
                None => return Spec::Invalid,
                Some((b, c)) => {
                    pos += c;
                    val = (val << 7) | ((b >> 1) as u128);
                    groups += 1;
                    if b & 1 == 0 {
                        return Spec::Valid { val, consumed: pos, groups };
                    }
                }
            }
            i += 1;
        }
        Spec::Invalid // L bytes, all with continuation bit: truncated
    }

    // ------------------------------------------------------------------ contract (1): round trip

    /// For EVERY usize x: decode_7bit(encode_7bit(x)) == Ok(x) and the decoder consumes exactly
    /// the bytes the encoder wrote.  Unwind 12 > 10 code bytes: complete for 64-bit usize.
    #[kani::proof]
    #[kani::unwind(12)]
    #[kani::stub(alloc::fmt::format, stub_format)]
    #[kani::stub(super::err, stub_err)]
    fn roundtrip_7bit_all_usize() {
        let x: usize = kani::any();
        let mut s = Sink::<20>::new();
        let w = enc7(&mut s, x);
        assert!(w.is_ok());
        core::mem::forget(w);
        let mut inp = Rd { buf: &s.buf[..s.len], pos: 0 };
        let r = decode_7bit(&mut inp);
        match r {
            Ok(v) => assert!(v == x, "decode(encode(x)) == x"),
            Err(e) => {
                core::mem::forget(e);
                assert!(false, "decoder accepts everything the encoder writes");
            }
        }
        assert!(inp.pos == s.len, "decoder consumes exactly what the encoder wrote");
        kani::cover!(s.len >= 10, "full-width code reachable");
        kani::cover!(x == usize::MAX, "usize::MAX reachable");
    }

    /// Quick-tier variant of the round trip: x < 2^21 (codes of at most 3 bytes).
    #[kani::proof]
    #[kani::unwind(5)]
    #[kani::stub(alloc::fmt::format, stub_format)]
    #[kani::stub(super::err, stub_err)]
    fn roundtrip_7bit_below_2_pow_21() {
        let x: usize = kani::any();
        kani::assume(x < (1 << 21));
        let mut s = Sink::<6>::new();
        let w = enc7(&mut s, x);
        assert!(w.is_ok());
        core::mem::forget(w);
        let mut inp: &[u8] = &s.buf[..s.len];
        let r = decode_7bit(&mut inp);
        match r {
            Ok(v) => assert!(v == x, "decode(encode(x)) == x"),
            Err(e) => {
                core::mem::forget(e);
                assert!(false, "decoder accepts everything the encoder writes");
            }
        }
        assert!(inp.is_empty(), "decoder consumes exactly what the encoder wrote");
        kani::cover!(x == (1 << 21) - 1, "assumed region, upper end");
        kani::cover!(s.len == 6, "three escaped bytes");
    }

    /// Same with trailing data: two values written back to back are read back in order (the
    /// decoder must not read past the end of a code; this is how node records are laid out).
    #[kani::proof]
    #[kani::unwind(12)]
    #[kani::stub(alloc::fmt::format, stub_format)]
    #[kani::stub(super::err, stub_err)]
    fn roundtrip_7bit_two_values() {
        let (x, y): (usize, usize) = (kani::any(), kani::any());
        let mut s = Sink::<40>::new();
        let w = enc7(&mut s, x);
        core::mem::forget(w);
        let mid = s.len;
        let w = enc7(&mut s, y);
        core::mem::forget(w);
        let mut inp: &[u8] = &s.buf[..s.len];
        let total = s.len;
        let r = decode_7bit(&mut inp);
        match r {
            Ok(v) => assert!(v == x),
            Err(e) => {
                core::mem::forget(e);
                assert!(false);
            }
        }
        assert!(total - inp.len() == mid, "first code consumed exactly");
        let r = decode_7bit(&mut inp);
        match r {
            Ok(v) => assert!(v == y),
            Err(e) => {
                core::mem::forget(e);
                assert!(false);
            }
        }
        assert!(inp.is_empty());
        kani::cover!(mid >= 10 && total - mid >= 10, "two full-width codes");
    }

    // ------------------------------------------------------------------ contract (3): arbitrary bytes

    /// decode_7bit on ARBITRARY 12 bytes never panics (all of Kani's built-in checks) and agrees
    /// with the mathematical decoder wherever the exact value fits into usize:
    ///   spec Valid{val <= usize::MAX}  =>  Ok(val) and exactly `consumed` bytes consumed;
    ///   spec Invalid (truncated / bad escape) => Err.
    /// (The remaining region -- exact value > usize::MAX -- is `decode_7bit_rejects_too_large`.)
    #[kani::proof]
    #[kani::unwind(14)]
    #[kani::stub(alloc::fmt::format, stub_format)]
    fn decode_7bit_arbitrary_12_bytes() {
        let buf: [u8; 12] = kani::any();
        let mut inp: &[u8] = &buf[..];
        let r = decode_7bit(&mut inp);
        let used = 12 - inp.len();
        match spec_decode(&buf) {
            Spec::Invalid => {
                assert!(r.is_err(), "truncated code / invalid escape is an error");
            }
            Spec::Valid { val, consumed, groups } => {
                if val <= usize::MAX as u128 {
                    match &r {
                        Ok(v) => {
                            assert!(*v as u128 == val, "Ok(v): v is the mathematical value of the code");
                            assert!(used == consumed, "consumes exactly the code");
                        }
                        Err(_) => assert!(false, "a well-formed code whose value fits into usize is accepted"),
                    }
                }
                kani::cover!(groups == 12 && val <= usize::MAX as u128, "over-long but representable code (leading zero groups)");
                kani::cover!(groups == 10 && val == usize::MAX as u128, "usize::MAX");
                kani::cover!(consumed > groups, "code containing escapes");
            }
        }
        kani::cover!(r.is_err(), "error path reachable");
        kani::cover!(r.is_ok(), "ok path reachable");
        core::mem::forget(r);
    }

    /// The decoder's own error: "integer too large".  A well-formed code whose exact value exceeds
    /// usize::MAX must be rejected, never answered with Ok(wrapped value) -- otherwise a malformed
    /// file builds a wrong diagram (wrong node/variable id) instead of failing.
    #[kani::proof]
    #[kani::unwind(14)]
    #[kani::stub(alloc::fmt::format, stub_format)]
    fn decode_7bit_rejects_too_large() {
        let buf: [u8; 12] = kani::any();
        let mut inp: &[u8] = &buf[..];
        let r = decode_7bit(&mut inp);
        if let Spec::Valid { val, .. } = spec_decode(&buf) {
            kani::cover!(val > usize::MAX as u128, "too-large code reachable");
            if val > usize::MAX as u128 {
                assert!(r.is_err(), "value exceeds usize::MAX: must be Err(\"integer too large\"), not Ok(wrapped)");
            }
        }
        core::mem::forget(r);
    }

    // ------------------------------------------------------------------ contract (4): un-escaping

    /// read_unescape on arbitrary input of length 0, 1, 2, 3: never panics, agrees with the
    /// format's escape table, consumes 1 or 2 bytes on success; truncated / invalid => Err.
    #[kani::proof]
    #[kani::unwind(6)]
    #[kani::stub(alloc::fmt::format, stub_format)]
    fn read_unescape_arbitrary() {
        let buf: [u8; 3] = kani::any();
        let len: usize = kani::any();
        kani::assume(len <= 3);
        // concrete slice lengths (no symbolic sizes): one call per length
        let mut l = 0;
        while l <= 3 {
            if l == len {
                let mut inp: &[u8] = &buf[..l];
                let r = read_unescape(&mut inp);
                let used = l - inp.len();
                match spec_unescape(&buf[..l], 0) {
                    None => assert!(r.is_err(), "truncated or invalid escape => Err"),
                    Some((b, c)) => {
                        match &r {
                            Ok(v) => assert!(*v == b, "un-escaped byte"),
                            Err(_) => assert!(false, "valid input accepted"),
                        }
                        assert!(used == c, "consumes exactly the escape sequence");
                    }
                }
                kani::cover!(r.is_ok() && used == 2, "escape pair");
                kani::cover!(r.is_err() && l == 3, "invalid escape");
                kani::cover!(r.is_err() && l == 0, "eof");
                core::mem::forget(r);
            }
            l += 1;
        }
        kani::cover!(len == 3, "assumed region");
    }

    /// Escape / un-escape are inverse for ALL byte strings of length 3 (real writer, real reader),
    /// and the reader stops exactly at the end.
    #[kani::proof]
    #[kani::unwind(8)]
    #[kani::stub(alloc::fmt::format, stub_format)]
    #[kani::stub(super::err, stub_err)]
    fn escape_roundtrip_len3() {
        let data: [u8; 3] = kani::any();
        let mut s = Sink::<6>::new();
        let w = esc(&mut s, &data);
        assert!(w.is_ok());
        core::mem::forget(w);
        let mut inp: &[u8] = &s.buf[..s.len];
        let mut i = 0;
        while i < 3 {
            let r = read_unescape(&mut inp);
            match r {
                Ok(b) => assert!(b == data[i], "unescape(escape(b)) == b"),
                Err(e) => {
                    core::mem::forget(e);
                    assert!(false, "reader accepts the writer's output");
                }
            }
            i += 1;
        }
        assert!(inp.is_empty(), "nothing left over");
        kani::cover!(s.len == 6, "all escaped");
    }

    // ------------------------------------------------------------------ node code byte

    /// `import_bin` splits the node code byte into three 2-bit `Code`s with `Code::from`, which
    /// panics for values > 3: for EVERY byte the three extractions are in range, and `Code::from`
    /// inverts `as u8` (what the exporter's `node_code` packs).
    #[kani::proof]
    fn node_code_fields_total() {
        let node_code: u8 = kani::any();
        let var_code = Code::from((node_code >> 5) & 0b11);
        let t_code = Code::from((node_code >> 3) & 0b11);
        let e_code = Code::from(node_code & 0b11);
        assert!(var_code as u8 == (node_code >> 5) & 3);
        assert!(t_code as u8 == (node_code >> 3) & 3);
        assert!(e_code as u8 == node_code & 3);
        let k: u8 = kani::any();
        kani::assume(k < 4);
        assert!(Code::from(k) as u8 == k);
        kani::cover!(k == 3, "assumed region");
    }

    // ------------------------------------------------------------------ header line helpers

    fn is_blank(b: u8) -> bool {
        b == b' ' || b == b'\t'
    }

    /// trim_start / trim_end / trim on arbitrary 4-byte lines: the result is the sub-slice
    /// obtained by removing exactly the maximal blank (space/tab) prefix / suffix.
    #[kani::proof]
    #[kani::unwind(6)]
    fn trim_spec_len4() {
        let b: [u8; 4] = kani::any();
        // maximal blank prefix / suffix
        let mut p = 0usize;
        while p < 4 && is_blank(b[p]) {
            p += 1;
        }
        let mut q = 4usize;
        while q > 0 && is_blank(b[q - 1]) {
            q -= 1;
        }
        let s = trim_start(&b);
        assert!(s.len() == 4 - p && s.as_ptr() == b[p..].as_ptr());
        let e = trim_end(&b);
        assert!(e.len() == q && e.as_ptr() == b.as_ptr());
        let t = trim(&b);
        if p == 4 {
            assert!(t.is_empty());
        } else {
            assert!(t.len() == q - p && t.as_ptr() == b[p..].as_ptr());
        }
        kani::cover!(p == 2 && q == 3, "both ends trimmed");
        kani::cover!(p == 4, "all blank");
    }

    /// exact value of the decimal number / classification of a token, from the format:
    /// `[ \t]* digit+` followed by end or blank.
    /// parse_u32 on ARBITRARY 11 bytes (one more digit than u32::MAX has): never panics;
    /// Ok((rest, v)) iff the input is blanks, then >= 1 digits with exact value v <= u32::MAX,
    /// ended by a blank or the end of input, and `rest` starts right after the digits.
    #[kani::proof]
    #[kani::unwind(13)]
    #[kani::stub(alloc::fmt::format, stub_format)]
    #[kani::stub(alloc::string::String::from_utf8_lossy, stub_lossy)]
    fn parse_u32_arbitrary_11_bytes() {
        let b: [u8; 11] = kani::any();
        let r = parse_u32(&b, 1);
        // spec scanner
        let mut i = 0usize;
        while i < 11 && is_blank(b[i]) {
            i += 1;
        }
        let start = i;
        let mut val: u64 = 0; // <= 11 digits: no u64 overflow
        let mut too_large = false;
        while i < 11 && b[i].is_ascii_digit() {
            val = val * 10 + (b[i] - b'0') as u64;
            if val > u32::MAX as u64 {
                too_large = true;
            }
            i += 1;
        }
        let ok = i > start && !too_large && (i == 11 || is_blank(b[i]));
        match &r {
            Ok((rest, v)) => {
                assert!(ok, "accepted only if well formed and representable");
                assert!(*v as u64 == val, "exact value");
                assert!(rest.len() == 11 - i, "rest starts right after the digits");
            }
            Err(_) => assert!(!ok, "well-formed representable number is accepted"),
        }
        kani::cover!(r.is_ok() && val == u32::MAX as u64, "u32::MAX accepted");
        kani::cover!(too_large, "overflow path");
        kani::cover!(r.is_ok() && i < 11, "trailing data");
        core::mem::forget(r);
    }

    fn stub_lossy(_v: &[u8]) -> std::borrow::Cow<'_, str> {
        std::borrow::Cow::Borrowed("")
    }

    // ------------------------------------------------------------------ self tests (must FAIL)

    /// selftest: wrong postcondition (claims decode is the identity on the first byte) -- must be refuted
    #[kani::proof]
    #[kani::unwind(12)]
    #[kani::stub(alloc::fmt::format, stub_format)]
    fn selftest_roundtrip_off_by_one() {
        let x: usize = kani::any();
        let mut s = Sink::<20>::new();
        let w = enc7(&mut s, x);
        core::mem::forget(w);
        let mut inp: &[u8] = &s.buf[..s.len];
        let r = decode_7bit(&mut inp);
        match r {
            Ok(v) => assert!(v == x.wrapping_add(1), "SELFTEST: deliberately wrong"),
            Err(e) => core::mem::forget(e),
        }
    }

    /// selftest: wrong postcondition (claims un-escaping never fails) -- must be refuted
    #[kani::proof]
    #[kani::unwind(4)]
    #[kani::stub(alloc::fmt::format, stub_format)]
    fn selftest_unescape_never_fails() {
        let buf: [u8; 2] = kani::any();
        let mut inp: &[u8] = &buf[..];
        let r = read_unescape(&mut inp);
        assert!(r.is_ok(), "SELFTEST: deliberately wrong");
        core::mem::forget(r);
    }
}
