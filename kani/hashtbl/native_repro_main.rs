use linear_hashtbl::raw::RawTable;

fn insert(t: &mut RawTable<u32, u32>, k: u32) {
    match t.find_or_find_insert_slot(k as u64, |&x| x == k) {
        Ok(_) => unreachable!(),
        Err(s) => unsafe {
            t.insert_in_slot_unchecked(k as u64, s, k);
        },
    }
}

fn drain_demo() {
    let mut t = RawTable::<u32, u32>::with_capacity(12); // 16 slots, identity hash below
    for k in 4..16 {
        insert(&mut t, k);
    }
    assert_eq!((t.slots(), t.len()), (16, 12));
    for k in 5..15 {
        assert_eq!(t.remove_entry(k as u64, |&x| x == k), Some(k)); // slots 5..=14 become tombstones
    }
    assert_eq!(t.remove_entry(15, |&x| x == 15), Some(15)); // slot 15 becomes FREE (slot 0 is FREE)
    let v: Vec<u32> = t.drain().collect(); // stops after slot 4; tombstones 5..=14 stay, free := 16
    assert_eq!(v, vec![4]);
    assert_eq!(t.len(), 0);
    for k in [0, 1, 2, 3, 4, 15] {
        insert(&mut t, k); // takes the six remaining FREE slots, no rehash because `free` is 16..11
    }
    assert_eq!((t.slots(), t.len()), (16, 6));
    for k in [0, 1, 2, 3, 4, 15] {
        assert_eq!(t.get(k as u64, |&x| x == k), Some(&k));
    }
    eprintln!("drain_demo: table has 6 elements, 10 tombstones, 0 FREE slots; looking up absent key 5 ...");
    let r = t.find(5, |&x| x == 5);
    eprintln!("drain_demo: find returned {r:?}");
}

fn reset_demo() {
    let mut t = RawTable::<u32, u32>::with_capacity(4);
    insert(&mut t, 7);
    t.reset_no_drop();
    eprintln!("reset_demo: slots={} len={}; inserting ...", t.slots(), t.len());
    let r = t.find_or_find_insert_slot(1, |&x| x == 1);
    eprintln!("reset_demo: find_or_find_insert_slot returned {r:?}");
}

fn main() {
    match std::env::args().nth(1).as_deref() {
        Some("drain") => drain_demo(),
        Some("reset") => reset_demo(),
        _ => {}
    }
}
