#!/bin/bash
# usage: .dev_run.sh <harness> <timeout_s> [extra kani flags]   (manual scratch iteration; one at a time)
R=$(cat /verif/kani/hashtbl/.scratch_path)/ws
cat /repo/crates/linear-hashtbl/src/raw.rs > $R/crates/linear-hashtbl/src/raw.rs
echo >> $R/crates/linear-hashtbl/src/raw.rs
cat /verif/kani/hashtbl/raw_harness.rs >> $R/crates/linear-hashtbl/src/raw.rs
H=$1; T=$2; shift 2
L=/tmp/hashtbl_dev.log
cd $R && ( ulimit -v 12000000; CARGO_NET_OFFLINE=true /usr/bin/time -f "wall=%es maxrss=%MKB" timeout $T cargo kani -p linear-hashtbl --harness verif_hashtbl::$H -Z function-contracts -Z stubbing "$@" > $L 2>&1 ); echo "exit=$?"
grep -n "^error\|error\[" $L | head
grep -A3 "Status: \(FAILURE\|UNSATISFIABLE\|ERROR\|UNDETERMINED\)" $L | head -40
grep "variables,\|Runtime Symex\|Runtime Postprocess\|Runtime Convert SSA\|size of program\|Generated .* VCC" $L | tail -8
grep -c "Runtime decision procedure" $L
grep "failed\|VERIFICATION\|Verification Time\|wall=\|out of memory" $L | tail
