// ---- appended by /verif (engine K, suite hashtbl): C17 inductive-step harnesses for RawTable ----
//
// Pattern (K2): build a table with a FIXED number of slots, overwrite every slot with a symbolic
// state FREE / TOMBSTONE / occupied(key), assume the well-formedness invariant `wf`, run exactly ONE
// real operation, assert `wf` again plus the abstract-set equation of that operation.
// Abstract view = set of keys (bitmask over the key universe).
// The hash function is adversarial: a symbolic table `h[key]` chosen by Kani.
#[cfg(kani)]
mod verif_hashtbl {
    use super::*;

    // ---------------------------------------------------------------------------------------
    // Specification-side vocabulary (written against the *representation*, not calling the
    // Status trait; `status_*` harnesses below tie these constants to the real trait impls).
    // ---------------------------------------------------------------------------------------
    type Tbl = RawTable<u8, u32>;
    /// adversarial hash function: `hash(k) = h[k]`, keys are `< nk <= 16`
    type H = [u64; 16];
    /// key universe of the 16-slot harnesses
    const NK: u8 = 5;

    const S_FREE: u32 = 0xFFFF_FFFF;
    const S_TOMB: u32 = 0xFFFF_FFFE;
    fn s_occ(s: u32) -> bool {
        s < 0x8000_0000
    }
    fn s_tag(hash: u64) -> u32 {
        (hash & 0x7FFF_FFFF) as u32
    }
    fn hash_of(h: &H, k: u8) -> u64 {
        h[(k & 15) as usize]
    }

    fn st(t: &Tbl, i: usize) -> u32 {
        t.data[i].status
    }
    /// key stored in slot `i` (only meaningful if the slot is occupied)
    fn key(t: &Tbl, i: usize) -> u8 {
        unsafe { t.data[i].data.assume_init() }
    }

    // violated-clause bits returned by `wf_bits`
    const W_STATUS: u32 = 1; // every status is FREE, TOMBSTONE or a hash tag
    const W_LEN: u32 = 2; // (a) len == number of occupied slots
    const W_FREE: u32 = 4; // (a) free <= number of FREE slots  (see `free_exact` for ==)
    const W_RESERVE: u32 = 8; // (b) free >= slots/4
    const W_SHAPE: u32 = 16; // (b) slots is 0 or a power of two >= 16
    const W_REACH: u32 = 32; // (c) no FREE slot between home slot and element
    const W_NODUP: u32 = 64; // (d) no key stored twice
    const W_TAG: u32 = 128; // (e) stored status == tag(hash(key))
    const W_UNIVERSE: u32 = 256; // keys are inside the harness' key universe (harness bound)

    fn count_free_n<const N: usize>(t: &Tbl) -> usize {
        let mut fr = 0usize;
        let mut i = 0;
        while i < N {
            if st(t, i) == S_FREE {
                fr += 1;
            }
            i += 1;
        }
        fr
    }

    fn wf_bits_n<const N: usize>(t: &Tbl, h: &H, nk: u8) -> u32 {
        let mut bad = 0u32;
        if t.data.len() != N {
            return W_SHAPE;
        }
        let mask = N - 1;
        let mut occ = 0usize;
        let mut fr = 0usize;
        let mut i = 0;
        while i < N {
            let s = st(t, i);
            if s == S_FREE {
                fr += 1;
            } else if s_occ(s) {
                occ += 1;
            } else if s != S_TOMB {
                bad |= W_STATUS;
            }
            i += 1;
        }
        if t.len != occ {
            bad |= W_LEN;
        }
        if t.free > fr {
            bad |= W_FREE;
        }
        if t.free < N / 4 {
            bad |= W_RESERVE;
        }
        i = 0;
        while i < N {
            let s = st(t, i);
            if s_occ(s) {
                let k = key(t, i);
                if k >= nk {
                    bad |= W_UNIVERSE;
                }
                let hk = hash_of(h, k);
                if s != s_tag(hk) {
                    bad |= W_TAG;
                }
                let home = hk as usize & mask;
                let dist = i.wrapping_sub(home) & mask;
                let mut j = 0;
                while j < N {
                    let dj = j.wrapping_sub(home) & mask;
                    if dj < dist && st(t, j) == S_FREE {
                        bad |= W_REACH;
                    }
                    if j < i && s_occ(st(t, j)) && key(t, j) == k {
                        bad |= W_NODUP;
                    }
                    j += 1;
                }
            }
            i += 1;
        }
        bad
    }

    /// The invariant. Supported slot counts in this suite: 0, 16, 32.
    fn wf_bits(t: &Tbl, h: &H, nk: u8) -> u32 {
        let n = t.data.len();
        if n == 0 {
            let mut bad = 0;
            if t.len != 0 {
                bad |= W_LEN;
            }
            if t.free != 0 {
                bad |= W_FREE;
            }
            bad
        } else if n == 16 {
            wf_bits_n::<16>(t, h, nk)
        } else if n == 32 {
            wf_bits_n::<32>(t, h, nk)
        } else {
            W_SHAPE
        }
    }
    fn wf(t: &Tbl, h: &H, nk: u8) -> bool {
        wf_bits(t, h, nk) == 0
    }
    /// the strict reading of the field doc "`free`: the number of free slots"
    fn free_exact(t: &Tbl) -> bool {
        let n = t.data.len();
        if n == 0 {
            t.free == 0
        } else if n == 16 {
            t.free == count_free_n::<16>(t)
        } else if n == 32 {
            t.free == count_free_n::<32>(t)
        } else {
            false
        }
    }
    fn assert_wf(t: &Tbl, h: &H, nk: u8) {
        let b = wf_bits(t, h, nk);
        assert!(b & W_SHAPE == 0, "wf(b) slots is 0 or a power of two >= 16");
        assert!(b & W_STATUS == 0, "wf every status is FREE/TOMBSTONE/hash");
        assert!(b & W_LEN == 0, "wf(a) len == #occupied");
        assert!(b & W_FREE == 0, "wf(a) free <= #FREE");
        assert!(b & W_RESERVE == 0, "wf(b) free >= slots/4");
        assert!(b & W_REACH == 0, "wf(c) element reachable from home without crossing FREE");
        assert!(b & W_NODUP == 0, "wf(d) no duplicate keys");
        assert!(b & W_TAG == 0, "wf(e) status == tag(hash(key))");
        assert!(b & W_UNIVERSE == 0, "keys stay inside the universe");
    }

    // abstract view -------------------------------------------------------------------------
    fn view_n<const N: usize>(t: &Tbl) -> u32 {
        let mut v = 0u32;
        let mut i = 0;
        while i < N {
            if s_occ(st(t, i)) {
                v |= 1u32 << (key(t, i) & 15);
            }
            i += 1;
        }
        v
    }
    /// set of keys stored in the table, as a bitmask
    fn view(t: &Tbl) -> u32 {
        let n = t.data.len();
        if n == 0 {
            0
        } else if n == 16 {
            view_n::<16>(t)
        } else if n == 32 {
            view_n::<32>(t)
        } else {
            u32::MAX
        }
    }
    fn bit(k: u8) -> u32 {
        1u32 << (k & 15)
    }
    /// the unique slot holding `k` (N if absent)
    fn slot_of<const N: usize>(t: &Tbl, k: u8) -> usize {
        let mut r = N;
        let mut i = 0;
        while i < N {
            if s_occ(st(t, i)) && key(t, i) == k {
                r = i;
            }
            i += 1;
        }
        r
    }

    // snapshots for frame conditions ----------------------------------------------------------
    struct Snap<const N: usize> {
        st: [u32; N],
        key: [u8; N],
        len: usize,
        free: usize,
        view: u32,
        exact: bool,
    }
    fn snap<const N: usize>(t: &Tbl) -> Snap<N> {
        let mut s = Snap { st: [0; N], key: [0; N], len: t.len, free: t.free, view: view_n::<N>(t), exact: free_exact(t) };
        let mut i = 0;
        while i < N {
            s.st[i] = st(t, i);
            s.key[i] = if s_occ(st(t, i)) { key(t, i) } else { 0 };
            i += 1;
        }
        s
    }
    /// all slots except `except` are as in the snapshot
    fn same_slots_except<const N: usize>(t: &Tbl, s: &Snap<N>, except: usize) -> bool {
        if t.data.len() != N {
            return false;
        }
        let mut ok = true;
        let mut i = 0;
        while i < N {
            if i != except {
                if st(t, i) != s.st[i] {
                    ok = false;
                }
                if s_occ(s.st[i]) && key(t, i) != s.key[i] {
                    ok = false;
                }
            }
            i += 1;
        }
        ok
    }
    fn unchanged<const N: usize>(t: &Tbl, s: &Snap<N>) -> bool {
        same_slots_except::<N>(t, s, N) && t.len == s.len && t.free == s.free
    }

    // symbolic pre-states -----------------------------------------------------------------------
    /// Table with N slots (allocated by the real `with_capacity`), every slot overwritten with a
    /// symbolic state, `len`/`free` symbolic. NOT yet constrained by `wf`.
    fn any_table<const N: usize>(h: &H, nk: u8) -> Tbl {
        let mut t = Tbl::with_capacity(N / 4 * 3);
        assert!(t.data.len() == N);
        let mut i = 0;
        while i < N {
            let kind: u8 = kani::any();
            if kind == 0 {
                t.data[i].status = S_FREE;
            } else if kind == 1 {
                t.data[i].status = S_TOMB;
            } else {
                let k: u8 = kani::any();
                kani::assume(k < nk); // key universe bound; covered by `cover!(len == nk)` sites
                t.data[i].status = s_tag(hash_of(h, k));
                t.data[i].data = MaybeUninit::new(k);
            }
            i += 1;
        }
        t.len = kani::any();
        t.free = kani::any();
        t
    }
    /// arbitrary well-formed 16-slot table over keys 0..NK and an arbitrary hash function
    fn any_wf16(h: &H) -> Tbl {
        let t = any_table::<16>(h, NK);
        kani::assume(wf(&t, h, NK));
        t
    }
    /// a lookup key: inside the universe its hash is h[k]
    fn any_key() -> u8 {
        let k: u8 = kani::any();
        kani::assume(k < NK);
        k
    }

    /// valid insertion point for absent key k: not occupied, and no FREE slot strictly between
    /// home(k) and `slot`
    fn valid_insert_slot<const N: usize>(t: &Tbl, h: &H, k: u8, slot: usize) -> bool {
        if slot >= N || s_occ(st(t, slot)) {
            return false;
        }
        let mask = N - 1;
        let home = hash_of(h, k) as usize & mask;
        let dist = slot.wrapping_sub(home) & mask;
        let mut ok = true;
        let mut j = 0;
        while j < N {
            let dj = j.wrapping_sub(home) & mask;
            if dj < dist && st(t, j) == S_FREE {
                ok = false;
            }
            j += 1;
        }
        ok
    }

    // =========================================================================================
    // Status trait (loop-free, full domain), S = u32 and S = usize
    // =========================================================================================
    #[kani::proof]
    fn status_u32_disjoint() {
        let hash: u64 = kani::any();
        let s = <u32 as Status>::from_hash(hash);
        assert!(s.is_hash());
        assert!(s != <u32 as Status>::FREE && s != <u32 as Status>::TOMBSTONE);
        assert!(!<u32 as Status>::FREE.is_hash());
        assert!(!<u32 as Status>::TOMBSTONE.is_hash());
        assert!(<u32 as Status>::FREE != <u32 as Status>::TOMBSTONE);
        // the spec-side vocabulary used by wf is the real one
        assert!(<u32 as Status>::FREE == S_FREE && <u32 as Status>::TOMBSTONE == S_TOMB);
        assert!(s == s_tag(hash));
        let x: u32 = kani::any();
        assert!(x.is_hash() == s_occ(x));
        if x.is_hash() {
            assert!(x.hash_as_usize() == x as usize);
            assert!(<u32 as Status>::from_hash(x as u64) == x);
        }
        // home slot derived from the stored tag (rehash) == home slot derived from the hash (find)
        // for every admissible table size 2^b, b <= 31 (check_capacity)
        let b: u32 = kani::any();
        kani::assume(b <= 31);
        let mask = (1usize << b) - 1;
        assert!(s.hash_as_usize() & mask == hash as usize & mask);
        kani::cover!(b == 31 && hash > u32::MAX as u64);
    }
    #[kani::proof]
    fn status_usize_disjoint() {
        let hash: u64 = kani::any();
        let s = <usize as Status>::from_hash(hash);
        assert!(s.is_hash());
        assert!(s != <usize as Status>::FREE && s != <usize as Status>::TOMBSTONE);
        assert!(!<usize as Status>::FREE.is_hash());
        assert!(!<usize as Status>::TOMBSTONE.is_hash());
        assert!(<usize as Status>::FREE != <usize as Status>::TOMBSTONE);
        let x: usize = kani::any();
        assert!(x.is_hash() == (x <= usize::MAX >> 1));
        if x.is_hash() {
            assert!(x.hash_as_usize() == x);
            assert!(<usize as Status>::from_hash(x as u64) == x);
        }
        let b: u32 = kani::any();
        kani::assume(b <= usize::BITS - 1);
        let mask = (1usize << b) - 1;
        assert!(s.hash_as_usize() & mask == hash as usize & mask);
        kani::cover!(b == usize::BITS - 1 && hash > u32::MAX as u64);
    }
    #[kani::proof]
    fn status_check_capacity_accepts() {
        let c: usize = kani::any();
        kani::assume(c <= 1usize << 31);
        <u32 as Status>::check_capacity(c);
        let d: usize = kani::any();
        kani::assume(d <= 1usize << 63);
        <usize as Status>::check_capacity(d);
        kani::cover!(c == 1usize << 31 && d == 1usize << 63);
    }
    #[kani::proof]
    #[kani::should_panic]
    fn status_check_capacity_rejects_u32() {
        let c: usize = kani::any();
        kani::assume(c > 1usize << 31);
        <u32 as Status>::check_capacity(c);
    }
    #[kani::proof]
    #[kani::should_panic]
    fn status_check_capacity_rejects_usize() {
        let c: usize = kani::any();
        kani::assume(c > 1usize << 63);
        <usize as Status>::check_capacity(c);
    }

    // =========================================================================================
    // next_capacity arithmetic (loop-free)
    // =========================================================================================
    /// S = u32: full domain of requests whose slot count is addressable (<= 2^31 slots)
    #[kani::proof]
    fn next_capacity_u32() {
        let req: usize = kani::any();
        // largest request with req*4/3 <= 2^31; above, check_capacity panics (next harness)
        kani::assume(req <= (1usize << 31) / 4 * 3);
        let c = RawTable::<u8, u32>::next_capacity(req);
        if req == 0 {
            assert!(c == 0);
        } else {
            assert!(c.is_power_of_two() && c >= 16 && c <= 1usize << 31);
            // room for `req` elements plus 25 % spare slots
            assert!(c / 4 * 3 >= req);
            // minimal such power of two (or the minimum 16)
            assert!(c == 16 || (c / 2) / 4 * 3 < req);
        }
        kani::cover!(req == (1usize << 31) / 4 * 3 && c == 1usize << 31);
        kani::cover!(req == 13 && c == 32);
        // the two size classes used by the table harnesses
        assert!(!(req >= 1 && req <= 12) || c == 16);
        assert!(!(req >= 13 && req <= 24) || c == 32);
    }
    #[kani::proof]
    #[kani::should_panic]
    fn next_capacity_u32_rejects() {
        let req: usize = kani::any();
        kani::assume(req > (1usize << 31) / 4 * 3 && req <= usize::MAX / 4);
        let _ = RawTable::<u8, u32>::next_capacity(req);
    }
    /// S = usize: full usize domain minus the region where `requested * 4` overflows
    #[kani::proof]
    fn next_capacity_usize() {
        let req: usize = kani::any();
        kani::assume(req <= usize::MAX / 4);
        let c = RawTable::<u8, usize>::next_capacity(req);
        if req == 0 {
            assert!(c == 0);
        } else {
            assert!(c.is_power_of_two() && c >= 16);
            assert!(c / 4 * 3 >= req);
            assert!(c == 16 || (c / 2) / 4 * 3 < req);
        }
        kani::cover!(req == usize::MAX / 4);
    }

    // =========================================================================================
    // base cases: constructors establish wf with the empty view
    // =========================================================================================
    fn assert_empty(t: &Tbl, slots: usize) {
        let h: H = kani::any();
        assert_wf(t, &h, NK);
        assert!(free_exact(t));
        assert!(view(t) == 0);
        assert!(t.slots() == slots && t.len() == 0 && t.is_empty());
        assert!(t.capacity() == slots / 4 * 3);
    }
    #[kani::proof]
    #[kani::unwind(17)]
    fn base_new_default() {
        let t = Tbl::new();
        assert_empty(&t, 0);
        let d: Tbl = Default::default();
        assert_empty(&d, 0);
        let z = Tbl::with_capacity(0);
        assert_empty(&z, 0);
    }
    // Allocation sizes are concrete here; `next_capacity_u32` proves that every request in 1..=12
    // (13..=24) yields the same slot count as the two boundary requests used below.
    #[kani::proof]
    #[kani::unwind(17)]
    fn base_with_capacity_16() {
        let t = Tbl::with_capacity(1);
        assert_empty(&t, 16);
        let t = Tbl::with_capacity(12);
        assert_empty(&t, 16);
    }
    #[kani::proof]
    #[kani::unwind(33)]
    fn base_with_capacity_32() {
        let t = Tbl::with_capacity(13);
        assert_empty(&t, 32);
        let t = Tbl::with_capacity(24);
        assert_empty(&t, 32);
    }

    // =========================================================================================
    // self-tests of the machinery: these MUST be refuted
    // =========================================================================================
    /// guards the runner's parsing of failed checks that carry a custom message
    #[kani::proof]
    fn selftest_message_assert_is_reported() {
        let x: u8 = kani::any();
        assert!(x != 3, "selftest: custom message");
    }

    // =========================================================================================
    // lookups
    // =========================================================================================
    fn cover_prestate(t: &Tbl, h: &H) {
        // the assumed region (wf, keys < NK) is inhabited by the interesting shapes
        kani::cover!(t.len == NK as usize, "whole key universe stored");
        kani::cover!(
            t.len == 3 && hash_of(h, 0) == hash_of(h, 1) && hash_of(h, 1) == hash_of(h, 2) && view(t) == 7,
            "total collision of three stored keys"
        );
        kani::cover!(
            s_occ(st(t, 0)) && s_occ(st(t, 15)) && (hash_of(h, key(t, 0)) & 15) == 15,
            "cluster wraps around the end of the array"
        );
        kani::cover!(st(t, 3) == S_TOMB && s_occ(st(t, 4)) && (hash_of(h, key(t, 4)) & 15) == 2, "probe path crosses a tombstone");
        kani::cover!(
            t.len == 2 && view(t) == 3 && (hash_of(h, 0) & 15) == (hash_of(h, 1) & 15) && s_tag(hash_of(h, 0)) != s_tag(hash_of(h, 1)),
            "hashes differ only above the mask"
        );
        kani::cover!(!free_exact(t), "free is a strict lower bound");
    }

    #[kani::proof]
    #[kani::unwind(17)]
    fn find_16() {
        let h: H = kani::any();
        let t = any_wf16(&h);
        let k = any_key();
        let r = t.find(hash_of(&h, k), |&x| x == k);
        match r {
            Some(i) => {
                assert!(i < 16 && s_occ(st(&t, i)) && key(&t, i) == k);
                assert!(view(&t) & bit(k) != 0);
            }
            None => assert!(view(&t) & bit(k) == 0),
        }
        cover_prestate(&t, &h);
        kani::cover!(r.is_some());
        kani::cover!(r.is_none() && t.len > 0);
        core::mem::forget(t);
    }
}
