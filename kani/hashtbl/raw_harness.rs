// ---- appended by /verif (engine K, suite hashtbl): C17 inductive-step harnesses for RawTable ----
//
// Pattern (K2): build a table with a FIXED number of slots, overwrite every slot with a symbolic
// state FREE / TOMBSTONE / occupied(key), assume the well-formedness invariant `wf`, run exactly ONE
// real operation, assert `wf` again plus the abstract-set equation of that operation.
// Abstract view = set of keys (bitmask over the key universe).
// The hash function is adversarial: a symbolic table `h[key]` chosen by Kani.
#[cfg(kani)]
mod verif_hashtbl {
    use super::*;
    // `cargo kani playback` pastes generated `#[test]`s (using `vec![..]`) into this module; the
    // crate is no_std, so bring the macro into scope
    #[allow(unused_imports)]
    use alloc::vec;

    // ---------------------------------------------------------------------------------------
    // Specification-side vocabulary (written against the *representation*, not calling the
    // Status trait; `status_*` harnesses below tie these constants to the real trait impls).
    // ---------------------------------------------------------------------------------------
    type Tbl = RawTable<u8, u32>;
    /// adversarial hash function: `hash(k) = h[k]`, keys are `< nk <= 16`
    type H = [u64; 16];
    /// key universe of the 16-slot harnesses
    const NK: u8 = 5;

    const S_FREE: u32 = 0xFFFF_FFFF;
    const S_TOMB: u32 = 0xFFFF_FFFE;
    fn s_occ(s: u32) -> bool {
        s < 0x8000_0000
    }
    fn s_tag(hash: u64) -> u32 {
        (hash & 0x7FFF_FFFF) as u32
    }
    fn hash_of(h: &H, k: u8) -> u64 {
        h[(k & 15) as usize]
    }

    fn st(t: &Tbl, i: usize) -> u32 {
        t.data[i].status
    }
    /// key stored in slot `i` (only meaningful if the slot is occupied)
    fn key(t: &Tbl, i: usize) -> u8 {
        unsafe { t.data[i].data.assume_init() }
    }

    // violated-clause bits returned by `wf_bits`
    const W_STATUS: u32 = 1; // every status is FREE, TOMBSTONE or a hash tag
    const W_LEN: u32 = 2; // (a) len == number of occupied slots
    const W_FREE: u32 = 4; // (a) free <= number of FREE slots  (see `free_exact` for ==)
    const W_RESERVE: u32 = 8; // (b) free >= slots/4
    const W_SHAPE: u32 = 16; // (b) slots is 0 or a power of two >= 16
    const W_REACH: u32 = 32; // (c) no FREE slot between home slot and element
    const W_NODUP: u32 = 64; // (d) no key stored twice
    const W_TAG: u32 = 128; // (e) stored status == tag(hash(key))
    const W_UNIVERSE: u32 = 256; // keys are inside the harness' key universe (harness bound)

    fn count_free_n<const N: usize>(t: &Tbl) -> usize {
        let mut fr = 0usize;
        let mut i = 0;
        while i < N {
            if st(t, i) == S_FREE {
                fr += 1;
            }
            i += 1;
        }
        fr
    }

    fn wf_bits_n<const N: usize>(t: &Tbl, h: &H, nk: u8) -> u32 {
        let mut bad = 0u32;
        if t.data.len() != N {
            return W_SHAPE;
        }
        let mask = N - 1;
        let mut occ = 0usize;
        let mut fr = 0usize;
        let mut i = 0;
        while i < N {
            let s = st(t, i);
            if s == S_FREE {
                fr += 1;
            } else if s_occ(s) {
                occ += 1;
            } else if s != S_TOMB {
                bad |= W_STATUS;
            }
            i += 1;
        }
        if t.len != occ {
            bad |= W_LEN;
        }
        if t.free > fr {
            bad |= W_FREE;
        }
        if t.free < N / 4 {
            bad |= W_RESERVE;
        }
        i = 0;
        while i < N {
            let s = st(t, i);
            if s_occ(s) {
                let k = key(t, i);
                if k >= nk {
                    bad |= W_UNIVERSE;
                }
                let hk = hash_of(h, k);
                if s != s_tag(hk) {
                    bad |= W_TAG;
                }
                let home = hk as usize & mask;
                let dist = i.wrapping_sub(home) & mask;
                let mut j = 0;
                while j < N {
                    let dj = j.wrapping_sub(home) & mask;
                    if dj < dist && st(t, j) == S_FREE {
                        bad |= W_REACH;
                    }
                    if j < i && s_occ(st(t, j)) && key(t, j) == k {
                        bad |= W_NODUP;
                    }
                    j += 1;
                }
            }
            i += 1;
        }
        bad
    }

    /// The invariant. Supported slot counts in this suite: 0, 16, 32.
    fn wf_bits(t: &Tbl, h: &H, nk: u8) -> u32 {
        let n = t.data.len();
        if n == 0 {
            let mut bad = 0;
            if t.len != 0 {
                bad |= W_LEN;
            }
            if t.free != 0 {
                bad |= W_FREE;
            }
            bad
        } else if n == 16 {
            wf_bits_n::<16>(t, h, nk)
        } else if n == 32 {
            wf_bits_n::<32>(t, h, nk)
        } else {
            W_SHAPE
        }
    }
    fn wf(t: &Tbl, h: &H, nk: u8) -> bool {
        wf_bits(t, h, nk) == 0
    }
    /// the strict reading of the field doc "`free`: the number of free slots"
    fn free_exact(t: &Tbl) -> bool {
        let n = t.data.len();
        if n == 0 {
            t.free == 0
        } else if n == 16 {
            t.free == count_free_n::<16>(t)
        } else if n == 32 {
            t.free == count_free_n::<32>(t)
        } else {
            false
        }
    }
    /// one check per clause (no custom messages: in this no_std crate Kani replaces them by a
    /// placeholder, the stringified condition is more informative)
    fn assert_wf(t: &Tbl, h: &H, nk: u8) {
        let violated = wf_bits(t, h, nk);
        assert!(violated & W_SHAPE == 0); // (b) slots is 0 or a power of two >= 16
        assert!(violated & W_STATUS == 0); // every status is FREE/TOMBSTONE/hash
        assert!(violated & W_LEN == 0); // (a) len == #occupied
        assert!(violated & W_FREE == 0); // (a) free <= #FREE
        assert!(violated & W_RESERVE == 0); // (b) free >= slots/4
        assert!(violated & W_REACH == 0); // (c) reachable from home without crossing FREE
        assert!(violated & W_NODUP == 0); // (d) no duplicate keys
        assert!(violated & W_TAG == 0); // (e) status == tag(hash(key))
        assert!(violated & W_UNIVERSE == 0); // keys stay inside the universe
    }

    // abstract view -------------------------------------------------------------------------
    fn view_n<const N: usize>(t: &Tbl) -> u32 {
        let mut v = 0u32;
        let mut i = 0;
        while i < N {
            if s_occ(st(t, i)) {
                v |= 1u32 << (key(t, i) & 15);
            }
            i += 1;
        }
        v
    }
    /// set of keys stored in the table, as a bitmask
    fn view(t: &Tbl) -> u32 {
        let n = t.data.len();
        if n == 0 {
            0
        } else if n == 16 {
            view_n::<16>(t)
        } else if n == 32 {
            view_n::<32>(t)
        } else {
            u32::MAX
        }
    }
    fn bit(k: u8) -> u32 {
        1u32 << (k & 15)
    }
    /// the unique slot holding `k` (N if absent)
    fn slot_of<const N: usize>(t: &Tbl, k: u8) -> usize {
        let mut r = N;
        let mut i = 0;
        while i < N {
            if s_occ(st(t, i)) && key(t, i) == k {
                r = i;
            }
            i += 1;
        }
        r
    }

    // snapshots for frame conditions ----------------------------------------------------------
    struct Snap<const N: usize> {
        st: [u32; N],
        key: [u8; N],
        len: usize,
        free: usize,
        view: u32,
        exact: bool,
    }
    fn snap<const N: usize>(t: &Tbl) -> Snap<N> {
        let mut s = Snap { st: [0; N], key: [0; N], len: t.len, free: t.free, view: view_n::<N>(t), exact: free_exact(t) };
        let mut i = 0;
        while i < N {
            s.st[i] = st(t, i);
            s.key[i] = if s_occ(st(t, i)) { key(t, i) } else { 0 };
            i += 1;
        }
        s
    }
    /// all slots except `except` are as in the snapshot
    fn same_slots_except<const N: usize>(t: &Tbl, s: &Snap<N>, except: usize) -> bool {
        if t.data.len() != N {
            return false;
        }
        let mut ok = true;
        let mut i = 0;
        while i < N {
            if i != except {
                if st(t, i) != s.st[i] {
                    ok = false;
                }
                if s_occ(s.st[i]) && key(t, i) != s.key[i] {
                    ok = false;
                }
            }
            i += 1;
        }
        ok
    }
    fn unchanged<const N: usize>(t: &Tbl, s: &Snap<N>) -> bool {
        same_slots_except::<N>(t, s, N) && t.len == s.len && t.free == s.free
    }

    // symbolic pre-states -----------------------------------------------------------------------
    /// Table with N slots (allocated by the real `with_capacity`), every slot overwritten with a
    /// symbolic state, `len`/`free` symbolic. NOT yet constrained by `wf`.
    fn any_table<const N: usize>(h: &H, nk: u8) -> Tbl {
        any_table_from::<N>(h, nk, false)
    }
    /// `direct`: allocate the N slots exactly like `with_capacity` does but without calling
    /// `next_capacity` (for harnesses that stub `next_capacity` with a class not containing N/4*3)
    fn any_table_from<const N: usize>(h: &H, nk: u8, direct: bool) -> Tbl {
        let mut t = if direct {
            let mut data = Vec::with_capacity(N);
            data.resize_with(N, || Slot::FREE);
            RawTable { data: data.into_boxed_slice(), len: 0, free: N, phantom: PhantomData }
        } else {
            Tbl::with_capacity(N / 4 * 3)
        };
        assert!(t.data.len() == N);
        let mut i = 0;
        while i < N {
            let kind: u8 = kani::any();
            if kind == 0 {
                t.data[i].status = S_FREE;
            } else if kind == 1 {
                t.data[i].status = S_TOMB;
            } else {
                let k: u8 = kani::any();
                kani::assume(k < nk); // key universe bound; covered by `cover!(len == nk)` sites
                t.data[i].status = s_tag(hash_of(h, k));
                t.data[i].data = MaybeUninit::new(k);
            }
            i += 1;
        }
        t.len = kani::any();
        t.free = kani::any();
        t
    }
    /// arbitrary well-formed 16-slot table over keys 0..NK and an arbitrary hash function
    fn any_wf16(h: &H) -> Tbl {
        let t = any_table::<16>(h, NK);
        kani::assume(wf(&t, h, NK));
        t
    }
    /// a lookup key: inside the universe its hash is h[k]
    fn any_key() -> u8 {
        let k: u8 = kani::any();
        kani::assume(k < NK);
        k
    }

    /// valid insertion point for absent key k: not occupied, and no FREE slot strictly between
    /// home(k) and `slot`
    fn valid_insert_slot<const N: usize>(t: &Tbl, h: &H, k: u8, slot: usize) -> bool {
        if slot >= N || s_occ(st(t, slot)) {
            return false;
        }
        let mask = N - 1;
        let home = hash_of(h, k) as usize & mask;
        let dist = slot.wrapping_sub(home) & mask;
        let mut ok = true;
        let mut j = 0;
        while j < N {
            let dj = j.wrapping_sub(home) & mask;
            if dj < dist && st(t, j) == S_FREE {
                ok = false;
            }
            j += 1;
        }
        ok
    }

    // =========================================================================================
    // Status trait (loop-free, full domain), S = u32 and S = usize
    // =========================================================================================
    #[kani::proof]
    fn status_u32_disjoint() {
        let hash: u64 = kani::any();
        let s = <u32 as Status>::from_hash(hash);
        assert!(s.is_hash());
        assert!(s != <u32 as Status>::FREE && s != <u32 as Status>::TOMBSTONE);
        assert!(!<u32 as Status>::FREE.is_hash());
        assert!(!<u32 as Status>::TOMBSTONE.is_hash());
        assert!(<u32 as Status>::FREE != <u32 as Status>::TOMBSTONE);
        // the spec-side vocabulary used by wf is the real one
        assert!(<u32 as Status>::FREE == S_FREE && <u32 as Status>::TOMBSTONE == S_TOMB);
        assert!(s == s_tag(hash));
        let x: u32 = kani::any();
        assert!(x.is_hash() == s_occ(x));
        if x.is_hash() {
            assert!(x.hash_as_usize() == x as usize);
            assert!(<u32 as Status>::from_hash(x as u64) == x);
        }
        // home slot derived from the stored tag (rehash) == home slot derived from the hash (find)
        // for every admissible table size 2^b, b <= 31 (check_capacity)
        let b: u32 = kani::any();
        kani::assume(b <= 31);
        let mask = (1usize << b) - 1;
        assert!(s.hash_as_usize() & mask == hash as usize & mask);
        kani::cover!(b == 31 && hash > u32::MAX as u64);
    }
    #[kani::proof]
    fn status_usize_disjoint() {
        let hash: u64 = kani::any();
        let s = <usize as Status>::from_hash(hash);
        assert!(s.is_hash());
        assert!(s != <usize as Status>::FREE && s != <usize as Status>::TOMBSTONE);
        assert!(!<usize as Status>::FREE.is_hash());
        assert!(!<usize as Status>::TOMBSTONE.is_hash());
        assert!(<usize as Status>::FREE != <usize as Status>::TOMBSTONE);
        let x: usize = kani::any();
        assert!(x.is_hash() == (x <= usize::MAX >> 1));
        if x.is_hash() {
            assert!(x.hash_as_usize() == x);
            assert!(<usize as Status>::from_hash(x as u64) == x);
        }
        let b: u32 = kani::any();
        kani::assume(b <= usize::BITS - 1);
        let mask = (1usize << b) - 1;
        assert!(s.hash_as_usize() & mask == hash as usize & mask);
        kani::cover!(b == usize::BITS - 1 && hash > u32::MAX as u64);
    }
    #[kani::proof]
    fn status_check_capacity_accepts() {
        let c: usize = kani::any();
        kani::assume(c <= 1usize << 31);
        <u32 as Status>::check_capacity(c);
        let d: usize = kani::any();
        kani::assume(d <= 1usize << 63);
        <usize as Status>::check_capacity(d);
        kani::cover!(c == 1usize << 31 && d == 1usize << 63);
    }
    // "must panic for EVERY input": the panic inside `check_capacity` is excluded from the verdict
    // in suite.json (`ignore: check_capacity.assertion`), returning normally is the failure.
    #[kani::proof]
    fn status_check_capacity_rejects_u32() {
        let c: usize = kani::any();
        kani::assume(c > 1usize << 31);
        <u32 as Status>::check_capacity(c);
        let returned_normally = true;
        assert!(!returned_normally);
    }
    #[kani::proof]
    fn status_check_capacity_rejects_usize() {
        let c: usize = kani::any();
        kani::assume(c > 1usize << 63);
        <usize as Status>::check_capacity(c);
        let returned_normally = true;
        assert!(!returned_normally);
    }

    // =========================================================================================
    // next_capacity arithmetic (loop-free)
    // =========================================================================================
    /// S = u32: full domain of requests whose slot count is addressable (<= 2^31 slots)
    #[kani::proof]
    fn next_capacity_u32() {
        let req: usize = kani::any();
        // largest request with req*4/3 <= 2^31; above, check_capacity panics (next harness)
        kani::assume(req <= (1usize << 31) / 4 * 3);
        let c = RawTable::<u8, u32>::next_capacity(req);
        if req == 0 {
            assert!(c == 0);
        } else {
            assert!(c.is_power_of_two() && c >= 16 && c <= 1usize << 31);
            // room for `req` elements plus 25 % spare slots
            assert!(c / 4 * 3 >= req);
            // minimal such power of two (or the minimum 16)
            assert!(c == 16 || (c / 2) / 4 * 3 < req);
        }
        kani::cover!(req == (1usize << 31) / 4 * 3 && c == 1usize << 31);
        kani::cover!(req == 13 && c == 32);
        // the two size classes used by the table harnesses
        assert!(!(req >= 1 && req <= 12) || c == 16);
        assert!(!(req >= 13 && req <= 24) || c == 32);
    }
    #[kani::proof]
    fn next_capacity_rejects_u32() {
        let req: usize = kani::any();
        kani::assume(req > (1usize << 31) / 4 * 3 && req <= usize::MAX / 4);
        let _ = RawTable::<u8, u32>::next_capacity(req);
        let returned_normally = true;
        assert!(!returned_normally);
    }
    /// S = usize: full usize domain minus the region where `requested * 4` overflows
    #[kani::proof]
    fn next_capacity_usize() {
        let req: usize = kani::any();
        kani::assume(req <= usize::MAX / 4);
        let c = RawTable::<u8, usize>::next_capacity(req);
        if req == 0 {
            assert!(c == 0);
        } else {
            assert!(c.is_power_of_two() && c >= 16);
            assert!(c / 4 * 3 >= req);
            assert!(c == 16 || (c / 2) / 4 * 3 < req);
        }
        kani::cover!(req == usize::MAX / 4);
    }

    // =========================================================================================
    // base cases: constructors establish wf with the empty view
    // =========================================================================================
    fn assert_empty(t: &Tbl, slots: usize) {
        let h: H = kani::any();
        assert_wf(t, &h, NK);
        assert!(free_exact(t));
        assert!(view(t) == 0);
        assert!(t.slots() == slots && t.len() == 0 && t.is_empty());
        assert!(t.capacity() == slots / 4 * 3);
    }
    #[kani::proof]
    #[kani::unwind(17)]
    fn base_new_default() {
        let t = Tbl::new();
        assert_empty(&t, 0);
        let d: Tbl = Default::default();
        assert_empty(&d, 0);
        let z = Tbl::with_capacity(0);
        assert_empty(&z, 0);
    }
    // Allocation sizes are concrete here; `next_capacity_u32` proves that every request in 1..=12
    // (13..=24) yields the same slot count as the two boundary requests used below.
    #[kani::proof]
    #[kani::unwind(17)]
    fn base_with_capacity_16() {
        let t = Tbl::with_capacity(1);
        assert_empty(&t, 16);
        let t = Tbl::with_capacity(12);
        assert_empty(&t, 16);
    }
    #[kani::proof]
    #[kani::unwind(33)]
    fn base_with_capacity_32() {
        let t = Tbl::with_capacity(13);
        assert_empty(&t, 32);
        let t = Tbl::with_capacity(24);
        assert_empty(&t, 32);
    }

    // =========================================================================================
    // self-tests of the machinery: these MUST be refuted
    // =========================================================================================
    /// guards the runner's parsing of failed checks that carry a custom message
    #[kani::proof]
    fn selftest_message_assert_is_reported() {
        let x: u8 = kani::any();
        assert!(x != 3, "selftest: custom message");
    }

    // =========================================================================================
    // lookups
    // =========================================================================================
    fn cover_prestate(t: &Tbl, h: &H) {
        // the assumed region (wf, keys < NK) is inhabited by the interesting shapes
        kani::cover!(t.len == NK as usize, "whole key universe stored");
        kani::cover!(
            t.len == 3 && hash_of(h, 0) == hash_of(h, 1) && hash_of(h, 1) == hash_of(h, 2) && view(t) == 7,
            "total collision of three stored keys"
        );
        kani::cover!(
            s_occ(st(t, 0)) && s_occ(st(t, 15)) && (hash_of(h, key(t, 0)) & 15) == 15,
            "cluster wraps around the end of the array"
        );
        kani::cover!(st(t, 3) == S_TOMB && s_occ(st(t, 4)) && (hash_of(h, key(t, 4)) & 15) == 2, "probe path crosses a tombstone");
        kani::cover!(
            t.len == 2 && view(t) == 3 && (hash_of(h, 0) & 15) == (hash_of(h, 1) & 15) && s_tag(hash_of(h, 0)) != s_tag(hash_of(h, 1)),
            "hashes differ only above the mask"
        );
        kani::cover!(!free_exact(t), "free is a strict lower bound");
    }

    #[kani::proof]
    #[kani::unwind(17)]
    fn find_16() {
        let h: H = kani::any();
        let t = any_wf16(&h);
        let k = any_key();
        let r = t.find(hash_of(&h, k), |&x| x == k);
        match r {
            Some(i) => {
                assert!(i < 16 && s_occ(st(&t, i)) && key(&t, i) == k);
                assert!(view(&t) & bit(k) != 0);
            }
            None => assert!(view(&t) & bit(k) == 0),
        }
        cover_prestate(&t, &h);
        kani::cover!(r.is_some());
        kani::cover!(r.is_none() && t.len > 0);
        core::mem::forget(t);
    }

    #[kani::proof]
    #[kani::unwind(17)]
    fn get_16() {
        let h: H = kani::any();
        let t = any_wf16(&h);
        let k = any_key();
        let idx = slot_of::<16>(&t, k);
        match t.get(hash_of(&h, k), |&x| x == k) {
            Some(p) => {
                assert!(idx < 16 && view(&t) & bit(k) != 0);
                assert!(*p == k);
                assert!(core::ptr::eq(p, t.data[idx].data.as_ptr()));
            }
            None => assert!(idx == 16 && view(&t) & bit(k) == 0),
        }
        kani::cover!(idx < 16);
        kani::cover!(idx == 16 && t.len == 4);
        core::mem::forget(t);
    }
    #[kani::proof]
    #[kani::unwind(17)]
    fn get_mut_16() {
        let h: H = kani::any();
        let mut t = any_wf16(&h);
        let k = any_key();
        let idx = slot_of::<16>(&t, k);
        let s = snap::<16>(&t);
        let r = t.get_mut(hash_of(&h, k), |&x| x == k).map(|r| r as *mut u8);
        match r {
            Some(p) => {
                assert!(idx < 16 && s.view & bit(k) != 0);
                assert!(p == t.data[idx].data.as_mut_ptr());
            }
            None => assert!(idx == 16 && s.view & bit(k) == 0),
        }
        assert!(unchanged::<16>(&t, &s));
        kani::cover!(idx < 16);
        kani::cover!(idx == 16 && t.len == 4);
        core::mem::forget(t);
    }
    /// trivial accessors and the slot-indexed unchecked getters
    #[kani::proof]
    #[kani::unwind(17)]
    fn accessors_16() {
        let h: H = kani::any();
        let mut t = any_wf16(&h);
        let s = snap::<16>(&t);
        assert!(t.len() == (s.view.count_ones() as usize));
        assert!(t.is_empty() == (s.view == 0));
        assert!(t.slots() == 16 && t.capacity() == 12);
        let i: usize = kani::any();
        kani::assume(i < 16);
        assert!(unsafe { t.is_slot_occupied_unchecked(i) } == s_occ(s.st[i]));
        if s_occ(s.st[i]) {
            assert!(*unsafe { t.get_at_slot_unchecked(i) } == s.key[i]);
            let p = unsafe { t.get_at_slot_unchecked_mut(i) } as *mut u8;
            assert!(p == t.data[i].data.as_mut_ptr());
        }
        assert!(unchanged::<16>(&t, &s));
        kani::cover!(s_occ(s.st[i]) && s.len == NK as usize);
        core::mem::forget(t);
    }

    // =========================================================================================
    // find_or_find_insert_slot / insert
    // =========================================================================================
    // Contract stubs (Kani `-Z stubbing`). They keep allocation sizes concrete:
    // `next_capacity` is replaced by its contract for the size class of the harness, which is
    // proved against the real function for ALL requests by `next_capacity_u32`
    // (`1..=12 -> 16`, `13..=24 -> 32`, `0 -> 0`). The stub asserts that the request is in the class.
    fn next_capacity_class_16<T, S: Status, A: Clone + Allocator>(requested: usize) -> usize {
        assert!(requested >= 1 && requested <= 12);
        16
    }
    fn next_capacity_class_32<T, S: Status, A: Clone + Allocator>(requested: usize) -> usize {
        assert!(requested >= 13 && requested <= 24);
        32
    }
    fn next_capacity_class_0<T, S: Status, A: Clone + Allocator>(requested: usize) -> usize {
        assert!(requested == 0);
        0
    }
    /// for harnesses that claim "no rehash happens": reaching the rehash is a failure
    fn reserve_rehash_unreachable<T, S: Status, A: Clone + Allocator>(_this: &mut RawTable<T, S, A>, _additional: usize) {
        assert!(false);
    }

    fn check_fofis_result<const N: usize>(t: &Tbl, h: &H, k: u8, r: Result<usize, usize>, old_view: u32) {
        match r {
            Ok(i) => {
                assert!(old_view & bit(k) != 0);
                assert!(i < N && s_occ(st(t, i)) && key(t, i) == k);
            }
            Err(i) => {
                assert!(old_view & bit(k) == 0);
                assert!(valid_insert_slot::<N>(t, h, k, i));
            }
        }
    }
    /// enough reserve: no rehash, table untouched
    #[kani::proof]
    #[kani::unwind(17)]
    #[kani::stub(RawTable::reserve_rehash, reserve_rehash_unreachable)]
    fn find_or_find_insert_slot_16_norehash() {
        let h: H = kani::any();
        let mut t = any_wf16(&h);
        kani::assume(t.free >= 16 / 4 + 1);
        let k = any_key();
        let s = snap::<16>(&t);
        let r = t.find_or_find_insert_slot(hash_of(&h, k), |&x| x == k);
        assert!(unchanged::<16>(&t, &s));
        check_fofis_result::<16>(&t, &h, k, r, s.view);
        kani::cover!(r.is_ok());
        kani::cover!(match r { Err(i) => st(&t, i) == S_TOMB, _ => false }, "insertion slot is a tombstone");
        kani::cover!(match r { Err(i) => st(&t, i) == S_FREE && i < (hash_of(&h, k) as usize & 15), _ => false }, "insertion slot after wrap-around");
        core::mem::forget(t);
    }
    /// reserve exhausted (free == slots/4): rehash in place (tombstones are purged), 16 -> 16
    fn fofis_rehash_case(nk: u8) {
        let h: H = kani::any();
        let mut t = any_table::<16>(&h, nk);
        kani::assume(wf(&t, &h, nk));
        kani::assume(t.free < 16 / 4 + 1);
        let k: u8 = kani::any();
        kani::assume(k < nk);
        let old_view = view(&t);
        let old_len = t.len;
        let r = t.find_or_find_insert_slot(hash_of(&h, k), |&x| x == k);
        assert!(t.data.len() == 16);
        assert_wf(&t, &h, nk);
        assert!(view(&t) == old_view && t.len == old_len);
        assert!(free_exact(&t) && t.free == 16 - old_len);
        assert!(t.free >= 16 / 4 + 1); // the reserve(1) guarantee
        check_fofis_result::<16>(&t, &h, k, r, old_view);
        kani::cover!(r.is_ok());
        kani::cover!(r.is_err() && old_len == nk as usize - 1);
        kani::cover!(old_len == nk as usize);
        core::mem::forget(t);
    }
    #[kani::proof]
    #[kani::unwind(17)]
    #[kani::stub(RawTable::next_capacity, next_capacity_class_16)]
    fn find_or_find_insert_slot_16_rehash_5keys() {
        fofis_rehash_case(NK);
    }
    #[kani::proof]
    #[kani::unwind(17)]
    #[kani::stub(RawTable::next_capacity, next_capacity_class_16)]
    // key universe 0..2; run with `--unwindset <reserve_rehash inner probe loop>:3` (suite.json)
    fn find_or_find_insert_slot_16_rehash_2keys() {
        fofis_rehash_case(2);
    }
    /// growth 16 -> 32: table holds 12 elements (key universe 0..13), 4 FREE slots
    #[kani::proof]
    #[kani::unwind(33)]
    #[kani::stub(RawTable::next_capacity, next_capacity_class_32)]
    fn find_or_find_insert_slot_grow_16_to_32() {
        const NK2: u8 = 13;
        let h: H = kani::any();
        let mut t = any_table::<16>(&h, NK2);
        kani::assume(wf(&t, &h, NK2));
        kani::assume(t.len == 12);
        let k: u8 = kani::any();
        kani::assume(k < NK2);
        let old_view = view(&t);
        let r = t.find_or_find_insert_slot(hash_of(&h, k), |&x| x == k);
        assert!(t.data.len() == 32);
        assert_wf(&t, &h, NK2);
        assert!(view(&t) == old_view && t.len == 12);
        assert!(free_exact(&t) && t.free == 20);
        check_fofis_result::<32>(&t, &h, k, r, old_view);
        kani::cover!(r.is_ok());
        kani::cover!(r.is_err());
        core::mem::forget(t);
    }
    /// first insertion into a table created by `new()`: 0 -> 16
    #[kani::proof]
    #[kani::unwind(17)]
    fn find_or_find_insert_slot_from_empty() {
        let h: H = kani::any();
        let mut t = Tbl::new();
        let k = any_key();
        let r = t.find_or_find_insert_slot(hash_of(&h, k), |&x| x == k);
        assert!(t.data.len() == 16);
        assert_wf(&t, &h, NK);
        assert!(view(&t) == 0 && free_exact(&t) && t.free == 16);
        check_fofis_result::<16>(&t, &h, k, r, 0);
        assert!(r == Err(hash_of(&h, k) as usize & 15));
        kani::cover!(r == Err(15));
        core::mem::forget(t);
    }
    /// precondition = postcondition of `find_or_find_insert_slot` in the Err case
    #[kani::proof]
    #[kani::unwind(17)]
    fn insert_in_slot_unchecked_16() {
        let h: H = kani::any();
        let mut t = any_wf16(&h);
        let k = any_key();
        let slot: usize = kani::any();
        kani::assume(view(&t) & bit(k) == 0);
        kani::assume(valid_insert_slot::<16>(&t, &h, k, slot));
        kani::assume(st(&t, slot) == S_TOMB || t.free >= 16 / 4 + 1);
        let s = snap::<16>(&t);
        let p = unsafe { t.insert_in_slot_unchecked(hash_of(&h, k), slot, k) } as *mut u8;
        assert!(p == t.data[slot].data.as_mut_ptr());
        assert_wf(&t, &h, NK);
        assert!(view(&t) == s.view | bit(k));
        assert!(t.len == s.len + 1);
        assert!(s_occ(st(&t, slot)) && key(&t, slot) == k);
        assert!(same_slots_except::<16>(&t, &s, slot));
        assert!(!s.exact || free_exact(&t));
        kani::cover!(s.st[slot] == S_TOMB && s.free == 4);
        kani::cover!(s.st[slot] == S_FREE && s.len == 4);
        kani::cover!(s.st[slot] == S_FREE && slot < (hash_of(&h, k) as usize & 15), "wrap-around");
        core::mem::forget(t);
    }
    /// the composed public insertion protocol: find_or_find_insert_slot, then insert on Err
    fn insert_case(norehash: bool) {
        let h: H = kani::any();
        let mut t = any_wf16(&h);
        kani::assume(!norehash || t.free >= 16 / 4 + 1);
        let k = any_key();
        let old_view = view(&t);
        let old_len = t.len;
        let present = old_view & bit(k) != 0;
        match t.find_or_find_insert_slot(hash_of(&h, k), |&x| x == k) {
            Ok(_) => assert!(present),
            Err(slot) => {
                assert!(!present);
                unsafe { t.insert_in_slot_unchecked(hash_of(&h, k), slot, k) };
            }
        }
        assert!(t.data.len() == 16);
        assert_wf(&t, &h, NK);
        assert!(view(&t) == old_view | bit(k));
        assert!(t.len == if present { old_len } else { old_len + 1 });
        kani::cover!(present);
        kani::cover!(!present && old_len == 4);
        core::mem::forget(t);
    }
    #[kani::proof]
    #[kani::unwind(17)]
    #[kani::stub(RawTable::reserve_rehash, reserve_rehash_unreachable)]
    fn insert_norehash_16() {
        insert_case(true);
    }
    /// includes the rehash path (very expensive, see REPORT.md)
    #[kani::proof]
    #[kani::unwind(17)]
    #[kani::stub(RawTable::next_capacity, next_capacity_class_16)]
    fn insert_any_16() {
        insert_case(false);
    }

    // =========================================================================================
    // removal
    // =========================================================================================
    #[kani::proof]
    #[kani::unwind(17)]
    fn remove_entry_16() {
        let h: H = kani::any();
        let mut t = any_wf16(&h);
        let k = any_key();
        let s = snap::<16>(&t);
        let idx = slot_of::<16>(&t, k);
        let r = t.remove_entry(hash_of(&h, k), |&x| x == k);
        match r {
            Some(v) => {
                assert!(v == k && s.view & bit(k) != 0 && idx < 16);
                assert!(view(&t) == s.view & !bit(k));
                assert!(t.len == s.len - 1);
                assert!(!s_occ(st(&t, idx)));
                assert!(same_slots_except::<16>(&t, &s, idx));
            }
            None => {
                assert!(s.view & bit(k) == 0);
                assert!(unchanged::<16>(&t, &s));
            }
        }
        assert_wf(&t, &h, NK);
        assert!(!s.exact || free_exact(&t));
        kani::cover!(r.is_some() && st(&t, idx) == S_TOMB);
        kani::cover!(r.is_some() && st(&t, idx) == S_FREE && idx == 15, "freed because slot 0 (wrap) is FREE");
        kani::cover!(r.is_none() && s.len == 4);
        core::mem::forget(t);
    }
    #[kani::proof]
    #[kani::unwind(17)]
    fn remove_at_slot_unchecked_16() {
        let h: H = kani::any();
        let mut t = any_wf16(&h);
        let slot: usize = kani::any();
        kani::assume(slot < 16 && s_occ(st(&t, slot)));
        let s = snap::<16>(&t);
        let k = s.key[slot];
        let v = unsafe { t.remove_at_slot_unchecked(slot) };
        assert!(v == k);
        assert!(view(&t) == s.view & !bit(k));
        assert!(t.len == s.len - 1);
        assert!(!s_occ(st(&t, slot)));
        assert!(same_slots_except::<16>(&t, &s, slot));
        assert_wf(&t, &h, NK);
        assert!(!s.exact || free_exact(&t));
        kani::cover!(st(&t, slot) == S_TOMB && s.len == NK as usize);
        kani::cover!(st(&t, slot) == S_FREE && slot == 15);
        core::mem::forget(t);
    }

    // =========================================================================================
    // retain (symbolic predicate = bitmask over keys)
    // =========================================================================================
    /// `lo..=hi` is the admitted number of surviving elements; it selects the code path
    /// (no shrink / rehash to 16 / rehash to 0) so that the allocation size is a constant.
    fn retain_case(lo: usize, hi: usize, old_nonempty: bool) {
        let h: H = kani::any();
        let mut t = any_table_from::<16>(&h, NK, old_nonempty && hi == 0);
        kani::assume(wf(&t, &h, NK));
        let keep: u32 = kani::any::<u8>() as u32;
        let s = snap::<16>(&t);
        let survivors = (s.view & keep).count_ones() as usize;
        kani::assume(survivors >= lo && survivors <= hi);
        kani::assume((s.len > 0) == old_nonempty);
        let mut calls = [0u8; 16];
        let mut dropped = [0u8; 16];
        t.retain(
            |x: &mut u8| {
                calls[(*x & 15) as usize] += 1;
                (keep >> (*x & 15)) & 1 == 1
            },
            |x: u8| dropped[(x & 15) as usize] += 1,
        );
        assert_wf(&t, &h, NK);
        assert!(view(&t) == s.view & keep);
        assert!(t.len == survivors);
        let mut k = 0u8;
        while k < 16 {
            let was_in = (s.view >> k) & 1 == 1;
            let kept = (keep >> k) & 1 == 1;
            // predicate called exactly once per stored element, never for anything else
            assert!(calls[k as usize] == was_in as u8);
            // exactly the rejected elements are handed to `drop`, once each
            assert!(dropped[k as usize] == (was_in && !kept) as u8);
            k += 1;
        }
        assert!(!s.exact || free_exact(&t));
        let n = t.data.len();
        assert!(n == 16 || n == 0);
        if !old_nonempty {
            assert!(unchanged::<16>(&t, &s));
            kani::cover!(s.free < 16, "empty table with tombstones");
        } else if hi == 0 {
            assert!(n == 0); // shrunk to the zero-capacity table
            kani::cover!(s.len == NK as usize);
        } else if lo >= 4 {
            assert!(n == 16);
            kani::cover!(survivors == 4 && s.len == NK as usize);
            // tombstone compaction without rehash
            kani::cover!(t.len + t.free > s.len + s.free, "tombstones were turned into FREE");
            kani::cover!(st(&t, 15) == S_TOMB && s_occ(s.st[15]), "rejected element became a tombstone");
        } else {
            assert!(n == 16);
            kani::cover!(survivors == 3 && s.len == NK as usize);
        }
        core::mem::forget(t);
    }
    #[kani::proof]
    #[kani::unwind(17)]
    #[kani::stub(RawTable::reserve_rehash, reserve_rehash_unreachable)]
    fn retain_16_noshrink() {
        retain_case(4, 16, true);
    }
    #[kani::proof]
    #[kani::unwind(17)]
    #[kani::stub(RawTable::next_capacity, next_capacity_class_16)]
    fn retain_16_shrink_rehash_16() {
        retain_case(1, 3, true);
    }
    #[kani::proof]
    #[kani::unwind(17)]
    #[kani::stub(RawTable::next_capacity, next_capacity_class_0)]
    fn retain_16_shrink_to_0() {
        retain_case(0, 0, true);
    }
    #[kani::proof]
    #[kani::unwind(17)]
    #[kani::stub(RawTable::reserve_rehash, reserve_rehash_unreachable)]
    fn retain_16_empty() {
        retain_case(0, 0, false);
    }

    // =========================================================================================
    // clearing
    // =========================================================================================
    #[kani::proof]
    #[kani::unwind(17)]
    fn clear_16() {
        let h: H = kani::any();
        let mut t = any_wf16(&h);
        let s = snap::<16>(&t);
        t.clear();
        assert!(t.data.len() == 16 && t.len == 0 && view(&t) == 0);
        assert_wf(&t, &h, NK);
        kani::cover!(s.len == NK as usize);
        kani::cover!(s.len == 0 && s.free < 16);
        core::mem::forget(t);
    }
    /// strict reading of the field doc: `free` is THE number of free slots
    #[kani::proof]
    #[kani::unwind(17)]
    fn clear_free_exact_16() {
        let h: H = kani::any();
        let mut t = any_wf16(&h);
        kani::assume(free_exact(&t));
        t.clear();
        assert!(free_exact(&t));
        kani::cover!(t.free == 16);
        core::mem::forget(t);
    }
    #[kani::proof]
    #[kani::unwind(17)]
    fn clear_no_drop_16() {
        let h: H = kani::any();
        let mut t = any_wf16(&h);
        let s = snap::<16>(&t);
        t.clear_no_drop();
        assert!(t.data.len() == 16 && t.len == 0 && view(&t) == 0);
        assert_wf(&t, &h, NK);
        kani::cover!(s.len == NK as usize);
        kani::cover!(s.len == 0 && s.free < 16);
        core::mem::forget(t);
    }
    #[kani::proof]
    #[kani::unwind(17)]
    fn clear_no_drop_free_exact_16() {
        let h: H = kani::any();
        let mut t = any_wf16(&h);
        kani::assume(free_exact(&t));
        t.clear_no_drop();
        assert!(free_exact(&t));
        kani::cover!(t.free == 16);
        core::mem::forget(t);
    }
    #[kani::proof]
    #[kani::unwind(17)]
    fn reset_no_drop_16() {
        let h: H = kani::any();
        let mut t = any_wf16(&h);
        let s = snap::<16>(&t);
        t.reset_no_drop();
        assert!(t.data.len() == 0 && t.len == 0 && view(&t) == 0);
        assert_wf(&t, &h, NK);
        kani::cover!(s.len == NK as usize);
        core::mem::forget(t);
    }

    // =========================================================================================
    // drain
    // =========================================================================================
    /// full iteration: every element of the view exactly once, exact size hints, fused
    #[kani::proof]
    #[kani::unwind(17)]
    fn drain_16_yields_view() {
        let h: H = kani::any();
        let mut t = any_wf16(&h);
        let s = snap::<16>(&t);
        let mut seen = 0u32;
        let mut cnt = 0usize;
        {
            let mut d = t.drain();
            assert!(d.len() == s.len);
            let mut n = 0;
            while n <= NK {
                match d.next() {
                    Some(x) => {
                        assert!(seen & bit(x) == 0);
                        seen |= bit(x);
                        cnt += 1;
                        assert!(d.len() == s.len - cnt);
                        assert!(d.size_hint() == (s.len - cnt, Some(s.len - cnt)));
                    }
                    None => break,
                }
                n += 1;
            }
            assert!(d.next().is_none());
        }
        assert!(seen == s.view && cnt == s.len);
        assert!(t.data.len() == 16 && t.len == 0 && view(&t) == 0);
        kani::cover!(cnt == NK as usize);
        kani::cover!(cnt == 0);
        core::mem::forget(t);
    }
    /// `m` calls to next(), then the iterator is dropped: the table is empty afterwards
    #[kani::proof]
    #[kani::unwind(17)]
    fn drain_16_early_drop_empties() {
        let h: H = kani::any();
        let mut t = any_wf16(&h);
        let s = snap::<16>(&t);
        let m: u8 = kani::any();
        kani::assume(m <= NK);
        let mut seen = 0u32;
        {
            let mut d = t.drain();
            let mut n = 0;
            while n < NK {
                // constant loop bound; `m` calls are made
                if n < m {
                    if let Some(x) = d.next() {
                        assert!(seen & bit(x) == 0 && s.view & bit(x) != 0);
                        seen |= bit(x);
                    }
                }
                n += 1;
            }
        }
        assert!(t.data.len() == 16 && t.len == 0 && view(&t) == 0);
        kani::cover!(m == 2 && s.len == NK as usize);
        kani::cover!(m == 0 && s.len == 3);
        core::mem::forget(t);
    }
    /// after a (partially consumed and then dropped) drain the table is well-formed again
    #[kani::proof]
    #[kani::unwind(17)]
    fn drain_16_restores_wf() {
        let h: H = kani::any();
        let mut t = any_wf16(&h);
        let s = snap::<16>(&t);
        let m: u8 = kani::any();
        kani::assume(m <= NK);
        {
            let mut d = t.drain();
            let mut n = 0;
            while n < NK {
                // constant loop bound; `m` calls are made
                if n < m {
                    let _ = d.next();
                }
                n += 1;
            }
        }
        assert_wf(&t, &h, NK);
        kani::cover!(m == 2 && s.len == NK as usize);
        core::mem::forget(t);
    }

    /// cheapest instance of the previous harness: `drop(t.drain())`
    #[kani::proof]
    #[kani::unwind(17)]
    fn drain_drop_restores_wf_16() {
        let h: H = kani::any();
        let mut t = any_wf16(&h);
        let s = snap::<16>(&t);
        drop(t.drain());
        assert!(t.len == 0 && view(&t) == 0);
        assert_wf(&t, &h, NK);
        kani::cover!(s.len == NK as usize);
        core::mem::forget(t);
    }

    // =========================================================================================
    // iterators: every element exactly once
    // =========================================================================================
    #[kani::proof]
    #[kani::unwind(17)]
    fn iter_16() {
        let h: H = kani::any();
        let t = any_wf16(&h);
        let v = view(&t);
        let mut seen = 0u32;
        let mut cnt = 0usize;
        let mut it = t.iter();
        assert!(it.len() == t.len);
        let mut n = 0;
        while n <= NK {
            match it.next() {
                Some(&x) => {
                    assert!(seen & bit(x) == 0);
                    seen |= bit(x);
                    cnt += 1;
                    assert!(it.len() == t.len - cnt);
                    assert!(it.size_hint() == (t.len - cnt, Some(t.len - cnt)));
                }
                None => break,
            }
            n += 1;
        }
        assert!(it.next().is_none());
        assert!(seen == v && cnt == t.len);
        kani::cover!(cnt == NK as usize);
        kani::cover!(cnt == 0 && t.free < 16);
        core::mem::forget(t);
    }
    #[kani::proof]
    #[kani::unwind(17)]
    fn iter_mut_16() {
        let h: H = kani::any();
        let mut t = any_wf16(&h);
        let s = snap::<16>(&t);
        let mut seen = 0u32;
        let mut cnt = 0usize;
        {
            let mut it = t.iter_mut();
            assert!(it.len() == s.len);
            let mut n = 0;
            while n <= NK {
                match it.next() {
                    Some(x) => {
                        assert!(seen & bit(*x) == 0);
                        seen |= bit(*x);
                        cnt += 1;
                        assert!(it.len() == s.len - cnt);
                        assert!(it.size_hint() == (s.len - cnt, Some(s.len - cnt)));
                    }
                    None => break,
                }
                n += 1;
            }
            assert!(it.next().is_none());
        }
        assert!(seen == s.view && cnt == s.len);
        assert!(unchanged::<16>(&t, &s));
        kani::cover!(cnt == NK as usize);
        core::mem::forget(t);
    }
    #[kani::proof]
    #[kani::unwind(17)]
    fn into_iter_16() {
        let h: H = kani::any();
        let t = any_wf16(&h);
        let s = snap::<16>(&t);
        let mut seen = 0u32;
        let mut cnt = 0usize;
        let mut it = t.into_iter();
        assert!(it.len() == s.len);
        let mut n = 0;
        while n <= NK {
            match it.next() {
                Some(x) => {
                    assert!(seen & bit(x) == 0);
                    seen |= bit(x);
                    cnt += 1;
                    assert!(it.len() == s.len - cnt);
                    assert!(it.size_hint() == (s.len - cnt, Some(s.len - cnt)));
                }
                None => break,
            }
            n += 1;
        }
        assert!(it.next().is_none());
        assert!(seen == s.view && cnt == s.len);
        kani::cover!(cnt == NK as usize);
        drop(it);
    }
    /// IntoIter dropped after `m` elements (exercises IntoIter::drop)
    #[kani::proof]
    #[kani::unwind(17)]
    fn into_iter_early_drop_16() {
        let h: H = kani::any();
        let t = any_wf16(&h);
        let s = snap::<16>(&t);
        let m: u8 = kani::any();
        kani::assume(m <= NK);
        let mut seen = 0u32;
        let mut it = t.into_iter();
        let mut n = 0;
        while n < NK {
            // constant loop bound; `m` calls are made
            if n < m {
                if let Some(x) = it.next() {
                    assert!(seen & bit(x) == 0 && s.view & bit(x) != 0);
                    seen |= bit(x);
                }
            }
            n += 1;
        }
        kani::cover!(m == 2 && s.len == NK as usize);
        drop(it);
    }

    // =========================================================================================
    // clone
    // =========================================================================================
    #[kani::proof]
    #[kani::unwind(17)]
    fn clone_16() {
        let h: H = kani::any();
        let t = any_wf16(&h);
        let s = snap::<16>(&t);
        let c = t.clone();
        assert!(unchanged::<16>(&t, &s));
        assert!(unchanged::<16>(&c, &s)); // same slot layout, len and free
        assert!(c.data.as_ptr() != t.data.as_ptr());
        assert_wf(&c, &h, NK);
        assert!(view(&c) == s.view);
        kani::cover!(s.len == NK as usize && s.free == 4);
        core::mem::forget(t);
        core::mem::forget(c);
    }

    // =========================================================================================
    // reserve
    // =========================================================================================
    #[kani::proof]
    #[kani::unwind(17)]
    #[kani::stub(RawTable::reserve_rehash, reserve_rehash_unreachable)]
    fn reserve_16_norehash() {
        let h: H = kani::any();
        let mut t = any_wf16(&h);
        let add: usize = kani::any();
        kani::assume(add <= 12);
        kani::assume(t.free >= add + 4);
        let s = snap::<16>(&t);
        t.reserve(add);
        assert!(unchanged::<16>(&t, &s));
        kani::cover!(add == 12);
        kani::cover!(add == 7 && s.len == NK as usize);
        core::mem::forget(t);
    }
    fn reserve_post(t: &Tbl, h: &H, s: &Snap<16>, add: usize, slots: usize) {
        assert!(t.data.len() == slots);
        assert_wf(t, h, NK);
        assert!(view(t) == s.view && t.len == s.len);
        assert!(free_exact(t) && t.free == slots - s.len);
        // the next `add` insertions do not rehash: each needs free >= slots/4 + 1 beforehand
        assert!(t.free >= add + slots / 4);
        assert!(t.capacity() >= s.len + add);
    }
    #[kani::proof]
    #[kani::unwind(17)]
    #[kani::stub(RawTable::next_capacity, next_capacity_class_16)]
    fn reserve_16_rehash_to_16() {
        let h: H = kani::any();
        let mut t = any_wf16(&h);
        let add: usize = kani::any();
        kani::assume(add <= 12);
        kani::assume(t.free < add + 4);
        kani::assume(t.len + add <= 12);
        let s = snap::<16>(&t);
        t.reserve(add);
        reserve_post(&t, &h, &s, add, 16);
        kani::cover!(add == 12);
        kani::cover!(add == 7 && s.len == NK as usize);
        kani::cover!(add == 0);
        core::mem::forget(t);
    }
    #[kani::proof]
    #[kani::unwind(33)]
    #[kani::stub(RawTable::next_capacity, next_capacity_class_32)]
    fn reserve_16_rehash_to_32() {
        let h: H = kani::any();
        let mut t = any_wf16(&h);
        let add: usize = kani::any();
        kani::assume(t.len + add >= 13 && t.len + add <= 24);
        let s = snap::<16>(&t);
        t.reserve(add);
        reserve_post(&t, &h, &s, add, 32);
        kani::cover!(add == 24);
        kani::cover!(add == 8 && s.len == NK as usize);
        core::mem::forget(t);
    }
    #[kani::proof]
    #[kani::unwind(17)]
    fn reserve_from_empty() {
        let h: H = kani::any();
        let mut t = Tbl::new();
        t.reserve(0);
        assert!(t.data.len() == 0);
        assert_wf(&t, &h, NK);
        let mut a = Tbl::new();
        a.reserve(1);
        assert!(a.data.len() == 16 && a.free == 16 && free_exact(&a) && view(&a) == 0);
        assert_wf(&a, &h, NK);
        let mut b = Tbl::new();
        b.reserve(12);
        assert!(b.data.len() == 16 && b.free == 16 && free_exact(&b) && view(&b) == 0);
        assert_wf(&b, &h, NK);
    }

    // =========================================================================================
    // more self-tests (MUST be refuted)
    // =========================================================================================
    /// without clause (c) of wf, `find` misses stored elements
    #[kani::proof]
    #[kani::unwind(17)]
    fn selftest_find_needs_reachability() {
        let h: H = kani::any();
        let t = any_table::<16>(&h, NK);
        kani::assume(wf_bits(&t, &h, NK) & !W_REACH == 0);
        let k = any_key();
        let r = t.find(hash_of(&h, k), |&x| x == k);
        assert!(r.is_some() == (view(&t) & bit(k) != 0));
        core::mem::forget(t);
    }
    /// negated postcondition: removing a stored key leaves the view unchanged
    #[kani::proof]
    #[kani::unwind(17)]
    fn selftest_remove_keeps_view() {
        let h: H = kani::any();
        let mut t = any_wf16(&h);
        let k = any_key();
        let old = view(&t);
        kani::assume(old & bit(k) != 0);
        let _ = t.remove_entry(hash_of(&h, k), |&x| x == k);
        assert!(view(&t) == old);
        core::mem::forget(t);
    }
    /// without clauses (a-free)/(b) the probe loop of `find` does not terminate within `slots`
    /// steps: the unwinding assertion must fail
    #[kani::proof]
    #[kani::unwind(17)]
    fn selftest_find_needs_free_slot() {
        let h: H = kani::any();
        let t = any_table::<16>(&h, NK);
        kani::assume(wf_bits(&t, &h, NK) & !(W_FREE | W_RESERVE) == 0);
        let k = any_key();
        let _ = t.find(hash_of(&h, k), |&x| x == k);
        core::mem::forget(t);
    }
}
