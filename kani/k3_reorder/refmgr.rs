// ============================================================================
// K3: sequential reference manager for bounded checks of the REAL generic
// reordering code (`level_swap`, `level_down`, `set_var_order_seq`).
//
// Appended (by /verif/vx/kani_run.py) to crates/oxidd-reorder/src/lib.rs of a
// scratch copy of /repo.  Nothing in here is part of the code under
// verification; it is the *environment* (an `oxidd_core::Manager`
// implementation) plus an independent audit of the resulting diagram.
//
// Design (see REPORT.md):
//  * no threads, no locks, no hash maps, no heap: nodes live in a fixed array
//    of slots with `Cell` fields, every level has a fixed-capacity vector of
//    table entries (edge + key at insertion time) that is searched linearly;
//  * reference counting mirrors oxidd-manager-index: the unique table holds
//    one counted reference, `InnerNode::ref_count()` subtracts it, `drop_edge`
//    must never release the last reference, removing a table entry releases
//    the table's reference and frees the node when it was the last one,
//    dropping a taken level view releases all of its entries;
//  * the manager ASSERTS the protocol it is entitled to (grep `PROTOCOL`).
// ============================================================================
#[cfg(any(kani, test))]
#[allow(missing_docs, dead_code, unused_imports, clippy::all)]
pub(crate) mod verif_refmgr {
    use std::cell::{Cell, RefCell, RefMut};
    use std::collections::HashSet;
    use std::hash::{Hash, Hasher};
    use std::marker::PhantomData;
    use std::ops::Range;

    use oxidd_core::error::DuplicateVarName;
    use oxidd_core::util::{AllocResult, Borrowed, DropWith};
    use oxidd_core::{
        Countable, DiagramRules, Edge, HasLevel, InnerNode, LevelNo, LevelView, Manager, Node,
        NodeID, Tag, VarNo,
    };

    /// Capacity of the node store (slots)
    pub const NCAP: usize = 16;
    /// Capacity of every per-level unique table
    pub const TCAP: usize = 10;
    /// Maximal number of levels
    pub const LMAX: usize = 4;
    /// Node ids below this value are terminals
    pub const FIRST_INNER: u32 = 2;
    pub const NIL: u32 = u32::MAX;

    /// Component-wise key comparison (`[u32; 2] == [u32; 2]` compiles to a
    /// byte-wise `memcmp`, which is needlessly expensive for CBMC)
    #[inline]
    pub fn keq(a: [u32; 2], b: [u32; 2]) -> bool {
        a[0] == b[0] && a[1] == b[1]
    }

    // ------------------------------------------------------------------------
    // Diagram kind: tag type, terminal type, the REAL rules type
    // ------------------------------------------------------------------------
    pub trait RefKind: Sized + 'static {
        type Tag: Tag;
        type Terminal: Eq + Hash + Copy;
        type Rules: DiagramRules<REdge<Self>, RNode<Self>, Self::Terminal>;
        /// Number of terminal node ids in use (ids `0..NTERM`)
        const NTERM: u32;
        fn terminal_of_id(id: u32) -> Self::Terminal;
        fn id_of_terminal(t: Self::Terminal) -> u32;
        /// Tag <-> lowest bit of the raw edge value.  (Not `Countable::from_usize`: the derived
        /// implementation transmutes, and CBMC does not constant-fold the transmuted enum.)
        fn tag_of_bit(bit: u32) -> Self::Tag;
        fn bit_of_tag(tag: Self::Tag) -> u32;

        // --- used by the audit only (written from the diagram definitions, not
        // from the rules code) ---
        /// Value of the terminal with node id `id` (without edge tag)
        fn terminal_value(id: u32) -> bool;
        /// Does an edge with tag `tag` complement the function of its target?
        fn tag_complements(tag: Self::Tag) -> bool;
        /// Is a node with these (then, else) child edges in normal form
        /// (beyond `then != else`)?
        fn node_normal(then_tag: Self::Tag, else_tag: Self::Tag) -> bool;
        /// The edge denoting the constant `value`
        fn const_edge(value: bool) -> REdge<Self>;
    }

    // ------------------------------------------------------------------------
    // Edges: `raw = node id << 1 | tag`.  Deliberately neither `Clone`/`Copy`
    // nor `Drop`: every leak or implicit drop shows up as a reference count
    // mismatch in `audit`.
    // ------------------------------------------------------------------------
    pub struct REdge<K: RefKind> {
        raw: u32,
        _k: PhantomData<K>,
    }
    impl<K: RefKind> REdge<K> {
        #[inline]
        pub const fn from_raw(raw: u32) -> Self {
            REdge {
                raw,
                _k: PhantomData,
            }
        }
        #[inline]
        pub fn new(id: u32, tag: K::Tag) -> Self {
            Self::from_raw(id << 1 | K::bit_of_tag(tag))
        }
        #[inline]
        pub fn raw(&self) -> u32 {
            self.raw
        }
        #[inline]
        pub fn id(&self) -> u32 {
            self.raw >> 1
        }
        #[inline]
        pub fn is_inner(&self) -> bool {
            self.id() >= FIRST_INNER
        }
        #[inline]
        pub fn slot(&self) -> usize {
            (self.id() - FIRST_INNER) as usize
        }
    }
    impl<K: RefKind> PartialEq for REdge<K> {
        #[inline]
        fn eq(&self, other: &Self) -> bool {
            self.raw == other.raw
        }
    }
    impl<K: RefKind> Eq for REdge<K> {}
    impl<K: RefKind> PartialOrd for REdge<K> {
        #[inline]
        fn partial_cmp(&self, other: &Self) -> Option<std::cmp::Ordering> {
            Some(self.cmp(other))
        }
    }
    impl<K: RefKind> Ord for REdge<K> {
        #[inline]
        fn cmp(&self, other: &Self) -> std::cmp::Ordering {
            self.raw.cmp(&other.raw)
        }
    }
    impl<K: RefKind> Hash for REdge<K> {
        fn hash<H: Hasher>(&self, state: &mut H) {
            self.raw.hash(state)
        }
    }
    impl<K: RefKind> Edge for REdge<K> {
        type Tag = K::Tag;

        #[inline]
        fn borrowed(&self) -> Borrowed<'_, Self> {
            Borrowed::new(Self::from_raw(self.raw))
        }
        #[inline]
        fn with_tag(&self, tag: K::Tag) -> Borrowed<'_, Self> {
            Borrowed::new(Self::new(self.id(), tag))
        }
        #[inline]
        fn with_tag_owned(self, tag: K::Tag) -> Self {
            Self::new(self.id(), tag)
        }
        #[inline]
        fn tag(&self) -> K::Tag {
            K::tag_of_bit(self.raw & 1)
        }
        #[inline]
        fn node_id(&self) -> NodeID {
            self.id() as NodeID
        }
    }

    // ------------------------------------------------------------------------
    // Nodes
    // ------------------------------------------------------------------------
    pub struct RNode<K: RefKind> {
        /// raw child edges, `[then, else]`
        ch: [Cell<u32>; 2],
        level: Cell<LevelNo>,
        /// reference count including the unique table's reference(s)
        rc: Cell<u32>,
        /// slot in use?
        used: Cell<bool>,
        /// ghost: number of entries of *live* level views referring to this node
        live_refs: Cell<u8>,
        /// ghost: number of entries of *taken* level views referring to this node
        taken_refs: Cell<u8>,
        _k: PhantomData<K>,
    }
    impl<K: RefKind> RNode<K> {
        const fn empty() -> Self {
            RNode {
                ch: [Cell::new(NIL), Cell::new(NIL)],
                level: Cell::new(NIL),
                rc: Cell::new(0),
                used: Cell::new(false),
                live_refs: Cell::new(0),
                taken_refs: Cell::new(0),
                _k: PhantomData,
            }
        }
        #[inline]
        pub fn key(&self) -> [u32; 2] {
            [self.ch[0].get(), self.ch[1].get()]
        }
        #[inline]
        pub fn rc(&self) -> u32 {
            self.rc.get()
        }
        #[inline]
        pub fn is_used(&self) -> bool {
            self.used.get()
        }
    }
    // `Eq`/`Hash` consider the children only (oxidd_core::InnerNode doc)
    impl<K: RefKind> PartialEq for RNode<K> {
        fn eq(&self, other: &Self) -> bool {
            keq(self.key(), other.key())
        }
    }
    impl<K: RefKind> Eq for RNode<K> {}
    impl<K: RefKind> Hash for RNode<K> {
        fn hash<H: Hasher>(&self, state: &mut H) {
            self.key().hash(state)
        }
    }
    impl<K: RefKind> DropWith<REdge<K>> for RNode<K> {
        fn drop_with(self, drop_edge: impl Fn(REdge<K>)) {
            drop_edge(REdge::from_raw(self.ch[0].get()));
            drop_edge(REdge::from_raw(self.ch[1].get()));
        }
    }

    pub struct RChildren<'a, K: RefKind> {
        node: &'a RNode<K>,
        i: usize,
    }
    impl<'a, K: RefKind> Iterator for RChildren<'a, K> {
        type Item = Borrowed<'a, REdge<K>>;
        #[inline]
        fn next(&mut self) -> Option<Self::Item> {
            if self.i < 2 {
                let raw = self.node.ch[self.i].get();
                self.i += 1;
                Some(Borrowed::new(REdge::from_raw(raw)))
            } else {
                None
            }
        }
        #[inline]
        fn size_hint(&self) -> (usize, Option<usize>) {
            (2 - self.i, Some(2 - self.i))
        }
    }
    impl<'a, K: RefKind> ExactSizeIterator for RChildren<'a, K> {}

    impl<K: RefKind> InnerNode<REdge<K>> for RNode<K> {
        const ARITY: usize = 2;
        type ChildrenIter<'a>
            = RChildren<'a, K>
        where
            Self: 'a;

        fn new(level: LevelNo, children: impl IntoIterator<Item = REdge<K>>) -> Self {
            let mut it = children.into_iter();
            let t = it.next().expect("RNode::new: two children required");
            let e = it.next().expect("RNode::new: two children required");
            assert!(it.next().is_none(), "RNode::new: two children required");
            let n = Self::empty();
            n.ch[0].set(t.raw);
            n.ch[1].set(e.raw);
            n.level.set(level);
            n
        }
        #[inline]
        fn check_level(&self, check: impl FnOnce(LevelNo) -> bool) -> bool {
            check(self.level.get())
        }
        #[inline]
        fn assert_level_matches(&self, level: LevelNo) {
            assert!(self.level.get() == level, "the level number does not match");
        }
        #[inline]
        fn children(&self) -> Self::ChildrenIter<'_> {
            RChildren { node: self, i: 0 }
        }
        #[inline]
        fn child(&self, n: usize) -> Borrowed<'_, REdge<K>> {
            Borrowed::new(REdge::from_raw(self.ch[n].get()))
        }
        #[inline]
        unsafe fn set_child(&self, n: usize, child: REdge<K>) -> REdge<K> {
            // PROTOCOL (InnerNode::set_child doc): the node must have been
            // removed from its `LevelView` before its children (= its unique
            // table key) change.
            assert!(
                self.live_refs.get() == 0,
                "PROTOCOL: set_child on a node that is still in a level view (stale unique-table key)"
            );
            assert!(self.used.get(), "PROTOCOL: set_child on a freed node");
            REdge::from_raw(self.ch[n].replace(child.raw))
        }
        #[inline]
        fn ref_count(&self) -> usize {
            // mirror of oxidd-manager-index: ignore the unique table's reference
            assert!(self.rc.get() >= 1, "PROTOCOL: ref_count() of a node without table reference");
            (self.rc.get() - 1) as usize
        }
    }
    unsafe impl<K: RefKind> HasLevel for RNode<K> {
        #[inline]
        fn level(&self) -> LevelNo {
            self.level.get()
        }
        #[inline]
        unsafe fn set_level(&self, level: LevelNo) {
            self.level.set(level)
        }
    }

    // ------------------------------------------------------------------------
    // Unique table of one level: linear list of (edge, key at insertion time)
    // ------------------------------------------------------------------------
    pub struct Table<K: RefKind> {
        len: usize,
        edges: [REdge<K>; TCAP],
        /// ghost: children of the node when the entry was created (the hash
        /// table position of a real implementation is derived from these)
        keys: [[u32; 2]; TCAP],
    }
    impl<K: RefKind> Table<K> {
        const NILEDGE: REdge<K> = REdge::from_raw(NIL);
        pub const fn new() -> Self {
            Table {
                len: 0,
                edges: [Self::NILEDGE; TCAP],
                keys: [[NIL; 2]; TCAP],
            }
        }
        #[inline]
        pub fn len(&self) -> usize {
            self.len
        }
        #[inline]
        pub fn edge(&self, i: usize) -> &REdge<K> {
            &self.edges[i]
        }
        #[inline]
        pub fn key(&self, i: usize) -> [u32; 2] {
            self.keys[i]
        }
        /// Find the entry for `key`.  `live`: this is a live table, where every
        /// entry must still be keyed by the current children of its node.
        fn find(&self, mgr: &RefManager<K>, key: [u32; 2], live: bool) -> Option<usize> {
            let mut i = 0;
            while i < self.len {
                let cur = mgr.nodes[self.edges[i].slot()].key();
                if live {
                    // PROTOCOL: a real (hash) table finds entries by the key
                    // they were inserted with and compares the current
                    // children; both must agree.
                    assert!(
                        keq(cur, self.keys[i]),
                        "PROTOCOL: lookup in a level view that contains a node whose children changed after insertion"
                    );
                }
                // In a taken view stale entries are legitimate (level_swap
                // rewrites nodes of the taken old upper level); the real
                // table's equality function sees the current children.
                if keq(cur, key) {
                    return Some(i);
                }
                i += 1;
            }
            None
        }
        fn push(&mut self, edge: REdge<K>, key: [u32; 2]) {
            assert!(self.len < TCAP, "reference manager: TCAP too small");
            self.edges[self.len] = edge;
            self.keys[self.len] = key;
            self.len += 1;
        }
        fn swap_remove(&mut self, i: usize) -> REdge<K> {
            // (field-wise on purpose: slice::swap / mem::swap / mem::replace go
            // through untyped byte copies, which CBMC cannot constant-fold)
            let last = self.len - 1;
            let removed = self.edges[i].raw;
            self.edges[i].raw = self.edges[last].raw;
            self.keys[i][0] = self.keys[last][0];
            self.keys[i][1] = self.keys[last][1];
            self.edges[last].raw = NIL;
            self.keys[last][0] = NIL;
            self.keys[last][1] = NIL;
            self.len = last;
            REdge::from_raw(removed)
        }

        /// Exchange the contents of two tables (field-wise, see `swap_remove`)
        fn swap_with(&mut self, other: &mut Self) {
            let l = self.len;
            self.len = other.len;
            other.len = l;
            let mut i = 0;
            while i < TCAP {
                let r = self.edges[i].raw;
                self.edges[i].raw = other.edges[i].raw;
                other.edges[i].raw = r;
                let k0 = self.keys[i][0];
                self.keys[i][0] = other.keys[i][0];
                other.keys[i][0] = k0;
                let k1 = self.keys[i][1];
                self.keys[i][1] = other.keys[i][1];
                other.keys[i][1] = k1;
                i += 1;
            }
        }
        /// Move the contents out, leaving an empty table (field-wise)
        fn take_all(&mut self) -> Self {
            let mut t = Self::new();
            t.swap_with(self);
            t
        }

        fn insert(&mut self, mgr: &RefManager<K>, edge: REdge<K>, live: bool) -> bool {
            assert!(
                edge.raw & 1 == 0,
                "PROTOCOL: edges inserted into a level view must not be tagged"
            );
            assert!(edge.is_inner(), "PROTOCOL: insert of a terminal edge");
            let node = &mgr.nodes[edge.slot()];
            assert!(node.used.get(), "PROTOCOL: insert of a freed node");
            let key = node.key();
            match self.find(mgr, key, live) {
                Some(i) => {
                    // "already present" is only meaningful for the node itself;
                    // a *different* node with the same children would silently
                    // lose the new node (canonicity)
                    assert!(
                        self.edges[i].raw == edge.raw,
                        "insert: a different node with the same children is already present at this level"
                    );
                    // mirror of LevelViewSet::insert: release the passed
                    // reference; the table's own reference remains
                    let old_rc = node.rc.get();
                    assert!(old_rc > 1, "PROTOCOL: insert (already present) released the last reference");
                    node.rc.set(old_rc - 1);
                    false
                }
                None => {
                    self.push(edge, key);
                    if live {
                        node.live_refs.set(node.live_refs.get() + 1);
                    } else {
                        node.taken_refs.set(node.taken_refs.get() + 1);
                    }
                    true
                }
            }
        }

        fn get_or_insert(
            &mut self,
            mgr: &RefManager<K>,
            node: RNode<K>,
            live: bool,
        ) -> AllocResult<REdge<K>> {
            let key = node.key();
            match self.find(mgr, key, live) {
                Some(i) => {
                    node.drop_with(|e| mgr.drop_edge(e));
                    Ok(mgr.clone_edge(&self.edges[i]))
                }
                None => {
                    // children must be stored in this manager
                    let mut c = 0;
                    while c < 2 {
                        let ce = REdge::<K>::from_raw(key[c]);
                        if ce.is_inner() {
                            assert!(
                                mgr.nodes[ce.slot()].used.get(),
                                "PROTOCOL: new node with a dangling child edge"
                            );
                        } else {
                            assert!(ce.id() < K::NTERM, "PROTOCOL: invalid terminal edge");
                        }
                        c += 1;
                    }
                    let slot = mgr.alloc_slot();
                    let s = &mgr.nodes[slot];
                    s.ch[0].set(key[0]);
                    s.ch[1].set(key[1]);
                    s.level.set(node.level.get());
                    s.rc.set(2); // unique table + returned edge
                    s.used.set(true);
                    s.live_refs.set(if live { 1 } else { 0 });
                    s.taken_refs.set(if live { 0 } else { 1 });
                    let id = slot as u32 + FIRST_INNER;
                    self.push(REdge::from_raw(id << 1), key);
                    Ok(REdge::from_raw(id << 1))
                }
            }
        }

        fn remove(&mut self, mgr: &RefManager<K>, node: &RNode<K>, live: bool) -> bool {
            match self.find(mgr, node.key(), live) {
                Some(i) => {
                    let edge = self.swap_remove(i);
                    let n = &mgr.nodes[edge.slot()];
                    if live {
                        n.live_refs.set(n.live_refs.get() - 1);
                    } else {
                        n.taken_refs.set(n.taken_refs.get() - 1);
                    }
                    mgr.drop_unique_table_edge(edge);
                    true
                }
                None => false,
            }
        }

        fn gc(&mut self, mgr: &RefManager<K>, live: bool) {
            let mut i = 0;
            while i < self.len {
                let n = &mgr.nodes[self.edges[i].slot()];
                if n.rc.get() == 1 {
                    let edge = self.swap_remove(i);
                    if live {
                        n.live_refs.set(n.live_refs.get() - 1);
                    } else {
                        n.taken_refs.set(n.taken_refs.get() - 1);
                    }
                    mgr.drop_unique_table_edge(edge);
                } else {
                    i += 1;
                }
            }
        }

        #[inline]
        fn iter(&self) -> std::slice::Iter<'_, REdge<K>> {
            self.edges[..self.len].iter()
        }
    }

    // ------------------------------------------------------------------------
    // Level views
    // ------------------------------------------------------------------------
    pub struct RefLevelView<'a, K: RefKind> {
        mgr: &'a RefManager<K>,
        level: LevelNo,
        allow_node_removal: bool,
        /// PROTOCOL: `RefCell::borrow_mut` panics when a second view of the
        /// same level is requested while one is alive (the real manager would
        /// deadlock on the level's mutex)
        set: RefMut<'a, Table<K>>,
    }
    pub struct RefTakenView<'a, K: RefKind> {
        mgr: &'a RefManager<K>,
        level: LevelNo,
        set: Table<K>,
    }

    unsafe impl<'a, K: RefKind> LevelView<REdge<K>, RNode<K>> for RefLevelView<'a, K> {
        type Iterator<'b>
            = std::slice::Iter<'b, REdge<K>>
        where
            Self: 'b,
            REdge<K>: 'b;
        type Taken = RefTakenView<'a, K>;

        #[inline]
        fn len(&self) -> usize {
            self.set.len
        }
        #[inline]
        fn level_no(&self) -> LevelNo {
            self.level
        }
        #[inline]
        fn reserve(&mut self, additional: usize) {
            assert!(self.set.len + additional <= TCAP, "reference manager: TCAP too small");
        }
        #[inline]
        fn get(&self, node: &RNode<K>) -> Option<&REdge<K>> {
            match self.set.find(self.mgr, node.key(), true) {
                Some(i) => Some(&self.set.edges[i]),
                None => None,
            }
        }
        fn insert(&mut self, edge: REdge<K>) -> bool {
            assert!(edge.is_inner(), "PROTOCOL: insert of a terminal edge");
            self.mgr.nodes[edge.slot()].assert_level_matches(self.level);
            self.set.insert(self.mgr, edge, true)
        }
        unsafe fn insert_unchecked(&mut self, edge: REdge<K>) -> bool {
            self.set.insert(self.mgr, edge, true)
        }
        fn get_or_insert(&mut self, node: RNode<K>) -> AllocResult<REdge<K>> {
            node.assert_level_matches(self.level);
            self.set.get_or_insert(self.mgr, node, true)
        }
        unsafe fn get_or_insert_unchecked(&mut self, node: RNode<K>) -> AllocResult<REdge<K>> {
            self.set.get_or_insert(self.mgr, node, true)
        }
        fn gc(&mut self) {
            if self.allow_node_removal {
                self.set.gc(self.mgr, true)
            }
        }
        fn remove(&mut self, node: &RNode<K>) -> bool {
            if !self.allow_node_removal {
                return false;
            }
            self.set.remove(self.mgr, node, true)
        }
        unsafe fn swap(&mut self, other: &mut Self) {
            self.mgr.swap_levels(self.level, other.level);
            self.set.swap_with(&mut *other.set);
        }
        #[inline]
        fn iter(&self) -> Self::Iterator<'_> {
            self.set.iter()
        }
        fn take(&mut self) -> Option<Self::Taken> {
            if !self.allow_node_removal {
                return None;
            }
            let set = self.set.take_all();
            let mut i = 0;
            while i < set.len {
                let n = &self.mgr.nodes[set.edges[i].slot()];
                n.live_refs.set(n.live_refs.get() - 1);
                n.taken_refs.set(n.taken_refs.get() + 1);
                i += 1;
            }
            Some(RefTakenView {
                mgr: self.mgr,
                level: self.level,
                set,
            })
        }
    }

    unsafe impl<'a, K: RefKind> LevelView<REdge<K>, RNode<K>> for RefTakenView<'a, K> {
        type Iterator<'b>
            = std::slice::Iter<'b, REdge<K>>
        where
            Self: 'b,
            REdge<K>: 'b;
        type Taken = Self;

        #[inline]
        fn len(&self) -> usize {
            self.set.len
        }
        #[inline]
        fn level_no(&self) -> LevelNo {
            self.level
        }
        #[inline]
        fn reserve(&mut self, additional: usize) {
            assert!(self.set.len + additional <= TCAP, "reference manager: TCAP too small");
        }
        #[inline]
        fn get(&self, node: &RNode<K>) -> Option<&REdge<K>> {
            match self.set.find(self.mgr, node.key(), false) {
                Some(i) => Some(&self.set.edges[i]),
                None => None,
            }
        }
        fn insert(&mut self, edge: REdge<K>) -> bool {
            assert!(edge.is_inner(), "PROTOCOL: insert of a terminal edge");
            self.mgr.nodes[edge.slot()].assert_level_matches(self.level);
            self.set.insert(self.mgr, edge, false)
        }
        unsafe fn insert_unchecked(&mut self, edge: REdge<K>) -> bool {
            self.set.insert(self.mgr, edge, false)
        }
        fn get_or_insert(&mut self, node: RNode<K>) -> AllocResult<REdge<K>> {
            node.assert_level_matches(self.level);
            self.set.get_or_insert(self.mgr, node, false)
        }
        unsafe fn get_or_insert_unchecked(&mut self, node: RNode<K>) -> AllocResult<REdge<K>> {
            self.set.get_or_insert(self.mgr, node, false)
        }
        fn gc(&mut self) {
            self.set.gc(self.mgr, false)
        }
        fn remove(&mut self, node: &RNode<K>) -> bool {
            self.set.remove(self.mgr, node, false)
        }
        unsafe fn swap(&mut self, other: &mut Self) {
            self.mgr.swap_levels(self.level, other.level);
            self.set.swap_with(&mut other.set);
        }
        #[inline]
        fn iter(&self) -> Self::Iterator<'_> {
            self.set.iter()
        }
        fn take(&mut self) -> Option<Self::Taken> {
            Some(RefTakenView {
                mgr: self.mgr,
                level: self.level,
                set: self.set.take_all(),
            })
        }
    }
    impl<'a, K: RefKind> Drop for RefTakenView<'a, K> {
        fn drop(&mut self) {
            // mirror of TakenLevelView::drop: release the table's references
            let mut i = 0;
            while i < self.set.len {
                let edge = REdge::<K>::from_raw(self.set.edges[i].raw);
                self.set.edges[i].raw = NIL;
                let n = &self.mgr.nodes[edge.slot()];
                n.taken_refs.set(n.taken_refs.get() - 1);
                self.mgr.drop_unique_table_edge(edge);
                i += 1;
            }
            self.set.len = 0;
        }
    }

    pub struct RefLevelIter<'a, K: RefKind> {
        mgr: &'a RefManager<K>,
        front: LevelNo,
        back: LevelNo,
    }
    impl<'a, K: RefKind> Iterator for RefLevelIter<'a, K> {
        type Item = RefLevelView<'a, K>;
        fn next(&mut self) -> Option<Self::Item> {
            if self.front < self.back {
                let l = self.front;
                self.front += 1;
                Some(self.mgr.view(l))
            } else {
                None
            }
        }
        fn size_hint(&self) -> (usize, Option<usize>) {
            let n = (self.back - self.front) as usize;
            (n, Some(n))
        }
    }
    impl<'a, K: RefKind> DoubleEndedIterator for RefLevelIter<'a, K> {
        fn next_back(&mut self) -> Option<Self::Item> {
            if self.front < self.back {
                self.back -= 1;
                Some(self.mgr.view(self.back))
            } else {
                None
            }
        }
    }
    impl<'a, K: RefKind> ExactSizeIterator for RefLevelIter<'a, K> {}

    // ------------------------------------------------------------------------
    // The manager
    // ------------------------------------------------------------------------
    pub struct RefManager<K: RefKind> {
        pub(super) nodes: [RNode<K>; NCAP],
        pub(super) tables: [RefCell<Table<K>>; LMAX],
        num_levels: LevelNo,
        var_to_level: [Cell<LevelNo>; LMAX],
        level_to_var: [Cell<VarNo>; LMAX],
        reorder_gc_prepared: bool,
        gc_count: u64,
        reorder_count: u64,
    }

    impl<K: RefKind> RefManager<K> {
        const EMPTY_NODE: RNode<K> = RNode::empty();

        pub fn new(num_levels: LevelNo) -> Self {
            assert!(num_levels as usize <= LMAX);
            RefManager {
                nodes: [Self::EMPTY_NODE; NCAP],
                tables: [
                    RefCell::new(Table::new()),
                    RefCell::new(Table::new()),
                    RefCell::new(Table::new()),
                    RefCell::new(Table::new()),
                ],
                num_levels,
                var_to_level: [Cell::new(0), Cell::new(1), Cell::new(2), Cell::new(3)],
                level_to_var: [Cell::new(0), Cell::new(1), Cell::new(2), Cell::new(3)],
                reorder_gc_prepared: false,
                gc_count: 0,
                reorder_count: 0,
            }
        }

        fn view(&self, no: LevelNo) -> RefLevelView<'_, K> {
            assert!(no < self.num_levels, "PROTOCOL: level number out of range");
            RefLevelView {
                mgr: self,
                level: no,
                allow_node_removal: self.reorder_gc_prepared,
                set: self.tables[no as usize].borrow_mut(),
            }
        }

        fn alloc_slot(&self) -> usize {
            let mut i = 0;
            while i < NCAP {
                if !self.nodes[i].used.get() {
                    return i;
                }
                i += 1;
            }
            panic!("reference manager: NCAP too small");
        }

        /// mirror of `Store::drop_unique_table_edge` + `free_slot`
        fn drop_unique_table_edge(&self, edge: REdge<K>) {
            let n = &self.nodes[edge.slot()];
            assert!(n.used.get(), "PROTOCOL: table entry refers to a freed node");
            let old_rc = n.rc.get();
            assert!(old_rc >= 1);
            n.rc.set(old_rc - 1);
            if old_rc != 1 {
                return;
            }
            // last reference: free the slot, release the children
            assert!(
                n.live_refs.get() == 0 && n.taken_refs.get() == 0,
                "PROTOCOL: node freed while a level view still refers to it"
            );
            n.used.set(false);
            let key = n.key();
            n.ch[0].set(NIL);
            n.ch[1].set(NIL);
            n.level.set(NIL);
            self.drop_edge(REdge::from_raw(key[0]));
            self.drop_edge(REdge::from_raw(key[1]));
        }

        fn swap_levels(&self, l1: LevelNo, l2: LevelNo) {
            if l1 != l2 {
                let v1 = self.level_to_var[l1 as usize].get();
                let v2 = self.level_to_var[l2 as usize].get();
                self.level_to_var[l1 as usize].set(v2);
                self.level_to_var[l2 as usize].set(v1);
                self.var_to_level[v1 as usize].set(l2);
                self.var_to_level[v2 as usize].set(l1);
            }
        }

        pub fn num_used(&self) -> usize {
            let mut n = 0;
            let mut i = 0;
            while i < NCAP {
                if self.nodes[i].used.get() {
                    n += 1;
                }
                i += 1;
            }
            n
        }
    }

    unsafe impl<K: RefKind> Manager for RefManager<K> {
        type Edge = REdge<K>;
        type EdgeTag = K::Tag;
        type InnerNode = RNode<K>;
        type Terminal = K::Terminal;
        type TerminalRef<'a>
            = K::Terminal
        where
            Self: 'a;
        type Rules = K::Rules;
        type TerminalIterator<'a>
            = std::iter::Empty<REdge<K>>
        where
            Self: 'a;
        type NodeSet = HashSet<NodeID>;
        type LevelView<'a>
            = RefLevelView<'a, K>
        where
            Self: 'a;
        type LevelIterator<'a>
            = RefLevelIter<'a, K>
        where
            Self: 'a;

        #[inline]
        fn get_node(&self, edge: &REdge<K>) -> Node<'_, Self> {
            if edge.is_inner() {
                let n = &self.nodes[edge.slot()];
                assert!(n.used.get(), "PROTOCOL: get_node through a dangling edge (node was freed)");
                Node::Inner(n)
            } else {
                assert!(edge.id() < K::NTERM, "PROTOCOL: invalid terminal edge");
                Node::Terminal(K::terminal_of_id(edge.id()))
            }
        }
        #[inline]
        fn clone_edge(&self, edge: &REdge<K>) -> REdge<K> {
            if edge.is_inner() {
                let n = &self.nodes[edge.slot()];
                assert!(n.used.get(), "PROTOCOL: clone_edge of a dangling edge");
                n.rc.set(n.rc.get() + 1);
            }
            REdge::from_raw(edge.raw)
        }
        #[inline]
        fn drop_edge(&self, edge: REdge<K>) {
            if edge.is_inner() {
                let n = &self.nodes[edge.slot()];
                assert!(n.used.get(), "PROTOCOL: drop_edge of a dangling edge");
                let old_rc = n.rc.get();
                // mirror of `debug_assert!(_old_rc > 1)` in oxidd-manager-index
                assert!(
                    old_rc > 1,
                    "PROTOCOL: drop_edge released the last reference (the unique table must still hold one)"
                );
                n.rc.set(old_rc - 1);
            }
        }
        fn try_remove_node(&self, _edge: REdge<K>, _level: LevelNo) -> bool {
            unimplemented!()
        }
        fn num_inner_nodes(&self) -> usize {
            self.num_used()
        }
        #[inline]
        fn num_levels(&self) -> LevelNo {
            self.num_levels
        }
        fn num_named_vars(&self) -> VarNo {
            0
        }
        fn add_vars(&mut self, _additional: VarNo) -> Range<VarNo> {
            unimplemented!()
        }
        fn add_named_vars<S: Into<String>>(
            &mut self,
            _names: impl IntoIterator<Item = S>,
        ) -> Result<Range<VarNo>, DuplicateVarName> {
            unimplemented!()
        }
        fn var_name(&self, _var: VarNo) -> &str {
            unimplemented!()
        }
        fn set_var_name(
            &mut self,
            _var: VarNo,
            _name: impl Into<String>,
        ) -> Result<(), DuplicateVarName> {
            unimplemented!()
        }
        fn name_to_var(&self, _name: impl AsRef<str>) -> Option<VarNo> {
            unimplemented!()
        }
        #[inline]
        fn var_to_level(&self, var: VarNo) -> LevelNo {
            assert!(var < self.num_levels, "var_to_level: out of range");
            self.var_to_level[var as usize].get()
        }
        #[inline]
        fn level_to_var(&self, level: LevelNo) -> VarNo {
            assert!(level < self.num_levels, "level_to_var: out of range");
            self.level_to_var[level as usize].get()
        }
        #[inline]
        fn level(&self, no: LevelNo) -> RefLevelView<'_, K> {
            self.view(no)
        }
        #[inline]
        unsafe fn level_unchecked(&self, no: LevelNo) -> RefLevelView<'_, K> {
            self.view(no)
        }
        #[inline]
        fn levels(&self) -> RefLevelIter<'_, K> {
            RefLevelIter {
                mgr: self,
                front: 0,
                back: self.num_levels,
            }
        }
        #[inline]
        fn get_terminal(&self, terminal: K::Terminal) -> AllocResult<REdge<K>> {
            Ok(REdge::from_raw(K::id_of_terminal(terminal) << 1))
        }
        fn num_terminals(&self) -> usize {
            K::NTERM as usize
        }
        fn terminals(&self) -> Self::TerminalIterator<'_> {
            unimplemented!()
        }
        fn gc(&self) -> usize {
            unimplemented!()
        }
        fn reorder<T>(&mut self, f: impl FnOnce(&mut Self) -> T) -> T {
            // mirror of oxidd-manager-index (no event subscribers)
            if self.reorder_gc_prepared {
                return f(self);
            }
            self.reorder_gc_prepared = true;
            let res = f(self);
            self.reorder_gc_prepared = false;
            self.gc_count += 1;
            self.reorder_count += 1;
            res
        }
        fn gc_count(&self) -> u64 {
            self.gc_count
        }
        fn reorder_count(&self) -> u64 {
            self.reorder_count
        }
    }

    // ------------------------------------------------------------------------
    // Kinds
    // ------------------------------------------------------------------------
    /// Simple BDDs with the REAL `oxidd_rules_bdd::simple::BDDRules`
    pub struct KBdd;
    impl RefKind for KBdd {
        type Tag = ();
        type Terminal = oxidd_rules_bdd::simple::BDDTerminal;
        type Rules = oxidd_rules_bdd::simple::BDDRules;
        const NTERM: u32 = 2;
        #[inline]
        fn terminal_of_id(id: u32) -> Self::Terminal {
            if id == 0 {
                oxidd_rules_bdd::simple::BDDTerminal::False
            } else {
                oxidd_rules_bdd::simple::BDDTerminal::True
            }
        }
        #[inline]
        fn id_of_terminal(t: Self::Terminal) -> u32 {
            match t {
                oxidd_rules_bdd::simple::BDDTerminal::False => 0,
                oxidd_rules_bdd::simple::BDDTerminal::True => 1,
            }
        }
        #[inline]
        fn tag_of_bit(_bit: u32) -> () {}
        #[inline]
        fn bit_of_tag(_tag: ()) -> u32 {
            0
        }
        #[inline]
        fn terminal_value(id: u32) -> bool {
            id == 1
        }
        #[inline]
        fn tag_complements(_tag: ()) -> bool {
            false
        }
        #[inline]
        fn node_normal(_t: (), _e: ()) -> bool {
            true
        }
        #[inline]
        fn const_edge(value: bool) -> REdge<Self> {
            REdge::from_raw((value as u32) << 1)
        }
    }

    /// BDDs with complement edges with the REAL
    /// `oxidd_rules_bdd::complement_edge::BCDDRules`
    pub struct KBcdd;
    impl RefKind for KBcdd {
        type Tag = oxidd_rules_bdd::complement_edge::EdgeTag;
        type Terminal = oxidd_rules_bdd::complement_edge::BCDDTerminal;
        type Rules = oxidd_rules_bdd::complement_edge::BCDDRules;
        const NTERM: u32 = 1;
        #[inline]
        fn terminal_of_id(_id: u32) -> Self::Terminal {
            oxidd_rules_bdd::complement_edge::BCDDTerminal
        }
        #[inline]
        fn id_of_terminal(_t: Self::Terminal) -> u32 {
            0
        }
        #[inline]
        fn tag_of_bit(bit: u32) -> Self::Tag {
            if bit == 0 {
                oxidd_rules_bdd::complement_edge::EdgeTag::None
            } else {
                oxidd_rules_bdd::complement_edge::EdgeTag::Complemented
            }
        }
        #[inline]
        fn bit_of_tag(tag: Self::Tag) -> u32 {
            match tag {
                oxidd_rules_bdd::complement_edge::EdgeTag::None => 0,
                oxidd_rules_bdd::complement_edge::EdgeTag::Complemented => 1,
            }
        }
        #[inline]
        fn terminal_value(_id: u32) -> bool {
            true
        }
        #[inline]
        fn tag_complements(tag: Self::Tag) -> bool {
            tag == oxidd_rules_bdd::complement_edge::EdgeTag::Complemented
        }
        #[inline]
        fn node_normal(t: Self::Tag, _e: Self::Tag) -> bool {
            // the then edge of a node is never complemented
            t == oxidd_rules_bdd::complement_edge::EdgeTag::None
        }
        #[inline]
        fn const_edge(value: bool) -> REdge<Self> {
            REdge::from_raw(!value as u32)
        }
    }
}
