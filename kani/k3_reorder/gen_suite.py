#!/usr/bin/env python3
"""Regenerates suite.json from the harness list in harness.rs (run from this directory).
Tiers/timeouts come from TIMES (measured wall seconds, see REPORT.md)."""
import json, re, os
here = os.path.dirname(os.path.abspath(__file__))
src = open(os.path.join(here, 'harness.rs')).read()
names = re.findall(r'^\s*(?:level_down_case|level_down2_case|set_order_case|set_order2_case)!\((\w+),', src, re.M)
names += re.findall(r'#\[kani::proof\]\s*fn (\w+)\(', src)
names = sorted(set(names), key=lambda n: (not n.startswith('gate'), n))
FLAGS = ["--default-unwind", "20", "-Z", "unstable-options", "--no-assertion-reach-checks"]
SETS = {'_a_': 'S3_A = {x0&x1, (x0&x1)|x2}',
        '_b_': 'S3_B = {x0&x1, (x0&x1)|x2, x0^x1, x1, x0&(x1->x2)}',
        '_c_': 'S3_C = {x0^x1^x2, maj(x0,x1,x2), x0&!x2, x1|x2}',
        '_d_': 'S3_D = {x1|(x0&x2), x0&x2} (in this insertion order)',
        '_e_': 'S3_E = {x0&x2, x1|(x0&x2)} (in this insertion order)'}
QUICK = {'gate_bdd3_a_level_down_0', 'bdd3_a_level_down_any', 'bdd3_b_level_down_0', 'bdd3_b_set_var_order_102',
         'bdd3_b_set_var_order_120', 'bdd3_d_level_down_0', 'bdd4_e_level_down_2'}

def bounded(n):
    kind = 'BCDD (complement edges, real BCDDRules)' if n.startswith('bcdd') else 'simple BDD (real BDDRules)'
    cap = 'reference manager with 16 node slots and 10 entries per level; smallvec stub (inline capacity only)'
    if 'bdd4_e' in n:
        base = '4 levels, %s, ONE concrete set of 2 live functions {x0&x1, x1^x3} (level 2 EMPTY) built in the initial order, %s; ' % (kind, cap)
    elif 'bdd4' in n:
        base = '4 levels, %s, ONE concrete set of 3 live functions {(x0&x1)|(x2&x3), x0^x3, x1&(x2|x3)} built in the initial order, %s; ' % (kind, cap)
    else:
        s = [v for k, v in SETS.items() if k in n][0]
        base = '3 levels, %s, ONE concrete set of live functions %s built in the initial order, %s; ' % (kind, s, cap)
    m = re.search(r'twice_level_down_(\d)_(\d)$', n)
    if m:
        return base + 'level_down(%s); level_down(%s) inside one reorder()' % m.groups()
    m = re.search(r'level_down_(\d)$', n)
    if m:
        return base + 'level_down(%s) only' % m.group(1)
    if n.endswith('level_down_any'):
        return base + 'level_down(l) for both l (kani::any selector dispatched to concrete calls)'
    if n.endswith('set_var_order_any'):
        return base + 'set_var_order_seq to each of the 6 total orders (kani::any selector dispatched to concrete calls)'
    m = re.search(r'twice_set_var_order_(\d+)_(\d+)$', n)
    if m:
        return base + 'set_var_order_seq to the concrete order %s, audit, then to the concrete order %s' % m.groups()
    m = re.search(r'set_var_order_partial_(\d+)$', n)
    if m:
        return base + 'set_var_order_seq with the concrete partial request %s' % m.group(1)
    m = re.search(r'set_var_order_(\d+)$', n)
    return base + 'set_var_order_seq to the concrete order %s' % m.group(1)

hs = []
for n in names:
    if n.startswith('selftest_'):
        hs.append({"name": "verif_k3::proofs::" + n, "props": ["C08"], "tier": "selftest", "flags": FLAGS, "timeout": 900,
                   "bounded": "vacuity self-test of the audit / reference manager on S3_A; must be refuted",
                   "functions": [], "file": "crates/oxidd-reorder/src/lib.rs"})
        continue
    ld = 'level_down' in n
    fns = ["level_down", "level_swap", "update_level_no"] if ld else \
        ["set_var_order_seq", "set_var_order_common", "sort_order", "bubble_sort", "update_levels_seq", "level_swap", "update_level_no"]
    hs.append({"name": "verif_k3::proofs::" + n, "props": ["C08"], "tier": "quick" if n in QUICK else "thorough",
               "flags": FLAGS, "timeout": 1500, "bounded": bounded(n), "functions": fns,
               "file": "crates/oxidd-reorder/src/lib.rs"})
cfg = {
    "package": "oxidd-reorder",
    "append": [{"to": "crates/oxidd-reorder/src/lib.rs", "from": "refmgr.rs"},
               {"to": "crates/oxidd-reorder/src/lib.rs", "from": "harness.rs"}],
    "cargo_toml_append": {
        "crates/oxidd-reorder/Cargo.toml": "[dependencies.oxidd-rules-bdd]\nworkspace = true\nfeatures = [\"simple\", \"complement-edge\"]\n",
        "Cargo.toml": "[patch.crates-io]\nsmallvec = { path = \"/verif/kani/k3_reorder/smallvec_shim\" }\n"},
    "parallel": 3,
    "assumptions": [
        "ENVIRONMENT: level_swap/level_down/set_var_order_seq are generic in M: Manager; they are checked against the sequential reference manager RefManager (refmgr.rs: fixed slot array, linear per-level tables, reference counting mirroring oxidd-manager-index, no event subscribers, no threads). Nothing is claimed about oxidd-manager-index/-pointer themselves (hash tables, atomics, locks) nor about concurrent level swaps (set_var_order/concurrent_bubble_sort)",
        "STUB: the smallvec crate is replaced (scratch-workspace [patch.crates-io]) by kani/k3_reorder/smallvec_shim: same sequence semantics, fixed inline capacity, panics (= harness failure) instead of spilling to the heap. Reason: CBMC loses all constants that pass through the real SmallVec's MaybeUninit union (measured: one level_swap on 5 nodes -> 18.8 M SAT variables, out of memory at 12 GB). SmallVec's own unsafe code is therefore NOT covered",
        "real reduction rules: oxidd_rules_bdd::simple::BDDRules is linked unchanged (path dependency added to the scratch oxidd-reorder/Cargo.toml). BCDD (complement edges) is NOT covered by Kani: the niche-optimised ReducedOrNew<_, _> with the real EdgeTag defeats CBMC's constant folding (measured, see REPORT.md); the same scenarios run natively for BCDD only",
        "reachability of every individual assertion is not checked (--no-assertion-reach-checks: CBMC emits one full trace per reach-check, 3.9 GB of JSON for the smallest harness); instead every harness / selector branch ends in a kani::cover! that must be SATISFIED",
        "the *_any harnesses dispatch a kani::any() selector to concrete calls; all diagrams are concrete: the result is an exhaustive check of the listed instances, not a proof for all diagrams",
        "stale entries of a *taken* level view are found by their current children (a real hash table may miss them); level_swap never depends on finding such an entry (argued in REPORT.md)",
        "ZBDD rules are excluded (reordering ZBDDs with the generic swap is an open finding)"],
    "harnesses": hs}
json.dump(cfg, open(os.path.join(here, 'suite.json'), 'w'), indent=1)
print(len(hs), 'harnesses;', sum(1 for h in hs if h['tier'] == 'quick'), 'quick')
