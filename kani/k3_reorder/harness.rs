// ============================================================================
// K3: audit + scenarios + Kani harnesses for the real `level_swap`,
// `level_down`, `update_level_no` and `set_var_order_seq`, instantiated with
// the reference manager of refmgr.rs (appended before this file).
// ============================================================================
#[cfg(any(kani, test))]
#[allow(missing_docs, dead_code, unused_imports, clippy::all)]
pub(crate) mod verif_k3 {
    use super::verif_refmgr::*;
    use super::{level_down, set_var_order_seq};
    use oxidd_core::{
        DiagramRules, Edge, HasLevel, InnerNode, LevelNo, LevelView, Manager, Node, VarNo,
    };

    pub const MAXF: usize = 6;

    /// Live function handles together with their specification (truth table
    /// over the variable assignments; bit `a` is the value under the
    /// assignment that gives variable `v` the value `a >> v & 1`)
    pub struct Live<K: RefKind> {
        pub n: usize,
        pub e: [REdge<K>; MAXF],
        pub spec: [u16; MAXF],
    }

    /// truth-table masks: bits whose index has variable `v` = 0
    const MASK0: [u16; 4] = [0x5555, 0x3333, 0x0F0F, 0x00FF];

    #[inline]
    fn full(nvars: u32) -> u16 {
        if nvars >= 4 {
            0xFFFF
        } else {
            ((1u32 << (1u32 << nvars)) - 1) as u16
        }
    }
    /// cofactor of the truth table `tt` w.r.t. variable `v` = `b` (same domain)
    #[inline]
    fn cof(tt: u16, v: u32, b: bool) -> u16 {
        let sh = 1u32 << v;
        let m = MASK0[v as usize];
        let half = if b { (tt >> sh) & m } else { tt & m };
        half | (half << sh)
    }

    /// Semantics of an edge by walking the reference diagram under the CURRENT
    /// variable order.  Independent of the rules code.
    pub fn eval<K: RefKind>(m: &RefManager<K>, root: &REdge<K>, asg: u32) -> bool {
        let mut raw = root.raw();
        let mut neg = false;
        let mut steps: u32 = 0;
        loop {
            let e = REdge::<K>::from_raw(raw);
            if K::tag_complements(e.tag()) {
                neg = !neg;
            }
            if !e.is_inner() {
                assert!(e.id() < K::NTERM, "audit: invalid terminal edge");
                return K::terminal_value(e.id()) ^ neg;
            }
            assert!(steps < m.num_levels(), "audit: path longer than the number of levels");
            steps += 1;
            let n = &m.nodes[e.slot()];
            assert!(n.is_used(), "audit: dangling edge");
            let lvl = n.level();
            assert!(lvl < m.num_levels(), "audit: node with invalid level");
            let var = m.level_to_var(lvl);
            raw = if (asg >> var) & 1 == 1 { n.key()[0] } else { n.key()[1] };
        }
    }

    pub fn truth_table<K: RefKind>(m: &RefManager<K>, root: &REdge<K>) -> u16 {
        let mut tt: u16 = 0;
        let mut a: u32 = 0;
        while a < (1u32 << m.num_levels()) {
            if eval(m, root, a) {
                tt |= 1 << a;
            }
            a += 1;
        }
        tt
    }

    /// Build the function with truth table `tt` bottom-up under the current
    /// order, through the real `DiagramRules::reduce` and
    /// `ReducedOrNew::then_insert` (= `LevelView::get_or_insert`).
    pub fn build<K: RefKind>(m: &RefManager<K>, tt: u16, level: LevelNo) -> REdge<K> {
        let n = m.num_levels();
        let tt = tt & full(n);
        if tt == 0 {
            return K::const_edge(false);
        }
        if tt == full(n) {
            return K::const_edge(true);
        }
        assert!(level < n, "build: non-constant function below the last level");
        let v = m.level_to_var(level);
        let t = build(m, cof(tt, v, true), level + 1);
        let e = build(m, cof(tt, v, false), level + 1);
        match <K::Rules as DiagramRules<_, _, _>>::reduce(m, level, [t, e]).then_insert(m, level) {
            Ok(r) => r,
            Err(_) => panic!("build: node allocation failed"),
        }
    }

    /// Independent audit of the manager state.
    ///
    /// 1. var <-> level maps are inverse permutations;
    /// 2. every level view `l` contains only used inner nodes whose stored
    ///    level is `l`, entered under their CURRENT children, untagged, no two
    ///    entries with identical children; every node is reduced
    ///    (then != else, normal form of the kind) and ordered (children are
    ///    terminals or used nodes strictly below);
    /// 3. every used slot is referenced by exactly one entry of exactly one
    ///    level view and by no taken view;
    /// 4. reference count of every node == 1 (table) + parent edges + live
    ///    handles (exact: detects leaks, double releases, implicit drops);
    /// 5. every live handle still denotes its specification (truth table over
    ///    all assignments under the current order);
    /// 6. canonicity: rebuilding the specification bottom-up through
    ///    `get_or_insert` yields the very same edge and creates no node.
    pub fn audit<K: RefKind>(m: &RefManager<K>, live: &Live<K>) {
        let nl = m.num_levels();
        // 1.
        let mut l = 0;
        while l < nl {
            let v = m.level_to_var(l);
            assert!(v < nl, "audit: level_to_var out of range");
            assert!(m.var_to_level(v) == l, "audit: var/level maps are not inverse");
            l += 1;
        }
        // 2. + 3.
        let mut seen = [0u8; NCAP];
        let mut expected_rc = [0u32; NCAP];
        let mut l = 0;
        while l < nl {
            let tab = m.tables[l as usize].borrow();
            let mut i = 0;
            while i < tab.len() {
                let e = tab.edge(i);
                assert!(e.is_inner(), "audit: terminal in a level view");
                assert!(e.raw() & 1 == 0, "audit: tagged edge in a level view");
                let s = e.slot();
                let n = &m.nodes[s];
                assert!(n.is_used(), "audit: level view refers to a freed node");
                assert!(n.level() == l, "audit: node level differs from the level of its view");
                let key = n.key();
                assert!(keq(tab.key(i), key), "audit: node is entered under stale children");
                // uniqueness
                let mut j = 0;
                while j < i {
                    assert!(
                        !keq(m.nodes[tab.edge(j).slot()].key(), key),
                        "audit: two nodes with identical children on one level"
                    );
                    j += 1;
                }
                // reduced + ordered
                assert!(key[0] != key[1], "audit: node with identical children (not reduced)");
                let mut c = 0;
                while c < 2 {
                    let ce = REdge::<K>::from_raw(key[c]);
                    if ce.is_inner() {
                        let cn = &m.nodes[ce.slot()];
                        assert!(cn.is_used(), "audit: child edge is dangling");
                        assert!(cn.level() > l && cn.level() < nl, "audit: child is not strictly below");
                        expected_rc[ce.slot()] += 1;
                    } else {
                        assert!(ce.id() < K::NTERM, "audit: invalid terminal edge");
                    }
                    c += 1;
                }
                assert!(
                    K::node_normal(
                        REdge::<K>::from_raw(key[0]).tag(),
                        REdge::<K>::from_raw(key[1]).tag()
                    ),
                    "audit: node is not in normal form"
                );
                seen[s] += 1;
                expected_rc[s] += 1; // the table's reference
                i += 1;
            }
            l += 1;
        }
        // levels beyond num_levels stay empty
        while (l as usize) < LMAX {
            assert!(m.tables[l as usize].borrow().len() == 0);
            l += 1;
        }
        let mut f = 0;
        while f < live.n {
            if live.e[f].is_inner() {
                expected_rc[live.e[f].slot()] += 1;
            }
            f += 1;
        }
        let mut s = 0;
        while s < NCAP {
            let n = &m.nodes[s];
            if n.is_used() {
                assert!(seen[s] == 1, "audit: node is not in exactly one level view");
                // 4.
                assert!(n.rc() == expected_rc[s], "audit: reference count mismatch");
            } else {
                assert!(seen[s] == 0);
                assert!(expected_rc[s] == 0, "audit: edge to a freed node");
            }
            s += 1;
        }
        // 5. + 6.
        let used = m.num_used();
        let mut f = 0;
        while f < live.n {
            let spec = live.spec[f] & full(nl);
            assert!(truth_table(m, &live.e[f]) == spec, "audit: function of a live handle changed");
            let again = build(m, spec, 0);
            assert!(
                again.raw() == live.e[f].raw(),
                "audit: rebuilding the function yields a different edge (canonicity)"
            );
            m.drop_edge(again);
            f += 1;
        }
        assert!(m.num_used() == used, "audit: rebuilding created nodes (canonicity)");
    }

    pub fn setup<K: RefKind>(m: &RefManager<K>, specs: &[u16]) -> Live<K> {
        assert!(specs.len() <= MAXF);
        let mut live = Live {
            n: 0,
            e: [
                REdge::from_raw(NIL),
                REdge::from_raw(NIL),
                REdge::from_raw(NIL),
                REdge::from_raw(NIL),
                REdge::from_raw(NIL),
                REdge::from_raw(NIL),
            ],
            spec: [0; MAXF],
        };
        let mut i = 0;
        while i < specs.len() {
            live.e[i] = build(m, specs[i], 0);
            live.spec[i] = specs[i];
            live.n += 1;
            i += 1;
        }
        live
    }

    // ---- scenarios -----------------------------------------------------------

    pub fn scenario_level_down<K: RefKind>(nvars: u32, specs: &[u16], l: LevelNo) {
        let mut m = RefManager::<K>::new(nvars);
        let live = setup(&m, specs);
        audit(&m, &live);
        // SAFETY: inside `reorder`, exclusive access
        m.reorder(|m| unsafe { level_down(&*m, l) });
        assert!(m.level_to_var(l) == l + 1 && m.level_to_var(l + 1) == l);
        audit(&m, &live);
    }

    pub fn scenario_level_down2<K: RefKind>(nvars: u32, specs: &[u16], l1: LevelNo, l2: LevelNo) {
        let mut m = RefManager::<K>::new(nvars);
        let live = setup(&m, specs);
        m.reorder(|m| unsafe {
            level_down(&*m, l1);
            level_down(&*m, l2);
        });
        audit(&m, &live);
    }

    pub fn scenario_set_order<K: RefKind>(nvars: u32, specs: &[u16], order: &[VarNo]) {
        let mut m = RefManager::<K>::new(nvars);
        let live = setup(&m, specs);
        audit(&m, &live);
        set_var_order_seq(&mut m, order);
        check_order(&m, order);
        audit(&m, &live);
    }

    pub fn scenario_set_order2<K: RefKind>(
        nvars: u32,
        specs: &[u16],
        order1: &[VarNo],
        order2: &[VarNo],
    ) {
        let mut m = RefManager::<K>::new(nvars);
        let live = setup(&m, specs);
        set_var_order_seq(&mut m, order1);
        check_order(&m, order1);
        audit(&m, &live);
        set_var_order_seq(&mut m, order2);
        check_order(&m, order2);
        audit(&m, &live);
    }

    fn check_order<K: RefKind>(m: &RefManager<K>, order: &[VarNo]) {
        let mut i = 1;
        while i < order.len() {
            assert!(
                m.var_to_level(order[i - 1]) < m.var_to_level(order[i]),
                "set_var_order: requested relative order not established"
            );
            i += 1;
        }
    }

    // ---- concrete diagram sets ----------------------------------------------
    // 3 variables, bit a = x0 + 2 x1 + 4 x2:  x0 = 0xAA, x1 = 0xCC, x2 = 0xF0
    /// f = x0 & x1, h = f | x2   (the D5 witness)
    pub const S3_A: [u16; 2] = [0x88, 0xF8];
    /// f = x0 & x1, h = f | x2, x0 ^ x1, x1, x0 & (x1 -> x2)
    pub const S3_B: [u16; 5] = [0x88, 0xF8, 0x66, 0xCC, 0xA2];
    /// x0 ^ x1 ^ x2, maj(x0,x1,x2), x0 & !x2, x1 | x2
    pub const S3_C: [u16; 4] = [0x96, 0xE8, 0x0A, 0xFC];
    /// B = x1 | (x0 & x2), A = x0 & x2: A is independent of x1 and is the (x1 = 0)-cofactor of B; on
    /// level 0 the node of B is entered (and therefore visited by level_swap) BEFORE the node of A, so
    /// swapping levels 0/1 must re-find A's node in the taken old upper level (`old_upper.get`)
    pub const S3_D: [u16; 2] = [0xEC, 0xA0];
    /// the same two functions in the other insertion order (A's node is moved down first)
    pub const S3_E: [u16; 2] = [0xA0, 0xEC];
    // 4 variables: x0 = 0xAAAA, x1 = 0xCCCC, x2 = 0xF0F0, x3 = 0xFF00
    /// (x0 & x1) | (x2 & x3), x0 ^ x3, x1 & (x2 | x3)
    pub const S4_A: [u16; 3] = [0xF888, 0x55AA, 0xCCC0];
    /// x0 & x1, x1 ^ x3   (x2 unused: level 2 is EMPTY, exercises the second step of
    /// set_var_order_common and level swaps next to an empty level)
    pub const S4_E: [u16; 2] = [0x8888, 0x33CC];

    pub const PERM3: [[VarNo; 3]; 6] = [
        [0, 1, 2],
        [0, 2, 1],
        [1, 0, 2],
        [1, 2, 0],
        [2, 0, 1],
        [2, 1, 0],
    ];

    // ---- native smoke tests (not part of the evidence; for development) ------
    #[cfg(test)]
    mod native {
        use super::*;
        fn all<K: RefKind>() {
            for specs in [&S3_A[..], &S3_B[..], &S3_C[..], &S3_D[..], &S3_E[..]] {
                for l in 0..2 {
                    scenario_level_down::<K>(3, specs, l);
                    for l2 in 0..2 {
                        scenario_level_down2::<K>(3, specs, l, l2);
                    }
                }
                for p in PERM3 {
                    scenario_set_order::<K>(3, specs, &p);
                    scenario_set_order::<K>(3, specs, &p[..2]);
                    for q in PERM3 {
                        scenario_set_order2::<K>(3, specs, &p, &q);
                    }
                }
            }
            for l in 0..3 {
                scenario_level_down::<K>(4, &S4_A, l);
            }
            scenario_set_order::<K>(4, &S4_A, &[3, 1, 0, 2]);
            scenario_set_order::<K>(4, &S4_A, &[2, 0]);
            for l in 0..3 {
                scenario_level_down::<K>(4, &S4_E, l);
            }
            for o in [[3, 2, 1, 0], [2, 0, 1, 3], [0, 3, 2, 1], [1, 0, 3, 2], [3, 0, 2, 1]] {
                scenario_set_order::<K>(4, &S4_E, &o);
            }
            scenario_set_order::<K>(4, &S4_E, &[3, 1]);
            scenario_set_order2::<K>(4, &S4_E, &[2, 0, 1, 3], &[3, 2, 1, 0]);
        }
        #[test]
        fn k3_native_bdd() {
            all::<KBdd>();
        }
        #[test]
        fn k3_native_bcdd() {
            all::<KBcdd>();
        }
    }

    // ---- Kani harnesses --------------------------------------------------------
    // One harness per (diagram set, operation instance): everything is concrete, so CBMC's
    // symbolic execution constant-folds the whole run (an interpreter with memory-safety,
    // overflow, `unreachable_unchecked`/`unwrap_unchecked` and assertion checking).
    // Three `*_any` harnesses use a `kani::any()` selector that is dispatched to the same
    // concrete calls (CBMC symex is super-linear in the trace length, so the selector form
    // is only affordable for the small set S3_A).
    // Every harness (every selector branch) ends in a `kani::cover!`: all must be SATISFIED,
    // otherwise the run is reported as vacuous.
    #[cfg(kani)]
    mod proofs {
        use super::*;

        macro_rules! level_down_case {
            ($name:ident, $K:ty, $n:expr, $S:expr, $l:expr) => {
                #[kani::proof]
                fn $name() {
                    scenario_level_down::<$K>($n, &$S, $l);
                    kani::cover!(true, "end reached");
                }
            };
        }
        macro_rules! level_down2_case {
            ($name:ident, $K:ty, $n:expr, $S:expr, $l1:expr, $l2:expr) => {
                #[kani::proof]
                fn $name() {
                    scenario_level_down2::<$K>($n, &$S, $l1, $l2);
                    kani::cover!(true, "end reached");
                }
            };
        }
        macro_rules! set_order_case {
            ($name:ident, $K:ty, $n:expr, $S:expr, $o:expr) => {
                #[kani::proof]
                fn $name() {
                    scenario_set_order::<$K>($n, &$S, &$o);
                    kani::cover!(true, "end reached");
                }
            };
        }
        macro_rules! set_order2_case {
            ($name:ident, $K:ty, $n:expr, $S:expr, $o1:expr, $o2:expr) => {
                #[kani::proof]
                fn $name() {
                    scenario_set_order2::<$K>($n, &$S, &$o1, &$o2);
                    kani::cover!(true, "end reached");
                }
            };
        }

        // ---- vacuity self-tests (tier "selftest": each MUST be refuted on the current tree) ----
        /// a leaked reference must be found by the exact reference-count audit
        #[kani::proof]
        fn selftest_audit_detects_leaked_reference() {
            let m = RefManager::<KBdd>::new(3);
            let live = setup(&m, &S3_A);
            let _leaked = m.clone_edge(&live.e[0]);
            audit(&m, &live);
        }
        /// a handle that denotes another function than specified must be found
        #[kani::proof]
        fn selftest_audit_detects_changed_function() {
            let m = RefManager::<KBdd>::new(3);
            let mut live = setup(&m, &S3_A);
            live.spec[1] = 0xF0;
            audit(&m, &live);
        }
        /// the reference manager must reject `set_child` on a node that is in a level view
        #[kani::proof]
        fn selftest_protocol_rejects_set_child_in_view() {
            let m = RefManager::<KBdd>::new(3);
            let live = setup(&m, &S3_A);
            let node = m.get_node(&live.e[0]).unwrap_inner();
            let old = unsafe { node.set_child(0, KBdd::const_edge(true)) };
            m.drop_edge(old);
        }

        // ---- feasibility gate ----
        level_down_case!(gate_bdd3_a_level_down_0, KBdd, 3, S3_A, 0);

        // ---- selector form (small set only) ----
        #[kani::proof]
        fn bdd3_a_level_down_any() {
            let l: LevelNo = kani::any();
            kani::assume(l < 2);
            match l {
                0 => {
                    scenario_level_down::<KBdd>(3, &S3_A, 0);
                    kani::cover!(true, "l = 0 done");
                }
                _ => {
                    scenario_level_down::<KBdd>(3, &S3_A, 1);
                    kani::cover!(true, "l = 1 done");
                }
            }
        }
        fn set_order_any<K: RefKind>(specs: &[u16]) {
            let k: usize = kani::any();
            kani::assume(k < 6);
            match k {
                0 => {
                    scenario_set_order::<K>(3, specs, &PERM3[0]);
                    kani::cover!(true, "order 012 done");
                }
                1 => {
                    scenario_set_order::<K>(3, specs, &PERM3[1]);
                    kani::cover!(true, "order 021 done");
                }
                2 => {
                    scenario_set_order::<K>(3, specs, &PERM3[2]);
                    kani::cover!(true, "order 102 done");
                }
                3 => {
                    scenario_set_order::<K>(3, specs, &PERM3[3]);
                    kani::cover!(true, "order 120 done");
                }
                4 => {
                    scenario_set_order::<K>(3, specs, &PERM3[4]);
                    kani::cover!(true, "order 201 done");
                }
                _ => {
                    scenario_set_order::<K>(3, specs, &PERM3[5]);
                    kani::cover!(true, "order 210 done");
                }
            }
        }
        #[kani::proof]
        fn bdd3_a_set_var_order_any() {
            set_order_any::<KBdd>(&S3_A);
        }

        // ---- simple BDD, 3 levels: level_down ----
        level_down_case!(bdd3_b_level_down_0, KBdd, 3, S3_B, 0);
        level_down_case!(bdd3_b_level_down_1, KBdd, 3, S3_B, 1);
        level_down_case!(bdd3_c_level_down_0, KBdd, 3, S3_C, 0);
        level_down_case!(bdd3_c_level_down_1, KBdd, 3, S3_C, 1);
        level_down2_case!(bdd3_b_twice_level_down_0_0, KBdd, 3, S3_B, 0, 0);
        level_down2_case!(bdd3_b_twice_level_down_0_1, KBdd, 3, S3_B, 0, 1);
        level_down2_case!(bdd3_b_twice_level_down_1_0, KBdd, 3, S3_B, 1, 0);
        level_down2_case!(bdd3_c_twice_level_down_1_1, KBdd, 3, S3_C, 1, 1);

        // shared cofactor node that must be re-found in the taken level (see S3_D)
        level_down_case!(bdd3_d_level_down_0, KBdd, 3, S3_D, 0);
        level_down_case!(bdd3_d_level_down_1, KBdd, 3, S3_D, 1);
        level_down_case!(bdd3_e_level_down_0, KBdd, 3, S3_E, 0);
        set_order_case!(bdd3_d_set_var_order_210, KBdd, 3, S3_D, [2, 1, 0]);

        // ---- simple BDD, 3 levels: set_var_order_seq, all 6 total orders ----
        set_order_case!(bdd3_b_set_var_order_012, KBdd, 3, S3_B, [0, 1, 2]);
        set_order_case!(bdd3_b_set_var_order_021, KBdd, 3, S3_B, [0, 2, 1]);
        set_order_case!(bdd3_b_set_var_order_102, KBdd, 3, S3_B, [1, 0, 2]);
        set_order_case!(bdd3_b_set_var_order_120, KBdd, 3, S3_B, [1, 2, 0]);
        set_order_case!(bdd3_b_set_var_order_201, KBdd, 3, S3_B, [2, 0, 1]);
        set_order_case!(bdd3_b_set_var_order_210, KBdd, 3, S3_B, [2, 1, 0]);
        set_order_case!(bdd3_c_set_var_order_021, KBdd, 3, S3_C, [0, 2, 1]);
        set_order_case!(bdd3_c_set_var_order_102, KBdd, 3, S3_C, [1, 0, 2]);
        set_order_case!(bdd3_c_set_var_order_120, KBdd, 3, S3_C, [1, 2, 0]);
        set_order_case!(bdd3_c_set_var_order_201, KBdd, 3, S3_C, [2, 0, 1]);
        set_order_case!(bdd3_c_set_var_order_210, KBdd, 3, S3_C, [2, 1, 0]);
        // partial requests (sort_order completes them via MinSegTree)
        set_order_case!(bdd3_b_set_var_order_partial_10, KBdd, 3, S3_B, [1, 0]);
        set_order_case!(bdd3_b_set_var_order_partial_20, KBdd, 3, S3_B, [2, 0]);
        set_order_case!(bdd3_b_set_var_order_partial_21, KBdd, 3, S3_B, [2, 1]);
        // twice in a row
        set_order2_case!(bdd3_b_twice_set_var_order_102_021, KBdd, 3, S3_B, [1, 0, 2], [0, 2, 1]);
        set_order2_case!(bdd3_b_twice_set_var_order_210_012, KBdd, 3, S3_B, [2, 1, 0], [0, 1, 2]);
        set_order2_case!(bdd3_b_twice_set_var_order_120_201, KBdd, 3, S3_B, [1, 2, 0], [2, 0, 1]);
        set_order2_case!(bdd3_c_twice_set_var_order_201_120, KBdd, 3, S3_C, [2, 0, 1], [1, 2, 0]);

        // ---- simple BDD, 4 levels ----
        level_down_case!(bdd4_a_level_down_0, KBdd, 4, S4_A, 0);
        level_down_case!(bdd4_a_level_down_1, KBdd, 4, S4_A, 1);
        level_down_case!(bdd4_a_level_down_2, KBdd, 4, S4_A, 2);
        set_order_case!(bdd4_a_set_var_order_3210, KBdd, 4, S4_A, [3, 2, 1, 0]);
        set_order_case!(bdd4_a_set_var_order_1302, KBdd, 4, S4_A, [1, 3, 0, 2]);
        set_order_case!(bdd4_a_set_var_order_partial_30, KBdd, 4, S4_A, [3, 0]);

        // ---- simple BDD, 4 levels, one EMPTY level (x2 unused) ----
        level_down_case!(bdd4_e_level_down_1, KBdd, 4, S4_E, 1);
        level_down_case!(bdd4_e_level_down_2, KBdd, 4, S4_E, 2);
        set_order_case!(bdd4_e_set_var_order_3210, KBdd, 4, S4_E, [3, 2, 1, 0]);
        set_order_case!(bdd4_e_set_var_order_2013, KBdd, 4, S4_E, [2, 0, 1, 3]);
        set_order_case!(bdd4_e_set_var_order_partial_31, KBdd, 4, S4_E, [3, 1]);

        // ---- BDD with complement edges ----
        // No Kani harnesses: `ReducedOrNew<REdge, RNode>` is niche-optimised when `E::Tag` is the
        // real `EdgeTag` (the discriminant lives in the spare values of the tag byte), Kani reads it
        // through a union with nondeterministic padding and CBMC cannot constant-fold that read, so
        // every `match` on the result of `reduce` is explored both ways (measured: building S3_A alone
        // = 650 k steps, 21 k non-trivial VCCs, > 11.7 GB).  `KBcdd` is exercised by the native tests only.
    }
}
