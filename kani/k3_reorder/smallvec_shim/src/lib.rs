//! Fixed-capacity, pointer-free stand-in for `smallvec::SmallVec` (verification stub, see Cargo.toml).
//!
//! Same sequence semantics as the real crate for at most `N` items (`A = [T; N]`); exceeding the
//! inline capacity panics ("smallvec stub: inline capacity exceeded") instead of spilling to the heap,
//! so a Kani harness in which that is reachable FAILS (never silently passes).
//!
//! Representation: `len` + `[MaybeUninit<T>; N]`, written by whole-element assignments.  In contrast
//! to the real crate (one `MaybeUninit<[T; N]>` union filled through raw pointers) and to a `Vec`
//! (heap bytes; nested vectors store their buffer pointers as bytes), CBMC keeps concrete contents
//! concrete with this layout.

use core::mem::MaybeUninit;
use core::ops::{Deref, DerefMut};

/// Types that can be used as the backing store of a [`SmallVec`]
pub unsafe trait Array {
    /// Element type
    type Item;
    #[doc(hidden)]
    type Store;
    /// Number of inline items
    fn size() -> usize;
    #[doc(hidden)]
    fn new_store() -> Self::Store;
    #[doc(hidden)]
    fn slots(s: &Self::Store) -> &[MaybeUninit<Self::Item>];
    #[doc(hidden)]
    fn slots_mut(s: &mut Self::Store) -> &mut [MaybeUninit<Self::Item>];
}
unsafe impl<T, const N: usize> Array for [T; N] {
    type Item = T;
    type Store = [MaybeUninit<T>; N];
    #[inline]
    fn size() -> usize {
        N
    }
    #[inline]
    fn new_store() -> Self::Store {
        [const { MaybeUninit::uninit() }; N]
    }
    #[inline]
    fn slots(s: &Self::Store) -> &[MaybeUninit<T>] {
        s
    }
    #[inline]
    fn slots_mut(s: &mut Self::Store) -> &mut [MaybeUninit<T>] {
        s
    }
}

/// Sequence of at most `A::size()` items (stub)
pub struct SmallVec<A: Array> {
    len: usize,
    data: A::Store,
}

impl<A: Array> SmallVec<A> {
    #[inline]
    pub fn new() -> Self {
        SmallVec {
            len: 0,
            data: A::new_store(),
        }
    }
    #[inline]
    pub fn with_capacity(n: usize) -> Self {
        assert!(n <= A::size(), "smallvec stub: inline capacity exceeded");
        Self::new()
    }
    #[inline]
    pub fn inline_size(&self) -> usize {
        A::size()
    }
    #[inline]
    pub fn len(&self) -> usize {
        self.len
    }
    #[inline]
    pub fn is_empty(&self) -> bool {
        self.len == 0
    }
    #[inline]
    pub fn capacity(&self) -> usize {
        A::size()
    }
    #[inline]
    pub fn spilled(&self) -> bool {
        false
    }
    #[inline]
    pub fn reserve(&mut self, additional: usize) {
        assert!(
            self.len + additional <= A::size(),
            "smallvec stub: inline capacity exceeded"
        );
    }
    #[inline]
    pub fn push(&mut self, value: A::Item) {
        assert!(self.len < A::size(), "smallvec stub: inline capacity exceeded");
        A::slots_mut(&mut self.data)[self.len] = MaybeUninit::new(value);
        self.len += 1;
    }
    #[inline]
    pub fn pop(&mut self) -> Option<A::Item> {
        if self.len == 0 {
            return None;
        }
        self.len -= 1;
        // SAFETY: slots below the old `len` are initialised; the slot is now outside `len`
        Some(unsafe { A::slots(&self.data)[self.len].assume_init_read() })
    }
    pub fn truncate(&mut self, len: usize) {
        while self.len > len {
            drop(self.pop());
        }
    }
    #[inline]
    pub fn clear(&mut self) {
        self.truncate(0)
    }
    #[inline]
    pub fn as_slice(&self) -> &[A::Item] {
        // SAFETY: the first `len` slots are initialised; `MaybeUninit<T>` has the layout of `T`
        unsafe {
            core::slice::from_raw_parts(A::slots(&self.data).as_ptr() as *const A::Item, self.len)
        }
    }
    #[inline]
    pub fn as_mut_slice(&mut self) -> &mut [A::Item] {
        // SAFETY: as above
        unsafe {
            core::slice::from_raw_parts_mut(
                A::slots_mut(&mut self.data).as_mut_ptr() as *mut A::Item,
                self.len,
            )
        }
    }
}

impl<A: Array> Drop for SmallVec<A> {
    #[inline]
    fn drop(&mut self) {
        self.clear()
    }
}
impl<A: Array> Default for SmallVec<A> {
    #[inline]
    fn default() -> Self {
        Self::new()
    }
}
impl<A: Array> Deref for SmallVec<A> {
    type Target = [A::Item];
    #[inline]
    fn deref(&self) -> &[A::Item] {
        self.as_slice()
    }
}
impl<A: Array> DerefMut for SmallVec<A> {
    #[inline]
    fn deref_mut(&mut self) -> &mut [A::Item] {
        self.as_mut_slice()
    }
}
impl<A: Array> AsRef<[A::Item]> for SmallVec<A> {
    #[inline]
    fn as_ref(&self) -> &[A::Item] {
        self.as_slice()
    }
}
impl<A: Array> AsMut<[A::Item]> for SmallVec<A> {
    #[inline]
    fn as_mut(&mut self) -> &mut [A::Item] {
        self.as_mut_slice()
    }
}
impl<A: Array> Clone for SmallVec<A>
where
    A::Item: Clone,
{
    fn clone(&self) -> Self {
        let mut v = Self::new();
        for x in self.as_slice() {
            v.push(x.clone());
        }
        v
    }
}
impl<A: Array> core::fmt::Debug for SmallVec<A>
where
    A::Item: core::fmt::Debug,
{
    fn fmt(&self, f: &mut core::fmt::Formatter<'_>) -> core::fmt::Result {
        self.as_slice().fmt(f)
    }
}
impl<A: Array, B: Array> PartialEq<SmallVec<B>> for SmallVec<A>
where
    A::Item: PartialEq<B::Item>,
{
    fn eq(&self, other: &SmallVec<B>) -> bool {
        self.as_slice() == other.as_slice()
    }
}
impl<A: Array> Eq for SmallVec<A> where A::Item: Eq {}
impl<A: Array> FromIterator<A::Item> for SmallVec<A> {
    #[inline]
    fn from_iter<I: IntoIterator<Item = A::Item>>(iterable: I) -> Self {
        let mut v = SmallVec::new();
        v.extend(iterable);
        v
    }
}
impl<A: Array> Extend<A::Item> for SmallVec<A> {
    #[inline]
    fn extend<I: IntoIterator<Item = A::Item>>(&mut self, iterable: I) {
        for x in iterable {
            self.push(x);
        }
    }
}

/// Owning iterator
pub struct IntoIter<A: Array> {
    data: A::Store,
    start: usize,
    end: usize,
}
impl<A: Array> Iterator for IntoIter<A> {
    type Item = A::Item;
    #[inline]
    fn next(&mut self) -> Option<A::Item> {
        if self.start == self.end {
            return None;
        }
        let i = self.start;
        self.start += 1;
        // SAFETY: slots in `start..end` are initialised and read exactly once
        Some(unsafe { A::slots(&self.data)[i].assume_init_read() })
    }
    #[inline]
    fn size_hint(&self) -> (usize, Option<usize>) {
        let n = self.end - self.start;
        (n, Some(n))
    }
}
impl<A: Array> DoubleEndedIterator for IntoIter<A> {
    #[inline]
    fn next_back(&mut self) -> Option<A::Item> {
        if self.start == self.end {
            return None;
        }
        self.end -= 1;
        // SAFETY: as above
        Some(unsafe { A::slots(&self.data)[self.end].assume_init_read() })
    }
}
impl<A: Array> ExactSizeIterator for IntoIter<A> {}
impl<A: Array> core::iter::FusedIterator for IntoIter<A> {}
impl<A: Array> Drop for IntoIter<A> {
    fn drop(&mut self) {
        while let Some(x) = self.next() {
            drop(x);
        }
    }
}

impl<A: Array> IntoIterator for SmallVec<A> {
    type Item = A::Item;
    type IntoIter = IntoIter<A>;
    #[inline]
    fn into_iter(self) -> IntoIter<A> {
        let mut this = core::mem::ManuallyDrop::new(self);
        let end = this.len;
        let data = core::mem::replace(&mut this.data, A::new_store());
        IntoIter { data, start: 0, end }
    }
}
impl<'a, A: Array> IntoIterator for &'a SmallVec<A> {
    type Item = &'a A::Item;
    type IntoIter = core::slice::Iter<'a, A::Item>;
    #[inline]
    fn into_iter(self) -> Self::IntoIter {
        self.as_slice().iter()
    }
}
impl<'a, A: Array> IntoIterator for &'a mut SmallVec<A> {
    type Item = &'a mut A::Item;
    type IntoIter = core::slice::IterMut<'a, A::Item>;
    #[inline]
    fn into_iter(self) -> Self::IntoIter {
        self.as_mut_slice().iter_mut()
    }
}

/// `smallvec![a, b, c]`
#[macro_export]
macro_rules! smallvec {
    () => ($crate::SmallVec::new());
    ($($x:expr),+ $(,)?) => ({
        let mut v = $crate::SmallVec::new();
        $( v.push($x); )+
        v
    });
}
