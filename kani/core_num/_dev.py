"""Development wrapper around vx.kani_dev with a corrected Kani check-table parser.

vx.kani_run.parse_kani (as of this writing) drops every check whose id contains a blank, e.g.
`Check 1: <util::num::Saturating<u64> as std::ops::Shr<u32>>::shr.assertion.1`, so a FAILURE inside a
trait impl is not seen.  This wrapper patches the parser (id = rest of the line) and additionally
refuses to report `discharged` when Kani's own `** N of M failed` line disagrees.

usage (from /verif): VERIF_KANI_MEM_KB=12000000 python3 kani/core_num/_dev.py <suite> [substr ...] [--playback] [--keep]
"""
import os, re, sys
sys.path.insert(0, os.path.dirname(os.path.dirname(os.path.dirname(os.path.abspath(__file__)))))
from vx import kani_run, kani_dev


def parse_kani(out):
    checks = []
    for m in re.finditer(r'Check (\d+): ([^\n]+?)\s*\n\s*- Status: (\w+)\s*\n\s*- Description: "((?:[^"\\]|\\.)*)"\s*\n\s*- Location: ([^\n]*)', out):
        checks.append(dict(id=m.group(2), status=m.group(3), desc=m.group(4), loc=m.group(5).strip()))
    summary = re.search(r'\*\* (\d+) of (\d+) failed', out)
    verdict = re.search(r'VERIFICATION:- (\w+)', out)
    t = re.search(r'Verification Time: ([\d.]+)s', out)
    if summary:
        nfail = len([c for c in checks if c['status'] == 'FAILURE'])
        if nfail != int(summary.group(1)):
            checks.append(dict(id='parser.mismatch', status='FAILURE',
                               desc='parser saw %d FAILURE checks, Kani reports %s' % (nfail, summary.group(1)), loc=''))
    return checks, (int(summary.group(1)), int(summary.group(2))) if summary else None, verdict.group(1) if verdict else None, float(t.group(1)) if t else None


kani_run.parse_kani = parse_kani
if __name__ == '__main__':
    kani_dev.main()
