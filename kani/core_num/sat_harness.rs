// ---- appended by /verif (engine K, suite core_num): Saturating<u64>/<u128> and F64, property C12 ----
//
// Mathematical model written from the type's doc comment ("Natural numbers with saturating
// arithmetic. In contrast to std::num::Saturating, T::MAX represents an out-of-bounds value, and a
// subsequent subtraction or right shift does not change this value.") and the property clause
// ("machine integers whenever 2^vars is representable and their saturation marker otherwise"):
//
//   abs(Saturating(x)) = OOB            if x == T::MAX
//                      = Exact(x)       otherwise                    (an exact natural < T::MAX)
//   OOB + _ = _ + OOB = OOB;   Exact(a)+Exact(b) = Exact(a+b) if a+b < MAX else OOB
//   OOB - _ = OOB;             Exact(a)-Exact(b) = Exact(a-b)   (precondition b <= a: naturals)
//   OOB << k = OOB;            Exact(a) << k = Exact(a*2^k) if a*2^k < MAX else OOB
//   OOB >> k = OOB;            Exact(a) >> k = Exact(floor(a / 2^k))
//   from(u32 v) = Exact(v)
//
// All harnesses are loop-free over the full domain of the operands => complete proofs.
#[cfg(kani)]
mod verif_sat {
    use super::*;

    macro_rules! sat_suite {
        ($m:ident, $t:ty) => {
            pub mod $m {
                use super::super::*;
                type S = Saturating<$t>;
                const MAX: $t = <$t>::MAX;
                const BITS: u32 = <$t>::BITS;

                /// exact product a * 2^k if it is < MAX (i.e. representable as an exact value)
                fn exact_shl(a: $t, k: u32) -> Option<$t> {
                    if a == 0 {
                        return Some(0);
                    }
                    if k >= BITS {
                        return None;
                    }
                    // a * 2^k < 2^BITS  <=>  no set bit among the k top bits
                    if k != 0 && (a >> (BITS - k)) != 0 {
                        return None;
                    }
                    let r = a << k;
                    if r == MAX { None } else { Some(r) }
                }

                // ---------- From<u32> ----------
                #[kani::proof]
                fn from_u32_exact() {
                    let v: u32 = kani::any();
                    let s = S::from(v);
                    assert!(s.0 == v as $t);
                    assert!(s.0 != MAX); // never the marker
                }

                // ---------- Add ----------
                #[kani::proof]
                fn add_matches_model() {
                    let (a, b): ($t, $t) = (kani::any(), kani::any());
                    let r = Saturating(a) + Saturating(b);
                    if a == MAX || b == MAX {
                        assert!(r.0 == MAX); // OOB is absorbing
                    } else {
                        match a.checked_add(b) {
                            Some(s) if s < MAX => assert!(r.0 == s), // exact
                            _ => assert!(r.0 == MAX),                // not representable => marker
                        }
                    }
                    let mut c = Saturating(a);
                    c += &Saturating(b);
                    assert!(c == r);
                }

                // ---------- Sub ----------
                #[kani::proof]
                fn sub_matches_model() {
                    let (a, b): ($t, $t) = (kani::any(), kani::any());
                    // precondition of natural-number subtraction: the subtrahend is not larger
                    // (an OOB subtrahend is only admissible if the minuend is OOB as well)
                    kani::assume(a == MAX || b <= a);
                    kani::cover!(a == MAX && b == MAX);
                    kani::cover!(a == MAX && b == 0);
                    kani::cover!(a != MAX && b == a);
                    kani::cover!(a != MAX && b < a);
                    let r = Saturating(a) - Saturating(b);
                    if a == MAX {
                        assert!(r.0 == MAX); // once saturated, stays saturated
                    } else {
                        assert!(r.0 == a - b && r.0 != MAX);
                    }
                    let mut c = Saturating(a);
                    c -= &Saturating(b);
                    assert!(c == r);
                }

                // ---------- Shr ----------
                #[kani::proof]
                fn shr_saturated_stays_saturated() {
                    let k: u32 = kani::any();
                    let r = Saturating(MAX) >> k;
                    assert!(r.0 == MAX);
                    let mut c = Saturating(MAX);
                    c >>= k;
                    assert!(c.0 == MAX);
                }
                #[kani::proof]
                fn shr_lt_width_matches_model() {
                    let a: $t = kani::any();
                    let k: u32 = kani::any();
                    kani::assume(k < BITS);
                    kani::cover!(k == BITS - 1 && a != MAX);
                    kani::cover!(k == 0 && a == MAX);
                    let r = Saturating(a) >> k;
                    if a == MAX {
                        assert!(r.0 == MAX);
                    } else {
                        assert!(r.0 == a >> k); // floor(a / 2^k)
                    }
                    let mut c = Saturating(a);
                    c >>= k;
                    assert!(c == r);
                }
                /// floor(a / 2^k) = 0 for k >= BITS (a exact)
                #[kani::proof]
                fn shr_ge_width_matches_model() {
                    let a: $t = kani::any();
                    let k: u32 = kani::any();
                    kani::assume(k >= BITS && a != MAX);
                    kani::cover!(k == BITS && a == 1);
                    kani::cover!(k == u32::MAX);
                    let r = Saturating(a) >> k;
                    assert!(r.0 == 0);
                }

                // ---------- Shl ----------
                /// the part of the model in which the exact result is representable and the shift is < width
                #[kani::proof]
                fn shl_exact_when_representable() {
                    let a: $t = kani::any();
                    let k: u32 = kani::any();
                    kani::assume(a != MAX && k < BITS && exact_shl(a, k).is_some());
                    kani::cover!(a == 1 && k == BITS - 1);
                    kani::cover!(a == 0 && k == BITS - 1);
                    kani::cover!(a > 1 && k > 1);
                    let r = Saturating(a) << k;
                    assert!(r.0 == exact_shl(a, k).unwrap());
                    assert!(r.0 != MAX);
                    let mut c = Saturating(a);
                    c <<= k;
                    assert!(c == r);
                }
                /// shift amount >= width of a non-zero value: not representable => marker
                #[kani::proof]
                fn shl_ge_width_nonzero_saturates() {
                    let a: $t = kani::any();
                    let k: u32 = kani::any();
                    kani::assume(k >= BITS && a != 0);
                    kani::cover!(k == BITS && a == 1);
                    kani::cover!(k == u32::MAX && a == MAX);
                    let r = Saturating(a) << k;
                    assert!(r.0 == MAX);
                }
                /// 2^vars for every vars: `Saturating::from(1) << vars` (the only form sat_count uses)
                #[kani::proof]
                fn shl_one_is_pow2_or_marker() {
                    let k: u32 = kani::any();
                    let r = S::from(1u32) << k;
                    if k < BITS {
                        assert!(r.0 == (1 as $t) << k && r.0 != MAX && r.0.count_ones() == 1 && r.0.trailing_zeros() == k);
                    } else {
                        assert!(r.0 == MAX);
                    }
                }
                /// exact value whose product a*2^k is NOT representable, shift amount < width:
                /// "their saturation marker otherwise"
                #[kani::proof]
                fn shl_lost_bits_saturates() {
                    let a: $t = kani::any();
                    let k: u32 = kani::any();
                    kani::assume(a != MAX && k < BITS && exact_shl(a, k).is_none());
                    kani::cover!(a == 3 && k == BITS - 1);
                    let r = Saturating(a) << k;
                    assert!(r.0 == MAX);
                }
                /// OOB * 2^k = OOB
                #[kani::proof]
                fn shl_saturated_stays_saturated() {
                    let k: u32 = kani::any();
                    let r = Saturating(MAX) << k;
                    assert!(r.0 == MAX);
                }
                /// 0 * 2^k = 0 is representable for every k
                #[kani::proof]
                fn shl_zero_is_zero() {
                    let k: u32 = kani::any();
                    let r = Saturating(0 as $t) << k;
                    assert!(r.0 == 0);
                }

                // ---------- derived Eq/Ord agree with the model on exact values ----------
                #[kani::proof]
                fn eq_ord_on_exact_values() {
                    let (a, b): ($t, $t) = (kani::any(), kani::any());
                    assert!((Saturating(a) == Saturating(b)) == (a == b));
                    assert!(Saturating(a).cmp(&Saturating(b)) == a.cmp(&b));
                    assert!(Saturating(a).partial_cmp(&Saturating(b)) == Some(a.cmp(&b)));
                }

                // ---------- vacuity self-tests (must be refuted) ----------
                #[kani::proof]
                fn selftest_add_wraps() {
                    let (a, b): ($t, $t) = (kani::any(), kani::any());
                    let r = Saturating(a) + Saturating(b);
                    assert!(r.0 == a.wrapping_add(b)); // wrong: saturating, not wrapping
                }
                #[kani::proof]
                fn selftest_sub_changes_marker() {
                    let b: $t = kani::any();
                    kani::assume(b != 0);
                    kani::cover!(b == 1);
                    let r = Saturating(MAX) - Saturating(b);
                    assert!(r.0 == MAX - b); // wrong: the marker is sticky
                }
            }
        };
    }
    sat_suite!(s64, u64);
    sat_suite!(s128, u128);
}

#[cfg(kani)]
mod verif_f64w {
    use super::*;

    /// From<u32> is exact (every u32 is representable in f64) and Add/Sub are the IEEE operations
    #[kani::proof]
    fn from_u32_exact_add_sub_ieee() {
        let v: u32 = kani::any();
        let f = F64::from(v);
        assert!(f.0 == v as f64 && f.0 >= 0.0 && f.0 as u64 == v as u64);
        let (a, b): (f64, f64) = (kani::any(), kani::any());
        kani::assume(!a.is_nan() && !b.is_nan() && !(a + b).is_nan() && !(a - b).is_nan());
        kani::cover!(a == 1.0 && b == 2.0);
        assert!((F64(a) + F64(b)).0 == a + b);
        assert!((F64(a) - F64(b)).0 == a - b);
        let mut c = F64(a);
        c += &F64(b);
        assert!(c.0 == a + b);
        let mut c = F64(a);
        c -= &F64(b);
        assert!(c.0 == a - b);
    }
    /// sums of counts below 2^53 are exact ("within their precision")
    #[kani::proof]
    fn add_small_naturals_exact() {
        let (x, y): (u64, u64) = (kani::any(), kani::any());
        kani::assume(x < (1 << 52) && y < (1 << 52));
        kani::cover!(x == (1 << 52) - 1 && y == (1 << 52) - 1);
        let r = F64(x as f64) + F64(y as f64);
        assert!(r.0 == (x + y) as f64 && r.0 as u64 == x + y);
        if y <= x {
            let d = F64(x as f64) - F64(y as f64);
            assert!(d.0 as u64 == x - y);
        }
    }
    // NOTE: `F64 << k` / `>> k` multiply by `(k as f64).exp2()`.  CBMC's model of exp2 is an approximation
    // (a harness asserting `F64::from(1) << k == 2^k` is refuted by Kani but the counterexample does not
    // reproduce natively), so the float shifts are not decidable with this tool and are not checked.
}
