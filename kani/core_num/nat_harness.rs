// ---- appended by /verif (engine K, suite core_num): Natural (arbitrary-precision natural), property C12 ----
//
// Representation (struct doc comments + `check_inv`), stated here as `wf`:
//   inline form  ptr == DANGLING: the mantissa is `len`; len == 0 => shl in {0, u64::MAX}; len != 0 => len odd
//   heap form    ptr -> `len` little-endian u64 digits, len >= 2; digits[0] odd;
//                top digit != 0 or (top digit == 0 and the msb of the digit below is 1);
//                the digit array denotes a number > u64::MAX (doc comment of `ptr`)
//   shl == u64::MAX  <=>  NaN (error value), whatever the mantissa
// Denotation of a non-NaN value: mantissa * 2^shl.  Because the mantissa of a wf value is odd (or the
// value is 0 with shl == 0) the pair (mantissa, shl) is a canonical form: equal numbers <=> equal pairs.
//
// Oracles: 256-bit unsigned arithmetic `W(hi, lo)` on two u128 written below (shift/add/compare only).
// Values are taken *relative to a symbolic base exponent* (val_rel), so the exponents themselves are NOT
// bounded in the harnesses that say "any exponent"; what is bounded is the number of mantissa digits
// (raw length 1, 2 or 3, one harness per concrete length) and the exponent *difference* of the two
// operands (so that the exact result fits into 255 bits).
#[cfg(kani)]
mod verif_nat {
    use super::*;
    use std::cmp::Ordering;

    // ------------------------------------------------------------------ 256-bit oracle arithmetic
    #[derive(Clone, Copy, PartialEq, Eq, PartialOrd, Ord)]
    struct W(u128, u128); // (hi, lo); derived lexicographic order == numeric order

    const W0: W = W(0, 0);
    fn w_limbs(m: [u64; 4]) -> W {
        W(((m[3] as u128) << 64) | m[2] as u128, ((m[1] as u128) << 64) | m[0] as u128)
    }
    fn w_lz(x: W) -> u32 {
        if x.0 != 0 { x.0.leading_zeros() } else { 128 + x.1.leading_zeros() }
    }
    fn w_tz(x: W) -> u32 {
        if x.1 != 0 { x.1.trailing_zeros() } else { 128 + x.0.trailing_zeros() }
    }
    fn w_bits(x: W) -> u32 {
        256 - w_lz(x)
    }
    /// x * 2^s if that is < 2^256
    fn w_shl(x: W, s: u64) -> Option<W> {
        if x == W0 {
            return Some(W0);
        }
        if s >= 256 || (w_lz(x) as u64) < s {
            return None;
        }
        let s = s as u32;
        Some(if s == 0 {
            x
        } else if s < 128 {
            W((x.0 << s) | (x.1 >> (128 - s)), x.1 << s)
        } else if s == 128 {
            W(x.1, 0)
        } else {
            W(x.1 << (s - 128), 0)
        })
    }
    /// floor(x / 2^s), s < 256
    fn w_shr(x: W, s: u32) -> W {
        if s == 0 {
            x
        } else if s < 128 {
            W(x.0 >> s, (x.1 >> s) | (x.0 << (128 - s)))
        } else if s == 128 {
            W(0, x.0)
        } else {
            W(0, x.0 >> (s - 128))
        }
    }
    fn w_add(a: W, b: W) -> Option<W> {
        let (lo, c) = a.1.overflowing_add(b.1);
        let hi = a.0.checked_add(b.0)?.checked_add(c as u128)?;
        Some(W(hi, lo))
    }

    // ------------------------------------------------------------------ wf + abstraction
    /// harness bound on the raw digit count of any Natural we look at (results of the operations
    /// on <= 3-digit operands with the stated exponent-difference bound have at most 4 raw digits)
    const MAXLEN: u64 = 4;

    fn rd(n: &Natural, i: usize) -> u64 {
        // raw read of digit i of the heap form (Kani checks that it is inside the allocation)
        unsafe { *n.ptr.as_ptr().add(i) }
    }
    fn wf(n: &Natural) -> bool {
        if n.ptr == DANGLING {
            if n.len == 0 { n.shl == 0 || n.shl == u64::MAX } else { n.len & 1 == 1 }
        } else {
            if n.len < 2 || n.len > MAXLEN {
                return false;
            }
            let l = n.len as usize;
            let top = rd(n, l - 1);
            let below = rd(n, l - 2);
            rd(n, 0) & 1 == 1 && (top != 0 || below >> 63 == 1) && !(l == 2 && top == 0)
        }
    }
    #[derive(Clone, Copy, PartialEq, Eq)]
    struct Abs {
        nan: bool,
        m: [u64; 4], // mantissa digits, zero extended
        e: u64,
    }
    fn abs(n: &Natural) -> Abs {
        let m = if n.ptr == DANGLING {
            [n.len, 0, 0, 0]
        } else {
            let l = n.len as usize;
            let g = |i: usize| if i < l { rd(n, i) } else { 0 };
            [g(0), g(1), g(2), g(3)]
        };
        Abs { nan: n.shl == u64::MAX, m, e: n.shl }
    }
    fn is_zero(a: &Abs) -> bool {
        !a.nan && a.m == [0, 0, 0, 0]
    }
    /// value / 2^base, if base <= exponent and the quotient is < 2^256
    fn val_rel(a: &Abs, base: u64) -> Option<W> {
        if a.nan || a.e < base {
            return None;
        }
        w_shl(w_limbs(a.m), a.e - base)
    }
    /// canonical-form equality of two wf values (NaN == NaN, as the derived `Eq` demands)
    fn abs_eq(a: &Abs, b: &Abs) -> bool {
        if a.nan || b.nan { a.nan && b.nan } else { a.m == b.m && a.e == b.e }
    }

    // ------------------------------------------------------------------ symbolic wf values of concrete raw length
    fn any_nat<const L: usize>() -> Natural {
        let n = if L == 1 {
            Natural { ptr: DANGLING, len: kani::any(), shl: kani::any() }
        } else {
            let d: [u64; L] = kani::any();
            let b: Box<[u64]> = Box::new(d);
            let ptr = NonNull::new(Box::into_raw(b).cast::<u64>()).unwrap();
            Natural { ptr, len: L as u64, shl: kani::any() }
        };
        let ok = wf(&n);
        kani::cover!(ok);
        kani::assume(ok);
        n
    }
    fn any_num<const L: usize>() -> Natural {
        let n = any_nat::<L>();
        let ok = n.shl != u64::MAX;
        kani::cover!(ok);
        kani::assume(ok);
        n
    }

    // ================================================================== constants, From
    #[kani::proof]
    fn consts_zero_nan() {
        let z = Natural::ZERO;
        assert!(wf(&z) && is_zero(&abs(&z)) && !z.is_nan());
        let n = Natural::NAN;
        assert!(wf(&n) && n.is_nan());
        assert!(z.bit_width() == 0);
        assert!(z.mantissa().len() == 1 && z.mantissa()[0] == 0 && z.exp() == 0);
    }
    #[kani::proof]
    fn from_u128_exact() {
        let x: u128 = kani::any();
        let r = Natural::from(x);
        assert!(wf(&r) && !r.is_nan());
        assert!(val_rel(&abs(&r), 0) == Some(W(0, x)));
        kani::cover!(r.ptr != DANGLING);
        kani::cover!(r.ptr == DANGLING && r.shl == 127);
    }
    #[kani::proof]
    fn from_u64_u32_u16_u8_exact() {
        let x: u64 = kani::any();
        let r = Natural::from(x);
        assert!(wf(&r) && !r.is_nan() && r.ptr == DANGLING);
        assert!(val_rel(&abs(&r), 0) == Some(W(0, x as u128)));
        let y: u32 = kani::any();
        let r = Natural::from(y);
        assert!(wf(&r) && !r.is_nan() && val_rel(&abs(&r), 0) == Some(W(0, y as u128)));
        let y: u16 = kani::any();
        let r = Natural::from(y);
        assert!(wf(&r) && !r.is_nan() && val_rel(&abs(&r), 0) == Some(W(0, y as u128)));
        let y: u8 = kani::any();
        let r = Natural::from(y);
        assert!(wf(&r) && !r.is_nan() && val_rel(&abs(&r), 0) == Some(W(0, y as u128)));
    }

    // ================================================================== from_le_digits (slice lengths 0..=3)
    fn check_from_le_digits<const L: usize>() {
        let d: [u64; L] = kani::any();
        let r = Natural::from_le_digits(&d);
        assert!(wf(&r) && !r.is_nan());
        let mut m = [0u64; 4];
        let mut i = 0;
        while i < L {
            m[i] = d[i];
            i += 1;
        }
        assert!(val_rel(&abs(&r), 0) == Some(w_limbs(m)));
        kani::cover!(r.ptr != DANGLING);
        kani::cover!(r.ptr == DANGLING);
    }
    #[kani::proof]
    #[kani::unwind(6)]
    fn from_le_digits_0() {
        check_from_le_digits::<0>()
    }
    #[kani::proof]
    #[kani::unwind(6)]
    fn from_le_digits_1() {
        check_from_le_digits::<1>()
    }
    #[kani::proof]
    #[kani::unwind(6)]
    fn from_le_digits_2() {
        check_from_le_digits::<2>()
    }
    #[kani::proof]
    #[kani::unwind(6)]
    fn from_le_digits_3() {
        check_from_le_digits::<3>()
    }

    // ================================================================== accessors: mantissa, exp, is_nan, bit_width
    fn check_accessors<const L: usize>() {
        let a = any_nat::<L>();
        let aa = abs(&a);
        assert!(a.is_nan() == aa.nan);
        assert!(a.exp() == aa.e);
        let m = a.mantissa();
        // minimal length, at least one element, same digits
        let want = if aa.m[3] != 0 { 4 } else if aa.m[2] != 0 { 3 } else if aa.m[1] != 0 { 2 } else { 1 };
        assert!(m.len() == want);
        assert!(m[0] == aa.m[0]);
        if want >= 2 {
            assert!(m[1] == aa.m[1]);
        }
        if want >= 3 {
            assert!(m[2] == aa.m[2]);
        }
        if !aa.nan {
            // bit_width = 1 + floor(log2 value), 0 for 0; exact for every exponent
            let bw = a.bit_width();
            let mb = w_bits(w_limbs(aa.m));
            if is_zero(&aa) {
                assert!(bw == 0);
            } else {
                assert!(bw == mb as u128 + aa.e as u128);
                // defining property on the mantissa: 2^(mb-1) <= mantissa < 2^mb
                assert!(w_shr(w_limbs(aa.m), mb - 1) == W(0, 1));
            }
        }
    }
    #[kani::proof]
    fn accessors_1() {
        check_accessors::<1>()
    }
    #[kani::proof]
    fn accessors_2() {
        check_accessors::<2>()
    }
    #[kani::proof]
    fn accessors_3() {
        check_accessors::<3>()
    }

    // ================================================================== clone / clone_from
    fn check_clone<const L: usize>() {
        let a = any_nat::<L>();
        let before = abs(&a);
        let c = a.clone();
        assert!(wf(&c));
        assert!(abs(&c) == before && abs(&a) == before);
        assert!(c.len == a.len);
        if L > 1 {
            assert!(c.ptr != a.ptr && c.ptr != DANGLING); // own allocation
        }
        // both are dropped here: Kani checks the two deallocations
    }
    #[kani::proof]
    #[kani::unwind(34)]
    fn clone_1() {
        check_clone::<1>()
    }
    #[kani::proof]
    #[kani::unwind(34)]
    fn clone_2() {
        check_clone::<2>()
    }
    #[kani::proof]
    #[kani::unwind(34)]
    fn clone_3() {
        check_clone::<3>()
    }

    /// `dst.clone_from(&src)`: dst becomes a wf value equal to src with its own storage, src unchanged,
    /// both can be dropped afterwards.
    fn check_clone_from<const LD: usize, const LS: usize>() {
        let mut dst = any_nat::<LD>();
        let src = any_nat::<LS>();
        let want = abs(&src);
        dst.clone_from(&src);
        assert!(dst.len == src.len);
        assert!((dst.ptr == DANGLING) == (src.ptr == DANGLING));
        assert!(wf(&dst));
        assert!(abs(&dst) == want && abs(&src) == want);
        if LS > 1 {
            assert!(dst.ptr != src.ptr);
        }
    }
    macro_rules! clone_from_h {
        ($($name:ident: $ld:literal, $ls:literal;)*) => {$(
            #[kani::proof]
            #[kani::unwind(34)]
            fn $name() { check_clone_from::<$ld, $ls>() }
        )*};
    }
    clone_from_h! {
        clone_from_1_1: 1, 1; clone_from_1_2: 1, 2; clone_from_1_3: 1, 3;
        clone_from_2_1: 2, 1; clone_from_2_2: 2, 2; clone_from_2_3: 2, 3;
        clone_from_3_1: 3, 1; clone_from_3_2: 3, 2; clone_from_3_3: 3, 3;
    }

    // ================================================================== PartialEq
    /// any exponents (full u64 range), NaN included:  a == b  <=>  both NaN, or both numbers with the same
    /// canonical form; on the region where both values fit 256 bits relative to the smaller exponent the
    /// canonical-form equality is cross-checked against equality of the 256-bit values.
    fn check_eq<const LA: usize, const LB: usize>() {
        let a = any_nat::<LA>();
        let b = any_nat::<LB>();
        let (aa, ab) = (abs(&a), abs(&b));
        let r = a == b;
        assert!(r == (b == a));
        assert!(r == abs_eq(&aa, &ab));
        assert!(a == a);
        if !aa.nan && !ab.nan {
            let base = if aa.e < ab.e { aa.e } else { ab.e };
            if let (Some(va), Some(vb)) = (val_rel(&aa, base), val_rel(&ab, base)) {
                assert!(r == (va == vb));
            }
            kani::cover!(r && LA == LB);
            kani::cover!(!r && aa.e == ab.e);
        }
    }
    macro_rules! eq_h {
        ($($name:ident: $la:literal, $lb:literal;)*) => {$(
            #[kani::proof]
            #[kani::unwind(34)]
            fn $name() { check_eq::<$la, $lb>() }
        )*};
    }
    eq_h! { eq_1_1: 1, 1; eq_1_2: 1, 2; eq_1_3: 1, 3; eq_2_2: 2, 2; eq_2_3: 2, 3; eq_3_3: 3, 3; }

    // ================================================================== PartialOrd
    /// numbers whose values relative to the smaller exponent fit into 256 bits (exponents themselves
    /// arbitrary): partial_cmp is the mathematical order; NaN operands give None.
    fn check_cmp<const LA: usize, const LB: usize>() {
        let a = any_nat::<LA>();
        let b = any_nat::<LB>();
        let (aa, ab) = (abs(&a), abs(&b));
        if aa.nan || ab.nan {
            assert!(a.partial_cmp(&b).is_none() && b.partial_cmp(&a).is_none());
            return;
        }
        let base = if aa.e < ab.e { aa.e } else { ab.e };
        let (va, vb) = (val_rel(&aa, base), val_rel(&ab, base));
        let ok = va.is_some() && vb.is_some();
        kani::cover!(ok && aa.e > ab.e + 40);
        kani::cover!(ok && aa.e + 40 < ab.e);
        kani::cover!(ok && aa.e == ab.e);
        kani::assume(ok);
        let want = va.unwrap().cmp(&vb.unwrap());
        kani::cover!(want == Ordering::Equal);
        kani::cover!(want == Ordering::Less && aa.e > ab.e);
        kani::cover!(want == Ordering::Greater && aa.e < ab.e);
        assert!(a.partial_cmp(&b) == Some(want));
        assert!(b.partial_cmp(&a) == Some(want.reverse()));
        assert!((want == Ordering::Equal) == (a == b));
    }
    /// far-apart exponents (difference >= 192, any magnitude): the larger exponent wins, because every
    /// non-zero mantissa here is in [1, 2^192)
    fn check_cmp_far<const LA: usize, const LB: usize>() {
        let a = any_num::<LA>();
        let b = any_num::<LB>();
        let (aa, ab) = (abs(&a), abs(&b));
        let ok = !is_zero(&aa) && aa.e >= 192 && aa.e - 192 >= ab.e;
        kani::cover!(ok && is_zero(&ab));
        kani::cover!(ok && !is_zero(&ab) && aa.e == u64::MAX - 1);
        kani::assume(ok);
        assert!(a.partial_cmp(&b) == Some(Ordering::Greater));
        assert!(b.partial_cmp(&a) == Some(Ordering::Less));
        assert!(a != b);
    }
    macro_rules! cmp_h {
        ($($name:ident, $far:ident: $la:literal, $lb:literal;)*) => {$(
            #[kani::proof]
            #[kani::unwind(6)]
            fn $name() { check_cmp::<$la, $lb>() }
            #[kani::proof]
            #[kani::unwind(6)]
            fn $far() { check_cmp_far::<$la, $lb>() }
        )*};
    }
    cmp_h! {
        cmp_1_1, cmp_far_1_1: 1, 1; cmp_1_2, cmp_far_1_2: 1, 2; cmp_1_3, cmp_far_1_3: 1, 3;
        cmp_2_1, cmp_far_2_1: 2, 1; cmp_2_2, cmp_far_2_2: 2, 2; cmp_2_3, cmp_far_2_3: 2, 3;
        cmp_3_1, cmp_far_3_1: 3, 1; cmp_3_2, cmp_far_3_2: 3, 2; cmp_3_3, cmp_far_3_3: 3, 3;
    }

    // ================================================================== Shl / Shr (any exponent, any shift amount)
    fn check_shl<const L: usize>() {
        let a = any_nat::<L>();
        let aa = abs(&a);
        let k: u64 = kani::any();
        let use32: bool = kani::any();
        let k = if use32 { k as u32 as u64 } else { k };
        let r = if use32 { a << (k as u32) } else { a << k };
        let ar = abs(&r);
        assert!(wf(&r));
        if aa.nan {
            assert!(ar.nan); // NaN propagates
        } else if is_zero(&aa) {
            assert!(is_zero(&ar)); // 0 * 2^k = 0
        } else if aa.e as u128 + k as u128 >= u64::MAX as u128 {
            assert!(ar.nan); // documented error: exponent not representable
        } else {
            assert!(!ar.nan && ar.m == aa.m && ar.e == aa.e + k); // m * 2^(e+k), exact
        }
    }
    fn check_shr<const L: usize>() {
        let a = any_nat::<L>();
        let aa = abs(&a);
        let k: u64 = kani::any();
        let use32: bool = kani::any();
        let k = if use32 { k as u32 as u64 } else { k };
        let r = if use32 { a >> (k as u32) } else { a >> k };
        let ar = abs(&r);
        assert!(wf(&r));
        if aa.nan {
            assert!(ar.nan); // NaN propagates
        } else if is_zero(&aa) {
            assert!(is_zero(&ar)); // 0 / 2^k = 0, exact
        } else if k <= aa.e {
            assert!(!ar.nan && ar.m == aa.m && ar.e == aa.e - k); // exact division, never NaN
        } else {
            assert!(ar.nan); // the (odd) mantissa would lose a 1-bit: inexact => NaN
        }
    }
    #[kani::proof]
    fn shl_1() {
        check_shl::<1>()
    }
    #[kani::proof]
    fn shl_2() {
        check_shl::<2>()
    }
    #[kani::proof]
    fn shl_3() {
        check_shl::<3>()
    }
    #[kani::proof]
    fn shr_1() {
        check_shr::<1>()
    }
    #[kani::proof]
    fn shr_2() {
        check_shr::<2>()
    }
    #[kani::proof]
    fn shr_3() {
        check_shr::<3>()
    }

    // ================================================================== TryFrom<&Natural> for u128 / u64
    fn check_try_into<const L: usize>() {
        let a = any_nat::<L>();
        let aa = abs(&a);
        // exact value if it is < 2^128
        let v128: Option<u128> = if aa.nan {
            None
        } else if is_zero(&aa) {
            Some(0)
        } else if aa.e >= 128 {
            None
        } else {
            match w_shl(w_limbs(aa.m), aa.e) {
                Some(W(0, lo)) => Some(lo),
                _ => None,
            }
        };
        kani::cover!(v128.is_some() && aa.e > 0);
        kani::cover!(v128.is_none() && !aa.nan);
        let r = u128::try_from(&a);
        match v128 {
            Some(v) => assert!(r == Ok(v)),
            None => assert!(r.is_err()),
        }
        let r = u64::try_from(&a);
        match v128 {
            Some(v) if v <= u64::MAX as u128 => assert!(r == Ok(v as u64)),
            _ => assert!(r.is_err()),
        }
    }
    #[kani::proof]
    fn try_into_1() {
        check_try_into::<1>()
    }
    #[kani::proof]
    fn try_into_2() {
        check_try_into::<2>()
    }
    #[kani::proof]
    fn try_into_3() {
        check_try_into::<3>()
    }

    // ================================================================== Add
    /// numbers (non-NaN), any exponents, exponent difference bounded so that both values relative to the
    /// smaller exponent are < 2^254: the result is wf and denotes the exact sum; it is NaN exactly when
    /// the exponent of the exact sum is not representable (>= u64::MAX).
    fn check_add<const LA: usize, const LB: usize>() {
        let a = any_num::<LA>();
        let b = any_num::<LB>();
        let (aa, ab) = (abs(&a), abs(&b));
        let base = if aa.e < ab.e { aa.e } else { ab.e };
        let (va, vb) = (val_rel(&aa, base), val_rel(&ab, base));
        let ok = match (va, vb) {
            (Some(x), Some(y)) => w_bits(x) <= 254 && w_bits(y) <= 254,
            _ => false,
        };
        kani::cover!(ok && aa.e > ab.e);
        kani::cover!(ok && aa.e < ab.e);
        kani::cover!(ok && aa.e == ab.e && !is_zero(&aa));
        kani::cover!(ok && base > u64::MAX - 70);
        kani::assume(ok);
        let s = w_add(va.unwrap(), vb.unwrap()).unwrap();
        let r = a + b;
        assert!(wf(&r));
        let ar = abs(&r);
        if s == W0 {
            assert!(is_zero(&ar));
        } else {
            let tz = w_tz(s);
            let e = base as u128 + tz as u128;
            kani::cover!(tz >= 64);
            kani::cover!(e >= u64::MAX as u128);
            if e >= u64::MAX as u128 {
                assert!(ar.nan);
            } else {
                assert!(!ar.nan);
                assert!(ar.e == e as u64);
                assert!(w_limbs(ar.m) == w_shr(s, tz));
            }
        }
    }
    macro_rules! add_h {
        ($($name:ident: $la:literal, $lb:literal;)*) => {$(
            #[kani::proof]
            #[kani::unwind(7)]
            fn $name() { check_add::<$la, $lb>() }
        )*};
    }
    add_h! {
        add_1_1: 1, 1; add_1_2: 1, 2; add_1_3: 1, 3;
        add_2_1: 2, 1; add_2_2: 2, 2; add_2_3: 2, 3;
        add_3_1: 3, 1; add_3_2: 3, 2; add_3_3: 3, 3;
    }

    /// public-API end to end: from(x) + from(y) for all u128 x, y is the exact 129-bit sum
    #[kani::proof]
    #[kani::unwind(7)]
    fn add_from_u128_exact() {
        let (x, y): (u128, u128) = (kani::any(), kani::any());
        // carry chains at the digit boundaries are inside the domain:
        kani::cover!(x == u64::MAX as u128 && y == 1);
        kani::cover!(x == u128::MAX && y == 1);
        kani::cover!(x == u128::MAX && y == u128::MAX);
        kani::cover!(x == (1u128 << 64) && y == u64::MAX as u128);
        let r = Natural::from(x) + Natural::from(y);
        assert!(wf(&r) && !r.is_nan());
        let (lo, c) = x.overflowing_add(y);
        assert!(val_rel(&abs(&r), 0) == Some(W(c as u128, lo)));
    }

    /// NaN + anything = anything + NaN = NaN (every wf NaN form of the given raw length, incl. `Natural::NAN`)
    fn check_add_nan<const LA: usize, const LB: usize>() {
        let a = any_nat::<LA>();
        let b = any_nat::<LB>();
        let ok = a.is_nan();
        kani::cover!(ok && b.is_nan());
        kani::cover!(ok && !b.is_nan() && b.len != 0);
        kani::cover!(ok && a.len == 0 && !b.is_nan());
        kani::assume(ok);
        let swap: bool = kani::any();
        let r = if swap { b + a } else { a + b };
        assert!(wf(&r));
        assert!(r.is_nan());
    }
    macro_rules! add_nan_h {
        ($($name:ident: $la:literal, $lb:literal;)*) => {$(
            #[kani::proof]
            #[kani::unwind(7)]
            fn $name() { check_add_nan::<$la, $lb>() }
        )*};
    }
    add_nan_h! {
        add_nan_1_1: 1, 1; add_nan_1_2: 1, 2; add_nan_2_1: 2, 1; add_nan_2_2: 2, 2; add_nan_3_3: 3, 3;
    }

    // ================================================================== vacuity self-tests (must be refuted)
    #[kani::proof]
    #[kani::unwind(7)]
    fn selftest_add_off_by_one() {
        let (x, y): (u64, u64) = (kani::any(), kani::any());
        let r = Natural::from(x) + Natural::from(y);
        assert!(val_rel(&abs(&r), 0) == Some(W(0, x as u128 + y as u128 + 1)));
    }
    #[kani::proof]
    fn selftest_shr_never_nan() {
        let a = any_num::<2>();
        let k: u64 = kani::any();
        let r = a >> k;
        assert!(!r.is_nan());
    }
}
