// ---- appended by /verif (engine K, suite core_num): Natural (arbitrary-precision natural), property C12 ----
//
// Representation (struct doc comments + `check_inv`), stated here as `wf`:
//   inline form  ptr == DANGLING: the mantissa is `len`; len == 0 => shl in {0, u64::MAX}; len != 0 => len odd
//   heap form    ptr -> `len` little-endian u64 digits, len >= 2; digits[0] odd;
//                top digit != 0 or (top digit == 0 and the msb of the digit below is 1);
//                the digit array denotes a number > u64::MAX (doc comment of `ptr`)
//   shl == u64::MAX  <=>  NaN (error value), whatever the mantissa
// Denotation of a non-NaN value: mantissa * 2^shl.  Because the mantissa of a wf value is odd (or the
// value is 0 with shl == 0) the pair (mantissa, shl) is a canonical form: equal numbers <=> equal pairs.
//
// Oracles: 256-bit unsigned arithmetic `W(hi, lo)` on two u128 written below (shift/add/compare only).
// Values are taken *relative to a symbolic base exponent* (val_rel), so the exponents themselves are NOT
// bounded in the harnesses that say "any exponent"; what is bounded is the number of mantissa digits
// (raw length 1, 2 or 3, one harness per concrete length) and the exponent *difference* of the two
// operands (so that the exact result fits into 255 bits).
#[cfg(kani)]
mod verif_nat {
    use super::*;
    use std::cmp::Ordering;

    // ------------------------------------------------------------------ 256-bit oracle arithmetic
    #[derive(Clone, Copy, PartialEq, Eq, PartialOrd, Ord)]
    struct W(u128, u128); // (hi, lo); derived lexicographic order == numeric order

    const W0: W = W(0, 0);
    fn w_limbs(m: [u64; 4]) -> W {
        W(((m[3] as u128) << 64) | m[2] as u128, ((m[1] as u128) << 64) | m[0] as u128)
    }
    fn w_lz(x: W) -> u32 {
        if x.0 != 0 { x.0.leading_zeros() } else { 128 + x.1.leading_zeros() }
    }
    fn w_tz(x: W) -> u32 {
        if x.1 != 0 { x.1.trailing_zeros() } else { 128 + x.0.trailing_zeros() }
    }
    fn w_bits(x: W) -> u32 {
        256 - w_lz(x)
    }
    /// x * 2^s if that is < 2^256
    fn w_shl(x: W, s: u64) -> Option<W> {
        if x == W0 {
            return Some(W0);
        }
        if s >= 256 || (w_lz(x) as u64) < s {
            return None;
        }
        let s = s as u32;
        Some(if s == 0 {
            x
        } else if s < 128 {
            W((x.0 << s) | (x.1 >> (128 - s)), x.1 << s)
        } else if s == 128 {
            W(x.1, 0)
        } else {
            W(x.1 << (s - 128), 0)
        })
    }
    /// floor(x / 2^s), s < 256
    fn w_shr(x: W, s: u32) -> W {
        if s == 0 {
            x
        } else if s < 128 {
            W(x.0 >> s, (x.1 >> s) | (x.0 << (128 - s)))
        } else if s == 128 {
            W(0, x.0)
        } else {
            W(0, x.0 >> (s - 128))
        }
    }
    fn w_add(a: W, b: W) -> Option<W> {
        let (lo, c) = a.1.overflowing_add(b.1);
        let hi = a.0.checked_add(b.0)?.checked_add(c as u128)?;
        Some(W(hi, lo))
    }

    // ------------------------------------------------------------------ wf + abstraction
    /// harness bound on the raw digit count of any Natural we look at (results of the operations
    /// on <= 3-digit operands with the stated exponent-difference bound have at most 4 raw digits)
    const MAXLEN: u64 = 4;

    /// the (at most 4) raw digits, zero extended; heap digits are read at *concrete* offsets guarded by
    /// `len` (Kani checks every read against the allocation; symbolic offsets are far more expensive)
    fn digits4(n: &Natural) -> [u64; 4] {
        if n.ptr == DANGLING {
            return [n.len, 0, 0, 0];
        }
        let l = n.len;
        let p = n.ptr.as_ptr();
        // the digit array must be a live allocation of (at least) `len` digits; checked explicitly so
        // that a violation is one clean FAILURE of `wf` instead of a cascade of pointer checks
        if l > MAXLEN || !kani::mem::can_dereference(std::ptr::slice_from_raw_parts(p as *const u64, l as usize)) {
            return [0, 0, 0, 0]; // not wf (even low digit)
        }
        unsafe {
            [
                if l > 0 { *p } else { 0 },
                if l > 1 { *p.add(1) } else { 0 },
                if l > 2 { *p.add(2) } else { 0 },
                if l > 3 { *p.add(3) } else { 0 },
            ]
        }
    }
    fn wf(n: &Natural) -> bool {
        if n.ptr == DANGLING {
            if n.len == 0 { n.shl == 0 || n.shl == u64::MAX } else { n.len & 1 == 1 }
        } else {
            let d = digits4(n);
            // digits[0] odd; top digit != 0 or msb of the digit below set; array value > u64::MAX
            d[0] & 1 == 1
                && match n.len {
                    2 => d[1] != 0,
                    3 => d[2] != 0 || d[1] >> 63 == 1,
                    4 => d[3] != 0 || d[2] >> 63 == 1,
                    _ => false, // len < 2 is invalid; len > MAXLEN is outside the harness bound
                }
        }
    }
    #[derive(Clone, Copy)]
    struct Abs {
        nan: bool,
        m: [u64; 4], // mantissa digits, zero extended
        e: u64,
    }
    impl PartialEq for Abs {
        fn eq(&self, o: &Self) -> bool {
            self.nan == o.nan && m_eq(&self.m, &o.m) && self.e == o.e
        }
    }
    fn abs(n: &Natural) -> Abs {
        Abs { nan: n.shl == u64::MAX, m: digits4(n), e: n.shl }
    }
    /// element-wise comparison (array `==` compiles to memcmp, whose byte loop needs a large unwind bound)
    fn m_eq(a: &[u64; 4], b: &[u64; 4]) -> bool {
        a[0] == b[0] && a[1] == b[1] && a[2] == b[2] && a[3] == b[3]
    }
    fn is_zero(a: &Abs) -> bool {
        !a.nan && m_eq(&a.m, &[0, 0, 0, 0])
    }
    /// value / 2^base, if base <= exponent and the quotient is < 2^256
    fn val_rel(a: &Abs, base: u64) -> Option<W> {
        if a.nan || a.e < base {
            return None;
        }
        w_shl(w_limbs(a.m), a.e - base)
    }
    /// canonical-form equality of two wf values (NaN == NaN, as the derived `Eq` demands)
    fn abs_eq(a: &Abs, b: &Abs) -> bool {
        if a.nan || b.nan { a.nan && b.nan } else { m_eq(&a.m, &b.m) && a.e == b.e }
    }

    // ------------------------------------------------------------------ symbolic wf values of concrete raw length
    fn any_nat<const L: usize>() -> Natural {
        let n = if L == 1 {
            Natural { ptr: DANGLING, len: kani::any(), shl: kani::any() }
        } else {
            let d: [u64; L] = kani::any();
            let b: Box<[u64]> = Box::new(d);
            let ptr = NonNull::new(Box::into_raw(b).cast::<u64>()).unwrap();
            Natural { ptr, len: L as u64, shl: kani::any() }
        };
        let ok = wf(&n);
        kani::cover!(ok);
        kani::assume(ok);
        n
    }
    fn any_num<const L: usize>() -> Natural {
        let n = any_nat::<L>();
        let ok = n.shl != u64::MAX;
        kani::cover!(ok);
        kani::assume(ok);
        n
    }

    // ================================================================== constants, From
    #[kani::proof]
    fn consts_zero_nan() {
        let z = Natural::ZERO;
        assert!(wf(&z) && is_zero(&abs(&z)) && !z.is_nan());
        let n = Natural::NAN;
        assert!(wf(&n) && n.is_nan());
        assert!(z.bit_width() == 0);
        assert!(z.mantissa().len() == 1 && z.mantissa()[0] == 0 && z.exp() == 0);
    }
    #[kani::proof]
    fn from_u128_exact() {
        let x: u128 = kani::any();
        let r = Natural::from(x);
        assert!(wf(&r) && !r.is_nan());
        assert!(val_rel(&abs(&r), 0) == Some(W(0, x)));
        kani::cover!(r.ptr != DANGLING);
        kani::cover!(r.ptr == DANGLING && r.shl == 127);
    }
    #[kani::proof]
    fn from_u64_u32_u16_u8_exact() {
        let x: u64 = kani::any();
        let r = Natural::from(x);
        assert!(wf(&r) && !r.is_nan() && r.ptr == DANGLING);
        assert!(val_rel(&abs(&r), 0) == Some(W(0, x as u128)));
        let y: u32 = kani::any();
        let r = Natural::from(y);
        assert!(wf(&r) && !r.is_nan() && val_rel(&abs(&r), 0) == Some(W(0, y as u128)));
        let y: u16 = kani::any();
        let r = Natural::from(y);
        assert!(wf(&r) && !r.is_nan() && val_rel(&abs(&r), 0) == Some(W(0, y as u128)));
        let y: u8 = kani::any();
        let r = Natural::from(y);
        assert!(wf(&r) && !r.is_nan() && val_rel(&abs(&r), 0) == Some(W(0, y as u128)));
    }

    // ================================================================== from_le_digits (slice lengths 0..=3)
    fn check_from_le_digits<const L: usize>() {
        let d: [u64; L] = kani::any();
        let r = Natural::from_le_digits(&d);
        assert!(wf(&r) && !r.is_nan());
        let mut m = [0u64; 4];
        let mut i = 0;
        while i < L {
            m[i] = d[i];
            i += 1;
        }
        assert!(val_rel(&abs(&r), 0) == Some(w_limbs(m)));
        if L >= 2 {
            kani::cover!(r.ptr != DANGLING); // heap result
        }
        if L >= 3 {
            kani::cover!(r.ptr != DANGLING && r.shl >= 64); // a zero low digit became exponent
        }
        kani::cover!(r.ptr == DANGLING);
    }
    #[kani::proof]
    #[kani::unwind(6)]
    #[kani::stub(std::vec::Vec::with_capacity, with_capacity_split)]
    fn from_le_digits_0() {
        check_from_le_digits::<0>()
    }
    #[kani::proof]
    #[kani::unwind(6)]
    #[kani::stub(std::vec::Vec::with_capacity, with_capacity_split)]
    fn from_le_digits_1() {
        check_from_le_digits::<1>()
    }
    #[kani::proof]
    #[kani::unwind(6)]
    #[kani::stub(std::vec::Vec::with_capacity, with_capacity_split)]
    fn from_le_digits_2() {
        check_from_le_digits::<2>()
    }
    #[kani::proof]
    #[kani::unwind(6)]
    #[kani::stub(std::vec::Vec::with_capacity, with_capacity_split)]
    fn from_le_digits_3() {
        check_from_le_digits::<3>()
    }

    // ================================================================== accessors: mantissa, exp, is_nan, bit_width
    fn check_accessors<const L: usize>() {
        let a = any_nat::<L>();
        let aa = abs(&a);
        assert!(a.is_nan() == aa.nan);
        assert!(a.exp() == aa.e);
        let m = a.mantissa();
        // minimal length, at least one element, same digits
        let want = if aa.m[3] != 0 { 4 } else if aa.m[2] != 0 { 3 } else if aa.m[1] != 0 { 2 } else { 1 };
        assert!(m.len() == want);
        assert!(m[0] == aa.m[0]);
        if want >= 2 {
            assert!(m[1] == aa.m[1]);
        }
        if want >= 3 {
            assert!(m[2] == aa.m[2]);
        }
        if !aa.nan {
            // bit_width = 1 + floor(log2 value), 0 for 0; exact for every exponent
            let bw = a.bit_width();
            let mb = w_bits(w_limbs(aa.m));
            if is_zero(&aa) {
                assert!(bw == 0);
            } else {
                assert!(bw == mb as u128 + aa.e as u128);
                // defining property on the mantissa: 2^(mb-1) <= mantissa < 2^mb
                assert!(w_shr(w_limbs(aa.m), mb - 1) == W(0, 1));
            }
        }
    }
    #[kani::proof]
    fn accessors_1() {
        check_accessors::<1>()
    }
    #[kani::proof]
    fn accessors_2() {
        check_accessors::<2>()
    }
    #[kani::proof]
    fn accessors_3() {
        check_accessors::<3>()
    }

    // ================================================================== clone / clone_from
    fn check_clone<const L: usize>() {
        let a = any_nat::<L>();
        let before = abs(&a);
        let c = a.clone();
        assert!(wf(&c));
        assert!(abs(&c) == before && abs(&a) == before);
        assert!(c.len == a.len);
        if L > 1 {
            assert!(c.ptr != a.ptr && c.ptr != DANGLING); // own allocation
        }
        // both are dropped here: Kani checks the two deallocations
    }
    #[kani::proof]
    #[kani::unwind(34)]
    fn clone_1() {
        check_clone::<1>()
    }
    #[kani::proof]
    #[kani::unwind(34)]
    fn clone_2() {
        check_clone::<2>()
    }
    #[kani::proof]
    #[kani::unwind(34)]
    fn clone_3() {
        check_clone::<3>()
    }

    /// `dst.clone_from(&src)`: dst becomes a wf value equal to src with its own storage, src unchanged,
    /// both can be dropped afterwards.
    fn check_clone_from<const LD: usize, const LS: usize>() {
        let dst = any_nat::<LD>();
        let src = any_nat::<LS>();
        clone_from_contract(dst, src);
    }
    fn clone_from_contract(mut dst: Natural, src: Natural) {
        let want = abs(&src);
        dst.clone_from(&src);
        assert!(dst.len == src.len);
        assert!((dst.ptr == DANGLING) == (src.ptr == DANGLING));
        assert!(wf(&dst));
        assert!(abs(&dst) == want && abs(&src) == want);
        if src.ptr != DANGLING {
            assert!(dst.ptr != src.ptr);
        }
    }
    /// same contract, destination inline with mantissa 1 (bounded variant of clone_from_1_2: with an
    /// arbitrary destination mantissa the defective length makes Kani hit an unsupported construct)
    #[kani::proof]
    #[kani::unwind(34)]
    fn clone_from_1_2_dst_one() {
        let dst = Natural::from(1u32);
        let src = any_nat::<2>();
        clone_from_contract(dst, src);
    }
    macro_rules! clone_from_h {
        ($($name:ident: $ld:literal, $ls:literal;)*) => {$(
            #[kani::proof]
            #[kani::unwind(34)]
            fn $name() { check_clone_from::<$ld, $ls>() }
        )*};
    }
    clone_from_h! {
        clone_from_1_1: 1, 1; clone_from_1_2: 1, 2; clone_from_1_3: 1, 3;
        clone_from_2_1: 2, 1; clone_from_2_2: 2, 2; clone_from_2_3: 2, 3;
        clone_from_3_1: 3, 1; clone_from_3_2: 3, 2; clone_from_3_3: 3, 3;
    }

    // ================================================================== PartialEq
    /// any exponents (full u64 range), NaN included:  a == b  <=>  both NaN, or both numbers with the same
    /// canonical form; on the region where both values fit 256 bits relative to the smaller exponent the
    /// canonical-form equality is cross-checked against equality of the 256-bit values.
    fn check_eq<const LA: usize, const LB: usize>() {
        let a = any_nat::<LA>();
        let b = any_nat::<LB>();
        let (aa, ab) = (abs(&a), abs(&b));
        let r = a == b;
        assert!(r == (b == a));
        assert!(r == abs_eq(&aa, &ab));
        assert!(a == a);
        if !aa.nan && !ab.nan {
            let base = if aa.e < ab.e { aa.e } else { ab.e };
            if let (Some(va), Some(vb)) = (val_rel(&aa, base), val_rel(&ab, base)) {
                assert!(r == (va == vb));
            }
            if LA == LB || (LA >= 2 && LB >= 2) {
                kani::cover!(r); // raw lengths 2 and 3 can denote the same number (zero top digit)
            }
            kani::cover!(!r && aa.e == ab.e);
        }
    }
    macro_rules! eq_h {
        ($($name:ident: $la:literal, $lb:literal;)*) => {$(
            #[kani::proof]
            #[kani::unwind(34)]
            fn $name() { check_eq::<$la, $lb>() }
        )*};
    }
    eq_h! { eq_1_1: 1, 1; eq_1_2: 1, 2; eq_1_3: 1, 3; eq_2_2: 2, 2; eq_2_3: 2, 3; eq_3_3: 3, 3; }

    // ================================================================== PartialOrd
    /// numbers whose values relative to the smaller exponent fit into 256 bits (exponents themselves
    /// arbitrary): partial_cmp is the mathematical order; NaN operands give None.
    fn check_cmp<const LA: usize, const LB: usize>() {
        let a = any_nat::<LA>();
        let b = any_nat::<LB>();
        let (aa, ab) = (abs(&a), abs(&b));
        if aa.nan || ab.nan {
            assert!(a.partial_cmp(&b).is_none() && b.partial_cmp(&a).is_none());
            return;
        }
        let base = if aa.e < ab.e { aa.e } else { ab.e };
        let (va, vb) = (val_rel(&aa, base), val_rel(&ab, base));
        // 0 <=> 0 is checked on its own in `cmp_zero_zero` (it fails on the real code, debug builds)
        let ok = va.is_some() && vb.is_some() && !(is_zero(&aa) && is_zero(&ab));
        if LA == 1 {
            kani::cover!(ok && is_zero(&aa));
        }
        if LB == 1 {
            kani::cover!(ok && is_zero(&ab));
        }
        kani::cover!(ok && aa.e as u128 > ab.e as u128 + 40);
        kani::cover!(ok && (aa.e as u128) + 40 < ab.e as u128);
        kani::cover!(ok && aa.e == ab.e);
        kani::assume(ok);
        let want = va.unwrap().cmp(&vb.unwrap());
        if LA == LB || (LA >= 2 && LB >= 2) {
            kani::cover!(want == Ordering::Equal);
        }
        kani::cover!(want == Ordering::Less && aa.e > ab.e);
        if !(LA == 1 && LB >= 2) {
            // (an inline value with the smaller exponent can never exceed a heap value: < 2^64 vs > 2^64)
            kani::cover!(want == Ordering::Greater && aa.e < ab.e);
        }
        assert!(a.partial_cmp(&b) == Some(want));
        assert!(b.partial_cmp(&a) == Some(want.reverse()));
        assert!((want == Ordering::Equal) == (a == b));
    }
    /// far-apart exponents (difference >= 192, any magnitude): the larger exponent wins, because every
    /// non-zero mantissa here is in [1, 2^192)
    fn check_cmp_far<const LA: usize, const LB: usize>() {
        let a = any_num::<LA>();
        let b = any_num::<LB>();
        let (aa, ab) = (abs(&a), abs(&b));
        let ok = !is_zero(&aa) && aa.e >= 192 && aa.e - 192 >= ab.e;
        if LB == 1 {
            kani::cover!(ok && is_zero(&ab));
        }
        kani::cover!(ok && !is_zero(&ab) && aa.e == u64::MAX - 1);
        kani::assume(ok);
        assert!(a.partial_cmp(&b) == Some(Ordering::Greater));
        assert!(b.partial_cmp(&a) == Some(Ordering::Less));
        assert!(a != b);
    }
    /// 0 <=> 0 is Equal (and must not panic)
    #[kani::proof]
    #[kani::unwind(34)]
    fn cmp_zero_zero() {
        let (a, b) = (Natural::ZERO, Natural::from(0u32));
        assert!(a.partial_cmp(&b) == Some(Ordering::Equal));
        assert!(a <= b && a >= b && !(a < b));
    }
    /// (check_cmp asserts both `a <=> b` and `b <=> a`, so only shape pairs LA <= LB are instantiated; the
    /// far-apart harness is asymmetric and gets the three mirrored shape pairs separately below)
    macro_rules! cmp_h {
        ($($name:ident, $far:ident: $la:literal, $lb:literal;)*) => {$(
            #[kani::proof]
            #[kani::unwind(34)]
            fn $name() { check_cmp::<$la, $lb>() }
            #[kani::proof]
            #[kani::unwind(34)]
            fn $far() { check_cmp_far::<$la, $lb>() }
        )*};
    }
    cmp_h! {
        cmp_1_1, cmp_far_1_1: 1, 1; cmp_1_2, cmp_far_1_2: 1, 2; cmp_1_3, cmp_far_1_3: 1, 3;
    }

    // ---- coordinator addendum: heap x heap ordering with CONCRETE exponents (symbolic digits).  The generic
    // check_cmp::<2, 2> (symbolic exponents) does not finish; fixing the exponents removes the shift-amount case split.
    fn any_nat_e<const L: usize>(e: u64) -> Natural {
        let n = if L == 1 {
            Natural { ptr: DANGLING, len: kani::any(), shl: e }
        } else {
            let d: [u64; L] = kani::any();
            let b: Box<[u64]> = Box::new(d);
            let ptr = NonNull::new(Box::into_raw(b).cast::<u64>()).unwrap();
            Natural { ptr, len: L as u64, shl: e }
        };
        let ok = wf(&n);
        kani::cover!(ok);
        kani::assume(ok);
        n
    }
    fn check_cmp_conc<const LA: usize, const LB: usize>(ea: u64, eb: u64) {
        let a = any_nat_e::<LA>(ea);
        let b = any_nat_e::<LB>(eb);
        let (aa, ab) = (abs(&a), abs(&b));
        let base = if aa.e < ab.e { aa.e } else { ab.e };
        let (va, vb) = (val_rel(&aa, base), val_rel(&ab, base));
        let ok = va.is_some() && vb.is_some() && !(is_zero(&aa) && is_zero(&ab));
        kani::cover!(ok);
        kani::assume(ok);
        let want = va.unwrap().cmp(&vb.unwrap());
        kani::cover!(want == Ordering::Less);
        kani::cover!(want == Ordering::Greater);
        assert!(a.partial_cmp(&b) == Some(want));
        assert!(b.partial_cmp(&a) == Some(want.reverse()));
        assert!((want == Ordering::Equal) == (a == b));
    }
    macro_rules! cmp_conc_h {
        ($($name:ident: $la:literal, $lb:literal, $ea:expr, $eb:expr;)*) => {$(
            #[kani::proof]
            #[kani::unwind(34)]
            fn $name() { check_cmp_conc::<$la, $lb>($ea, $eb) }
        )*};
    }
    cmp_conc_h! {
        cmp_conc_2_2_e0_e0: 2, 2, 0, 0;
        cmp_conc_2_2_e1_e0: 2, 2, 1, 0;
        cmp_conc_2_3_e1_e0: 2, 3, 1, 0;
        cmp_conc_3_2_e0_e3: 3, 2, 0, 3;
        cmp_conc_3_3_e0_e0: 3, 3, 0, 0;
        cmp_conc_2_3_e64_e0: 2, 3, 64, 0;
    }

    // heap x heap shapes: only the far-apart harness is decidable in reasonable time (check_cmp::<2, 2> ran
    // > 16 min CPU without finishing; see REPORT.md)
    #[kani::proof]
    #[kani::unwind(34)]
    fn cmp_far_2_2() {
        check_cmp_far::<2, 2>()
    }
    #[kani::proof]
    #[kani::unwind(34)]
    fn cmp_far_2_3() {
        check_cmp_far::<2, 3>()
    }
    #[kani::proof]
    #[kani::unwind(34)]
    fn cmp_far_3_3() {
        check_cmp_far::<3, 3>()
    }
    #[kani::proof]
    #[kani::unwind(34)]
    fn cmp_far_2_1() {
        check_cmp_far::<2, 1>()
    }
    #[kani::proof]
    #[kani::unwind(34)]
    fn cmp_far_3_1() {
        check_cmp_far::<3, 1>()
    }
    #[kani::proof]
    #[kani::unwind(34)]
    fn cmp_far_3_2() {
        check_cmp_far::<3, 2>()
    }

    // ================================================================== Shl / Shr (any exponent, any shift amount)
    fn check_shl<const L: usize>() {
        let a = any_nat::<L>();
        let aa = abs(&a);
        let k: u64 = kani::any();
        let use32: bool = kani::any();
        let k = if use32 { k as u32 as u64 } else { k };
        let r = if use32 { a << (k as u32) } else { a << k };
        let ar = abs(&r);
        assert!(wf(&r));
        if aa.nan {
            assert!(ar.nan); // NaN propagates
        } else if is_zero(&aa) {
            assert!(is_zero(&ar)); // 0 * 2^k = 0
        } else if aa.e as u128 + k as u128 >= u64::MAX as u128 {
            assert!(ar.nan); // documented error: exponent not representable
        } else {
            assert!(!ar.nan && m_eq(&ar.m, &aa.m) && ar.e == aa.e + k); // m * 2^(e+k), exact
        }
    }
    fn check_shr<const L: usize>() {
        let a = any_nat::<L>();
        let aa = abs(&a);
        let k: u64 = kani::any();
        let use32: bool = kani::any();
        let k = if use32 { k as u32 as u64 } else { k };
        let r = if use32 { a >> (k as u32) } else { a >> k };
        let ar = abs(&r);
        assert!(wf(&r));
        if aa.nan {
            assert!(ar.nan); // NaN propagates
        } else if is_zero(&aa) {
            assert!(is_zero(&ar)); // 0 / 2^k = 0, exact
        } else if k <= aa.e {
            assert!(!ar.nan && m_eq(&ar.m, &aa.m) && ar.e == aa.e - k); // exact division, never NaN
        } else {
            assert!(ar.nan); // the (odd) mantissa would lose a 1-bit: inexact => NaN
        }
    }
    #[kani::proof]
    fn shl_1() {
        check_shl::<1>()
    }
    #[kani::proof]
    fn shl_2() {
        check_shl::<2>()
    }
    #[kani::proof]
    fn shl_3() {
        check_shl::<3>()
    }
    #[kani::proof]
    fn shr_1() {
        check_shr::<1>()
    }
    #[kani::proof]
    fn shr_2() {
        check_shr::<2>()
    }
    #[kani::proof]
    fn shr_3() {
        check_shr::<3>()
    }

    // ================================================================== TryFrom<&Natural> for u128 / u64
    fn check_try_into<const L: usize>() {
        let a = any_nat::<L>();
        let aa = abs(&a);
        // exact value if it is < 2^128
        let v128: Option<u128> = if aa.nan {
            None
        } else if is_zero(&aa) {
            Some(0)
        } else if aa.e >= 128 {
            None
        } else {
            match w_shl(w_limbs(aa.m), aa.e) {
                Some(W(0, lo)) => Some(lo),
                _ => None,
            }
        };
        if L < 3 {
            kani::cover!(v128.is_some() && aa.e > 0);
        } else {
            kani::cover!(v128.is_some()); // raw length 3 with a zero top digit, exponent 0
        }
        kani::cover!(v128.is_none() && !aa.nan);
        let r = u128::try_from(&a);
        match v128 {
            Some(v) => assert!(r == Ok(v)),
            None => assert!(r.is_err()),
        }
        let r = u64::try_from(&a);
        match v128 {
            Some(v) if v <= u64::MAX as u128 => assert!(r == Ok(v as u64)),
            _ => assert!(r.is_err()),
        }
    }
    #[kani::proof]
    fn try_into_1() {
        check_try_into::<1>()
    }
    #[kani::proof]
    fn try_into_2() {
        check_try_into::<2>()
    }
    #[kani::proof]
    fn try_into_3() {
        check_try_into::<3>()
    }

    // ================================================================== Add
    //
    // Cost note (measured): `add` with symbolic exponents, or with heap operands and symbolic digits,
    // exhausts 12 GB in CBMC's propositional reduction (the bit widths decide allocation sizes, vector
    // lengths and which of ~10 code paths run; CBMC's heap model turns that into array-theory
    // constraints).  What is decidable and therefore checked here:
    //   * add_inline_*: both operands inline (1 digit), mantissas fully symbolic, exponents CONCRETE
    //     (one harness per exponent configuration; the configurations select each top-level path);
    //   * add_nan_*: NaN propagation for inline operands, concrete exponents;
    //   * add_table_*: fully concrete operands (1..3 digits, carry chains at the digit boundaries
    //     2^64-1, 2^64, 2^128-1, 2^128, ...) — every pair of the table, executed symbolically-concrete,
    //     i.e. value + memory-safety check of these instances only.

    /// `Vec::with_capacity` replaced by a case split on the requested capacity around the same std
    /// functions (identical semantics: empty vector with exactly that capacity); on every path the
    /// allocation then has a concrete size, which CBMC handles much better
    fn with_capacity_split<T>(cap: usize) -> Vec<T> {
        let mut v = Vec::new();
        match cap {
            0 => {}
            1 => v.reserve_exact(1),
            2 => v.reserve_exact(2),
            3 => v.reserve_exact(3),
            4 => v.reserve_exact(4),
            5 => v.reserve_exact(5),
            // no symbolic-size allocation: a request beyond 5 digits is outside the harness bound and
            // makes the harness FAIL (it is not assumed away)
            _ => panic!("capacity > 5 requested: outside the harness bound"),
        }
        assert!(v.capacity() == cap);
        v
    }

    fn inline_nat(shl: u64) -> Natural {
        let n = Natural { ptr: DANGLING, len: kani::any(), shl };
        let ok = wf(&n);
        kani::cover!(ok && n.len != 0);
        kani::assume(ok);
        n
    }
    /// inline operands (any odd mantissa, or 0 where the exponent is 0), CONCRETE exponents ea, eb with
    /// |ea - eb| < 128.  Oracle in plain u128 arithmetic (cheaper than the 256-bit one):
    ///   gap < 64:  s = m_lo + (m_hi << gap) < 2^128;  result = (s >> tz(s)) * 2^(e_lo + tz(s))
    ///   gap >= 64: the operands do not overlap; digits of the result are m_lo, then m_hi << (gap-64)
    /// NaN exactly when the exponent of the exact sum is not representable (>= u64::MAX).
    fn check_add_inline(ea: u64, eb: u64) {
        let a = inline_nat(ea);
        let b = inline_nat(eb);
        let (e_lo, e_hi, m_lo, m_hi) = if ea <= eb { (ea, eb, a.len, b.len) } else { (eb, ea, b.len, a.len) };
        let gap = e_hi - e_lo;
        assert!(gap < 128);
        // expected canonical form
        let (want_nan, want_m, want_e): (bool, [u64; 4], u64) = if gap < 64 {
            let s = m_lo as u128 + ((m_hi as u128) << gap);
            if s == 0 {
                (false, [0, 0, 0, 0], 0)
            } else {
                let tz = s.trailing_zeros();
                let q = s >> tz;
                let e = e_lo as u128 + tz as u128;
                if gap == 0 && e_lo != 0 {
                    kani::cover!(tz >= 64); // the whole low digit cancels
                }
                kani::cover!(q > u64::MAX as u128); // two-digit result
                if e >= u64::MAX as u128 { (true, [0; 4], 0) } else { (false, [q as u64, (q >> 64) as u64, 0, 0], e as u64) }
            }
        } else if m_lo == 0 {
            (false, [m_hi, 0, 0, 0], if m_hi == 0 { 0 } else { e_hi })
        } else if m_hi == 0 {
            (false, [m_lo, 0, 0, 0], e_lo)
        } else {
            let up = (m_hi as u128) << (gap - 64);
            if gap > 64 {
                kani::cover!(up > u64::MAX as u128); // three-digit result
            } else {
                kani::cover!(up > 1); // gap == 64: two digits, digit aligned
            }
            (false, [m_lo, up as u64, (up >> 64) as u64, 0], e_lo)
        };
        let r = a + b;
        assert!(wf(&r));
        let ar = abs(&r);
        if want_nan {
            assert!(ar.nan);
        } else {
            assert!(!ar.nan);
            assert!(m_eq(&ar.m, &want_m));
            assert!(ar.e == want_e);
        }
    }
    macro_rules! add_inline_h {
        ($($name:ident: $ea:expr, $eb:expr, $unwind:literal;)*) => {$(
            #[kani::proof]
            #[kani::unwind($unwind)]
            #[kani::stub(std::vec::Vec::with_capacity, with_capacity_split)]
            fn $name() { check_add_inline($ea, $eb) }
        )*};
    }
    add_inline_h! {
        add_inline_e0_e3: 0, 3, 3;            // small gap
        add_inline_e3_e0: 3, 0, 4;   // (mem::swap of the 24-byte struct is a 3-iteration loop)            // same, operands swapped
        add_inline_e5_e68: 5, 68, 3;          // gap 63: overlapping digits
        add_inline_e5_e69: 5, 69, 3;          // gap 64: digit aligned, no overlap
        add_inline_e5_e70: 5, 70, 3;          // gap 65: no overlap, start_bit 1
        add_inline_emax_gap: u64::MAX - 5, u64::MAX - 2, 3;
    }

    // ---- coordinator addendum: addition with heap operands, CONCRETE exponents, symbolic digits; oracle = 256-bit sum of the
    // values relative to the smaller exponent (independent of the code under test)
    fn check_add_conc<const LA: usize, const LB: usize>(ea: u64, eb: u64) {
        let a = any_nat_e::<LA>(ea);
        let b = any_nat_e::<LB>(eb);
        let (aa, ab) = (abs(&a), abs(&b));
        let base = if ea < eb { ea } else { eb };
        let (va, vb) = (val_rel(&aa, base), val_rel(&ab, base));
        let sum = match (va, vb) { (Some(x), Some(y)) => w_add(x, y), _ => None };
        kani::cover!(sum.is_some());
        kani::assume(sum.is_some());
        let r = a + b;
        assert!(wf(&r));
        let ar = abs(&r);
        assert!(!ar.nan);
        assert!(ar.e >= base);
        assert!(val_rel(&ar, base) == sum);
    }
    macro_rules! add_conc_h {
        ($($name:ident: $la:literal, $lb:literal, $ea:expr, $eb:expr, $unwind:literal;)*) => {$(
            #[kani::proof]
            #[kani::unwind($unwind)]
            #[kani::stub(std::vec::Vec::with_capacity, with_capacity_split)]
            fn $name() { check_add_conc::<$la, $lb>($ea, $eb) }
        )*};
    }
    add_conc_h! {
        add_conc_3_1_e0_e64: 3, 1, 0, 64, 6;     // in-place path: the sum fits the buffer of the lower-exponent operand
        add_conc_3_1_e0_e70: 3, 1, 0, 70, 6;
        add_conc_3_2_e0_e64: 3, 2, 0, 64, 6;
        add_conc_2_2_e0_e0: 2, 2, 0, 0, 6;
    }

    /// NaN + x = x + NaN = NaN for inline operands: every wf inline NaN (mantissa 0 = `Natural::NAN`,
    /// or any odd mantissa) and every wf inline x with concrete exponent `eb` (u64::MAX: x is NaN too)
    fn check_add_nan_inline(eb: u64) {
        let a = inline_nat(u64::MAX);
        let b = inline_nat(eb);
        kani::cover!(a.len == 0 && b.len != 0);
        if eb == 0 {
            kani::cover!(a.len != 0 && b.len == 0); // x = 0 only exists with exponent 0
        } else {
            kani::cover!(a.len != 0 && b.len != 0);
        }
        let swap: bool = kani::any();
        let r = if swap { b + a } else { a + b };
        assert!(wf(&r));
        assert!(r.is_nan());
    }
    #[kani::proof]
    #[kani::unwind(5)]
    #[kani::stub(std::vec::Vec::with_capacity, with_capacity_split)]
    fn add_nan_inline_e0() {
        check_add_nan_inline(0)
    }
    #[kani::proof]
    #[kani::unwind(5)]
    #[kani::stub(std::vec::Vec::with_capacity, with_capacity_split)]
    fn add_nan_inline_e7() {
        check_add_nan_inline(7)
    }
    // ================================================================== vacuity self-tests (must be refuted)
    #[kani::proof]
    #[kani::unwind(3)]
    #[kani::stub(std::vec::Vec::with_capacity, with_capacity_split)]
    fn selftest_add_off_by_one() {
        let a = inline_nat(0);
        let b = inline_nat(3);
        let s = a.len as u128 + ((b.len as u128) << 3) + 1; // wrong: a + b + 1
        let r = a + b;
        let ar = abs(&r);
        let q = s >> s.trailing_zeros();
        assert!(m_eq(&ar.m, &[q as u64, (q >> 64) as u64, 0, 0]) && ar.e == s.trailing_zeros() as u64);
    }
    #[kani::proof]
    fn selftest_shr_never_nan() {
        let a = any_num::<2>();
        let k: u64 = kani::any();
        let r = a >> k;
        assert!(!r.is_nan());
    }
}
