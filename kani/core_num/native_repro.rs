// Native reproductions of the defects found by suite core_num (public API only).
// Run: copy to <repo copy>/crates/oxidd-core/tests/ and 'cargo test -p oxidd-core --test native_repro --no-fail-fast -- --test-threads=1 --nocapture' (debug and --release).
// Every test asserts the behaviour REQUIRED by property C12; on the pinned tree all of them fail (see REPORT.md for the outputs).
use oxidd_core::util::num::{Natural, Saturating};

#[test]
fn d_sat_shl_lost_bits() {
    let r = Saturating(3u64) << 63;
    println!("Saturating(3u64) << 63 = {:#x} (exact 3*2^63 is not representable; marker = {:#x})", r.0, u64::MAX);
    assert_eq!(r.0, u64::MAX);
}
#[test]
fn d_sat_shl_saturated_unsaturates() {
    let r = Saturating(u64::MAX) << 1;
    println!("Saturating(u64::MAX) << 1 = {:#x}", r.0);
    assert_eq!(r.0, u64::MAX);
}
#[test]
fn d_sat_shl_zero() {
    let r = Saturating(0u64) << 64;
    println!("Saturating(0u64) << 64 = {:#x}", r.0);
    assert_eq!(r.0, 0);
}
#[test]
fn d_sat_shr_ge_width() {
    let k = std::hint::black_box(64u32);
    let r = Saturating(1u64) >> k;
    println!("Saturating(1u64) >> 64 = {:#x}", r.0);
    assert_eq!(r.0, 0);
}
#[test]
fn d_nat_from_u128_one() {
    let n = Natural::from(1u128);
    println!("Natural::from(1u128): mantissa {:?} exp {}", n.mantissa(), n.exp());
    assert_eq!(n, Natural::from(1u64));
}
#[test]
fn d_nat_from_u128_truncates() {
    let x = (1u128 << 64) + 1;
    let n = Natural::from(x);
    println!("Natural::from(2^64+1): mantissa {:?} exp {}", n.mantissa(), n.exp());
    assert_eq!(n, Natural::from_le_digits(&[1, 1]));
}
#[test]
fn d_nat_from_u128_pow127() {
    let n = Natural::from(1u128 << 127);
    println!("Natural::from(2^127): mantissa {:?} exp {}", n.mantissa(), n.exp());
    assert_eq!(n, Natural::from(1u32) << 127u32);
}
#[test]
fn d_nat_try_into_u128_ignores_exponent() {
    let r = u128::try_from(&Natural::from(2u32));
    println!("u128::try_from(&Natural::from(2u32)) = {:?}", r);
    assert_eq!(r, Ok(2));
}
#[test]
fn d_nat_add_nan_lost() {
    let e = u64::MAX - 2;
    let nan = (Natural::from(7u32) << e) + (Natural::from(1u32) << e); // 8 * 2^(2^64-3): exponent overflow
    println!("overflowed sum is_nan = {}", nan.is_nan());
    assert!(nan.is_nan());
    let r = nan + Natural::from(5u32);
    println!("NaN + 5: is_nan = {}, mantissa {:?} exp {}", r.is_nan(), r.mantissa(), r.exp());
    assert!(r.is_nan());
}
#[test]
fn d_nat_add_debug_assert() {
    let a = Natural::from(0x4000_0000_0000_0001u64) << 70u32;
    let b = Natural::from(1u32) << 5u32;
    let r = a + b;
    println!("sum mantissa {:x?} exp {}", r.mantissa(), r.exp());
    assert_eq!(r.mantissa(), &[1u64, 0x8000_0000_0000_0002]);
    assert_eq!(r.exp(), 5);
}

#[test]
fn d_nat_cmp_zero_zero() {
    // debug builds: panics with "attempt to shift left with overflow" (bigint.rs:452)
    let c = Natural::ZERO.partial_cmp(&Natural::from(0u32));
    println!("0 <=> 0 = {:?}", c);
    assert_eq!(c, Some(std::cmp::Ordering::Equal));
}

// ---- memory-unsafe ones (Clone::clone_from)
// memory-unsafe reproductions: run one at a time
#[test]
fn d_clone_from_heap_dst_inline_src() {
    let mut a = Natural::from_le_digits(&[1, 1]); // heap, 2 digits
    let (p0, _, _) = a.clone().into_raw_parts();
    let _ = p0;
    a.clone_from(&Natural::from(3u32));
    let (ptr, len, exp) = a.into_raw_parts(); // does not free
    println!("after clone_from(inline 3): ptr null? {} len {} exp {}  (ptr must be null for an inline value; it still points to the freed digit array)", ptr.is_null(), len, exp);
    assert!(ptr.is_null());
}
#[test]
fn d_clone_from_inline_dst_heap_src() {
    let src = Natural::from_le_digits(&[1, 1]);
    let mut a = Natural::from(1u32); // inline, mantissa 1
    a.clone_from(&src);
    let (ptr, len, exp) = a.into_raw_parts();
    println!("after clone_from(2-digit): len {} exp {} ; the new allocation was made with the OLD inline mantissa (1) as its length", len, exp);
    // reading digit 1 would be out of bounds of the 1-element allocation; show only digit 0
    println!("digit0 = {}", unsafe { *ptr });
    assert_eq!(len, 2);
    // leak on purpose: freeing with len 2 is a layout mismatch
}
#[test]
fn d_clone_from_inline_dst_heap_src_eq() {
    let src = Natural::from_le_digits(&[1, 0x1234_5678_9abc_def1]);
    let mut a = Natural::from(1u32); // inline, mantissa 1
    // put recognisable garbage next to where the 8-byte allocation will go
    let junk: Vec<Box<[u64; 1]>> = (0..64).map(|_| Box::new([0xdead_beef_dead_beefu64])).collect();
    drop(junk);
    a.clone_from(&src);
    let a = std::mem::ManuallyDrop::new(a);
    println!("a.mantissa() = {:x?}   src.mantissa() = {:x?}", a.mantissa(), src.mantissa());
    assert!(*a == src);
}
