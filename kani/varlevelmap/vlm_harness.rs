// Kani harnesses for `VarLevelMap` (appended to crates/oxidd-manager-index/src/util/var_level_map.rs).
//
// Property C03 (var/level maps part): "the variable-to-level and level-to-variable maps are
// mutually inverse permutations of the variables".
//
// Structure: the invariant `inv` is established by `new()` and preserved by every public
// mutating operation from an ARBITRARY state satisfying it (one-step inductive contracts), for
// the concrete sizes n in {0,1,2,3,4,6}.  No symbolic allocation size is used: n and the
// `extend` argument are const generics.
#[cfg(kani)]
mod verif_vlm {
    use super::*;

    // ---------------------------------------------------------------- spec (written from C03)

    /// `tl`/`tv` are mutually inverse maps on 0..N
    fn mutually_inverse<const N: usize>(tl: &[u32; N], tv: &[u32; N]) -> bool {
        let mut i = 0;
        while i < N {
            if tl[i] as usize >= N || tv[i] as usize >= N {
                return false;
            }
            if tv[tl[i] as usize] as usize != i || tl[tv[i] as usize] as usize != i {
                return false;
            }
            i += 1;
        }
        true
    }

    /// `p` is a permutation of 0..N (independent formulation: in range + every value hit once)
    fn is_perm<const N: usize>(p: &[u32; N]) -> bool {
        let mut seen = [false; N];
        let mut i = 0;
        while i < N {
            if p[i] as usize >= N || seen[p[i] as usize] {
                return false;
            }
            seen[p[i] as usize] = true;
            i += 1;
        }
        true
    }

    /// Abstract view of the real structure: both vectors have length N; returns their contents
    /// (read from the private fields, not via the accessors under test)
    fn view<const N: usize>(m: &VarLevelMap) -> Option<([u32; N], [u32; N])> {
        if m.to_level.len() != N || m.to_var.len() != N {
            return None;
        }
        let mut tl = [0u32; N];
        let mut tv = [0u32; N];
        let mut i = 0;
        while i < N {
            tl[i] = m.to_level[i].load(Relaxed);
            tv[i] = m.to_var[i].load(Relaxed);
            i += 1;
        }
        Some((tl, tv))
    }

    /// The C03 invariant on the real structure for size N
    fn inv<const N: usize>(m: &VarLevelMap) -> bool {
        match view::<N>(m) {
            None => false,
            Some((tl, tv)) => mutually_inverse(&tl, &tv) && is_perm(&tl) && is_perm(&tv),
        }
    }

    /// Arbitrary state satisfying the invariant (assume + cover)
    fn any_state<const N: usize>() -> (VarLevelMap, [u32; N], [u32; N]) {
        let tl: [u32; N] = kani::any();
        let tv: [u32; N] = kani::any();
        kani::assume(mutually_inverse(&tl, &tv));
        kani::cover!(true, "assumed region (mutually inverse maps) is reachable");
        kani::cover!(N < 2 || tl[0] != 0, "assumed region contains a non-identity map (n >= 2)");
        let mut to_level = Vec::with_capacity(N);
        let mut to_var = Vec::with_capacity(N);
        let mut i = 0;
        while i < N {
            to_level.push(AtomicLevelNo::new(tl[i]));
            to_var.push(AtomicVarNo::new(tv[i]));
            i += 1;
        }
        (VarLevelMap { to_level, to_var }, tl, tv)
    }

    // ---------------------------------------------------------------- contracts

    /// base case: `new()` satisfies the invariant (n = 0)
    #[kani::proof]
    #[kani::unwind(2)]
    fn new_establishes_inv() {
        let m = VarLevelMap::new();
        assert!(inv::<0>(&m));
        assert!(m.len() == 0);
    }

    /// `new()` followed by `extend(K)`: identity map on K variables
    fn new_extend<const K: usize>() {
        let mut m = VarLevelMap::new();
        m.extend(K as VarNo);
        assert!(m.len() == K);
        assert!(inv::<K>(&m));
        let mut i = 0;
        while i < K {
            assert!(m.var_to_level(i as VarNo) == i as LevelNo);
            assert!(m.level_to_var(i as LevelNo) == i as VarNo);
            i += 1;
        }
    }

    /// read accessors: `len`, `var_to_level`, `level_to_var` return the abstract view's values,
    /// are mutually inverse, and do not change the state
    fn accessors<const N: usize>() {
        let (m, tl, tv) = any_state::<N>();
        assert!(inv::<N>(&m)); // mutual inverseness implies both are permutations
        assert!(m.len() == N);
        let v: VarNo = kani::any();
        let l: LevelNo = kani::any();
        // precondition of the accessors: existing variable / level (else: index panic).
        // Expressed as a guard (no assume); for n = 0 there is no valid argument.
        let valid = (v as usize) < N && (l as usize) < N;
        kani::cover!(N == 0 || valid, "valid accessor arguments exist (n >= 1)");
        if valid {
            assert!(m.var_to_level(v) == tl[v as usize]);
            assert!(m.level_to_var(l) == tv[l as usize]);
            assert!(m.level_to_var(m.var_to_level(v)) == v);
            assert!(m.var_to_level(m.level_to_var(l)) == l);
        }
        let (tl2, tv2) = view::<N>(&m).unwrap();
        let mut i = 0;
        while i < N {
            assert!(tl2[i] == tl[i] && tv2[i] == tv[i]);
            i += 1;
        }
    }

    /// `swap_levels(l1, l2)`: exchanges exactly the two levels' variables and nothing else,
    /// preserves the invariant
    fn swap_levels<const N: usize>() {
        let (m, tl, tv) = any_state::<N>();
        let l1: LevelNo = kani::any();
        let l2: LevelNo = kani::any();
        // precondition: both are existing levels (callers pass level numbers of level views)
        kani::assume((l1 as usize) < N && (l2 as usize) < N);
        kani::cover!(true, "valid swap arguments exist");
        kani::cover!(N < 2 || l1 != l2, "proper swap reachable (n >= 2)");
        kani::cover!(l1 == l2, "degenerate swap reachable");

        m.swap_levels(l1, l2);

        assert!(m.len() == N);
        assert!(inv::<N>(&m));
        let v1 = tv[l1 as usize];
        let v2 = tv[l2 as usize];
        // the two levels exchanged their variables (checked through the real accessors)
        assert!(m.level_to_var(l1) == v2);
        assert!(m.level_to_var(l2) == v1);
        assert!(m.var_to_level(v1) == l2);
        assert!(m.var_to_level(v2) == l1);
        // ... and nothing else changed
        let mut i = 0;
        while i < N {
            if i as u32 != l1 && i as u32 != l2 {
                assert!(m.level_to_var(i as LevelNo) == tv[i]);
            }
            if i as u32 != v1 && i as u32 != v2 {
                assert!(m.var_to_level(i as VarNo) == tl[i]);
            }
            i += 1;
        }
    }

    /// `extend(K)`: appends K identity-mapped variables at the bottom, existing entries unchanged,
    /// invariant holds for N + K.  NK = N + K (const generic arithmetic is not available).
    fn extend<const N: usize, const K: usize, const NK: usize>() {
        assert!(NK == N + K);
        let (mut m, tl, tv) = any_state::<N>();

        m.extend(K as VarNo);

        assert!(m.len() == NK);
        assert!(inv::<NK>(&m));
        let mut i = 0;
        while i < N {
            assert!(m.var_to_level(i as VarNo) == tl[i]);
            assert!(m.level_to_var(i as LevelNo) == tv[i]);
            i += 1;
        }
        while i < NK {
            assert!(m.var_to_level(i as VarNo) == i as LevelNo);
            assert!(m.level_to_var(i as LevelNo) == i as VarNo);
            i += 1;
        }
    }

    macro_rules! harness {
        ($name:ident, $unwind:expr, $body:expr) => {
            #[kani::proof]
            #[kani::unwind($unwind)]
            fn $name() {
                $body
            }
        };
    }

    harness!(new_extend_k1, 4, new_extend::<1>());
    harness!(new_extend_k4, 7, new_extend::<4>());

    harness!(accessors_n0, 2, accessors::<0>());
    harness!(accessors_n1, 3, accessors::<1>());
    harness!(accessors_n2, 4, accessors::<2>());
    harness!(accessors_n3, 5, accessors::<3>());
    harness!(accessors_n4, 6, accessors::<4>());
    harness!(accessors_n6, 8, accessors::<6>());

    harness!(swap_levels_n1, 3, swap_levels::<1>());
    harness!(swap_levels_n2, 4, swap_levels::<2>());
    harness!(swap_levels_n3, 5, swap_levels::<3>());
    harness!(swap_levels_n4, 6, swap_levels::<4>());
    harness!(swap_levels_n6, 8, swap_levels::<6>());

    harness!(extend_n0_k0, 2, extend::<0, 0, 0>());
    harness!(extend_n0_k1, 3, extend::<0, 1, 1>());
    harness!(extend_n0_k3, 5, extend::<0, 3, 3>());
    harness!(extend_n1_k0, 3, extend::<1, 0, 1>());
    harness!(extend_n1_k1, 4, extend::<1, 1, 2>());
    harness!(extend_n1_k3, 6, extend::<1, 3, 4>());
    harness!(extend_n2_k0, 4, extend::<2, 0, 2>());
    harness!(extend_n2_k1, 5, extend::<2, 1, 3>());
    harness!(extend_n2_k3, 7, extend::<2, 3, 5>());
    harness!(extend_n3_k0, 5, extend::<3, 0, 3>());
    harness!(extend_n3_k1, 6, extend::<3, 1, 4>());
    harness!(extend_n3_k3, 8, extend::<3, 3, 6>());
    harness!(extend_n4_k0, 6, extend::<4, 0, 4>());
    harness!(extend_n4_k1, 7, extend::<4, 1, 5>());
    harness!(extend_n4_k3, 9, extend::<4, 3, 7>());
    harness!(extend_n6_k0, 8, extend::<6, 0, 6>());
    harness!(extend_n6_k1, 9, extend::<6, 1, 7>());
    harness!(extend_n6_k3, 11, extend::<6, 3, 9>());

    // ---------------------------------------------------------------- self tests (MUST fail)

    /// wrong postcondition: a proper swap leaves level l1's variable unchanged
    #[kani::proof]
    #[kani::unwind(5)]
    fn selftest_swap_is_noop_must_fail() {
        let (m, _tl, tv) = any_state::<3>();
        let l1: LevelNo = kani::any();
        let l2: LevelNo = kani::any();
        kani::assume((l1 as usize) < 3 && (l2 as usize) < 3 && l1 != l2);
        kani::cover!(true, "proper swap arguments exist");
        m.swap_levels(l1, l2);
        assert!(m.level_to_var(l1) == tv[l1 as usize]); // SELFTEST: must be refuted
    }

    /// wrong postcondition: the first variable added by extend is mapped to level 0
    #[kani::proof]
    #[kani::unwind(6)]
    fn selftest_extend_maps_to_top_must_fail() {
        let (mut m, _tl, _tv) = any_state::<2>();
        m.extend(2);
        assert!(m.var_to_level(2) == 0); // SELFTEST: must be refuted
    }
}
