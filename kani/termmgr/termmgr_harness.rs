// ---- appended by /verif (engine K, suite termmgr): DynamicTerminalManager (MTBDD terminal store) ----
//
// Specification source: the property clauses, not the code:
//  (1) hash-consing: get_edge(v) twice returns the same node id; different values never share an id;
//      get_terminal(id) is the stored value
//  (2) exact counts: get_edge +1, retain +1, release -1 (an edge handed out by iter() is a reference, too)
//  (3) gc() frees exactly the count-zero slots, returns their number, len() drops by it, survivors keep
//      id and value, freed values are gone from the index, and every freed slot is reusable
//  (4) full store: get_edge(new) = Err(OutOfMemory), nothing changes; get_edge(existing) still succeeds
//  (5) iter()/len() report exactly the live terminals
//
// Method: an independent model (`Model`: three small arrays indexed by id) is advanced next to the real
// manager and compared after EVERY step (`check`).  The model never looks at `next_free`, the free list
// or the unique table; the only representation fact it uses is the mapping
//      external count of a live terminal = rc field - 1      (the index owns one reference)
// which is corroborated black-box by gc(): a terminal is collected iff its model count is 0.
//
// LISTED in suite.json (family B, symbolic hash, reserve_rehash contract stub): sym2_hashcons_two_values,
// sym2_counts_exact, sym1_full_oom_unchanged (quick); sym1_gc_then_reuse, sym2_iter_reports_live,
// sym3_hashcons_counts (thorough); selftest_* (must be refuted).
// NOT listed (kept for a larger budget): real_rehash3_*, lifecycle2_realhash (family A: unmodified table code incl.
// the shrinking rehash inside gc(); symbolic execution of reserve_rehash did not finish in 600 s), lifecycle5_*
// and sym3_full_oom_unchanged (600 s timeout), sym2_gc_all_then_refill (CBMC out of memory under the 12 GB cap after 186 s),
// sym3_iter_reports_live, sym5_gc_one_survivors_keep (not measured).
#[cfg(kani)]
mod verif_termmgr {
    use super::*;
    use crate::node::fixed_arity::NodeWithLevel;
    use std::sync::atomic::Ordering::SeqCst;

    type N = NodeWithLevel<'static, (), 2>;
    type TM<const CAP: usize> = DynamicTerminalManager<'static, u8, N, (), CAP>;
    type E = Edge<'static, N, ()>;

    // ------------------------------------------------------------------------------------------
    // adversarial hash: `hash(v) = SYM_H[v]`, one symbolic u64 per u8 value, fixed per harness run
    // (deterministic per value, arbitrary collisions in home slot and in the 31-bit tag)
    // ------------------------------------------------------------------------------------------
    static mut SYM_H: [u64; 256] = [0; 256];
    /// 255: use the symbolic table SYM_H (family B); otherwise one of the concrete hash functions of family A
    /// (computed arithmetically: CBMC does not constant-propagate through a 256-entry array)
    static mut LAYOUT: u8 = 255;
    fn hash_of(v: u8) -> u64 {
        let k = unsafe { LAYOUT };
        let w = v as u64;
        match k {
            // total collision: one home slot (15, chain wraps around to 0, 1, ..), one tag for all values
            0 => 0x0000_0001_2345_678F,
            // one home slot (15), pairwise different tags
            1 => (w << 4) | 15,
            // pairwise different home slots (for values < 16)
            2 => w * 0x11,
            // values 2k and 2k+1 share home slot and tag (the hashes differ in ignored high bits only)
            3 => ((w / 2) * 7 + 14) | (w << 32),
            _ => unsafe { SYM_H[v as usize] },
        }
    }
    struct SymHasher(u8);
    impl Hasher for SymHasher {
        fn write(&mut self, bytes: &[u8]) {
            if !bytes.is_empty() {
                self.0 = bytes[0];
            }
        }
        fn write_u8(&mut self, i: u8) {
            self.0 = i;
        }
        fn finish(&self) -> u64 {
            hash_of(self.0)
        }
    }
    /// replacement for the private `hash` (same signature), installed with `#[kani::stub]`
    fn sym_hash<T: Hash>(terminal: &T) -> u64 {
        let mut h = SymHasher(0);
        terminal.hash(&mut h);
        h.finish()
    }
    fn any_hash_function() {
        let h: [u64; 256] = kani::any();
        unsafe { SYM_H = h };
        unsafe { LAYOUT = 255 };
    }


    // The contended slow paths of parking_lot (thread parking: thread-locals, futex, Instant) make
    // kani-compiler 0.68 crash (internal compiler error in kani-compiler/src/intrinsics.rs:243).
    // They are replaced by stubs that PANIC: "the state lock is never contended in a single-threaded
    // run" is therefore CHECKED by every harness (a reachable stub would refute it), not assumed.
    fn stub_lock_slow(_m: &parking_lot::RawMutex, _timeout: Option<std::time::Instant>) -> bool {
        panic!()
    }
    fn stub_unlock_slow(_m: &parking_lot::RawMutex, _force_fair: bool) {
        panic!()
    }

    // ------------------------------------------------------------------------------------------
    // the model
    // ------------------------------------------------------------------------------------------
    #[derive(Clone, Copy)]
    struct Model<const CAP: usize> {
        live: [bool; CAP],
        val: [u8; CAP],
        /// number of references handed out and not yet released
        cnt: [u32; CAP],
    }
    impl<const CAP: usize> Model<CAP> {
        fn new() -> Self {
            Model { live: [false; CAP], val: [0; CAP], cnt: [0; CAP] }
        }
        fn n_live(&self) -> usize {
            let mut n = 0;
            let mut i = 0;
            while i < CAP {
                if self.live[i] {
                    n += 1;
                }
                i += 1;
            }
            n
        }
        fn find(&self, v: u8) -> Option<usize> {
            let mut r = None;
            let mut i = 0;
            while i < CAP {
                if self.live[i] && self.val[i] == v {
                    r = Some(i);
                }
                i += 1;
            }
            r
        }
        /// clause (1): two different values never share an id / a value never has two ids
        fn values_distinct(&self) -> bool {
            let mut ok = true;
            let mut i = 0;
            while i < CAP {
                let mut j = 0;
                while j < i {
                    if self.live[i] && self.live[j] && self.val[i] == self.val[j] {
                        ok = false;
                    }
                    j += 1;
                }
                i += 1;
            }
            ok
        }
    }

    fn id_of(e: E) -> usize {
        let id = <E as oxidd_core::Edge>::node_id(&e);
        assert!(e.raw() as usize == id); // terminal edges are untagged
        std::mem::forget(e); // `Edge` must not be dropped
        id
    }
    /// representation mapping for clause (2): the rc field of a live slot
    fn rc_of<const CAP: usize>(tm: &TM<CAP>, id: usize) -> u32 {
        unsafe { &(*tm.store[id].get()).node }.rc.load(SeqCst)
    }

    /// compare the real manager with the model (public API + rc field)
    fn check<const CAP: usize>(tm: &TM<CAP>, m: &Model<CAP>) {
        assert!(tm.len() == m.n_live()); // (5) len() == number of live terminals
        assert!(tm.is_empty() == (m.n_live() == 0));
        assert!(m.values_distinct()); // (1)
        let mut i = 0;
        while i < CAP {
            if m.live[i] {
                assert!(*unsafe { tm.get_terminal(i) } == m.val[i]); // (1) get_terminal(id) == stored value
                assert!(rc_of(tm, i) == m.cnt[i] + 1); // (2) counts are exact
            }
            i += 1;
        }
    }

    /// one `get_edge(v)`; the expected outcome is computed from the model BEFORE the call
    fn step_get<const CAP: usize>(tm: &TM<CAP>, m: &mut Model<CAP>, v: u8) -> Option<usize> {
        let known = m.find(v);
        let full = m.n_live() == CAP;
        let res = match tm.get_edge(v) {
            Ok(e) => {
                let id = id_of(e);
                assert!(id < CAP);
                match known {
                    Some(k) => {
                        assert!(id == k); // (1) same value -> same id
                        m.cnt[k] += 1; // (2)
                    }
                    None => {
                        assert!(!full); // (4) no free slot -> must not succeed
                        assert!(!m.live[id]); // (1)/(3) a new value gets an id not used by a live terminal
                        m.live[id] = true;
                        m.val[id] = v;
                        m.cnt[id] = 1; // (2)
                    }
                }
                Some(id)
            }
            Err(OutOfMemory) => {
                assert!(known.is_none()); // (4) an existing value still succeeds
                assert!(full); // OutOfMemory only when no slot is free
                None // (4) model unchanged; `check` below compares everything
            }
        };
        check(tm, m);
        res
    }
    fn step_retain<const CAP: usize>(tm: &TM<CAP>, m: &mut Model<CAP>, id: usize) {
        assert!(m.live[id]);
        unsafe { tm.retain(id) };
        m.cnt[id] += 1;
        check(tm, m);
    }
    /// caller contract: the caller owns a reference (model count >= 1)
    fn step_release<const CAP: usize>(tm: &TM<CAP>, m: &mut Model<CAP>, id: usize) {
        assert!(m.live[id] && m.cnt[id] >= 1);
        unsafe { tm.release(id) };
        m.cnt[id] -= 1;
        check(tm, m);
    }
    fn step_gc<const CAP: usize>(tm: &TM<CAP>, m: &mut Model<CAP>) -> u32 {
        let before = tm.len();
        let mut expect = 0u32;
        let mut i = 0;
        while i < CAP {
            if m.live[i] && m.cnt[i] == 0 {
                expect += 1;
                m.live[i] = false;
            }
            i += 1;
        }
        let got = tm.gc();
        assert!(got == expect); // (3) returns the number of count-zero slots
        assert!(tm.len() + got as usize == before); // (3) len() drops by that number
        check(tm, m); // (3) survivors keep id, value and count
        got
    }
    /// (5) iter() yields every live terminal exactly once and nothing else; every yielded edge is a new
    /// reference (2)
    fn step_iter<const CAP: usize>(tm: &TM<CAP>, m: &mut Model<CAP>) {
        let mut seen = [false; CAP];
        let mut n = 0usize;
        {
            let mut it = tm.iter();
            assert!(it.len() == m.n_live());
            assert!(it.size_hint() == (m.n_live(), Some(m.n_live())));
            let mut k = 0;
            while k <= CAP {
                if let Some(e) = it.next() {
                    let id = id_of(e);
                    assert!(id < CAP && m.live[id] && !seen[id]);
                    seen[id] = true;
                    m.cnt[id] += 1;
                    n += 1;
                    assert!(it.len() == m.n_live() - n);
                }
                k += 1;
            }
            // fused; (an `Option<Edge>` temporary must not be dropped: `Edge::drop` drags the whole
            // backtrace printing machinery into the model)
            match it.next() {
                None => {}
                Some(e) => {
                    std::mem::forget(e);
                    assert!(false);
                }
            }
        }
        assert!(n == m.n_live());
        check(tm, m);
    }
    /// (3) "the index no longer finds freed values", observed on the index itself
    fn index_finds<const CAP: usize>(tm: &TM<CAP>, v: u8, h: u64) -> bool {
        let st = tm.state.lock();
        st.unique_table
            .find(h, |&id| unsafe { &(*tm.store[id as usize].get()).node }.value == v)
            .is_some()
    }

    fn fresh<const CAP: usize>() -> (TM<CAP>, Model<CAP>) {
        let tm = TM::<CAP>::with_capacity(CAP as u32);
        let m = Model::<CAP>::new();
        check(&tm, &m);
        (tm, m)
    }

    // ==========================================================================================
    // harness attribute sets
    // ==========================================================================================
    /// family A: real code except `hash` (table look-up in SYM_H) and the two parking_lot slow paths
    macro_rules! harness_a {
        ($name:ident, $body:expr) => {
            #[kani::proof]
            #[kani::unwind(17)]
            #[kani::stub(parking_lot::RawMutex::lock_slow, stub_lock_slow)]
            #[kani::stub(parking_lot::RawMutex::unlock_slow, stub_unlock_slow)]
            #[kani::stub(super::hash, sym_hash)]
            fn $name() {
                $body
            }
        };
    }
    /// family B: additionally `RawTable::reserve_rehash` is replaced by `stub_rehash_without_elements`
    macro_rules! harness_b {
        ($name:ident, $body:expr) => {
            #[kani::proof]
            #[kani::unwind(17)]
            #[kani::stub(parking_lot::RawMutex::lock_slow, stub_lock_slow)]
            #[kani::stub(parking_lot::RawMutex::unlock_slow, stub_unlock_slow)]
            #[kani::stub(super::hash, sym_hash)]
            #[kani::stub(linear_hashtbl::raw::RawTable::reserve_rehash, stub_rehash_without_elements)]
            fn $name() {
                $body
            }
        };
    }
    /// Contract stub for the private `RawTable::reserve_rehash(&mut self, additional)` (family B).  With a fully
    /// symbolic hash function every table position is symbolic and CBMC has to explore a complete 16 x 17 rehash at
    /// every `reserve(1)` and at every iteration of `retain` (> 15 min per call site).  The stub covers exactly the
    /// calls WITHOUT elements (first insertion into the 0-slot table, gc() that empties the table): there the real
    /// function allocates `next_capacity(additional)` FREE slots, sets `free` to that number and moves nothing, which
    /// is what `with_capacity_in(additional)` does.  Every other call PANICS, so "no rehash with live elements is
    /// reached in this scenario" is checked, not assumed.  The rehash with live elements is exercised on the real
    /// code by the family A harnesses.
    fn stub_rehash_without_elements<T, S, A>(t: &mut RawTable<T, S, A>, additional: usize)
    where
        S: linear_hashtbl::raw::Status,
        A: Clone + allocator_api2::alloc::Allocator + Default,
    {
        assert!(t.len() == 0);
        *t = RawTable::with_capacity_in(additional, A::default());
    }

    // ==========================================================================================
    // family A: concrete hash layouts, values 0..7, the complete life cycle on the unmodified table code
    // (including the shrinking rehash inside gc()); symbolic: which terminals are released before gc()
    // ==========================================================================================
    fn set_layout(k: u8) {
        unsafe { LAYOUT = k };
    }
    fn release_all<const CAP: usize>(tm: &TM<CAP>, m: &mut Model<CAP>, id: usize) {
        while m.cnt[id] > 0 {
            step_release(tm, m, id);
        }
    }

    fn lifecycle3(layout: u8, rel: [bool; 3]) {
        set_layout(layout);
        let (tm, mut m) = fresh::<3>();
        step_iter(&tm, &mut m); // (5) empty
        let i0 = step_get(&tm, &mut m, 0).unwrap();
        let i1 = step_get(&tm, &mut m, 1).unwrap();
        assert!(step_get(&tm, &mut m, 0) == Some(i0)); // (1)
        let i2 = step_get(&tm, &mut m, 2).unwrap();
        assert!(i0 != i1 && i0 != i2 && i1 != i2); // (1)
        assert!(step_get(&tm, &mut m, 3).is_none()); // (4) full: new value refused, nothing changes
        assert!(step_get(&tm, &mut m, 1) == Some(i1)); // (4) existing value still succeeds
        step_retain(&tm, &mut m, i2); // (2)
        step_release(&tm, &mut m, i2);
        step_iter(&tm, &mut m); // (5) three live terminals
        // release every reference of an arbitrary subset
        let ids = [i0, i1, i2];
        let mut nrel = 0usize;
        let mut i = 0;
        while i < 3 {
            if rel[i] {
                release_all(&tm, &mut m, ids[i]);
                nrel += 1;
            }
            i += 1;
        }
        let freed = step_gc(&tm, &mut m); // (3)
        assert!(freed as usize == nrel && tm.len() == 3 - nrel);
        i = 0;
        while i < 3 {
            // (3) the index finds exactly the survivors
            assert!(index_finds(&tm, i as u8, hash_of(i as u8)) == !rel[i]);
            i += 1;
        }
        // (3) exactly capacity - len() further distinct values are accepted
        let room = 3 - tm.len();
        i = 0;
        while i < 3 {
            if i < room {
                assert!(step_get(&tm, &mut m, 3 + i as u8).is_some());
            }
            i += 1;
        }
        assert!(tm.len() == 3);
        assert!(step_get(&tm, &mut m, 6).is_none()); // and not one more
        step_iter(&tm, &mut m); // (5)
        // drop everything
        i = 0;
        while i < 3 {
            release_all(&tm, &mut m, i);
            i += 1;
        }
        assert!(step_gc(&tm, &mut m) == 3 && tm.len() == 0);
        step_iter(&tm, &mut m);
        assert!(step_get(&tm, &mut m, 0).is_some()); // usable again after the table shrank to 0 slots
        std::mem::forget(tm);
    }
    // real shrinking rehash inside gc() with one / two survivors (no reserve_rehash stub)
    harness_a!(real_rehash3_same_home, lifecycle3(1, [true, false, true]));
    harness_a!(real_rehash3_total_collision, lifecycle3(0, [false, true, false]));

    /// family A', capacity 5: concrete hash layout, concrete values, concrete victim `k`; `reserve_rehash` stubbed as in
    /// family B (gc() leaves four survivors: the table must not shrink; the final gc() empties it)
    fn lifecycle5(layout: u8, k: usize) {
        set_layout(layout);
        let (tm, mut m) = fresh::<5>();
        step_iter(&tm, &mut m); // (5) empty
        let mut ids = [0usize; 5];
        let mut i = 0;
        while i < 5 {
            ids[i] = step_get(&tm, &mut m, i as u8).unwrap();
            let mut j = 0;
            while j < i {
                assert!(ids[j] != ids[i]); // (1)
                j += 1;
            }
            i += 1;
        }
        assert!(step_get(&tm, &mut m, 2) == Some(ids[2])); // (1)
        assert!(step_get(&tm, &mut m, 5).is_none()); // (4) full: new value refused, nothing changes
        assert!(step_get(&tm, &mut m, 4) == Some(ids[4])); // (4) existing value still succeeds
        step_retain(&tm, &mut m, ids[0]); // (2)
        step_release(&tm, &mut m, ids[0]);
        step_iter(&tm, &mut m); // (5) five live terminals
        release_all(&tm, &mut m, ids[k]);
        assert!(step_gc(&tm, &mut m) == 1 && tm.len() == 4); // (3)
        i = 0;
        while i < 5 {
            assert!(index_finds(&tm, i as u8, hash_of(i as u8)) == (i != k)); // (3) the index finds exactly the survivors
            i += 1;
        }
        assert!(step_gc(&tm, &mut m) == 0); // nothing left to collect
        assert!(step_get(&tm, &mut m, 6) == Some(ids[k])); // (3) the freed slot is reused
        assert!(step_get(&tm, &mut m, 7).is_none()); // and there is no other
        step_iter(&tm, &mut m); // (5)
        i = 0;
        while i < 5 {
            release_all(&tm, &mut m, i);
            i += 1;
        }
        assert!(step_gc(&tm, &mut m) == 5 && tm.len() == 0); // (3)
        step_iter(&tm, &mut m);
        // (3) all five slots are reusable, each id handed out once
        i = 0;
        while i < 5 {
            assert!(step_get(&tm, &mut m, 10 + i as u8).is_some());
            i += 1;
        }
        assert!(step_get(&tm, &mut m, 9).is_none());
        std::mem::forget(tm);
    }
    harness_b!(lifecycle5_total_collision, {
        lifecycle5(0, 0);
        lifecycle5(0, 3);
    });
    harness_b!(lifecycle5_same_home, {
        lifecycle5(1, 4);
        lifecycle5(1, 1);
    });
    harness_b!(lifecycle5_distinct_homes, {
        lifecycle5(2, 2);
        lifecycle5(2, 4);
    });
    harness_b!(lifecycle5_pairs_collide, {
        lifecycle5(3, 0);
        lifecycle5(3, 1);
    });

    /// the same life cycle with the REAL hash function (FxHasher, no `hash` stub); the values 0x01, 0x11, 0x21, ..
    /// share their home slot (low nibble of v * 0x517cc1b727220a95)
    #[kani::proof]
    #[kani::unwind(17)]
    #[kani::stub(parking_lot::RawMutex::lock_slow, stub_lock_slow)]
    #[kani::stub(parking_lot::RawMutex::unlock_slow, stub_unlock_slow)]
    fn lifecycle2_realhash() {
        let (tm, mut m) = fresh::<2>();
        let ia = step_get(&tm, &mut m, 0x01).unwrap();
        let ib = step_get(&tm, &mut m, 0x11).unwrap();
        assert!(ia != ib);
        assert!(step_get(&tm, &mut m, 0x21).is_none());
        assert!(step_get(&tm, &mut m, 0x01) == Some(ia));
        let which: bool = kani::any();
        let victim = if which { ia } else { ib };
        release_all(&tm, &mut m, victim);
        assert!(step_gc(&tm, &mut m) == 1);
        assert!(step_get(&tm, &mut m, 0x31) == Some(victim)); // the only free slot
        assert!(step_get(&tm, &mut m, 0x21).is_none());
        step_iter(&tm, &mut m);
        kani::cover!(which);
        kani::cover!(!which);
        std::mem::forget(tm);
    }

    // ==========================================================================================
    // family B: fully symbolic hash function and symbolic values
    // ==========================================================================================

    // ---- quick tier: two or three operations each --------------------------------------------------------------
    // (1) a, b arbitrary: same value <=> same id; get_terminal returns the stored values; counts 1/1 or 2
    harness_b!(sym2_hashcons_two_values, {
        any_hash_function();
        let (tm, mut m) = fresh::<2>();
        let (a, b): (u8, u8) = (kani::any(), kani::any());
        let ia = step_get(&tm, &mut m, a).unwrap();
        let ib = step_get(&tm, &mut m, b).unwrap();
        assert!((ia == ib) == (a == b));
        assert!(*unsafe { tm.get_terminal(ia) } == a && *unsafe { tm.get_terminal(ib) } == b);
        kani::cover!(a == b);
        kani::cover!(a != b && hash_of(a) == hash_of(b)); // full hash collision
        kani::cover!(a != b && hash_of(a) & 15 != hash_of(b) & 15);
        std::mem::forget(tm);
    });
    // (2) one terminal: get_edge +1, retain +1, release -1, in an arbitrary order chosen by `ops`
    harness_b!(sym2_counts_exact, {
        any_hash_function();
        let (tm, mut m) = fresh::<2>();
        let a: u8 = kani::any();
        let ia = step_get(&tm, &mut m, a).unwrap();
        let ops: [bool; 4] = kani::any();
        let mut i = 0;
        while i < 4 {
            if ops[i] {
                step_retain(&tm, &mut m, ia);
            } else if m.cnt[ia] >= 1 {
                step_release(&tm, &mut m, ia);
            }
            i += 1;
        }
        kani::cover!(m.cnt[ia] == 5);
        kani::cover!(m.cnt[ia] == 0);
        // (3) black-box reading of "count zero": when the model count is 0, gc() collects the terminal
        // (with a survivor gc() shrinks the table through the real reserve_rehash: family A)
        if m.cnt[ia] == 0 {
            assert!(step_gc(&tm, &mut m) == 1 && tm.len() == 0);
        }
        std::mem::forget(tm);
    });
    // (4) capacity 1: the store is full after one insertion; a new value is refused twice and nothing changes; the
    // existing value still succeeds
    harness_b!(sym1_full_oom_unchanged, {
        any_hash_function();
        let (tm, mut m) = fresh::<1>();
        let (a, v): (u8, u8) = (kani::any(), kani::any());
        kani::assume(a != v);
        kani::cover!(hash_of(a) == hash_of(v));
        let ia = step_get(&tm, &mut m, a).unwrap();
        let snapshot = m;
        assert!(step_get(&tm, &mut m, v).is_none());
        assert!(m.live == snapshot.live && m.val == snapshot.val && m.cnt == snapshot.cnt);
        assert!(step_get(&tm, &mut m, a) == Some(ia));
        assert!(m.cnt[ia] == 2 && tm.len() == 1);
        std::mem::forget(tm);
    });
    // (3) capacity 1: insert a, drop the reference, gc() = 1, len() = 0, the index does not find a any more, the slot
    // is reusable for an arbitrary value c (also c == a: re-inserted as NEW, count 1), then the store is full again
    harness_b!(sym1_gc_then_reuse, {
        any_hash_function();
        let (tm, mut m) = fresh::<1>();
        let (a, c, d): (u8, u8, u8) = (kani::any(), kani::any(), kani::any());
        let ia = step_get(&tm, &mut m, a).unwrap();
        step_release(&tm, &mut m, ia);
        assert!(step_gc(&tm, &mut m) == 1 && tm.len() == 0);
        assert!(!index_finds(&tm, a, hash_of(a)));
        let ic = step_get(&tm, &mut m, c).unwrap();
        assert!(ic == ia && m.cnt[ic] == 1);
        assert!(step_get(&tm, &mut m, d).is_some() == (d == c));
        kani::cover!(c == a);
        kani::cover!(c != a && d != c);
        std::mem::forget(tm);
    });
    // (5) capacity 2: iter() on the empty manager and after two arbitrary insertions
    harness_b!(sym2_iter_reports_live, {
        any_hash_function();
        let (tm, mut m) = fresh::<2>();
        step_iter(&tm, &mut m);
        let (a, b): (u8, u8) = (kani::any(), kani::any());
        step_get(&tm, &mut m, a).unwrap();
        step_get(&tm, &mut m, b).unwrap();
        let n = tm.len();
        step_iter(&tm, &mut m);
        kani::cover!(n == 1);
        kani::cover!(n == 2);
        std::mem::forget(tm);
    });

    // ---- thorough tier ----------------------------------------------------------------------------------------
    // (1)(2): a, b arbitrary (equal or not): get a, get b, get a, retain/release; ids and counts follow the model
    harness_b!(sym3_hashcons_counts, {
        any_hash_function();
        let (tm, mut m) = fresh::<3>();
        let (a, b): (u8, u8) = (kani::any(), kani::any());
        let ia = step_get(&tm, &mut m, a).unwrap();
        let ib = step_get(&tm, &mut m, b).unwrap();
        assert!((ia == ib) == (a == b)); // (1) both directions
        let ia2 = step_get(&tm, &mut m, a).unwrap();
        assert!(ia2 == ia);
        step_retain(&tm, &mut m, ib);
        step_release(&tm, &mut m, ia);
        step_release(&tm, &mut m, ib);
        let ib2 = step_get(&tm, &mut m, b).unwrap();
        assert!(ib2 == ib);
        kani::cover!(a == b);
        kani::cover!(a != b && hash_of(a) == hash_of(b)); // full hash collision
        kani::cover!(a != b && hash_of(a) & 15 != hash_of(b) & 15);
        std::mem::forget(tm);
    });

    // (4) capacity 3, all slots in use: get_edge(new) = Err(OutOfMemory) and nothing changes (len, values, counts; a
    // second attempt fails again); get_edge(existing) succeeds with the old id and count + 1
    harness_b!(sym3_full_oom_unchanged, {
        any_hash_function();
        let (tm, mut m) = fresh::<3>();
        let (a, b, c, v): (u8, u8, u8, u8) = (kani::any(), kani::any(), kani::any(), kani::any());
        kani::assume(a != b && a != c && b != c);
        kani::assume(v != a && v != b && v != c);
        kani::cover!(true);
        let ia = step_get(&tm, &mut m, a).unwrap();
        let ib = step_get(&tm, &mut m, b).unwrap();
        let ic = step_get(&tm, &mut m, c).unwrap();
        assert!(ia != ib && ia != ic && ib != ic);
        assert!(tm.len() == 3);
        let snapshot = m;
        assert!(step_get(&tm, &mut m, v).is_none());
        assert!(step_get(&tm, &mut m, v).is_none());
        // model untouched by the failed calls (step_get compared the manager with it)
        assert!(m.live == snapshot.live && m.val == snapshot.val && m.cnt == snapshot.cnt);
        let w: u8 = kani::any();
        kani::assume(w == a || w == b || w == c);
        kani::cover!(w == a);
        kani::cover!(w == c);
        let iw = step_get(&tm, &mut m, w).unwrap();
        assert!(m.cnt[iw] == 2 && tm.len() == 3);
        kani::cover!(hash_of(v) == hash_of(a)); // the refused value collides with a stored one
        std::mem::forget(tm);
    });

    // (5) capacity 3: a, b, c arbitrary (may coincide): iter() on the empty and on the filled manager
    harness_b!(sym3_iter_reports_live, {
        any_hash_function();
        let (tm, mut m) = fresh::<3>();
        step_iter(&tm, &mut m);
        let (a, b, c): (u8, u8, u8) = (kani::any(), kani::any(), kani::any());
        step_get(&tm, &mut m, a).unwrap();
        step_get(&tm, &mut m, b).unwrap();
        step_get(&tm, &mut m, c).unwrap();
        let n = tm.len();
        step_iter(&tm, &mut m);
        kani::cover!(n == 1);
        kani::cover!(n == 2);
        kani::cover!(n == 3);
        std::mem::forget(tm);
    });

    // (3) capacity 2: a, b arbitrary; all references released; gc() frees everything (table shrinks to 0 slots); three
    // further arbitrary values c, d, e: every outcome (same id / fresh id / OutOfMemory) is dictated by the model
    harness_b!(sym2_gc_all_then_refill, {
        any_hash_function();
        let (tm, mut m) = fresh::<2>();
        let (a, b, c, d, e): (u8, u8, u8, u8, u8) = (kani::any(), kani::any(), kani::any(), kani::any(), kani::any());
        let ia = step_get(&tm, &mut m, a).unwrap();
        let ib = step_get(&tm, &mut m, b).unwrap();
        release_all(&tm, &mut m, ia);
        release_all(&tm, &mut m, ib);
        let freed = step_gc(&tm, &mut m);
        assert!(freed == if a == b { 1 } else { 2 });
        assert!(tm.len() == 0);
        assert!(!index_finds(&tm, a, hash_of(a)) && !index_finds(&tm, b, hash_of(b)));
        let rc = step_get(&tm, &mut m, c);
        let rd = step_get(&tm, &mut m, d);
        let re = step_get(&tm, &mut m, e);
        assert!(rc.is_some() && rd.is_some());
        if c != d {
            assert!(rc != rd);
            assert!(re.is_some() == (e == c || e == d)); // third distinct value: OutOfMemory
        }
        kani::cover!(freed == 1);
        kani::cover!(freed == 2 && c != d && re.is_none());
        kani::cover!(freed == 2 && c == a && m.cnt[rc.unwrap()] == 1); // freed value re-inserted as NEW (count 1)
        std::mem::forget(tm);
    });

    // (3) capacity 5 (four survivors: the table does not shrink): five distinct values, ONE arbitrary terminal fully
    // released; gc() frees exactly it; survivors keep id/value/count; the index no longer finds it; a new value gets
    // exactly the freed id; the next new value is refused; an existing one is still found
    harness_b!(sym5_gc_one_survivors_keep, {
        any_hash_function();
        let (tm, mut m) = fresh::<5>();
        let vals: [u8; 7] = kani::any();
        let mut i = 0;
        while i < 7 {
            let mut j = 0;
            while j < i {
                kani::assume(vals[i] != vals[j]);
                j += 1;
            }
            i += 1;
        }
        kani::cover!(true);
        let mut ids = [0usize; 5];
        i = 0;
        while i < 5 {
            ids[i] = step_get(&tm, &mut m, vals[i]).unwrap();
            i += 1;
        }
        let k: usize = kani::any();
        kani::assume(k < 5);
        release_all(&tm, &mut m, ids[k]);
        assert!(step_gc(&tm, &mut m) == 1 && tm.len() == 4);
        assert!(!index_finds(&tm, vals[k], hash_of(vals[k])));
        assert!(step_get(&tm, &mut m, vals[5]) == Some(ids[k])); // the freed slot, no other
        assert!(step_get(&tm, &mut m, vals[6]).is_none());
        let w = vals[(k + 1) % 5];
        assert!(step_get(&tm, &mut m, w).is_some());
        kani::cover!(k == 0);
        kani::cover!(k == 4);
        std::mem::forget(tm);
    });

    // ==========================================================================================
    // vacuity self-tests: deliberately wrong postconditions, must be REFUTED
    // ==========================================================================================
    // wrong: "gc frees nothing"
    harness_b!(selftest_gc_frees_nothing, {
        any_hash_function();
        let tm = TM::<2>::with_capacity(2);
        let a: u8 = kani::any();
        let ia = id_of(tm.get_edge(a).unwrap());
        unsafe { tm.release(ia) };
        let freed = tm.gc();
        assert!(freed == 0);
        std::mem::forget(tm);
    });
    // wrong: "two different values share an id"
    harness_b!(selftest_distinct_values_share_id, {
        any_hash_function();
        let tm = TM::<2>::with_capacity(2);
        let (a, b): (u8, u8) = (kani::any(), kani::any());
        kani::assume(a != b);
        kani::cover!(true);
        let ia = id_of(tm.get_edge(a).unwrap());
        let ib = id_of(tm.get_edge(b).unwrap());
        assert!(ia == ib);
        std::mem::forget(tm);
    });
}
