// ---- appended by /verif (engine K, suite index_edge): packed `Edge` of the index-based manager, property C01 ----
//
// `Edge(u32)` packs `node_index | tag << (32 - TAG_BITS)`.  Handles compare equal / hash / order by the
// packed word, so "handle equality <=> same (node, tag)" needs the packing to be injective and every
// accessor to be consistent with it.  All harnesses are loop-free over every raw u32 and every tag value
// (complete proofs for the tag type they are instantiated with).
//
// Tag types: `()` (BDD, ZBDD, MTBDD, TDD managers), `Tag2` = a local copy of oxidd-rules-bdd's
// complement-edge `EdgeTag` (2 values, `#[repr(u8)]`, Countable impl copied from what
// `#[derive(Countable)]` expands to; oxidd-rules-bdd is not a dependency of this crate), and `Tag4`
// (4 values, 2 tag bits — not instantiated by OxiDD, exercises TAG_BITS > 1).
#[cfg(kani)]
mod verif_edge {
    use super::*;
    use crate::node::fixed_arity::NodeWithLevel;
    use oxidd_core::{Countable, Edge as _};
    use std::hash::{Hash, Hasher};
    use std::mem::ManuallyDrop;

    #[derive(Clone, Copy, PartialEq, Eq, Default, Debug)]
    #[repr(u8)]
    pub enum Tag2 {
        #[default]
        None,
        Complemented,
    }
    // text of the `#[derive(Countable)]` expansion (oxidd-derive/src/countable.rs)
    unsafe impl Countable for Tag2 {
        const MAX_VALUE: usize = 1;
        #[inline]
        fn as_usize(self) -> usize {
            self as usize
        }
        #[inline]
        fn from_usize(value: usize) -> Self {
            assert!(value <= Self::MAX_VALUE);
            unsafe { ::std::mem::transmute(value as u8) }
        }
    }
    #[derive(Clone, Copy, PartialEq, Eq, Default, Debug)]
    #[repr(u8)]
    pub enum Tag4 {
        #[default]
        A,
        B,
        C,
        D,
    }
    unsafe impl Countable for Tag4 {
        const MAX_VALUE: usize = 3;
        #[inline]
        fn as_usize(self) -> usize {
            self as usize
        }
        #[inline]
        fn from_usize(value: usize) -> Self {
            assert!(value <= Self::MAX_VALUE);
            unsafe { ::std::mem::transmute(value as u8) }
        }
    }

    /// records what `Hash::hash` feeds into the hasher
    #[derive(Default, PartialEq, Eq)]
    struct Rec {
        n_u32: u32,
        last_u32: u32,
        other: u64,
        n_other: u32,
    }
    impl Hasher for Rec {
        fn finish(&self) -> u64 {
            0
        }
        fn write(&mut self, bytes: &[u8]) {
            self.n_other += 1;
            self.other = self.other.wrapping_add(bytes.len() as u64);
        }
        fn write_u32(&mut self, i: u32) {
            self.n_u32 += 1;
            self.last_u32 = i;
        }
    }

    type E<ET> = Edge<'static, NodeWithLevel<'static, ET, 2>, ET>;
    fn mk<ET: Tag>(raw: u32) -> ManuallyDrop<E<ET>> {
        ManuallyDrop::new(Edge(raw, PhantomData))
    }

    /// the abstract view of an edge: (node id, tag number), computed from the documented layout
    /// `node_index | tag << (32 - TAG_BITS)` with TAG_BITS = bits needed for MAX_VALUE
    fn view(raw: u32, tag_bits: u32) -> (u32, u32) {
        if tag_bits == 0 { (raw, 0) } else { (raw & (u32::MAX >> tag_bits), raw >> (32 - tag_bits)) }
    }

    fn check_accessors<ET: Tag + kani::Arbitrary>(tag_bits: u32) {
        let raw: u32 = kani::any();
        let e = mk::<ET>(raw);
        let (id, tg) = view(raw, tag_bits);
        assert!(e.raw() == raw);
        assert!(oxidd_core::Edge::node_id(&*e) == id as usize);
        assert!(Edge::node_id(&e) == id as usize); // inherent fn
        assert!(e.tag().as_usize() == tg as usize);
        assert!(e.is_tagged() == (tg != 0));
        assert!((e.tag() == ET::default()) == (tg == ET::default().as_usize() as u32));
        if tg == 0 {
            assert!(unsafe { e.node_id_unchecked() } == raw);
        }
        // borrowed() preserves everything
        let b = e.borrowed();
        assert!(b.raw() == raw && b.tag() == e.tag() && oxidd_core::Edge::node_id(&*b) == id as usize);
        assert!(*b == *e);
    }
    fn check_with_tag<ET: Tag + kani::Arbitrary>(tag_bits: u32) {
        let raw: u32 = kani::any();
        let t: ET = kani::any();
        let e = mk::<ET>(raw);
        let (id, _) = view(raw, tag_bits);
        let w = e.with_tag(t);
        assert!(w.tag() == t);
        assert!(oxidd_core::Edge::node_id(&*w) == id as usize);
        assert!(view(w.raw(), tag_bits) == (id, t.as_usize() as u32));
        // idempotent / last tag wins
        let t2: ET = kani::any();
        let w2 = w.with_tag(t2);
        assert!(w2.raw() == e.with_tag(t2).raw());
        // the receiver is unchanged
        assert!(e.raw() == raw);
        // owned variant
        let o = ManuallyDrop::new(ManuallyDrop::into_inner(mk::<ET>(raw)).with_tag_owned(t));
        assert!(o.raw() == w.raw());
        assert!(o.tag() == t && oxidd_core::Edge::node_id(&*o) == id as usize);
        // re-tagging with its own tag is the identity
        assert!(e.with_tag(e.tag()).raw() == raw);
    }
    /// valid raw words: tag field <= MAX_VALUE (always true for 1 << TAG_BITS == MAX_VALUE + 1)
    fn check_injective_eq_ord_hash<ET: Tag + kani::Arbitrary>(tag_bits: u32) {
        let (r1, r2): (u32, u32) = (kani::any(), kani::any());
        let (e1, e2) = (mk::<ET>(r1), mk::<ET>(r2));
        let same_view = oxidd_core::Edge::node_id(&*e1) == oxidd_core::Edge::node_id(&*e2) && e1.tag() == e2.tag();
        // (tag(), node_id()) determine the raw word: injective packing
        assert!(same_view == (r1 == r2));
        assert!(same_view == (view(r1, tag_bits) == view(r2, tag_bits)));
        // Eq / Ord
        assert!((*e1 == *e2) == same_view);
        assert!((*e1 != *e2) == !same_view);
        let c = (*e1).cmp(&*e2);
        assert!((c == std::cmp::Ordering::Equal) == same_view);
        assert!((*e1).partial_cmp(&*e2) == Some(c));
        assert!((*e2).cmp(&*e1) == c.reverse());
        // tag is the most significant component, node id the least significant one
        let (v1, v2) = (view(r1, tag_bits), view(r2, tag_bits));
        assert!(c == (v1.1, v1.0).cmp(&(v2.1, v2.0)));
        // Hash: exactly one u32 (the packed word) is fed to the hasher
        let (mut h1, mut h2) = (Rec::default(), Rec::default());
        (*e1).hash(&mut h1);
        (*e2).hash(&mut h2);
        assert!(h1.n_u32 == 1 && h1.n_other == 0 && h2.n_u32 == 1 && h2.n_other == 0);
        assert!((h1 == h2) == same_view);
        kani::cover!(same_view);
        if tag_bits > 0 {
            // same node, different tag: distinct handles
            kani::cover!(!same_view && oxidd_core::Edge::node_id(&*e1) == oxidd_core::Edge::node_id(&*e2));
        }
        kani::cover!(!same_view && e1.tag() == e2.tag());
    }
    fn check_order_transitive<ET: Tag + kani::Arbitrary>() {
        let (r1, r2, r3): (u32, u32, u32) = (kani::any(), kani::any(), kani::any());
        let (e1, e2, e3) = (mk::<ET>(r1), mk::<ET>(r2), mk::<ET>(r3));
        if *e1 <= *e2 && *e2 <= *e3 {
            assert!(*e1 <= *e3);
        }
        if *e1 == *e2 && *e2 == *e3 {
            assert!(*e1 == *e3);
        }
    }
    fn check_from_terminal_id<ET: Tag + kani::Arbitrary>(tag_bits: u32) {
        let id: u32 = kani::any();
        // terminal ids are < TERMINALS < 2^31 (`CHECK_TERMINALS`), so no tag bit is set
        kani::assume(id < (1 << 31) && view(id, tag_bits).1 == 0);
        kani::cover!(id == (1 << 30) - 1);
        let e = ManuallyDrop::new(unsafe { E::<ET>::from_terminal_id(id) });
        assert!(e.raw() == id && oxidd_core::Edge::node_id(&*e) == id as usize && e.tag() == ET::default() && !e.is_tagged());
    }

    macro_rules! edge_suite {
        ($m:ident, $t:ty, $bits:expr) => {
            pub mod $m {
                use super::*;
                #[kani::proof]
                fn tag_constants() {
                    assert!(E::<$t>::TAG_BITS == $bits);
                    if $bits == 0 {
                        assert!(E::<$t>::TAG_MASK == 0);
                    } else {
                        assert!(E::<$t>::TAG_SHIFT == 32 - $bits);
                        assert!(E::<$t>::TAG_MASK == !(u32::MAX >> $bits));
                    }
                    assert!(std::mem::size_of::<E<$t>>() == 4);
                }
                #[kani::proof]
                fn accessors() {
                    check_accessors::<$t>($bits)
                }
                #[kani::proof]
                fn with_tag_roundtrip() {
                    check_with_tag::<$t>($bits)
                }
                #[kani::proof]
                fn injective_eq_ord_hash() {
                    check_injective_eq_ord_hash::<$t>($bits)
                }
                #[kani::proof]
                fn order_transitive() {
                    check_order_transitive::<$t>()
                }
                #[kani::proof]
                fn from_terminal_id() {
                    check_from_terminal_id::<$t>($bits)
                }
            }
        };
    }
    impl kani::Arbitrary for Tag2 {
        fn any() -> Self {
            if kani::any() { Tag2::None } else { Tag2::Complemented }
        }
    }
    impl kani::Arbitrary for Tag4 {
        fn any() -> Self {
            match kani::any::<u8>() & 3 {
                0 => Tag4::A,
                1 => Tag4::B,
                2 => Tag4::C,
                _ => Tag4::D,
            }
        }
    }
    edge_suite!(unit, (), 0);
    edge_suite!(tag2, Tag2, 1);
    edge_suite!(tag4, Tag4, 2);

    // ---- vacuity self-tests: must be refuted
    #[kani::proof]
    fn selftest_with_tag_keeps_old_tag() {
        let raw: u32 = kani::any();
        let t: Tag2 = kani::any();
        let e = mk::<Tag2>(raw);
        assert!(e.with_tag(t).tag() == e.tag()); // wrong
    }
    #[kani::proof]
    fn selftest_eq_ignores_tag() {
        let (r1, r2): (u32, u32) = (kani::any(), kani::any());
        let (e1, e2) = (mk::<Tag2>(r1), mk::<Tag2>(r2));
        // wrong: equality would depend on the node id only
        assert!((*e1 == *e2) == (oxidd_core::Edge::node_id(&*e1) == oxidd_core::Edge::node_id(&*e2)));
    }
}
