// ---- appended by /verif (engine K, suite index_edge): reference-count helpers of `NodeWithLevel`, evidence for C01 ----
//
// `NodeBase` contract (node/mod.rs): the counter is initialised to 2, `retain()` increments it by exactly
// one, `release()` decrements it by exactly one and returns the previous value, `load_rc()` reads it,
// nothing else modifies it.  Single-threaded reasoning only (Kani executes atomics sequentially).
#[cfg(kani)]
mod verif_rc {
    use super::*;
    use std::mem::ManuallyDrop;
    use std::sync::atomic::Ordering::SeqCst;

    type N<ET> = NodeWithLevel<'static, ET, 2>;
    fn edge<ET: Tag>(id: u32) -> manager::Edge<'static, N<ET>, ET> {
        // ids < 2^31 without tag bits; the edges are never dropped (node wrapped in ManuallyDrop)
        unsafe { manager::Edge::from_terminal_id(id) }
    }
    fn node_with_rc(rc: u32) -> ManuallyDrop<N<()>> {
        ManuallyDrop::new(NodeWithLevel {
            rc: AtomicU32::new(rc),
            level: AtomicLevelNo::new(kani::any()),
            children: UnsafeCell::new([edge(kani::any::<u32>() >> 1), edge(kani::any::<u32>() >> 1)]),
        })
    }

    #[kani::proof]
    #[kani::unwind(4)]
    fn new_initialises_rc_to_two() {
        let level: LevelNo = kani::any();
        let (c0, c1): (u32, u32) = (kani::any(), kani::any());
        let n = ManuallyDrop::new(<N<()> as InnerNode<_>>::new(level, [edge(c0), edge(c1)]));
        assert!(n.load_rc(SeqCst) == 2);
        assert!(n.check_level(|l| l == level));
        // children stored in order
        let ch = unsafe { &*n.children.get() };
        assert!(ch[0].raw() == c0 && ch[1].raw() == c1);
    }
    #[kani::proof]
    fn retain_adds_exactly_one() {
        let c: u32 = kani::any();
        // overflow guard of retain(): aborts beyond u32::MAX / 2
        kani::assume(c <= u32::MAX >> 1);
        kani::cover!(c == u32::MAX >> 1);
        kani::cover!(c == 0);
        let n = node_with_rc(c);
        let ch0 = unsafe { (&*n.children.get())[0].raw() };
        n.retain();
        assert!(n.load_rc(SeqCst) == c as usize + 1);
        assert!(unsafe { (&*n.children.get())[0].raw() } == ch0); // nothing else touched
    }
    #[kani::proof]
    fn release_subtracts_exactly_one_returns_old() {
        let c: u32 = kani::any();
        // caller owns a reference: counter >= 1
        kani::assume(c >= 1);
        kani::cover!(c == 1);
        kani::cover!(c == u32::MAX);
        let n = node_with_rc(c);
        let old = unsafe { n.release() };
        assert!(old == c as usize);
        assert!(n.load_rc(SeqCst) == c as usize - 1);
    }
    #[kani::proof]
    fn retain_release_roundtrip() {
        let c: u32 = kani::any();
        kani::assume(c >= 1 && c <= u32::MAX >> 1);
        kani::cover!(c == 2);
        let n = node_with_rc(c);
        n.retain();
        let old = unsafe { n.release() };
        assert!(old == c as usize + 1 && n.load_rc(SeqCst) == c as usize);
    }
    /// node equality / hash look at the children only (unique-table key), not at rc or level
    #[kani::proof]
    #[kani::unwind(4)]
    fn node_eq_is_children_eq() {
        let (a0, a1, b0, b1): (u32, u32, u32, u32) = (kani::any(), kani::any(), kani::any(), kani::any());
        let n1 = ManuallyDrop::new(NodeWithLevel::<'static, (), 2> {
            rc: AtomicU32::new(kani::any()),
            level: AtomicLevelNo::new(kani::any()),
            children: UnsafeCell::new([edge(a0), edge(a1)]),
        });
        let n2 = ManuallyDrop::new(NodeWithLevel::<'static, (), 2> {
            rc: AtomicU32::new(kani::any()),
            level: AtomicLevelNo::new(kani::any()),
            children: UnsafeCell::new([edge(b0), edge(b1)]),
        });
        assert!((*n1 == *n2) == (a0 == b0 && a1 == b1));
    }
}
