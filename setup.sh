#!/bin/sh
# Offline setup: nothing to build for the Verus engine; warm the Verus cache.
set -e
cd "$(dirname "$0")"
mkdir -p .work evidence replays
printf 'use vstd::prelude::*;\nverus!{ proof fn t() ensures true {} }\nfn main(){}\n' > .work/warm.rs
(cd .work && verus warm.rs >/dev/null 2>&1 || true)
rm -f .work/warm.rs
exit 0
