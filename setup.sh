#!/bin/sh
# Offline setup: nothing to build for the Verus engine; warm the Verus cache.
set -e
cd "$(dirname "$0")"
mkdir -p .work evidence replays
printf 'use vstd::prelude::*;\nverus!{ proof fn t() ensures true {} }\nfn main(){}\n' > .work/warm.rs
(cd .work && verus warm.rs >/dev/null 2>&1 || true)
rm -f .work/warm.rs
# pre-build the witness-search tool (replay helper) against the current /repo; failure is not fatal
(cd vx/witness && cp /repo/Cargo.lock . 2>/dev/null; CARGO_NET_OFFLINE=true CARGO_TARGET_DIR="$PWD/../../.build/witness" cargo build --offline -q >/dev/null 2>&1 || true)
exit 0
