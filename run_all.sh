#!/bin/bash
# Refresh every evidence file on the current tree (run before committing): ./run_all.sh [quick|thorough] [IDs...]
cd "$(dirname "$0")"
tier=${1:-quick}; shift
ids=${@:-$(python3 -c "import sys; sys.path.insert(0,'.'); from vx import registry; print(' '.join(sorted(registry.PROPS)))")}
rc=0
for p in $ids; do ./check $p --tier $tier | tail -n 3; r=${PIPESTATUS[0]}; [ $r -ne 0 ] && rc=$r; done
exit $rc
