// Contract bundle for crates/oxidd-rules-bdd/src/simple/{mod,apply_rec}.rs
// Everything between `//@fn`/`//@item` and `//@end` is replaced by text extracted
// from /repo on every run (vx/bundle.py).  Everything else is the hand-written
// contract prelude: the *assumed* manager contract over the stateless term view
// (DESIGN.md section 1) plus spec functions and lemmas.
#![feature(allocator_api)]
#![allow(unused_imports, dead_code, unused_variables, unused_mut, unused_parens, unused_braces, noop_method_call, unreachable_patterns)]
use vstd::prelude::*;
use std::borrow::Borrow;
use vstd::std_specs::cmp::{PartialEqSpec, PartialOrdSpec, OrdSpec};
use vstd::std_specs::ops::{AddSpec, ShrSpec, ShlSpec};
use vstd::std_specs::convert::FromSpec;
//@recursor file=crates/oxidd-rules-bdd/src/recursor.rs
verus! {

// ---------- abstract view ----------
pub enum Tree { Leaf(bool), Inner(u32, Box<Tree>, Box<Tree>) }
pub type Env = spec_fn(int) -> bool;

pub open spec fn top(t: Tree) -> int {
    match t { Tree::Leaf(_) => u32::MAX as int, Tree::Inner(l, _, _) => l as int }
}
pub open spec fn wf(t: Tree) -> bool decreases t {
    match t {
        Tree::Leaf(_) => true,
        Tree::Inner(l, a, b) => l < u32::MAX && (l as int) < top(*a) && (l as int) < top(*b) && *a != *b && wf(*a) && wf(*b),
    }
}
/// all levels of `t` are `< n`
pub open spec fn below(t: Tree, n: int) -> bool decreases t {
    match t {
        Tree::Leaf(_) => true,
        Tree::Inner(l, a, b) => (l as int) < n && below(*a, n) && below(*b, n),
    }
}
pub open spec fn sem(t: Tree, env: Env) -> bool decreases t {
    match t {
        Tree::Leaf(b) => b,
        Tree::Inner(l, a, b) => if env(l as int) { sem(*a, env) } else { sem(*b, env) },
    }
}
pub open spec fn mk(l: u32, a: Tree, b: Tree) -> Tree { Tree::Inner(l, Box::new(a), Box::new(b)) }
// "re-fuelling" lemmas: unfolding a recursive spec function yields calls at reduced fuel that
// neither unfold again nor match triggers; these restate one unfolding step over `mk` at full fuel.
pub broadcast proof fn lemma_sem_mk(l: u32, a: Tree, b: Tree, env: Env)
    ensures #[trigger] sem(mk(l, a, b), env) == (if env(l as int) { sem(a, env) } else { sem(b, env) }) {}
pub broadcast proof fn lemma_wf_mk(l: u32, a: Tree, b: Tree)
    ensures #[trigger] wf(mk(l, a, b)) == (l < u32::MAX && (l as int) < top(a) && (l as int) < top(b) && a != b && wf(a) && wf(b)) {}
pub broadcast proof fn lemma_below_mk(l: u32, a: Tree, b: Tree, n: int)
    ensures #[trigger] below(mk(l, a, b), n) == ((l as int) < n && below(a, n) && below(b, n)) {}
pub broadcast group leaf_lemmas { lemma_sem_mk, lemma_wf_mk, lemma_below_mk }
pub open spec fn is_inner(t: Tree) -> bool { t is Inner }
/// propositional oracle for the eight binary operators, written from the
/// property statement (operator numbers are those of `BDDOp as u8`, which is
/// re-extracted from the real enum on every run)
pub open spec fn op_sem(op: u8, a: bool, b: bool) -> bool {
    if op == BDDOp::And as u8 { a && b }
    else if op == BDDOp::Or as u8 { a || b }
    else if op == BDDOp::Nand as u8 { !(a && b) }
    else if op == BDDOp::Nor as u8 { !(a || b) }
    else if op == BDDOp::Xor as u8 { a != b }
    else if op == BDDOp::Equiv as u8 { a == b }
    else if op == BDDOp::Imp as u8 { !a || b }
    else { !a && b }
}
pub open spec fn prop_and(a: bool, b: bool) -> bool { a && b }
pub open spec fn prop_or(a: bool, b: bool) -> bool { a || b }
pub open spec fn prop_nand(a: bool, b: bool) -> bool { !(a && b) }
pub open spec fn prop_nor(a: bool, b: bool) -> bool { !(a || b) }
pub open spec fn prop_xor(a: bool, b: bool) -> bool { a != b }
pub open spec fn prop_equiv(a: bool, b: bool) -> bool { a == b }
pub open spec fn prop_imp(a: bool, b: bool) -> bool { a ==> b }
pub open spec fn prop_imp_strict(a: bool, b: bool) -> bool { !a && b }
pub open spec fn is_bin(op: u8) -> bool { BDDOp::And as u8 <= op <= BDDOp::ImpStrict as u8 }
pub open spec fn commutative(op: u8) -> bool { BDDOp::And as u8 <= op <= BDDOp::Equiv as u8 }

/// the handle `e` is a legal diagram of manager with `n` levels
pub open spec fn ok(t: Tree, n: int) -> bool { wf(t) && below(t, n) }

// ---------- quantification (C04) ----------
pub open spec fn upd(env: Env, l: int, v: bool) -> Env { |i: int| if i == l { v } else { env(i) } }
pub open spec fn is_q(q: u8) -> bool { q == BDDOp::And as u8 || q == BDDOp::Or as u8 || q == BDDOp::Xor as u8 }
/// `Q x_l1. Q x_l2. ... t` for the levels along the then-chain of `vs` (a positive cube = a variable set)
pub open spec fn qsem(q: u8, t: Tree, vs: Tree, env: Env) -> bool decreases vs {
    match vs {
        Tree::Leaf(_) => sem(t, env),
        Tree::Inner(l, a, _) => op_sem(q, qsem(q, t, *a, upd(env, l as int, true)), qsem(q, t, *a, upd(env, l as int, false))),
    }
}
/// `Q vars. (f OP g)`
pub open spec fn qsem2(q: u8, op: u8, f: Tree, g: Tree, vs: Tree, env: Env) -> bool decreases vs {
    match vs {
        Tree::Leaf(_) => op_sem(op, sem(f, env), sem(g, env)),
        Tree::Inner(l, a, _) => op_sem(q, qsem2(q, op, f, g, *a, upd(env, l as int, true)), qsem2(q, op, f, g, *a, upd(env, l as int, false))),
    }
}
/// variables above level `until` removed from the set
pub open spec fn popped(vs: Tree, until: int) -> Tree decreases vs {
    match vs {
        Tree::Leaf(_) => vs,
        Tree::Inner(l, a, _) => if (l as int) >= until { vs } else { popped(*a, until) },
    }
}
pub open spec fn quant_post(q: u8, f: Tree, vs: Tree, n: int, r: Tree) -> bool {
    ok(r, n) && top(r) >= top(f) && forall|env: Env| #[trigger] sem(r, env) == qsem(q, f, vs, env)
}
pub open spec fn apply_quant_post(q: u8, op: u8, f: Tree, g: Tree, vs: Tree, n: int, r: Tree) -> bool {
    ok(r, n) && res_top_ok2(r, f, g) && forall|env: Env| #[trigger] sem(r, env) == qsem2(q, op, f, g, vs, env)
}
pub open spec fn agree_from(e1: Env, e2: Env, m: int) -> bool { forall|i: int| i >= m ==> #[trigger] e1(i) == e2(i) }

pub proof fn lemma_sem_agree(t: Tree, e1: Env, e2: Env)
    requires wf(t), agree_from(e1, e2, top(t)),
    ensures sem(t, e1) == sem(t, e2),
    decreases t,
{
    match t {
        Tree::Leaf(_) => {}
        Tree::Inner(l, a, b) => { lemma_sem_agree(*a, e1, e2); lemma_sem_agree(*b, e1, e2); }
    }
}
pub proof fn lemma_qsem_agree(q: u8, t: Tree, vs: Tree, e1: Env, e2: Env)
    requires wf(t), agree_from(e1, e2, top(t)),
    ensures qsem(q, t, vs, e1) == qsem(q, t, vs, e2),
    decreases vs,
{
    match vs {
        Tree::Leaf(_) => { lemma_sem_agree(t, e1, e2); }
        Tree::Inner(l, a, _) => {
            lemma_qsem_agree(q, t, *a, upd(e1, l as int, true), upd(e2, l as int, true));
            lemma_qsem_agree(q, t, *a, upd(e1, l as int, false), upd(e2, l as int, false));
        }
    }
}
/// a variable above the top of `t` is irrelevant
pub broadcast proof fn lemma_qsem_upd(q: u8, t: Tree, vs: Tree, env: Env, l: int, b: bool)
    requires wf(t), l < top(t),
    ensures #[trigger] qsem(q, t, vs, upd(env, l, b)) == qsem(q, t, vs, env),
{
    lemma_qsem_agree(q, t, vs, upd(env, l, b), env);
}
pub broadcast proof fn lemma_sem_upd(t: Tree, env: Env, l: int, b: bool)
    requires wf(t), l < top(t),
    ensures #[trigger] sem(t, upd(env, l, b)) == sem(t, env),
{
    lemma_sem_agree(t, upd(env, l, b), env);
}
/// Shannon expansion commutes with quantification over lower variables
pub broadcast proof fn lemma_qsem_mk(q: u8, l: u32, a: Tree, b: Tree, vs: Tree, env: Env)
    requires wf(vs), (l as int) < top(vs),
    ensures #[trigger] qsem(q, mk(l, a, b), vs, env) == (if env(l as int) { qsem(q, a, vs, env) } else { qsem(q, b, vs, env) }),
    decreases vs,
{
    match vs {
        Tree::Leaf(_) => {}
        Tree::Inner(k, va, _) => {
            lemma_qsem_mk(q, l, a, b, *va, upd(env, k as int, true));
            lemma_qsem_mk(q, l, a, b, *va, upd(env, k as int, false));
        }
    }
}
/// one unfolding step of qsem in the variable-set argument, at full fuel
pub broadcast proof fn lemma_qsem_vs_mk(q: u8, t: Tree, l: u32, a: Tree, b: Tree, env: Env)
    ensures #[trigger] qsem(q, t, mk(l, a, b), env) == op_sem(q, qsem(q, t, a, upd(env, l as int, true)), qsem(q, t, a, upd(env, l as int, false))),
{}
pub broadcast proof fn lemma_qsem_vs_leaf(q: u8, t: Tree, b: bool, env: Env)
    ensures #[trigger] qsem(q, t, Tree::Leaf(b), env) == sem(t, env),
{}
pub broadcast proof fn lemma_qsem_const(q: u8, c: bool, vs: Tree, env: Env)
    requires q == BDDOp::And as u8 || q == BDDOp::Or as u8,
    ensures #[trigger] qsem(q, Tree::Leaf(c), vs, env) == c,
    decreases vs,
{
    match vs {
        Tree::Leaf(_) => {}
        Tree::Inner(k, va, _) => {
            lemma_qsem_const(q, c, *va, upd(env, k as int, true));
            lemma_qsem_const(q, c, *va, upd(env, k as int, false));
        }
    }
}
pub broadcast proof fn lemma_popped(q: u8, t: Tree, vs: Tree, until: int, env: Env)
    requires q == BDDOp::And as u8 || q == BDDOp::Or as u8, wf(t), until <= top(t),
    ensures qsem(q, t, #[trigger] popped(vs, until), env) == #[trigger] qsem(q, t, vs, env),
    decreases vs,
{
    match vs {
        Tree::Leaf(_) => {}
        Tree::Inner(l, a, _) => {
            if (l as int) < until {
                lemma_popped(q, t, *a, until, env);
                lemma_qsem_agree(q, t, *a, upd(env, l as int, true), env);
                lemma_qsem_agree(q, t, *a, upd(env, l as int, false), env);
            }
        }
    }
}
pub broadcast proof fn lemma_popped_ok(vs: Tree, until: int, n: int)
    requires #[trigger] below(vs, n), wf(vs),
    ensures below(#[trigger] popped(vs, until), n), wf(popped(vs, until)), top(popped(vs, until)) >= until || popped(vs, until) is Leaf, top(popped(vs, until)) >= top(vs),
    decreases vs,
{
    match vs {
        Tree::Leaf(_) => {}
        Tree::Inner(l, a, _) => { if (l as int) < until { lemma_popped_ok(*a, until, n); } }
    }
}
pub broadcast proof fn lemma_popped_wf(vs: Tree, until: int)
    requires wf(vs),
    ensures wf(#[trigger] popped(vs, until)), top(popped(vs, until)) >= until || popped(vs, until) is Leaf, top(popped(vs, until)) >= top(vs),
    decreases vs,
{
    match vs {
        Tree::Leaf(_) => {}
        Tree::Inner(l, a, _) => { if (l as int) < until { lemma_popped_wf(*a, until); } }
    }
}
pub broadcast proof fn lemma_popped_mk(l: u32, a: Tree, b: Tree, until: int)
    ensures #[trigger] popped(mk(l, a, b), until) == (if (l as int) >= until { mk(l, a, b) } else { popped(a, until) }),
{}
pub broadcast group quant_lemmas { lemma_qsem_upd, lemma_sem_upd, lemma_qsem_mk, lemma_qsem_vs_mk, lemma_qsem_vs_leaf, lemma_qsem_const, lemma_popped, lemma_popped_ok, lemma_popped_wf, lemma_popped_mk }


pub open spec fn aq_decode(o: u8) -> Option<(u8, u8)> {
    if o == BDDOp::ForallAnd as u8 { Some((BDDOp::And as u8, BDDOp::And as u8)) }
    else if o == BDDOp::ForallOr as u8 { Some((BDDOp::And as u8, BDDOp::Or as u8)) }
    else if o == BDDOp::ForallNand as u8 { Some((BDDOp::And as u8, BDDOp::Nand as u8)) }
    else if o == BDDOp::ForallNor as u8 { Some((BDDOp::And as u8, BDDOp::Nor as u8)) }
    else if o == BDDOp::ForallXor as u8 { Some((BDDOp::And as u8, BDDOp::Xor as u8)) }
    else if o == BDDOp::ForallEquiv as u8 { Some((BDDOp::And as u8, BDDOp::Equiv as u8)) }
    else if o == BDDOp::ForallImp as u8 { Some((BDDOp::And as u8, BDDOp::Imp as u8)) }
    else if o == BDDOp::ForallImpStrict as u8 { Some((BDDOp::And as u8, BDDOp::ImpStrict as u8)) }
    else if o == BDDOp::ExistsAnd as u8 { Some((BDDOp::Or as u8, BDDOp::And as u8)) }
    else if o == BDDOp::ExistsOr as u8 { Some((BDDOp::Or as u8, BDDOp::Or as u8)) }
    else if o == BDDOp::ExistsNand as u8 { Some((BDDOp::Or as u8, BDDOp::Nand as u8)) }
    else if o == BDDOp::ExistsNor as u8 { Some((BDDOp::Or as u8, BDDOp::Nor as u8)) }
    else if o == BDDOp::ExistsXor as u8 { Some((BDDOp::Or as u8, BDDOp::Xor as u8)) }
    else if o == BDDOp::ExistsEquiv as u8 { Some((BDDOp::Or as u8, BDDOp::Equiv as u8)) }
    else if o == BDDOp::ExistsImp as u8 { Some((BDDOp::Or as u8, BDDOp::Imp as u8)) }
    else if o == BDDOp::ExistsImpStrict as u8 { Some((BDDOp::Or as u8, BDDOp::ImpStrict as u8)) }
    else if o == BDDOp::UniqueAnd as u8 { Some((BDDOp::Xor as u8, BDDOp::And as u8)) }
    else if o == BDDOp::UniqueOr as u8 { Some((BDDOp::Xor as u8, BDDOp::Or as u8)) }
    else if o == BDDOp::UniqueNand as u8 { Some((BDDOp::Xor as u8, BDDOp::Nand as u8)) }
    else if o == BDDOp::UniqueNor as u8 { Some((BDDOp::Xor as u8, BDDOp::Nor as u8)) }
    else if o == BDDOp::UniqueXor as u8 { Some((BDDOp::Xor as u8, BDDOp::Xor as u8)) }
    else if o == BDDOp::UniqueEquiv as u8 { Some((BDDOp::Xor as u8, BDDOp::Equiv as u8)) }
    else if o == BDDOp::UniqueImp as u8 { Some((BDDOp::Xor as u8, BDDOp::Imp as u8)) }
    else if o == BDDOp::UniqueImpStrict as u8 { Some((BDDOp::Xor as u8, BDDOp::ImpStrict as u8)) }
    else { None }
}

pub proof fn lemma_qsem2_agree(q: u8, op: u8, f: Tree, g: Tree, vs: Tree, e1: Env, e2: Env)
    requires wf(f), wf(g), agree_from(e1, e2, top(f)), agree_from(e1, e2, top(g)),
    ensures qsem2(q, op, f, g, vs, e1) == qsem2(q, op, f, g, vs, e2),
    decreases vs,
{
    match vs {
        Tree::Leaf(_) => { lemma_sem_agree(f, e1, e2); lemma_sem_agree(g, e1, e2); }
        Tree::Inner(l, a, _) => {
            lemma_qsem2_agree(q, op, f, g, *a, upd(e1, l as int, true), upd(e2, l as int, true));
            lemma_qsem2_agree(q, op, f, g, *a, upd(e1, l as int, false), upd(e2, l as int, false));
        }
    }
}
pub broadcast proof fn lemma_qsem2_upd(q: u8, op: u8, f: Tree, g: Tree, vs: Tree, env: Env, l: int, b: bool)
    requires wf(f), wf(g), l < top(f), l < top(g),
    ensures #[trigger] qsem2(q, op, f, g, vs, upd(env, l, b)) == qsem2(q, op, f, g, vs, env),
{
    lemma_qsem2_agree(q, op, f, g, vs, upd(env, l, b), env);
}
pub broadcast proof fn lemma_qsem2_vs_mk(q: u8, op: u8, f: Tree, g: Tree, l: u32, a: Tree, b: Tree, env: Env)
    ensures #[trigger] qsem2(q, op, f, g, mk(l, a, b), env) == op_sem(q, qsem2(q, op, f, g, a, upd(env, l as int, true)), qsem2(q, op, f, g, a, upd(env, l as int, false))),
{}
pub broadcast proof fn lemma_qsem2_vs_leaf(q: u8, op: u8, f: Tree, g: Tree, b: bool, env: Env)
    ensures #[trigger] qsem2(q, op, f, g, Tree::Leaf(b), env) == op_sem(op, sem(f, env), sem(g, env)),
{}
/// Shannon expansion of the first operand (its top level is above the second operand and above all quantified variables)
pub broadcast proof fn lemma_qsem2_mk_f(q: u8, op: u8, l: u32, a: Tree, b: Tree, g: Tree, vs: Tree, env: Env)
    requires wf(vs), (l as int) < top(vs), wf(g), (l as int) < top(g),
    ensures #[trigger] qsem2(q, op, mk(l, a, b), g, vs, env) == (if env(l as int) { qsem2(q, op, a, g, vs, env) } else { qsem2(q, op, b, g, vs, env) }),
    decreases vs,
{
    match vs {
        Tree::Leaf(_) => { lemma_sem_agree(g, env, env); }
        Tree::Inner(k, va, _) => {
            lemma_qsem2_mk_f(q, op, l, a, b, g, *va, upd(env, k as int, true));
            lemma_qsem2_mk_f(q, op, l, a, b, g, *va, upd(env, k as int, false));
        }
    }
}
pub broadcast proof fn lemma_qsem2_mk_g(q: u8, op: u8, f: Tree, l: u32, c: Tree, d: Tree, vs: Tree, env: Env)
    requires wf(vs), (l as int) < top(vs), wf(f), (l as int) < top(f),
    ensures #[trigger] qsem2(q, op, f, mk(l, c, d), vs, env) == (if env(l as int) { qsem2(q, op, f, c, vs, env) } else { qsem2(q, op, f, d, vs, env) }),
    decreases vs,
{
    match vs {
        Tree::Leaf(_) => {}
        Tree::Inner(k, va, _) => {
            lemma_qsem2_mk_g(q, op, f, l, c, d, *va, upd(env, k as int, true));
            lemma_qsem2_mk_g(q, op, f, l, c, d, *va, upd(env, k as int, false));
        }
    }
}
pub broadcast proof fn lemma_qsem2_mk_fg(q: u8, op: u8, l: u32, a: Tree, b: Tree, l2: u32, c: Tree, d: Tree, vs: Tree, env: Env)
    requires wf(vs), (l as int) < top(vs), l == l2,
    ensures #[trigger] qsem2(q, op, mk(l, a, b), mk(l2, c, d), vs, env) == (if env(l as int) { qsem2(q, op, a, c, vs, env) } else { qsem2(q, op, b, d, vs, env) }),
    decreases vs,
{
    match vs {
        Tree::Leaf(_) => {}
        Tree::Inner(k, va, _) => {
            lemma_qsem2_mk_fg(q, op, l, a, b, l2, c, d, *va, upd(env, k as int, true));
            lemma_qsem2_mk_fg(q, op, l, a, b, l2, c, d, *va, upd(env, k as int, false));
        }
    }
}
pub broadcast proof fn lemma_popped2(q: u8, op: u8, f: Tree, g: Tree, vs: Tree, until: int, env: Env)
    requires q == BDDOp::And as u8 || q == BDDOp::Or as u8, wf(f), wf(g), until <= top(f), until <= top(g),
    ensures qsem2(q, op, f, g, #[trigger] popped(vs, until), env) == #[trigger] qsem2(q, op, f, g, vs, env),
    decreases vs,
{
    match vs {
        Tree::Leaf(_) => {}
        Tree::Inner(l, a, _) => {
            if (l as int) < until {
                lemma_popped2(q, op, f, g, *a, until, env);
                lemma_qsem2_agree(q, op, f, g, *a, upd(env, l as int, true), env);
                lemma_qsem2_agree(q, op, f, g, *a, upd(env, l as int, false), env);
            }
        }
    }
}
/// unique quantification of a variable that occurs in neither operand yields false
pub broadcast proof fn lemma_qsem2_xor_above(q: u8, op: u8, f: Tree, g: Tree, l: u32, a: Tree, b: Tree, env: Env)
    requires q == BDDOp::Xor as u8, wf(f), wf(g), (l as int) < top(f), (l as int) < top(g),
    ensures #[trigger] qsem2(q, op, f, g, mk(l, a, b), env) == false,
{
    lemma_qsem2_agree(q, op, f, g, a, upd(env, l as int, true), upd(env, l as int, false));
}
pub broadcast proof fn lemma_qsem_xor_above(q: u8, t: Tree, l: u32, a: Tree, b: Tree, env: Env)
    requires q == BDDOp::Xor as u8, wf(t), (l as int) < top(t),
    ensures #[trigger] qsem(q, t, mk(l, a, b), env) == false,
{
    lemma_qsem_agree(q, t, a, upd(env, l as int, true), upd(env, l as int, false));
}
pub broadcast proof fn lemma_qsem2_comm(q: u8, op: u8, f: Tree, g: Tree, vs: Tree, env: Env)
    requires commutative(op),
    ensures #[trigger] qsem2(q, op, f, g, vs, env) == qsem2(q, op, g, f, vs, env),
    decreases vs,
{
    match vs {
        Tree::Leaf(_) => {}
        Tree::Inner(l, a, _) => {
            lemma_qsem2_comm(q, op, f, g, *a, upd(env, l as int, true));
            lemma_qsem2_comm(q, op, f, g, *a, upd(env, l as int, false));
        }
    }
}
/// "apply_Q(op, f, g, vars) equals the plain operator followed by the quantification"
pub broadcast proof fn lemma_qsem_link(q: u8, op: u8, h: Tree, f: Tree, g: Tree, vs: Tree, env: Env)
    requires forall|e: Env| #[trigger] sem(h, e) == op_sem(op, sem(f, e), sem(g, e)),
    ensures #[trigger] qsem(q, h, vs, env) == #[trigger] qsem2(q, op, f, g, vs, env),
    decreases vs,
{
    match vs {
        Tree::Leaf(_) => {}
        Tree::Inner(l, a, _) => {
            lemma_qsem_link(q, op, h, f, g, *a, upd(env, l as int, true));
            lemma_qsem_link(q, op, h, f, g, *a, upd(env, l as int, false));
        }
    }
}
pub broadcast group quant2_lemmas { lemma_qsem2_upd, lemma_qsem2_vs_mk, lemma_qsem2_vs_leaf, lemma_qsem2_mk_f, lemma_qsem2_mk_g, lemma_qsem2_mk_fg,
    lemma_popped2, lemma_qsem2_xor_above, lemma_qsem_xor_above, lemma_qsem2_comm, lemma_qsem_link }

// ---------- canonicity (C01): equal functions <=> identical reduced ordered diagrams <=> equal handles ----------
//@lemma name=distinguish props=C01
pub proof fn distinguish(a: Tree, b: Tree) -> (env: Env)
    requires wf(a), wf(b), a != b,
    ensures sem(a, env) != sem(b, env),
    decreases a, b,
{
    match (a, b) {
        (Tree::Leaf(x), Tree::Leaf(y)) => { |i: int| true }
        (Tree::Inner(l, a1, a0), _) if top(b) > l => {
            if *a1 != b {
                let e = distinguish(*a1, b);
                lemma_sem_upd(*a1, e, l as int, true); lemma_sem_upd(b, e, l as int, true);
                upd(e, l as int, true)
            } else {
                let e = distinguish(*a0, b);
                lemma_sem_upd(*a0, e, l as int, false); lemma_sem_upd(b, e, l as int, false);
                upd(e, l as int, false)
            }
        }
        (Tree::Inner(l, a1, a0), Tree::Inner(k, b1, b0)) if k == l => {
            if *a1 != *b1 {
                let e = distinguish(*a1, *b1);
                lemma_sem_upd(*a1, e, l as int, true); lemma_sem_upd(*b1, e, l as int, true);
                upd(e, l as int, true)
            } else {
                let e = distinguish(*a0, *b0);
                lemma_sem_upd(*a0, e, l as int, false); lemma_sem_upd(*b0, e, l as int, false);
                upd(e, l as int, false)
            }
        }
        (_, Tree::Inner(k, b1, b0)) => {
            if a != *b1 {
                let e = distinguish(a, *b1);
                lemma_sem_upd(a, e, k as int, true); lemma_sem_upd(*b1, e, k as int, true);
                upd(e, k as int, true)
            } else {
                let e = distinguish(a, *b0);
                lemma_sem_upd(a, e, k as int, false); lemma_sem_upd(*b0, e, k as int, false);
                upd(e, k as int, false)
            }
        }
        _ => { assert(false); |i: int| true }
    }
}
/// Bryant: semantically equal well-formed (ordered, reduced) diagrams are identical
/// what `satisfiable()` / `valid()` decide: a reduced ordered diagram is the false (true) terminal iff no (every) assignment satisfies it
//@lemma name=satisfiable_iff_not_ff props=C01,C02,C13
pub proof fn satisfiable_iff_not_ff(t: Tree)
    requires wf(t),
    ensures (t != ff()) == (exists|env: Env| sem(t, env)), (t == Tree::Leaf(true)) == (forall|env: Env| sem(t, env)),
{
    if t != ff() { let e = distinguish(t, ff()); assert(sem(t, e)); }
    if t != Tree::Leaf(true) { let e = distinguish(t, Tree::Leaf(true)); assert(!sem(t, e)); }
}
//@lemma name=canonicity props=C01,C03
pub proof fn canonicity(a: Tree, b: Tree)
    requires wf(a), wf(b), forall|env: Env| sem(a, env) == sem(b, env),
    ensures a == b,
{
    if a != b { let e = distinguish(a, b); assert(sem(a, e) == sem(b, e)); }
}
/// handle level: under the hash-consing contract, two handles of well-formed diagrams compare equal iff they denote the same
/// function.  Every operation of this bundle ensures `ok(result)`, so by induction over any history every live handle is
/// well-formed and this lemma applies to any two of them.
//@lemma name=handles_equal_iff_same_function props=C01
pub proof fn handles_equal_iff_same_function<E: Edge>(x: E, y: E)
    requires edge_ok::<E>(), wf(x.view()), wf(y.view()),
    ensures x.eq_spec(&y) <==> (forall|env: Env| sem(x.view(), env) == sem(y.view(), env)),
{
    if forall|env: Env| sem(x.view(), env) == sem(y.view(), env) { canonicity(x.view(), y.view()); }
}
/// the result of an operation is determined by its specification alone (independent of cache content, history, order of evaluation):
/// any two well-formed results satisfying the same semantic postcondition are the same diagram
//@lemma name=result_determined_by_spec props=C01,C06
pub proof fn result_determined_by_spec(r1: Tree, r2: Tree, spec: spec_fn(Env) -> bool)
    requires wf(r1), wf(r2), forall|env: Env| sem(r1, env) == spec(env), forall|env: Env| sem(r2, env) == spec(env),
    ensures r1 == r2,
{
    canonicity(r1, r2);
}
/// adding variables (new levels are appended below all existing ones) does not change the function of an existing diagram:
/// its value does not depend on levels >= n when all its nodes are on levels < n
//@lemma name=add_vars_preserves_function props=C01,C16
pub proof fn add_vars_preserves_function(t: Tree, n: int, e1: Env, e2: Env)
    requires below(t, n), forall|i: int| i < n ==> #[trigger] e1(i) == e2(i),
    ensures sem(t, e1) == sem(t, e2), forall|m: int| m >= n ==> #[trigger] below(t, m),
    decreases t,
{
    match t {
        Tree::Leaf(_) => {}
        Tree::Inner(l, a, b) => {
            add_vars_preserves_function(*a, n, e1, e2); add_vars_preserves_function(*b, n, e1, e2);
            assert forall|m: int| m >= n implies #[trigger] below(t, m) by { assert(below(*a, m) && below(*b, m)); }
        }
    }
}

/// the children of the top node are the two Shannon cofactors with respect to the top-most variable
//@lemma name=cofactors_are_shannon props=C02
pub proof fn cofactors_are_shannon(l: u32, a: Tree, b: Tree, env: Env)
    requires wf(mk(l, a, b)),
    ensures sem(mk(l, a, b), upd(env, l as int, true)) == sem(a, env), sem(mk(l, a, b), upd(env, l as int, false)) == sem(b, env),
{
    lemma_sem_upd(a, env, l as int, true);
    lemma_sem_upd(b, env, l as int, false);
}

// ---------- substitution (C04) ----------
pub open spec fn eviews<E: Edge>(s: Seq<E>) -> Seq<Tree> { s.map_values(|e: E| e.view()) }
/// environment in which every level `i < s.len()` takes the value of its replacement function (simultaneous substitution)
pub open spec fn senv(s: Seq<Tree>, env: Env) -> Env { |i: int| if 0 <= i < s.len() { sem(s[i], env) } else { env(i) } }
pub open spec fn all_ok<E: Edge>(s: Seq<E>, n: int) -> bool { forall|i: int| 0 <= i < s.len() ==> ok((#[trigger] s[i]).view(), n) }
pub open spec fn subst_post(f: Tree, s: Seq<Tree>, n: int, r: Tree) -> bool {
    ok(r, n) && forall|env: Env| #[trigger] sem(r, env) == sem(f, senv(s, env))
}
/// the substitution registered under a substitution id (ASSUMED: ids are unique per substitution object, a fact about the
/// global call history; `new_substitution_id` hands out fresh ids)
pub uninterp spec fn subst_of(id: u32) -> Seq<Tree>;
pub broadcast proof fn lemma_senv_above(t: Tree, s: Seq<Tree>, env: Env)
    requires wf(t), top(t) >= s.len(),
    ensures #[trigger] sem(t, senv(s, env)) == sem(t, env),
{
    lemma_sem_agree(t, senv(s, env), env);
}
pub broadcast group subst_lemmas { lemma_senv_above }

// ---------- restrict (C04): cofactor w.r.t. a partial assignment given as a cube ----------
pub open spec fn next_cube(a: Tree, b: Tree) -> Tree { if a == Tree::Leaf(false) { b } else { a } }
/// value of level `i` under `env` overridden by the literals of cube `c`
/// (node with then-child != false: positive literal, continue in the then-child;
///  then-child == false: negative literal, continue in the else-child)
pub open spec fn cube_val(c: Tree, env: Env, i: int) -> bool decreases c {
    match c {
        Tree::Leaf(_) => env(i),
        Tree::Inner(l, a, b) => if i == l as int { *a != Tree::Leaf(false) } else { cube_val(next_cube(*a, *b), env, i) },
    }
}
pub open spec fn cenv(c: Tree, env: Env) -> Env { |i: int| cube_val(c, env, i) }
pub open spec fn restrict_post(f: Tree, vars: Tree, n: int, r: Tree) -> bool {
    ok(r, n) && top(r) >= top(f) && forall|env: Env| #[trigger] sem(r, env) == sem(f, cenv(vars, env))
}
pub broadcast proof fn lemma_cube_val_mk(l: u32, a: Tree, b: Tree, env: Env, i: int)
    ensures #[trigger] cube_val(mk(l, a, b), env, i) == (if i == l as int { a != Tree::Leaf(false) } else { cube_val(next_cube(a, b), env, i) }),
{}
pub broadcast proof fn lemma_cube_val_above(c: Tree, env: Env, i: int)
    requires wf(c), i < top(c),
    ensures #[trigger] cube_val(c, env, i) == env(i),
    decreases c,
{
    match c {
        Tree::Leaf(_) => {}
        Tree::Inner(l, a, b) => { lemma_cube_val_above(next_cube(*a, *b), env, i); }
    }
}
pub broadcast proof fn lemma_cenv_leaf(t: Tree, b: bool, env: Env)
    requires wf(t),
    ensures #[trigger] sem(t, cenv(Tree::Leaf(b), env)) == sem(t, env),
{
    lemma_sem_agree(t, cenv(Tree::Leaf(b), env), env);
}
pub broadcast proof fn lemma_cenv_skip(t: Tree, l: u32, a: Tree, b: Tree, env: Env)
    requires wf(t), (l as int) < top(t),
    ensures #[trigger] sem(t, cenv(mk(l, a, b), env)) == sem(t, cenv(next_cube(a, b), env)),
{
    lemma_sem_agree(t, cenv(mk(l, a, b), env), cenv(next_cube(a, b), env));
}
pub broadcast proof fn lemma_cenv_same(l: u32, ft: Tree, fe: Tree, l2: u32, a: Tree, b: Tree, env: Env)
    requires wf(mk(l, ft, fe)), l == l2,
    ensures #[trigger] sem(mk(l, ft, fe), cenv(mk(l2, a, b), env)) == sem(if a != Tree::Leaf(false) { ft } else { fe }, cenv(next_cube(a, b), env)),
{
    lemma_sem_agree(ft, cenv(mk(l, a, b), env), cenv(next_cube(a, b), env));
    lemma_sem_agree(fe, cenv(mk(l, a, b), env), cenv(next_cube(a, b), env));
}
pub broadcast group restrict_lemmas { lemma_cube_val_mk, lemma_cube_val_above, lemma_cenv_leaf, lemma_cenv_skip, lemma_cenv_same }

// ---------- cube picking (C13) ----------
pub open spec fn ff() -> Tree { Tree::Leaf(false) }
/// rest of a literal set below its top literal (positive literal <=> else-child is false)
pub open spec fn next_lit(a: Tree, b: Tree) -> Tree { if b == ff() { a } else { b } }
pub open spec fn then_of(t: Tree) -> Tree { match t { Tree::Inner(_, a, _) => *a, _ => t } }
pub open spec fn else_of(t: Tree) -> Tree { match t { Tree::Inner(_, _, b) => *b, _ => t } }
/// polarity of level `l` in a literal set (conjunction of literals: positive literal = else-child is false,
/// negative literal = then-child is false; the rest of the set hangs below the non-false child)
pub open spec fn lit_pol(ls: Tree, l: int) -> Option<bool> decreases ls {
    match ls {
        Tree::Leaf(_) => None,
        Tree::Inner(k, a, b) => if k as int == l { Some(*b == ff()) } else if (k as int) < l { lit_pol(next_lit(*a, *b), l) } else { None },
    }
}
/// `r` is a cube picked from `t`: one node per visited level, the other child is false, never descends into a
/// false child, and where both children are satisfiable and the literal set `ls` mentions the level, its
/// polarity is followed.  (Levels not mentioned: either branch is allowed.)
pub open spec fn pick_ok(t: Tree, ls: Tree, r: Tree) -> bool decreases t {
    match t {
        Tree::Leaf(_) => r == t,
        Tree::Inner(l, a, b) => match r {
            Tree::Leaf(_) => false,
            Tree::Inner(rl, ra, rb) => rl == l && {
                let free = *a != ff() && *b != ff() && lit_pol(ls, l as int) is Some;
                ||| (*rb == ff() && *a != ff() && pick_ok(*a, ls, *ra) && (free ==> lit_pol(ls, l as int) == Some(true)))
                ||| (*ra == ff() && *b != ff() && pick_ok(*b, ls, *rb) && (free ==> lit_pol(ls, l as int) == Some(false)))
            },
        },
    }
}

/// `r` follows the caller's choice oracle `o` wherever the value is not forced (both children satisfiable)
pub open spec fn pick_follows(t: Tree, o: spec_fn(Tree, u32) -> bool, r: Tree) -> bool decreases t {
    match t {
        Tree::Leaf(_) => true,
        Tree::Inner(l, a, b) => match r {
            Tree::Leaf(_) => false,
            Tree::Inner(rl, ra, rb) => {
                let free = *a != ff() && *b != ff();
                ||| (*rb == ff() && (free ==> o(t, l)) && pick_follows(*a, o, *ra))
                ||| (*ra == ff() && (free ==> !o(t, l)) && pick_follows(*b, o, *rb))
            },
        },
    }
}
pub broadcast proof fn lemma_pick_follows_mk(l: u32, a: Tree, b: Tree, o: spec_fn(Tree, u32) -> bool, rl: u32, ra: Tree, rb: Tree)
    ensures #[trigger] pick_follows(mk(l, a, b), o, mk(rl, ra, rb)) == ({
        let free = a != ff() && b != ff();
        ||| (rb == ff() && (free ==> o(mk(l, a, b), l)) && pick_follows(a, o, ra))
        ||| (ra == ff() && (free ==> !o(mk(l, a, b), l)) && pick_follows(b, o, rb))
    }),
{}
pub broadcast proof fn lemma_pick_follows_leaf(c: bool, o: spec_fn(Tree, u32) -> bool, r: Tree)
    ensures #[trigger] pick_follows(Tree::Leaf(c), o, r),
{}
pub open spec fn is_cube(r: Tree) -> bool decreases r {
    match r {
        Tree::Leaf(b) => b,
        Tree::Inner(_, a, b) => (*b == ff() && is_cube(*a)) || (*a == ff() && is_cube(*b)),
    }
}
/// consequences of pick_ok that the property states: nothing/false exactly for the unsatisfiable function,
/// otherwise a cube that implies the function
pub proof fn lemma_pick_ok_props(t: Tree, ls: Tree, r: Tree, n: int)
    requires ok(t, n), pick_ok(t, ls, r),
    ensures ok(r, n), top(r) >= top(t), (r == ff()) <==> (t == ff()), t != ff() ==> is_cube(r),
        forall|env: Env| sem(r, env) ==> #[trigger] sem(t, env),
    decreases t,
{
    match t {
        Tree::Leaf(_) => {}
        Tree::Inner(l, a, b) => {
            match r {
                Tree::Leaf(_) => {}
                Tree::Inner(rl, ra, rb) => {
                    assert(wf(ff()) && below(ff(), n) && top(ff()) == u32::MAX as int);
                    assert forall|env: Env| !sem(ff(), env) by {}
                    if *rb == ff() && *a != ff() && pick_ok(*a, ls, *ra) {
                        lemma_pick_ok_props(*a, ls, *ra, n);
                        assert(wf(r)); assert(below(r, n));
                        assert forall|env: Env| sem(r, env) implies #[trigger] sem(t, env) by { assert(!sem(ff(), env)); assert(sem(*ra, env) ==> sem(*a, env)); }
                    } else {
                        lemma_pick_ok_props(*b, ls, *rb, n);
                        assert(wf(r)); assert(below(r, n));
                        assert forall|env: Env| sem(r, env) implies #[trigger] sem(t, env) by { assert(!sem(ff(), env)); assert(sem(*rb, env) ==> sem(*b, env)); }
                    }
                }
            }
        }
    }
}
pub broadcast proof fn lemma_pick_ok_mk(l: u32, a: Tree, b: Tree, ls: Tree, rl: u32, ra: Tree, rb: Tree)
    ensures #[trigger] pick_ok(mk(l, a, b), ls, mk(rl, ra, rb)) == (rl == l && {
        let free = a != ff() && b != ff() && lit_pol(ls, l as int) is Some;
        ||| (rb == ff() && a != ff() && pick_ok(a, ls, ra) && (free ==> lit_pol(ls, l as int) == Some(true)))
        ||| (ra == ff() && b != ff() && pick_ok(b, ls, rb) && (free ==> lit_pol(ls, l as int) == Some(false)))
    }),
{}
pub broadcast proof fn lemma_pick_ok_leaf(c: bool, ls: Tree, r: Tree)
    ensures #[trigger] pick_ok(Tree::Leaf(c), ls, r) == (r == Tree::Leaf(c)),
{}
pub broadcast proof fn lemma_pick_ok_ok(t: Tree, ls: Tree, r: Tree, n: int)
    requires wf(t), #[trigger] below(t, n), #[trigger] pick_ok(t, ls, r),
    ensures ok(r, n), top(r) >= top(t), (r == ff()) <==> (t == ff()),
{
    lemma_pick_ok_props(t, ls, r, n);
}
pub broadcast proof fn lemma_lit_pol_mk(k: u32, a: Tree, b: Tree, l: int)
    ensures #[trigger] lit_pol(mk(k, a, b), l) == (if k as int == l { Some(b == ff()) } else if (k as int) < l { lit_pol(next_lit(a, b), l) } else { None }),
{}
pub broadcast proof fn lemma_lit_pol_leaf(c: bool, l: int)
    ensures #[trigger] lit_pol(Tree::Leaf(c), l) == None::<bool>,
{}
/// the literal set may be replaced by any set that agrees on all levels the diagram can still visit
pub proof fn lemma_pick_ok_transfer(t: Tree, ls1: Tree, ls2: Tree, r: Tree)
    requires wf(t), pick_ok(t, ls1, r), forall|l: int| l >= top(t) ==> #[trigger] lit_pol(ls1, l) == lit_pol(ls2, l),
    ensures pick_ok(t, ls2, r),
    decreases t,
{
    match t {
        Tree::Leaf(_) => {}
        Tree::Inner(l, a, b) => {
            match r {
                Tree::Leaf(_) => {}
                Tree::Inner(rl, ra, rb) => {
                    assert(lit_pol(ls1, l as int) == lit_pol(ls2, l as int));
                    if *rb == ff() && *a != ff() && pick_ok(*a, ls1, *ra) { lemma_pick_ok_transfer(*a, ls1, ls2, *ra); }
                    if *ra == ff() && *b != ff() && pick_ok(*b, ls1, *rb) { lemma_pick_ok_transfer(*b, ls1, ls2, *rb); }
                }
            }
        }
    }
}
/// literal sets below `u`: dropping literals above level `u` (following the non-false child) does not change lookups at or below `u`
pub open spec fn lpopped(ls: Tree, until: int) -> Tree decreases ls {
    match ls {
        Tree::Leaf(_) => ls,
        Tree::Inner(k, a, b) => if (k as int) >= until { ls } else { lpopped(next_lit(*a, *b), until) },
    }
}
pub proof fn lemma_lit_pol_lpopped(ls: Tree, until: int, l: int)
    requires l >= until,
    ensures lit_pol(lpopped(ls, until), l) == lit_pol(ls, l),
    decreases ls,
{
    match ls {
        Tree::Leaf(_) => {}
        Tree::Inner(k, a, b) => { if (k as int) < until { lemma_lit_pol_lpopped(next_lit(*a, *b), until, l); } }
    }
}
/// transfer along one step of the recursion: the callee saw the literal set `ls1`, where `ls1` agrees with
/// `lpopped(ls, u)` for some `u <= top(t)`
pub broadcast proof fn lemma_pick_ok_lpopped(t: Tree, ls: Tree, u: int, r: Tree)
    requires wf(t), u <= top(t), #[trigger] pick_ok(t, lpopped(ls, u), r),
    ensures pick_ok(t, ls, r),
{
    assert forall|l: int| l >= top(t) implies #[trigger] lit_pol(lpopped(ls, u), l) == lit_pol(ls, l) by { lemma_lit_pol_lpopped(ls, u, l); }
    lemma_pick_ok_transfer(t, lpopped(ls, u), ls, r);
}
/// one recursion step: the callee saw the rest `x` of the literal set below the literal at the current level
pub broadcast proof fn lemma_pick_ok_step(t: Tree, ls: Tree, u: int, x: Tree, r: Tree)
    requires wf(t), wf(ls), (#[trigger] lpopped(ls, u)) is Inner, top(lpopped(ls, u)) < top(t),
        x == next_lit(then_of(lpopped(ls, u)), else_of(lpopped(ls, u))), #[trigger] pick_ok(t, x, r),
    ensures pick_ok(t, ls, r),
{
    let p = lpopped(ls, u);
    lemma_lpopped_wf(ls, u);
    assert forall|l: int| l >= top(t) implies #[trigger] lit_pol(x, l) == lit_pol(ls, l) by {
        lemma_lit_pol_lpopped(ls, u, l);
    }
    lemma_pick_ok_transfer(t, x, ls, r);
}
pub broadcast proof fn lemma_lpopped_mk(k: u32, a: Tree, b: Tree, until: int)
    ensures #[trigger] lpopped(mk(k, a, b), until) == (if (k as int) >= until { mk(k, a, b) } else { lpopped(next_lit(a, b), until) }),
{}
pub broadcast proof fn lemma_lpopped_ok(ls: Tree, until: int, n: int)
    requires #[trigger] below(ls, n), wf(ls),
    ensures below(#[trigger] lpopped(ls, until), n), wf(lpopped(ls, until)), top(lpopped(ls, until)) >= until || lpopped(ls, until) is Leaf,
    decreases ls,
{
    match ls {
        Tree::Leaf(_) => {}
        Tree::Inner(k, a, b) => { if (k as int) < until { lemma_lpopped_ok(next_lit(*a, *b), until, n); } }
    }
}
pub broadcast proof fn lemma_lit_pol_lpopped_b(ls: Tree, until: int, l: int)
    requires l >= until,
    ensures lit_pol(#[trigger] lpopped(ls, until), l) == #[trigger] lit_pol(ls, l),
{
    lemma_lit_pol_lpopped(ls, until, l);
}
pub proof fn lemma_lpopped_wf(ls: Tree, until: int)
    requires wf(ls),
    ensures wf(lpopped(ls, until)), top(lpopped(ls, until)) >= until || lpopped(ls, until) is Leaf,
    decreases ls,
{
    match ls {
        Tree::Leaf(_) => {}
        Tree::Inner(k, a, b) => { if (k as int) < until { lemma_lpopped_wf(next_lit(*a, *b), until); } }
    }
}
pub broadcast proof fn lemma_lpopped_id(ls: Tree, until: int)
    requires top(ls) >= until,
    ensures #[trigger] lpopped(ls, until) == ls,
{}
pub broadcast group pick_lemmas { lemma_pick_follows_mk, lemma_pick_follows_leaf, lemma_pick_ok_mk, lemma_pick_ok_leaf, lemma_pick_ok_ok, lemma_lit_pol_mk, lemma_lit_pol_leaf, lemma_pick_ok_lpopped, lemma_pick_ok_step, lemma_lit_pol_lpopped_b, lemma_lpopped_mk, lemma_lpopped_id, lemma_lpopped_ok }

// ---------- model counting (C12) ----------
pub open spec fn pow2(k: nat) -> int decreases k { if k == 0 { 1 } else { 2 * pow2((k - 1) as nat) } }
pub broadcast proof fn lemma_pow2_1() ensures #[trigger] pow2(1) == 2 { assert(pow2(0) == 1); }
pub broadcast group count_lemmas { lemma_pow2_1 }
/// abstract numeric value of a count
pub trait NumView { spec fn nv(&self) -> int; }
pub trait IsFloatingPoint { const MIN_EXP: i32; }
pub trait SatCountNumber: Clone + From<u32> + std::ops::Add<Self, Output = Self> + std::ops::Shl<u32, Output = Self> + std::ops::Shr<u32, Output = Self> + IsFloatingPoint + NumView {}
/// ASSUMED model of the number type: exact naturals, `>> k` is floor division by 2^k, `<< k` multiplication.
/// (Checked for Saturating<u64|u128> and Natural within their representable range by Kani suite core_num.)
pub open spec fn num_ok<N: SatCountNumber>() -> bool {
    &&& N::obeys_add_spec()
    &&& forall|a: N, b: N| #[trigger] a.add_req(b)
    &&& forall|a: N, b: N| (#[trigger] a.add_spec(b)).nv() == a.nv() + b.nv()
    &&& <N as ShrSpec<u32>>::obeys_shr_spec()
    &&& forall|a: N, k: u32| #[trigger] a.shr_req(k)
    &&& forall|a: N, k: u32| (#[trigger] a.shr_spec(k)).nv() == a.nv() / pow2(k as nat)
    &&& <N as ShlSpec<u32>>::obeys_shl_spec()
    &&& forall|a: N, k: u32| #[trigger] a.shl_req(k)
    &&& forall|a: N, k: u32| (#[trigger] a.shl_spec(k)).nv() == a.nv() * pow2(k as nat)
    &&& <N as FromSpec<u32>>::obeys_from_spec()
    &&& forall|v: u32| (#[trigger] <N as FromSpec<u32>>::from_spec(v)).nv() == v as int
    &&& forall|a: N, b: N| cloned(a, b) ==> #[trigger] a.nv() == #[trigger] b.nv()
}
/// what the recursion computes: terminal value `tv` for true, 0 for false, the mean of the children at inner nodes
pub open spec fn scnt(t: Tree, tv: int) -> int decreases t {
    match t {
        Tree::Leaf(b) => if b { tv } else { 0 },
        Tree::Inner(_, a, b) => (scnt(*a, tv) + scnt(*b, tv)) / 2,
    }
}
pub broadcast proof fn lemma_scnt_mk(l: u32, a: Tree, b: Tree, tv: int)
    ensures #[trigger] scnt(mk(l, a, b), tv) == (scnt(a, tv) + scnt(b, tv)) / 2 {}

/// number of assignments to the levels k..n-1 that satisfy `t` (all levels of `t` are >= k): Shannon expansion on level k
pub open spec fn cnt(t: Tree, k: int, n: int) -> int decreases n - k {
    if k >= n { if t == Tree::Leaf(true) { 1 } else { 0 } }
    else if t is Inner && top(t) == k { cnt(then_of(t), k + 1, n) + cnt(else_of(t), k + 1, n) }
    else { 2 * cnt(t, k + 1, n) }
}
/// the value computed by the sat_count recursion with terminal value 2^(n-k+m) is 2^m times the number of satisfying
/// assignments over levels k..n-1: every halving in the recursion is exact
//@lemma name=lemma_scnt_is_count props=C12
pub proof fn lemma_scnt_is_count(t: Tree, k: int, n: int, m: nat)
    requires ok(t, n), 0 <= k <= n, t is Inner ==> k <= top(t),
    ensures scnt(t, pow2((n - k + m) as nat)) == pow2(m) * cnt(t, k, n),
    decreases n - k,
{
    if k >= n {
        assert(t is Leaf);
        assert(pow2(m) * 1 == pow2(m)) by (nonlinear_arith);
        assert(pow2(m) * 0 == 0) by (nonlinear_arith);
    } else {
        assert(pow2((m + 1) as nat) == 2 * pow2(m));
        let p = pow2((n - k + m) as nat);
        assert((n - (k + 1) + (m + 1)) as nat == (n - k + m) as nat);
        if t is Inner && top(t) == k {
            let (a, b) = (then_of(t), else_of(t));
            lemma_scnt_is_count(a, k + 1, n, (m + 1) as nat);
            lemma_scnt_is_count(b, k + 1, n, (m + 1) as nat);
            let (ca, cb) = (cnt(a, k + 1, n), cnt(b, k + 1, n));
            assert(scnt(t, p) == (scnt(a, p) + scnt(b, p)) / 2);
            assert(scnt(a, p) + scnt(b, p) == 2 * (pow2(m) * (ca + cb))) by (nonlinear_arith)
                requires scnt(a, p) == (2 * pow2(m)) * ca, scnt(b, p) == (2 * pow2(m)) * cb;
            assert(pow2(m) * cnt(t, k, n) == pow2(m) * (ca + cb));
        } else {
            lemma_scnt_is_count(t, k + 1, n, (m + 1) as nat);
            let c = cnt(t, k + 1, n);
            assert((2 * pow2(m)) * c == pow2(m) * (2 * c)) by (nonlinear_arith);
        }
    }
}
/// sat_count(vars) with terminal value 2^vars counts the satisfying assignments over `vars` variables exactly
//@lemma name=lemma_sat_count_exact props=C12
pub proof fn lemma_sat_count_exact(t: Tree, vars: int)
    requires ok(t, vars), vars >= 0,
    ensures scnt(t, pow2(vars as nat)) == cnt(t, 0, vars),
{
    lemma_scnt_is_count(t, 0, vars, 0);
    assert(pow2(0) * cnt(t, 0, vars) == cnt(t, 0, vars)) by (nonlinear_arith) requires pow2(0) == 1;
}
pub broadcast proof fn lemma_sat_count_exact_b(t: Tree, vars: u32)
    requires wf(t), #[trigger] below(t, vars as int),
    ensures #[trigger] scnt(t, pow2(vars as nat)) == cnt(t, 0, vars as int),
{
    lemma_sat_count_exact(t, vars as int);
}
pub broadcast proof fn lemma_pow2_mul1(k: nat) ensures 1 * #[trigger] pow2(k) == pow2(k) {}
pub broadcast group count_lemmas2 { lemma_sat_count_exact_b, lemma_pow2_mul1 }
pub type NodeID = usize;
/// the diagram stored under a node id (ASSUMED: a node id denotes one diagram within a GC epoch; the cache is cleared
/// by `clear_if_invalid` when the epoch or the variable count changes)
pub uninterp spec fn tree_of(id: NodeID) -> Tree;
/// stub of the HashMap inside SatCountCache
pub struct NodeMap<N> { pub m: Ghost<Map<NodeID, N>> }
impl<N> NodeMap<N> {
    pub open spec fn view(&self) -> Map<NodeID, N> { self.m@ }
    #[verifier::external_body]
    pub fn get(&self, k: &NodeID) -> (r: Option<&N>)
        ensures match r { Some(v) => self@.contains_key(*k) && *v == self@[*k], None => !self@.contains_key(*k) }
    { unimplemented!() }
    #[verifier::external_body]
    pub fn insert(&mut self, k: NodeID, v: N) -> (r: Option<N>)
        ensures final(self)@ == old(self)@.insert(k, v)
    { unimplemented!() }
    #[verifier::external_body]
    pub fn clear(&mut self)
        ensures final(self)@ == Map::<NodeID, N>::empty()
    { unimplemented!() }
}
pub struct SatCountCache<N, S> { pub map: NodeMap<N>, pub vars: LevelNo, pub epoch: u64, pub cache_all: bool, pub s: Ghost<S> }
pub open spec fn cache_valid<N: SatCountNumber, S>(c: &SatCountCache<N, S>, tv: int) -> bool {
    forall|id: NodeID| #[trigger] c.map@.contains_key(id) ==> c.map@[id].nv() == scnt(tree_of(id), tv)
}
/// the invariant every user of a count cache maintains (established by `Default`: empty map): if the cache's epoch is the
/// manager's current GC epoch, its entries are the counts, for `c.vars` variables, of the nodes stored under their ids
pub open spec fn cache_inv<M: Manager, N: SatCountNumber, S>(c: &SatCountCache<N, S>, m: &M) -> bool {
    c.epoch == m.gc_count_spec() ==> cache_valid(c, pow2(c.vars as nat))
}

// ---------- environment stubs (ASSUMED manager contract) ----------
pub type LevelNo = u32;
pub type VarNo = u32;
#[derive(Debug)]
pub struct OutOfMemory;
pub type AllocResult<T> = Result<T, OutOfMemory>;
pub type Borrowed<'a, E> = &'a E;

pub trait Edge: Sized + Ord {
    spec fn view(&self) -> Tree;
    fn borrowed(&self) -> (r: Borrowed<'_, Self>) ensures r.view() == self.view();
    fn node_id(&self) -> (r: NodeID) ensures self.view() is Inner ==> tree_of(r) == self.view();
    /// simple BDD edges carry the unit tag
    fn tag(&self) -> (t: ()) { () }
}
pub trait LevelSpec { spec fn level_spec(&self) -> u32; }
pub trait InnerNode<E: Edge>: Sized + LevelSpec {
    spec fn then_spec(&self) -> Tree;
    spec fn else_spec(&self) -> Tree;
    fn new(level: LevelNo, children: [E; 2]) -> (r: Self)
        ensures r.level_spec() == level, r.then_spec() == children[0].view(), r.else_spec() == children[1].view();
    fn child(&self, n: usize) -> (r: Borrowed<'_, E>)
        requires n < 2
        ensures r.view() == (if n == 0 { self.then_spec() } else { self.else_spec() });
    fn ref_count(&self) -> usize;
}
pub trait HasLevel: LevelSpec {
    fn level(&self) -> (l: LevelNo) ensures l == self.level_spec();
}
pub assume_specification<T: ?Sized> [<T as std::borrow::Borrow<T>>::borrow] (x: &T) -> (r: &T)
    ensures r == x;
pub assume_specification<T: Ord> [std::cmp::min] (a: T, b: T) -> (r: T)
    ensures T::obeys_cmp_spec() ==> r == (if b.cmp_spec(&a) == core::cmp::Ordering::Less { b } else { a });

/// hash-consing: handles are equal iff they denote the same stored diagram
pub open spec fn edge_ok<E: Edge>() -> bool {
    &&& E::obeys_eq_spec()
    &&& E::obeys_partial_cmp_spec()
    &&& forall|a: E, b: E| (#[trigger] a.eq_spec(&b)) <==> (a.view() == b.view())
}
pub trait TermView { spec fn tview(&self) -> bool; }
pub enum Node<'a, M: Manager + 'a> {
    Inner(&'a M::InnerNode),
    Terminal(&'a M::Terminal),
}
impl<'a, M: Manager> Node<'a, M> {
    pub fn unwrap_inner(self) -> (r: &'a M::InnerNode)
        requires self is Inner
        ensures self == Node::<'a, M>::Inner(r)
    { match self { Node::Inner(node) => node, Node::Terminal(_) => vstd::pervasive::unreached() } }
    pub fn is_any_terminal(self) -> (r: bool) ensures r == (self is Terminal)
    { match self { Node::Inner(_) => false, Node::Terminal(_) => true } }
    #[verifier::external_body]
    pub fn is_terminal(self, terminal: &M::Terminal) -> (r: bool)
        ensures r == (self is Terminal && self->Terminal_0.tview() == terminal.tview())
    { unimplemented!() }
}
impl<'a, M: Manager> Node<'a, M> where M::InnerNode: HasLevel {
    /// `Node::level()` of oxidd-core: the level of an inner node, `LevelNo::MAX` for terminals
    pub fn level(self) -> (r: LevelNo)
        ensures r == (match self { Node::Inner(node) => node.level_spec(), Node::Terminal(_) => u32::MAX })
    { match self { Node::Inner(node) => node.level(), Node::Terminal(_) => LevelNo::MAX } }
}
/// stub of fixedbitset::FixedBitSet (only `contains` is used by verified code)
pub struct FixedBitSet { pub bits: Vec<bool> }
impl FixedBitSet {
    pub open spec fn spec_contains(&self, i: int) -> bool { 0 <= i < self.bits@.len() && self.bits@[i] }
    pub fn contains(&self, bit: usize) -> (r: bool) ensures r == self.spec_contains(bit as int)
    { if bit < self.bits.len() { self.bits[bit] } else { false } }
    /// ASSUMED (fixedbitset docs): a new set of `bits` bits, all clear
    #[verifier::external_body]
    pub fn with_capacity(bits: usize) -> (r: Self)
        ensures r.bits@.len() == bits, forall|i: int| !(#[trigger] r.spec_contains(i))
    { unimplemented!() }
    /// ASSUMED (fixedbitset docs): sets bit `bit` to `enabled`; panics if `bit` is out of bounds
    #[verifier::external_body]
    pub fn set(&mut self, bit: usize, enabled: bool)
        requires bit < old(self).bits@.len(),
        ensures final(self).bits@ == old(self).bits@.update(bit as int, enabled),
            forall|l: int| #[trigger] final(self).spec_contains(l) == (if l == bit as int { enabled } else { old(self).spec_contains(l) }),
    { unimplemented!() }
}
/// stub of the `impl IntoIterator<Item = (VarNo, bool)>` argument of `eval_edge` (rule R10): `all()` is the sequence it
/// yields, `done()` the prefix yielded so far (ASSUMED: std Iterator protocol)
pub struct ArgIter { pub all: Ghost<Seq<(u32, bool)>>, pub done: Ghost<Seq<(u32, bool)>> }
impl ArgIter {
    pub open spec fn all(&self) -> Seq<(u32, bool)> { self.all@ }
    pub open spec fn done(&self) -> Seq<(u32, bool)> { self.done@ }
    #[verifier::external_body]
    pub fn next(&mut self) -> (r: Option<(VarNo, bool)>)
        ensures final(self).all() == old(self).all(),
            r is None ==> old(self).done() == old(self).all() && final(self).done() == old(self).done(),
            r is Some ==> old(self).done().len() < old(self).all().len() && r->Some_0 == old(self).all()[old(self).done().len() as int]
                && final(self).done() == old(self).done().push(r->Some_0),
    { unimplemented!() }
}
pub trait LevelView<E: Edge, N: InnerNode<E>> {
    spec fn level_no_spec(&self) -> u32;
    fn get_or_insert(&mut self, node: N) -> (r: AllocResult<E>)
        requires node.level_spec() == old(self).level_no_spec(),
        ensures r is Ok ==> r->Ok_0.view() == mk(node.level_spec(), node.then_spec(), node.else_spec());
}
pub trait Manager: Sized {
    type Edge: Edge;
    type InnerNode: InnerNode<Self::Edge>;
    type Terminal: TermView;
    type LevelView<'a>: LevelView<Self::Edge, Self::InnerNode> where Self: 'a;
    spec fn num_levels_spec(&self) -> int;
    spec fn var_to_level_spec(&self, v: int) -> int;
    fn get_node<'a>(&'a self, e: &'a Self::Edge) -> (n: Node<'a, Self>)
        ensures match n {
            Node::Inner(node) => e.view() == mk(node.level_spec(), node.then_spec(), node.else_spec()),
            Node::Terminal(t) => e.view() == Tree::Leaf(t.tview()),
        };
    fn clone_edge(&self, e: &Self::Edge) -> (r: Self::Edge) ensures r.view() == e.view();
    fn drop_edge(&self, e: Self::Edge);
    fn get_terminal(&self, t: Self::Terminal) -> (r: AllocResult<Self::Edge>)
        ensures r is Ok, r->Ok_0.view() == Tree::Leaf(t.tview());
    spec fn gc_count_spec(&self) -> u64;
    fn gc_count(&self) -> (r: u64) ensures r == self.gc_count_spec();
    fn num_levels(&self) -> (n: LevelNo) ensures n as int == self.num_levels_spec();
    fn level(&self, no: LevelNo) -> (r: Self::LevelView<'_>)
        requires (no as int) < self.num_levels_spec()
        ensures r.level_no_spec() == no;
    spec fn level_to_var_spec(&self, l: int) -> int;
    fn level_to_var(&self, level: LevelNo) -> (v: VarNo)
        requires (level as int) < self.num_levels_spec()
        ensures v as int == self.level_to_var_spec(level as int), 0 <= (v as int) < self.num_levels_spec(),
            self.var_to_level_spec(v as int) == level as int;
    fn var_to_level(&self, var: VarNo) -> (l: LevelNo)
        requires (var as int) < self.num_levels_spec()
        ensures l as int == self.var_to_level_spec(var as int), (l as int) < self.num_levels_spec() <= u32::MAX as int;
}
pub mod oxidd_core {
    pub use super::LevelView;
    pub use super::VarNo;
    pub use super::Node;
}

/// `Function::as_edge(manager)` / `Function::from_edge(manager, e)`: a function handle is modelled by its root edge
pub trait AsEdgeExt: Sized { fn as_edge<M>(&self, manager: &M) -> (r: &Self) ensures r == self { self } }
impl<E: Edge> AsEdgeExt for E {}
pub fn from_edge<M: Manager>(manager: &M, e: M::Edge) -> (r: M::Edge) ensures r.view() == e.view() { e }
pub struct EdgeDropGuard<'a, M: Manager> { pub manager: &'a M, pub edge: M::Edge }
impl<'a, M: Manager> EdgeDropGuard<'a, M> {
    pub fn new(manager: &'a M, edge: M::Edge) -> (r: Self) ensures r.edge.view() == edge.view() { EdgeDropGuard { manager, edge } }
    pub fn into_edge(self) -> (r: M::Edge) ensures r.view() == self.edge.view() { self.edge }
    pub fn borrowed(&self) -> (r: Borrowed<'_, M::Edge>) ensures r.view() == self.edge.view() { &self.edge }
}
impl<'a, M: Manager> std::ops::Deref for EdgeDropGuard<'a, M> {
    type Target = M::Edge;
    fn deref(&self) -> (r: &M::Edge) ensures r.view() == self.edge.view() { &self.edge }
}
/// stub of oxidd_core::util::EdgeVecDropGuard (a Vec of owned edges; Deref/DerefMut to the Vec are modelled by `push`)
pub struct EdgeVecDropGuard<'a, M: Manager> { pub manager: &'a M, pub vec: Vec<M::Edge> }
impl<'a, M: Manager> EdgeVecDropGuard<'a, M> {
    pub open spec fn view(&self) -> Seq<M::Edge> { self.vec@ }
    pub fn push(&mut self, e: M::Edge) ensures final(self)@ == old(self)@.push(e), { self.vec.push(e) }
}
/// `Vec::resize_with` (std): truncates or extends with values produced by `f`
pub assume_specification<T, A: std::alloc::Allocator, F: FnMut() -> T> [Vec::<T, A>::resize_with] (v: &mut Vec<T, A>, new_len: usize, f: F)
    ensures final(v)@.len() == new_len,
        forall|i: int| 0 <= i < new_len && i < old(v)@.len() ==> final(v)@[i] == old(v)@[i],
        forall|i: int| old(v)@.len() <= i < new_len ==> f.ensures((), #[trigger] final(v)@[i]);
pub trait CacheOp: Copy {
    spec fn inv(self, operands: Seq<Tree>, n: int, res: Tree) -> bool;
    /// keys with numeric operands / several values
    spec fn inv_ext(self, operands: Seq<Tree>, nums: Seq<u32>, n: int, res: Seq<Tree>, res_nums: Seq<u32>) -> bool;
}
pub open spec fn views<E: Edge>(s: Seq<&E>) -> Seq<Tree> { s.map_values(|e: &E| e.view()) }
/// ASSUMED apply-cache contract: `get` may answer anything that was (or could
/// have been) added under exactly this operator and these operands; `add`
/// demands that the entry is justified.  `inv` is defined per operator below.
pub trait ApplyCache<M: Manager, O: CacheOp> {
    fn get(&self, manager: &M, operator: O, operands: &[Borrowed<M::Edge>]) -> (r: Option<M::Edge>)
        ensures match r { Some(h) => operator.inv(views(operands@), manager.num_levels_spec(), h.view()), None => true };
    fn add(&self, manager: &M, operator: O, operands: &[Borrowed<M::Edge>], value: Borrowed<M::Edge>)
        requires operator.inv(views(operands@), manager.num_levels_spec(), value.view());
    fn get_extended<const E: usize, const N: usize>(&self, manager: &M, operator: O, operands: (&[Borrowed<M::Edge>], &[u32])) -> (r: Option<([M::Edge; E], [u32; N])>)
        ensures match r { Some(v) => operator.inv_ext(views(operands.0@), operands.1@, manager.num_levels_spec(), eviews(v.0@), v.1@), None => true };
    fn add_extended(&self, manager: &M, operator: O, operands: (&[Borrowed<M::Edge>], &[u32]), values: (&[Borrowed<M::Edge>], &[u32]))
        requires operator.inv_ext(views(operands.0@), operands.1@, manager.num_levels_spec(), views(values.0@), values.1@);
}
/// R11 helper (trusted): the irrefutable slice pattern `Some(([h], []))`
#[verifier::external_body]
pub fn cache_get1<E: Edge>(r: Option<([E; 1], [u32; 0])>) -> (o: Option<E>)
    ensures r is Some <==> o is Some, o is Some ==> o->Some_0.view() == r->Some_0.0@[0].view(),
{ match r { Some(([h], [])) => Some(h), None => None } }
pub trait HasApplyCache<M: Manager, O: CacheOp> {
    type ApplyCache: ApplyCache<M, O>;
    fn apply_cache(&self) -> &Self::ApplyCache;
}
pub trait Recursor<M: Manager>: Copy {
    spec fn switch_spec(self) -> bool;
    fn should_switch_to_sequential(self) -> (b: bool) ensures b == self.switch_spec();
}
#[derive(Clone, Copy)]
pub struct SequentialRecursor;
impl<M: Manager> Recursor<M> for SequentialRecursor {
    open spec fn switch_spec(self) -> bool { false }
    fn should_switch_to_sequential(self) -> bool { false }
}
/// stub of the multi-threaded recursor used by the `mt` wrappers.  ASSUMED: the generic apply functions meet their
/// contracts also when run with it (they are PROVED with the sequential recursor's methods inlined, rule R5; the
/// fork/join bodies of ParallelRecursor are not verified).  What the `__mt` units prove is the wrapper glue.
#[derive(Clone, Copy)]
pub struct ParallelRecursor { pub depth: u32 }
impl ParallelRecursor {
    #[verifier::external_body]
    pub fn new<M: Manager>(manager: &M) -> (r: Self) { unimplemented!() }
}
impl<M: Manager> Recursor<M> for ParallelRecursor {
    open spec fn switch_spec(self) -> bool { self.depth == 0 }
    fn should_switch_to_sequential(self) -> bool { self.depth == 0 }
}


/// the cube vector (indexed by variable) read as a constraint on assignments (indexed by level)
pub open spec fn cube_allows<M: Manager>(m: &M, c: Seq<OptBool>, env: Env, from: int) -> bool {
    forall|l: int| from <= l < m.num_levels_spec() && c[m.level_to_var_spec(l)] != OptBool::None
        ==> #[trigger] env(l) == (c[m.level_to_var_spec(l)] == OptBool::True)
}
// ---------- items copied from the real crate ----------
//@item file=crates/oxidd-rules-bdd/src/simple/mod.rs path=enum:BDDTerminal attrs="#[derive(Clone, Copy, PartialEq, Eq, Structural)]" vis=pub
//@end
//@item file=crates/oxidd-rules-bdd/src/simple/mod.rs path=enum:BDDOp attrs="#[derive(Clone, Copy, PartialEq, Eq, Structural)] #[repr(u8)]" vis=pub
//@end
//@item file=crates/oxidd-rules-bdd/src/simple/mod.rs path=enum:Operation
//@end
//@item file=crates/oxidd-rules-bdd/src/simple/mod.rs path=impl:std::ops::Not~for~BDDTerminal props=C02
//@end
impl vstd::std_specs::ops::NotSpecImpl for BDDTerminal {
    open spec fn obeys_not_spec() -> bool { true }
    open spec fn not_req(self) -> bool { true }
    open spec fn not_spec(self) -> BDDTerminal { match self { BDDTerminal::False => BDDTerminal::True, BDDTerminal::True => BDDTerminal::False } }
}
impl TermView for BDDTerminal { open spec fn tview(&self) -> bool { *self == BDDTerminal::True } }

//@item file=crates/oxidd-core/src/function.rs path=enum:BooleanOperator attrs="#[derive(Clone, Copy, PartialEq, Eq, Structural)]" vis=pub
//@end
/// operator number of a `BooleanOperator` (by name)
pub open spec fn bo_code(op: BooleanOperator) -> u8 {
    match op {
        BooleanOperator::And => BDDOp::And as u8, BooleanOperator::Or => BDDOp::Or as u8, BooleanOperator::Xor => BDDOp::Xor as u8,
        BooleanOperator::Equiv => BDDOp::Equiv as u8, BooleanOperator::Nand => BDDOp::Nand as u8, BooleanOperator::Nor => BDDOp::Nor as u8,
        BooleanOperator::Imp => BDDOp::Imp as u8, BooleanOperator::ImpStrict => BDDOp::ImpStrict as u8,
    }
}
//@item file=crates/oxidd-core/src/util/mod.rs path=enum:OptBool attrs="#[derive(Clone, Copy, PartialEq, Eq, Structural)] #[repr(i8)]" vis=pub
//@end
impl vstd::std_specs::convert::FromSpecImpl<bool> for OptBool {
    open spec fn obeys_from_spec() -> bool { true }
    open spec fn from_spec(v: bool) -> OptBool { if v { OptBool::True } else { OptBool::False } }
}
//@item file=crates/oxidd-core/src/util/mod.rs path=impl:From<bool>~for~OptBool props=C13
//@end
// ---------- per-operator cache invariants (the meaning of a cache key) ----------
pub open spec fn res_top_ok2(r: Tree, a: Tree, b: Tree) -> bool { top(r) >= top(a) || top(r) >= top(b) }
pub open spec fn not_post(f: Tree, n: int, r: Tree) -> bool {
    ok(r, n) && top(r) >= top(f) && forall|env: Env| #[trigger] sem(r, env) == !sem(f, env)
}
pub open spec fn bin_post(op: u8, f: Tree, g: Tree, n: int, r: Tree) -> bool {
    ok(r, n) && res_top_ok2(r, f, g) && forall|env: Env| #[trigger] sem(r, env) == op_sem(op, sem(f, env), sem(g, env))
}
pub open spec fn ite_post(f: Tree, g: Tree, h: Tree, n: int, r: Tree) -> bool {
    ok(r, n) && (top(r) >= top(f) || top(r) >= top(g) || top(r) >= top(h))
    && forall|env: Env| #[trigger] sem(r, env) == (if sem(f, env) { sem(g, env) } else { sem(h, env) })
}
impl CacheOp for BDDOp {
    open spec fn inv(self, operands: Seq<Tree>, n: int, res: Tree) -> bool {
        let o = self as u8;
        if o == BDDOp::Not as u8 { operands.len() == 1 && not_post(operands[0], n, res) }
        else if is_bin(o) { operands.len() == 2 && bin_post(o, operands[0], operands[1], n, res) }
        else if o == BDDOp::Ite as u8 { operands.len() == 3 && ite_post(operands[0], operands[1], operands[2], n, res) }
        else if o == BDDOp::Restrict as u8 { operands.len() == 2 && restrict_post(operands[0], operands[1], n, res) }
        else if o == BDDOp::Forall as u8 { operands.len() == 2 && quant_post(BDDOp::And as u8, operands[0], operands[1], n, res) }
        else if o == BDDOp::Exists as u8 { operands.len() == 2 && quant_post(BDDOp::Or as u8, operands[0], operands[1], n, res) }
        else if o == BDDOp::Unique as u8 { operands.len() == 2 && quant_post(BDDOp::Xor as u8, operands[0], operands[1], n, res) }
        else if aq_decode(o) is Some { operands.len() == 3 && apply_quant_post(aq_decode(o)->Some_0.0, aq_decode(o)->Some_0.1, operands[0], operands[1], operands[2], n, res) }
        else { false }
    }
    open spec fn inv_ext(self, operands: Seq<Tree>, nums: Seq<u32>, n: int, res: Seq<Tree>, res_nums: Seq<u32>) -> bool {
        if self as u8 == BDDOp::Substitute as u8 {
            operands.len() == 1 && nums.len() == 1 && res.len() == 1 && res_nums.len() == 0 && subst_post(operands[0], subst_of(nums[0]), n, res[0])
        } else { false }
    }
}

// ---------- units: crates/oxidd-rules-bdd/src/lib.rs ----------
//@fn file=crates/oxidd-rules-bdd/src/lib.rs path=fn:set_pop ret=r props=C04,C13
//@spec
    requires wf(set.view()),
    ensures r.view() == popped(set.view(), until as int),
    decreases set.view(),
//@end
// ---------- units: crates/oxidd-rules-bdd/src/simple/mod.rs ----------
// ---------- eval (C02): the assignment denoted by the `(variable, value)` pairs, last value wins ----------
pub open spec fn all_false() -> Env { |l: int| false }
pub open spec fn all_true() -> Env { |l: int| true }
/// `base` overridden by the pairs in order; `m` maps variable numbers to levels
pub open spec fn aenv(args: Seq<(u32, bool)>, m: spec_fn(int) -> int, base: Env) -> Env decreases args.len() {
    if args.len() == 0 { base } else { upd(aenv(args.drop_last(), m, base), m(args.last().0 as int), args.last().1) }
}
/// the pairs give a value to every level below `n`
pub open spec fn total(args: Seq<(u32, bool)>, m: spec_fn(int) -> int, n: int) -> bool {
    forall|l: int| 0 <= l < n ==> #[trigger] assigned(args, m, l)
}
pub open spec fn assigned(args: Seq<(u32, bool)>, m: spec_fn(int) -> int, l: int) -> bool {
    exists|i: int| 0 <= i < args.len() && m((#[trigger] args[i]).0 as int) == l
}
/// C02 "eval agrees with the node-by-node interpretation": under a total assignment the result is the value of the
/// diagram under that assignment (documented default for unassigned variables: false; irrelevant when total)
pub open spec fn eval_post(t: Tree, args: Seq<(u32, bool)>, m: spec_fn(int) -> int, n: int, r: bool) -> bool {
    total(args, m, n) ==> r == sem(t, aenv(args, m, all_false()))
}
pub broadcast proof fn lemma_aenv_push(s: Seq<(u32, bool)>, x: (u32, bool), m: spec_fn(int) -> int, base: Env)
    ensures #[trigger] aenv(s.push(x), m, base) == upd(aenv(s, m, base), m(x.0 as int), x.1),
{
    assert(s.push(x).drop_last() =~= s);
    assert(s.push(x).last() == x);
}
pub broadcast proof fn lemma_aenv_empty(m: spec_fn(int) -> int, base: Env)
    ensures #[trigger] aenv(Seq::<(u32, bool)>::empty(), m, base) == base,
{}
pub proof fn lemma_aenv_base_irrelevant(args: Seq<(u32, bool)>, m: spec_fn(int) -> int, b1: Env, b2: Env, l: int, i: int)
    requires 0 <= i < args.len(), m(args[i].0 as int) == l,
    ensures aenv(args, m, b1)(l) == aenv(args, m, b2)(l),
    decreases args.len(),
{
    if i < args.len() - 1 && m(args.last().0 as int) != l {
        assert(args.drop_last()[i] == args[i]);
        lemma_aenv_base_irrelevant(args.drop_last(), m, b1, b2, l, i);
    }
}
pub open spec fn agree_below(e1: Env, e2: Env, n: int) -> bool { forall|i: int| 0 <= i < n ==> #[trigger] e1(i) == e2(i) }
pub proof fn lemma_sem_agree_below(t: Tree, e1: Env, e2: Env, n: int)
    requires below(t, n), agree_below(e1, e2, n),
    ensures sem(t, e1) == sem(t, e2),
    decreases t,
{
    match t {
        Tree::Leaf(_) => {}
        Tree::Inner(l, a, b) => { lemma_sem_agree_below(*a, e1, e2, n); lemma_sem_agree_below(*b, e1, e2, n); }
    }
}
/// what the loop of `eval_edge` establishes (`ch` = the level -> decision map read off the bit set) implies eval_post
pub broadcast proof fn lemma_eval_post(t: Tree, args: Seq<(u32, bool)>, m: spec_fn(int) -> int, n: int, ch: Env, r: bool)
    requires below(t, n), forall|l: int| #[trigger] ch(l) == aenv(args, m, all_true())(l), r == sem(t, ch),
    ensures #[trigger] eval_post(t, args, m, n, r), #[trigger] sem(t, ch) == r,
{
    if total(args, m, n) {
        let e = aenv(args, m, all_false());
        assert(agree_below(ch, e, n)) by {
            assert forall|l: int| 0 <= l < n implies #[trigger] ch(l) == e(l) by {
                assert(assigned(args, m, l));
                let i = choose|i: int| 0 <= i < args.len() && m((#[trigger] args[i]).0 as int) == l;
                lemma_aenv_base_irrelevant(args, m, all_true(), all_false(), l, i);
            }
        }
        lemma_sem_agree_below(t, ch, e, n);
    }
}
pub broadcast group eval_lemmas { lemma_aenv_push, lemma_aenv_empty, lemma_eval_post }
/// variable number -> level map of a manager as a spec function
pub open spec fn vl<M: Manager>(m: &M) -> spec_fn(int) -> int { |v: int| m.var_to_level_spec(v) }
// ---------- uniform cube picking (C13 "selects models without bias"): float / RNG stubs ----------
/// stub of `f64` as used by `pick_cube_uniform_edge` (ASSUMED: F64 counts are exact, division is an uninterpreted function
/// `fdiv` on reals; rounding, NaN and infinities are not modelled)
#[derive(Clone, Copy)]
pub struct Fl { pub v: Ghost<real> }
impl Fl { pub open spec fn rv(self) -> real { self.v@ } }
pub uninterp spec fn fdiv(a: real, b: real) -> real;
impl std::ops::Add for Fl { type Output = Fl; #[verifier::external_body] fn add(self, rhs: Fl) -> (r: Fl) { unimplemented!() } }
impl vstd::std_specs::ops::AddSpecImpl for Fl {
    open spec fn obeys_add_spec() -> bool { true }
    open spec fn add_req(self, rhs: Fl) -> bool { true }
    open spec fn add_spec(self, rhs: Fl) -> Fl { Fl { v: Ghost(self.rv() + rhs.rv()) } }
}
impl std::ops::Div for Fl { type Output = Fl; #[verifier::external_body] fn div(self, rhs: Fl) -> (r: Fl) { unimplemented!() } }
impl vstd::std_specs::ops::DivSpecImpl for Fl {
    open spec fn obeys_div_spec() -> bool { true }
    open spec fn div_req(self, rhs: Fl) -> bool { true }
    open spec fn div_spec(self, rhs: Fl) -> Fl { Fl { v: Ghost(fdiv(self.rv(), rhs.rv())) } }
}
impl PartialEq for Fl { #[verifier::external_body] fn eq(&self, o: &Fl) -> (b: bool) { unimplemented!() } }
impl PartialOrd for Fl { #[verifier::external_body] fn partial_cmp(&self, o: &Fl) -> (r: Option<core::cmp::Ordering>) { unimplemented!() } }
impl vstd::std_specs::cmp::PartialEqSpecImpl for Fl {
    open spec fn obeys_eq_spec() -> bool { true }
    open spec fn eq_spec(&self, o: &Fl) -> bool { self.rv() == o.rv() }
}
impl vstd::std_specs::cmp::PartialOrdSpecImpl for Fl {
    open spec fn obeys_partial_cmp_spec() -> bool { true }
    open spec fn partial_cmp_spec(&self, o: &Fl) -> Option<core::cmp::Ordering> {
        if self.rv() < o.rv() { Some(core::cmp::Ordering::Less) } else if self.rv() == o.rv() { Some(core::cmp::Ordering::Equal) } else { Some(core::cmp::Ordering::Greater) }
    }
}
/// stub of `oxidd_core::util::num::F64` (newtype around f64)
pub struct F64(pub Fl);
/// stub of `oxidd_core::util::Rng`: `draw()` is the next uniform sample in [0, 1)
pub struct Rng { pub next: Ghost<real> }
impl Rng {
    pub open spec fn draw(&self) -> real { self.next@ }
    #[verifier::external_body]
    pub fn generate_f64(&mut self) -> (r: Fl) ensures r.rv() == old(self).draw(), 0real <= r.rv() < 1real { unimplemented!() }
}
mod simple {
use super::*;
broadcast use leaf_lemmas;
//@fn file=crates/oxidd-rules-bdd/src/simple/mod.rs path=fn:terminal_bin cases=OP:BDDOp::And~as~u8,BDDOp::Or~as~u8,BDDOp::Nand~as~u8,BDDOp::Nor~as~u8,BDDOp::Xor~as~u8,BDDOp::Equiv~as~u8,BDDOp::Imp~as~u8,BDDOp::ImpStrict~as~u8 props=C02,C06
//@spec
    requires is_bin(OP), edge_ok::<M::Edge>(), ok(f.view(), m.num_levels_spec()), ok(g.view(), m.num_levels_spec()),
    ensures match res {
        Operation::Done(h) => bin_post(OP, f.view(), g.view(), m.num_levels_spec(), h.view()),
        Operation::Not(x) => (x.view() == f.view() || x.view() == g.view()) && forall|env: Env| !(#[trigger] sem(x.view(), env)) == op_sem(OP, sem(f.view(), env), sem(g.view(), env)),
        Operation::Binary(o, a, b) => o as u8 == OP && is_inner(a.view()) && is_inner(b.view())
            && ((a.view() == f.view() && b.view() == g.view()) || (a.view() == g.view() && b.view() == f.view() && commutative(OP))),
    },
//@end
//@fn file=crates/oxidd-rules-bdd/src/simple/mod.rs path=fn:reduce#1 props=C01,C02,C03
//@spec
    requires edge_ok::<M::Edge>(), (level as int) < manager.num_levels_spec(),
        ok(t.view(), manager.num_levels_spec()), ok(e.view(), manager.num_levels_spec()),
        (level as int) < top(t.view()), (level as int) < top(e.view()),
    ensures res is Ok ==> ok(res->Ok_0.view(), manager.num_levels_spec()) && top(res->Ok_0.view()) >= level
        && res->Ok_0.view() == (if t.view() == e.view() { t.view() } else { mk(level, t.view(), e.view()) })
        && forall|env: Env| #[trigger] sem(res->Ok_0.view(), env) == (if env(level as int) { sem(t.view(), env) } else { sem(e.view(), env) }),
//@end
impl BDDOp {
//@fn file=crates/oxidd-rules-bdd/src/simple/mod.rs path=impl:BDDOp~(?={)/fn:from_apply_quant props=C04,C06
//@spec
    requires is_q(q), is_bin(op),
    ensures aq_decode(res as u8) == Some((q, op)),
//@end
}
//@fn file=crates/oxidd-rules-bdd/src/simple/mod.rs path=fn:collect_children mode=stub ret=r
//@spec
    ensures r.0.view() == node.then_spec(), r.1.view() == node.else_spec(),
//@end

mod apply_rec {
use super::*;
broadcast use {leaf_lemmas, quant_lemmas, quant2_lemmas, restrict_lemmas, subst_lemmas, pick_lemmas, count_lemmas, count_lemmas2};
//@fn file=crates/oxidd-rules-bdd/src/simple/apply_rec.rs path=fn:apply_not nodecr props=C02,C06
//@spec
    requires edge_ok::<M::Edge>(), ok(f.view(), manager.num_levels_spec()),
    ensures res is Ok ==> not_post(f.view(), manager.num_levels_spec(), res->Ok_0.view()),
//@end
//@fn file=crates/oxidd-rules-bdd/src/simple/apply_rec.rs path=fn:apply_bin nodecr props=C02,C06
//@spec
    requires is_bin(OP), edge_ok::<M::Edge>(), ok(f.view(), manager.num_levels_spec()), ok(g.view(), manager.num_levels_spec()),
    ensures res is Ok ==> bin_post(OP, f.view(), g.view(), manager.num_levels_spec(), res->Ok_0.view()),
//@end
//@fn file=crates/oxidd-rules-bdd/src/simple/apply_rec.rs path=fn:apply_ite nodecr props=C02,C06
//@spec
    requires edge_ok::<M::Edge>(), ok(f.view(), manager.num_levels_spec()), ok(g.view(), manager.num_levels_spec()), ok(h.view(), manager.num_levels_spec()),
    ensures res is Ok ==> ite_post(f.view(), g.view(), h.view(), manager.num_levels_spec(), res->Ok_0.view()),
//@end
//@item file=crates/oxidd-rules-bdd/src/simple/apply_rec.rs path=fn:restrict/enum:InnerResult rename=restrict__InnerResult
//@end
//@fn file=crates/oxidd-rules-bdd/src/simple/apply_rec.rs path=fn:restrict/fn:inner rename=restrict__inner subst=InnerResult>restrict__InnerResult props=C04
//@spec
    requires edge_ok::<M::Edge>(), ok(f.view(), manager.num_levels_spec()), ok(vars.view(), manager.num_levels_spec()),
        f.view() == mk(fnode.level_spec(), fnode.then_spec(), fnode.else_spec()), flevel == fnode.level_spec(),
        vars.view() == mk(vnode.level_spec(), vnode.then_spec(), vnode.else_spec()),
    ensures match res {
        restrict__InnerResult::Done(r) => restrict_post(f.view(), vars.view(), manager.num_levels_spec(), r.view()),
        restrict__InnerResult::Rec { vars: v2, f: f2, fnode: fn2 } =>
            f2.view() == mk(fn2.level_spec(), fn2.then_spec(), fn2.else_spec())
            && ok(f2.view(), manager.num_levels_spec()) && ok(v2.view(), manager.num_levels_spec())
            && is_inner(v2.view()) && top(v2.view()) > top(f2.view()) && top(f2.view()) >= top(f.view())
            && forall|env: Env| sem(f2.view(), cenv(v2.view(), env)) == #[trigger] sem(f.view(), cenv(vars.view(), env)),
    },
    decreases f.view(), vars.view(),
//@end
//@fn file=crates/oxidd-rules-bdd/src/simple/apply_rec.rs path=fn:restrict hoist=inner>restrict__inner,InnerResult>restrict__InnerResult nodecr props=C04,C06
//@spec
    requires edge_ok::<M::Edge>(), ok(f.view(), manager.num_levels_spec()), ok(vars.view(), manager.num_levels_spec()),
    ensures res is Ok ==> restrict_post(f.view(), vars.view(), manager.num_levels_spec(), res->Ok_0.view()),
//@end
//@fn file=crates/oxidd-rules-bdd/src/simple/apply_rec.rs path=fn:quant nodecr props=C04,C06
//@spec
    requires is_q(Q), edge_ok::<M::Edge>(), ok(f.view(), manager.num_levels_spec()), ok(vars.view(), manager.num_levels_spec()),
    ensures res is Ok ==> quant_post(Q, f.view(), vars.view(), manager.num_levels_spec(), res->Ok_0.view()),
//@end
//@fn file=crates/oxidd-rules-bdd/src/simple/apply_rec.rs path=fn:apply_quant nodecr props=C04,C06 cases=Q:BDDOp::And~as~u8,BDDOp::Or~as~u8,BDDOp::Xor~as~u8
//@spec
    requires is_q(Q), is_bin(OP), edge_ok::<M::Edge>(), ok(f.view(), manager.num_levels_spec()), ok(g.view(), manager.num_levels_spec()), ok(vars.view(), manager.num_levels_spec()),
    ensures res is Ok ==> apply_quant_post(Q, OP, f.view(), g.view(), vars.view(), manager.num_levels_spec(), res->Ok_0.view()),
//@end
//@fn file=crates/oxidd-rules-bdd/src/simple/apply_rec.rs path=fn:apply_quant_dispatch props=C04
//@spec
    requires is_q(Q), edge_ok::<M::Edge>(), ok(f.view(), manager.num_levels_spec()), ok(g.view(), manager.num_levels_spec()), ok(vars.view(), manager.num_levels_spec()),
    ensures res is Ok ==> apply_quant_post(Q, bo_code(op), f.view(), g.view(), vars.view(), manager.num_levels_spec(), res->Ok_0.view()),
//@end
// ---------- substitute_prepare: the two loop bodies, outlined verbatim (rule R16; the iteration glue itself is not verified) ----------
//@fn file=crates/oxidd-rules-bdd/src/simple/apply_rec.rs path=fn:substitute_prepare loopbody=0 looppat=(v,~r) rename=substitute_prepare__loop0 props=C04
//@header
fn substitute_prepare__loop0<'a, M>(manager: &'a M, subst: &mut Vec<Option<Borrowed<'a, M::Edge>>>, v: VarNo, r: Borrowed<'a, M::Edge>)
where M: Manager<Terminal = BDDTerminal>, M::Edge: 'a, M::InnerNode: HasLevel,
//@spec
    requires (v as int) < manager.num_levels_spec(),
    ensures ({ let level = manager.var_to_level_spec(v as int);
        // the replacement is recorded at the level of `v`, nothing recorded before is lost
        &&& final(subst)@.len() == (if level < old(subst)@.len() { old(subst)@.len() as int } else { level + 1 })
        &&& final(subst)@[level] == Some(r)
        &&& forall|i: int| 0 <= i < old(subst)@.len() && i != level ==> final(subst)@[i] == old(subst)@[i] }),
        // not checked: that the gap entries created by `resize_with(.., || None)` are None (Verus derives no contract for the closure)
//@end
//@fn file=crates/oxidd-rules-bdd/src/simple/apply_rec.rs path=fn:substitute_prepare loopbody=1 looppat=(level,~e) rename=substitute_prepare__loop1 tail=Ok(()) props=C04,C14
//@header
fn substitute_prepare__loop1<'a, M>(manager: &'a M, res: &mut EdgeVecDropGuard<'a, M>, level: usize, e: Option<Borrowed<'a, M::Edge>>) -> (r: AllocResult<()>)
where M: Manager<Terminal = BDDTerminal>, M::Edge: 'a, M::InnerNode: HasLevel,
//@spec
    requires (level as int) < manager.num_levels_spec() <= u32::MAX as int,
    ensures r is Ok ==> final(res)@.len() == old(res)@.len() + 1
        && (forall|i: int| 0 <= i < old(res)@.len() ==> final(res)@[i] == old(res)@[i])
        // a listed level maps to its replacement, an unlisted level to the function of the variable AT THAT LEVEL
        && final(res)@[old(res)@.len() as int].view() == (match e { Some(x) => x.view(), None => mk(level as u32, Tree::Leaf(true), Tree::Leaf(false)) }),
//@end
//@fn file=crates/oxidd-rules-bdd/src/simple/apply_rec.rs path=fn:substitute nodecr props=C04,C06
//@spec
    requires edge_ok::<M::Edge>(), ok(f.view(), manager.num_levels_spec()), all_ok(subst@, manager.num_levels_spec()),
        eviews(subst@) == subst_of(cache_id),
    ensures res is Ok ==> subst_post(f.view(), eviews(subst@), manager.num_levels_spec(), res->Ok_0.view()),
//@end
//@fn file=crates/oxidd-rules-bdd/src/simple/apply_rec.rs path=impl:BooleanFunctionQuant~for~BDDFunction<F>/fn:forall_edge props=C04
//@header
fn forall_edge<M>(manager: &M, root: &M::Edge, vars: &M::Edge) -> (res: AllocResult<M::Edge>)
where M: Manager<Terminal = BDDTerminal> + HasApplyCache<M, BDDOp>, M::InnerNode: HasLevel,
//@spec
    requires edge_ok::<M::Edge>(), ok(root.view(), manager.num_levels_spec()), ok(vars.view(), manager.num_levels_spec()),
    ensures res is Ok ==> quant_post(BDDOp::And as u8, root.view(), vars.view(), manager.num_levels_spec(), res->Ok_0.view()),
//@end
//@fn file=crates/oxidd-rules-bdd/src/simple/apply_rec.rs path=mod:mt/impl:BooleanFunctionQuant~for~BDDFunctionMT<F>/fn:forall_edge name=forall_edge__mt props=C04
//@header
fn forall_edge__mt<M>(manager: &M, root: &M::Edge, vars: &M::Edge) -> (res: AllocResult<M::Edge>)
where M: Manager<Terminal = BDDTerminal> + HasApplyCache<M, BDDOp>, M::InnerNode: HasLevel,
//@spec
    requires edge_ok::<M::Edge>(), ok(root.view(), manager.num_levels_spec()), ok(vars.view(), manager.num_levels_spec()),
    ensures res is Ok ==> quant_post(BDDOp::And as u8, root.view(), vars.view(), manager.num_levels_spec(), res->Ok_0.view()),
//@end
//@fn file=crates/oxidd-rules-bdd/src/simple/apply_rec.rs path=impl:BooleanFunctionQuant~for~BDDFunction<F>/fn:apply_forall_edge props=C04
//@header
fn apply_forall_edge<M>(manager: &M, op: BooleanOperator, lhs: &M::Edge, rhs: &M::Edge, vars: &M::Edge) -> (res: AllocResult<M::Edge>)
where M: Manager<Terminal = BDDTerminal> + HasApplyCache<M, BDDOp>, M::InnerNode: HasLevel,
//@spec
    requires edge_ok::<M::Edge>(), ok(lhs.view(), manager.num_levels_spec()), ok(rhs.view(), manager.num_levels_spec()), ok(vars.view(), manager.num_levels_spec()),
    ensures res is Ok ==> apply_quant_post(BDDOp::And as u8, bo_code(op), lhs.view(), rhs.view(), vars.view(), manager.num_levels_spec(), res->Ok_0.view()),
//@end
//@fn file=crates/oxidd-rules-bdd/src/simple/apply_rec.rs path=mod:mt/impl:BooleanFunctionQuant~for~BDDFunctionMT<F>/fn:apply_forall_edge name=apply_forall_edge__mt props=C04
//@header
fn apply_forall_edge__mt<M>(manager: &M, op: BooleanOperator, lhs: &M::Edge, rhs: &M::Edge, vars: &M::Edge) -> (res: AllocResult<M::Edge>)
where M: Manager<Terminal = BDDTerminal> + HasApplyCache<M, BDDOp>, M::InnerNode: HasLevel,
//@spec
    requires edge_ok::<M::Edge>(), ok(lhs.view(), manager.num_levels_spec()), ok(rhs.view(), manager.num_levels_spec()), ok(vars.view(), manager.num_levels_spec()),
    ensures res is Ok ==> apply_quant_post(BDDOp::And as u8, bo_code(op), lhs.view(), rhs.view(), vars.view(), manager.num_levels_spec(), res->Ok_0.view()),
//@end
//@fn file=crates/oxidd-rules-bdd/src/simple/apply_rec.rs path=impl:BooleanFunctionQuant~for~BDDFunction<F>/fn:exists_edge props=C04
//@header
fn exists_edge<M>(manager: &M, root: &M::Edge, vars: &M::Edge) -> (res: AllocResult<M::Edge>)
where M: Manager<Terminal = BDDTerminal> + HasApplyCache<M, BDDOp>, M::InnerNode: HasLevel,
//@spec
    requires edge_ok::<M::Edge>(), ok(root.view(), manager.num_levels_spec()), ok(vars.view(), manager.num_levels_spec()),
    ensures res is Ok ==> quant_post(BDDOp::Or as u8, root.view(), vars.view(), manager.num_levels_spec(), res->Ok_0.view()),
//@end
//@fn file=crates/oxidd-rules-bdd/src/simple/apply_rec.rs path=mod:mt/impl:BooleanFunctionQuant~for~BDDFunctionMT<F>/fn:exists_edge name=exists_edge__mt props=C04
//@header
fn exists_edge__mt<M>(manager: &M, root: &M::Edge, vars: &M::Edge) -> (res: AllocResult<M::Edge>)
where M: Manager<Terminal = BDDTerminal> + HasApplyCache<M, BDDOp>, M::InnerNode: HasLevel,
//@spec
    requires edge_ok::<M::Edge>(), ok(root.view(), manager.num_levels_spec()), ok(vars.view(), manager.num_levels_spec()),
    ensures res is Ok ==> quant_post(BDDOp::Or as u8, root.view(), vars.view(), manager.num_levels_spec(), res->Ok_0.view()),
//@end
//@fn file=crates/oxidd-rules-bdd/src/simple/apply_rec.rs path=impl:BooleanFunctionQuant~for~BDDFunction<F>/fn:apply_exists_edge props=C04
//@header
fn apply_exists_edge<M>(manager: &M, op: BooleanOperator, lhs: &M::Edge, rhs: &M::Edge, vars: &M::Edge) -> (res: AllocResult<M::Edge>)
where M: Manager<Terminal = BDDTerminal> + HasApplyCache<M, BDDOp>, M::InnerNode: HasLevel,
//@spec
    requires edge_ok::<M::Edge>(), ok(lhs.view(), manager.num_levels_spec()), ok(rhs.view(), manager.num_levels_spec()), ok(vars.view(), manager.num_levels_spec()),
    ensures res is Ok ==> apply_quant_post(BDDOp::Or as u8, bo_code(op), lhs.view(), rhs.view(), vars.view(), manager.num_levels_spec(), res->Ok_0.view()),
//@end
//@fn file=crates/oxidd-rules-bdd/src/simple/apply_rec.rs path=mod:mt/impl:BooleanFunctionQuant~for~BDDFunctionMT<F>/fn:apply_exists_edge name=apply_exists_edge__mt props=C04
//@header
fn apply_exists_edge__mt<M>(manager: &M, op: BooleanOperator, lhs: &M::Edge, rhs: &M::Edge, vars: &M::Edge) -> (res: AllocResult<M::Edge>)
where M: Manager<Terminal = BDDTerminal> + HasApplyCache<M, BDDOp>, M::InnerNode: HasLevel,
//@spec
    requires edge_ok::<M::Edge>(), ok(lhs.view(), manager.num_levels_spec()), ok(rhs.view(), manager.num_levels_spec()), ok(vars.view(), manager.num_levels_spec()),
    ensures res is Ok ==> apply_quant_post(BDDOp::Or as u8, bo_code(op), lhs.view(), rhs.view(), vars.view(), manager.num_levels_spec(), res->Ok_0.view()),
//@end
//@fn file=crates/oxidd-rules-bdd/src/simple/apply_rec.rs path=impl:BooleanFunctionQuant~for~BDDFunction<F>/fn:unique_edge props=C04
//@header
fn unique_edge<M>(manager: &M, root: &M::Edge, vars: &M::Edge) -> (res: AllocResult<M::Edge>)
where M: Manager<Terminal = BDDTerminal> + HasApplyCache<M, BDDOp>, M::InnerNode: HasLevel,
//@spec
    requires edge_ok::<M::Edge>(), ok(root.view(), manager.num_levels_spec()), ok(vars.view(), manager.num_levels_spec()),
    ensures res is Ok ==> quant_post(BDDOp::Xor as u8, root.view(), vars.view(), manager.num_levels_spec(), res->Ok_0.view()),
//@end
//@fn file=crates/oxidd-rules-bdd/src/simple/apply_rec.rs path=mod:mt/impl:BooleanFunctionQuant~for~BDDFunctionMT<F>/fn:unique_edge name=unique_edge__mt props=C04
//@header
fn unique_edge__mt<M>(manager: &M, root: &M::Edge, vars: &M::Edge) -> (res: AllocResult<M::Edge>)
where M: Manager<Terminal = BDDTerminal> + HasApplyCache<M, BDDOp>, M::InnerNode: HasLevel,
//@spec
    requires edge_ok::<M::Edge>(), ok(root.view(), manager.num_levels_spec()), ok(vars.view(), manager.num_levels_spec()),
    ensures res is Ok ==> quant_post(BDDOp::Xor as u8, root.view(), vars.view(), manager.num_levels_spec(), res->Ok_0.view()),
//@end
//@fn file=crates/oxidd-rules-bdd/src/simple/apply_rec.rs path=impl:BooleanFunctionQuant~for~BDDFunction<F>/fn:apply_unique_edge props=C04
//@header
fn apply_unique_edge<M>(manager: &M, op: BooleanOperator, lhs: &M::Edge, rhs: &M::Edge, vars: &M::Edge) -> (res: AllocResult<M::Edge>)
where M: Manager<Terminal = BDDTerminal> + HasApplyCache<M, BDDOp>, M::InnerNode: HasLevel,
//@spec
    requires edge_ok::<M::Edge>(), ok(lhs.view(), manager.num_levels_spec()), ok(rhs.view(), manager.num_levels_spec()), ok(vars.view(), manager.num_levels_spec()),
    ensures res is Ok ==> apply_quant_post(BDDOp::Xor as u8, bo_code(op), lhs.view(), rhs.view(), vars.view(), manager.num_levels_spec(), res->Ok_0.view()),
//@end
//@fn file=crates/oxidd-rules-bdd/src/simple/apply_rec.rs path=mod:mt/impl:BooleanFunctionQuant~for~BDDFunctionMT<F>/fn:apply_unique_edge name=apply_unique_edge__mt props=C04
//@header
fn apply_unique_edge__mt<M>(manager: &M, op: BooleanOperator, lhs: &M::Edge, rhs: &M::Edge, vars: &M::Edge) -> (res: AllocResult<M::Edge>)
where M: Manager<Terminal = BDDTerminal> + HasApplyCache<M, BDDOp>, M::InnerNode: HasLevel,
//@spec
    requires edge_ok::<M::Edge>(), ok(lhs.view(), manager.num_levels_spec()), ok(rhs.view(), manager.num_levels_spec()), ok(vars.view(), manager.num_levels_spec()),
    ensures res is Ok ==> apply_quant_post(BDDOp::Xor as u8, bo_code(op), lhs.view(), rhs.view(), vars.view(), manager.num_levels_spec(), res->Ok_0.view()),
//@end
//@fn file=crates/oxidd-rules-bdd/src/simple/apply_rec.rs path=impl:BooleanFunction~for~BDDFunction<F>/fn:restrict_edge props=C04
//@header
fn restrict_edge<M>(manager: &M, root: &M::Edge, vars: &M::Edge) -> (res: AllocResult<M::Edge>)
where M: Manager<Terminal = BDDTerminal> + HasApplyCache<M, BDDOp>, M::InnerNode: HasLevel,
//@spec
    requires edge_ok::<M::Edge>(), ok(root.view(), manager.num_levels_spec()), ok(vars.view(), manager.num_levels_spec()),
    ensures res is Ok ==> restrict_post(root.view(), vars.view(), manager.num_levels_spec(), res->Ok_0.view()),
//@end
//@fn file=crates/oxidd-rules-bdd/src/simple/apply_rec.rs path=mod:mt/impl:BooleanFunction~for~BDDFunctionMT<F>/fn:restrict_edge name=restrict_edge__mt props=C04
//@header
fn restrict_edge__mt<M>(manager: &M, root: &M::Edge, vars: &M::Edge) -> (res: AllocResult<M::Edge>)
where M: Manager<Terminal = BDDTerminal> + HasApplyCache<M, BDDOp>, M::InnerNode: HasLevel,
//@spec
    requires edge_ok::<M::Edge>(), ok(root.view(), manager.num_levels_spec()), ok(vars.view(), manager.num_levels_spec()),
    ensures res is Ok ==> restrict_post(root.view(), vars.view(), manager.num_levels_spec(), res->Ok_0.view()),
//@end
//@fn file=crates/oxidd-rules-bdd/src/simple/apply_rec.rs path=fn:literal_set_pop ret=r props=C13
//@spec
    requires wf(set.view()),
    ensures r.view() == lpopped(set.view(), until as int),
    decreases set.view(),
//@end
//@fn file=crates/oxidd-rules-bdd/src/simple/apply_rec.rs path=impl:BooleanFunction~for~BDDFunction<F>/fn:pick_cube_dd_edge/fn:inner rename=pick_cube_dd_edge__inner props=C13
//@spec
    requires edge_ok::<M::Edge>(), ok(edge.view(), manager.num_levels_spec()),
        // the choice function may be consulted only with a node whose two children are both satisfiable, and with that node's level
        forall|mm: &M, ee: &M::Edge, l: LevelNo| (ee.view() matches Tree::Inner(k, a, b) && k == l && *a != ff() && *b != ff()) ==> #[trigger] choice.requires((mm, ee, l)),
    ensures res is Ok ==> pick_ok(edge.view(), Tree::Leaf(true), res->Ok_0.view()) && ok(res->Ok_0.view(), manager.num_levels_spec()),
        // wherever the value is not forced it is the value returned by the caller's choice function
        res is Ok ==> forall|o: spec_fn(Tree, u32) -> bool| (forall|mm: &M, ee: &M::Edge, l: LevelNo, r: bool| #[trigger] choice.ensures((mm, ee, l), r) ==> r == o(ee.view(), l))
            ==> #[trigger] pick_follows(edge.view(), o, res->Ok_0.view()),
    decreases edge.view(),
//@end
//@fn file=crates/oxidd-rules-bdd/src/simple/apply_rec.rs path=impl:BooleanFunction~for~BDDFunction<F>/fn:pick_cube_dd_set_edge/fn:inner rename=pick_cube_dd_set_edge__inner props=C13
//@spec
    requires edge_ok::<M::Edge>(), ok(edge.view(), manager.num_levels_spec()), ok(literal_set.view(), manager.num_levels_spec()),
    ensures res is Ok ==> pick_ok(edge.view(), literal_set.view(), res->Ok_0.view()) && ok(res->Ok_0.view(), manager.num_levels_spec()),
    decreases edge.view(),
//@end
//@fn file=crates/oxidd-rules-bdd/src/simple/apply_rec.rs path=impl:BooleanFunction~for~BDDFunction<F>/fn:pick_cube_edge hoist=inner>pick_cube_edge__inner ret=r props=C13
//@header
fn pick_cube_edge<M>(manager: &M, edge: &M::Edge, choice: impl FnMut(&M, &M::Edge, LevelNo) -> bool) -> (r: Option<Vec<OptBool>>)
where M: Manager<Terminal = BDDTerminal> + HasApplyCache<M, BDDOp>, M::InnerNode: HasLevel,
//@spec
    requires edge_ok::<M::Edge>(), ok(edge.view(), manager.num_levels_spec()),
        forall|l: int| 0 <= l < manager.num_levels_spec() ==> 0 <= #[trigger] manager.level_to_var_spec(l) < manager.num_levels_spec() && manager.var_to_level_spec(manager.level_to_var_spec(l)) == l,
        forall|mm: &M, ee: &M::Edge, l: LevelNo| (ee.view() matches Tree::Inner(k, a, b) && k == l && *a != ff() && *b != ff()) ==> #[trigger] choice.requires((mm, ee, l)),
    // nothing exactly for the false function; otherwise a vector (one entry per variable) whose literals imply the function
    ensures (r is None) == (edge.view() == ff()),
        r is Some ==> r->Some_0@.len() == manager.num_levels_spec()
            && forall|env: Env| cube_allows(manager, r->Some_0@, env, 0) ==> #[trigger] sem(edge.view(), env),
//@end
//@fn file=crates/oxidd-rules-bdd/src/simple/apply_rec.rs path=mod:mt/impl:BooleanFunction~for~BDDFunctionMT<F>/fn:pick_cube_edge name=pick_cube_edge__mt props=C13 ret=r subst_text=BDDFunction::<F>::::=
//@header
fn pick_cube_edge__mt<M>(manager: &M, edge: &M::Edge, choice: impl FnMut(&M, &M::Edge, LevelNo) -> bool) -> (r: Option<Vec<OptBool>>)
where M: Manager<Terminal = BDDTerminal> + HasApplyCache<M, BDDOp>, M::InnerNode: HasLevel,
//@spec
    requires edge_ok::<M::Edge>(), ok(edge.view(), manager.num_levels_spec()),
        forall|l: int| 0 <= l < manager.num_levels_spec() ==> 0 <= #[trigger] manager.level_to_var_spec(l) < manager.num_levels_spec() && manager.var_to_level_spec(manager.level_to_var_spec(l)) == l,
        forall|mm: &M, ee: &M::Edge, l: LevelNo| (ee.view() matches Tree::Inner(k, a, b) && k == l && *a != ff() && *b != ff()) ==> #[trigger] choice.requires((mm, ee, l)),
    // nothing exactly for the false function; otherwise a vector (one entry per variable) whose literals imply the function
    ensures (r is None) == (edge.view() == ff()),
        r is Some ==> r->Some_0@.len() == manager.num_levels_spec()
            && forall|env: Env| cube_allows(manager, r->Some_0@, env, 0) ==> #[trigger] sem(edge.view(), env),
//@end
//@fn file=crates/oxidd-rules-bdd/src/simple/apply_rec.rs path=impl:BooleanFunction~for~BDDFunction<F>/fn:pick_cube_dd_edge hoist=inner>pick_cube_dd_edge__inner props=C13
//@header
fn pick_cube_dd_edge<M>(manager: &M, edge: &M::Edge, choice: impl FnMut(&M, &M::Edge, LevelNo) -> bool) -> (res: AllocResult<M::Edge>)
where M: Manager<Terminal = BDDTerminal> + HasApplyCache<M, BDDOp>, M::InnerNode: HasLevel,
//@spec
    requires edge_ok::<M::Edge>(), ok(edge.view(), manager.num_levels_spec()),
        forall|mm: &M, ee: &M::Edge, l: LevelNo| (ee.view() matches Tree::Inner(k, a, b) && k == l && *a != ff() && *b != ff()) ==> #[trigger] choice.requires((mm, ee, l)),
    ensures res is Ok ==> pick_ok(edge.view(), Tree::Leaf(true), res->Ok_0.view()) && ok(res->Ok_0.view(), manager.num_levels_spec()),
        res is Ok ==> forall|o: spec_fn(Tree, u32) -> bool| (forall|mm: &M, ee: &M::Edge, l: LevelNo, r: bool| #[trigger] choice.ensures((mm, ee, l), r) ==> r == o(ee.view(), l))
            ==> #[trigger] pick_follows(edge.view(), o, res->Ok_0.view()),
//@end
//@fn file=crates/oxidd-rules-bdd/src/simple/apply_rec.rs path=mod:mt/impl:BooleanFunction~for~BDDFunctionMT<F>/fn:pick_cube_dd_edge name=pick_cube_dd_edge__mt props=C13 subst_text=BDDFunction::<F>::::=
//@header
fn pick_cube_dd_edge__mt<M>(manager: &M, edge: &M::Edge, choice: impl FnMut(&M, &M::Edge, LevelNo) -> bool) -> (res: AllocResult<M::Edge>)
where M: Manager<Terminal = BDDTerminal> + HasApplyCache<M, BDDOp>, M::InnerNode: HasLevel,
//@spec
    requires edge_ok::<M::Edge>(), ok(edge.view(), manager.num_levels_spec()),
        forall|mm: &M, ee: &M::Edge, l: LevelNo| (ee.view() matches Tree::Inner(k, a, b) && k == l && *a != ff() && *b != ff()) ==> #[trigger] choice.requires((mm, ee, l)),
    ensures res is Ok ==> pick_ok(edge.view(), Tree::Leaf(true), res->Ok_0.view()) && ok(res->Ok_0.view(), manager.num_levels_spec()),
        res is Ok ==> forall|o: spec_fn(Tree, u32) -> bool| (forall|mm: &M, ee: &M::Edge, l: LevelNo, r: bool| #[trigger] choice.ensures((mm, ee, l), r) ==> r == o(ee.view(), l))
            ==> #[trigger] pick_follows(edge.view(), o, res->Ok_0.view()),
//@end
//@fn file=crates/oxidd-rules-bdd/src/simple/apply_rec.rs path=impl:BooleanFunction~for~BDDFunction<F>/fn:pick_cube_dd_set_edge hoist=inner>pick_cube_dd_set_edge__inner props=C13
//@header
fn pick_cube_dd_set_edge<M>(manager: &M, edge: &M::Edge, literal_set: &M::Edge) -> (res: AllocResult<M::Edge>)
where M: Manager<Terminal = BDDTerminal> + HasApplyCache<M, BDDOp>, M::InnerNode: HasLevel,
//@spec
    requires edge_ok::<M::Edge>(), ok(edge.view(), manager.num_levels_spec()), ok(literal_set.view(), manager.num_levels_spec()),
    ensures res is Ok ==> pick_ok(edge.view(), literal_set.view(), res->Ok_0.view()) && ok(res->Ok_0.view(), manager.num_levels_spec()),
//@end
//@fn file=crates/oxidd-rules-bdd/src/simple/apply_rec.rs path=mod:mt/impl:BooleanFunction~for~BDDFunctionMT<F>/fn:pick_cube_dd_set_edge name=pick_cube_dd_set_edge__mt props=C13 subst_text=BDDFunction::<F>::::=
//@header
fn pick_cube_dd_set_edge__mt<M>(manager: &M, edge: &M::Edge, literal_set: &M::Edge) -> (res: AllocResult<M::Edge>)
where M: Manager<Terminal = BDDTerminal> + HasApplyCache<M, BDDOp>, M::InnerNode: HasLevel,
//@spec
    requires edge_ok::<M::Edge>(), ok(edge.view(), manager.num_levels_spec()), ok(literal_set.view(), manager.num_levels_spec()),
    ensures res is Ok ==> pick_ok(edge.view(), literal_set.view(), res->Ok_0.view()) && ok(res->Ok_0.view(), manager.num_levels_spec()),
//@end
impl<N: SatCountNumber, S> SatCountCache<N, S> {
//@fn file=crates/oxidd-core/src/util/mod.rs path=impl:BuildHasher>~SatCountCache<N,~S>/fn:clear_if_invalid props=C12,C06 vis=pub
//@spec
    requires cache_inv(old(self), manager),
    ensures final(self).epoch == manager.gc_count_spec(), final(self).vars == vars, final(self).cache_all == old(self).cache_all,
        cache_valid(final(self), pow2(vars as nat)), cache_inv(final(self), manager),
//@end
}
//@fn file=crates/oxidd-rules-bdd/src/simple/apply_rec.rs path=impl:BooleanFunction~for~BDDFunction<F>/fn:sat_count_edge/fn:inner rename=sat_count_edge__inner props=C12
//@header
fn sat_count_edge__inner<M: Manager<Terminal = BDDTerminal>, N: SatCountNumber, S>(manager: &M, e: Borrowed<M::Edge>, terminal_val: &N, cache: &mut SatCountCache<N, S>) -> (res: N)
//@spec
    requires num_ok::<N>(), wf(e.view()), cache_valid(old(cache), terminal_val.nv()),
    ensures res.nv() == scnt(e.view(), terminal_val.nv()), cache_valid(final(cache), terminal_val.nv()),
        final(cache).epoch == old(cache).epoch, final(cache).vars == old(cache).vars,
    decreases e.view(),
//@end
//@fn file=crates/oxidd-rules-bdd/src/simple/apply_rec.rs path=impl:BooleanFunction~for~BDDFunction<F>/fn:pick_cube_edge/fn:inner rename=pick_cube_edge__inner props=C13
//@spec
    requires edge_ok::<M::Edge>(), ok(edge.view(), manager.num_levels_spec()), edge.view() != ff(),
        old(cube)@.len() == manager.num_levels_spec(),
        forall|l: int| top(edge.view()) <= l < manager.num_levels_spec() ==> old(cube)@[#[trigger] manager.level_to_var_spec(l)] == OptBool::None,
        forall|l: int| 0 <= l < manager.num_levels_spec() ==> 0 <= #[trigger] manager.level_to_var_spec(l) < manager.num_levels_spec() && manager.var_to_level_spec(manager.level_to_var_spec(l)) == l,
        forall|mm: &M, ee: &M::Edge, l: LevelNo| (ee.view() matches Tree::Inner(k, a, b) && k == l && *a != ff() && *b != ff()) ==> #[trigger] choice.requires((mm, ee, l)),
    ensures final(cube)@.len() == old(cube)@.len(),
        // positions of levels above the diagram are untouched
        forall|l: int| 0 <= l < top(edge.view()) && l < manager.num_levels_spec() ==> final(cube)@[#[trigger] manager.level_to_var_spec(l)] == old(cube)@[manager.level_to_var_spec(l)],
        // the literals written describe a cube that implies the function
        forall|env: Env| cube_allows(manager, final(cube)@, env, top(edge.view())) ==> #[trigger] sem(edge.view(), env),
    decreases edge.view(),
//@end
//@fn file=crates/oxidd-rules-bdd/src/simple/apply_rec.rs path=impl:BooleanFunction~for~BDDFunction<F>/fn:sat_count_edge hoist=inner>sat_count_edge__inner props=C12
//@header
fn sat_count_edge<M: Manager<Terminal = BDDTerminal>, N: SatCountNumber, S>(manager: &M, edge: &M::Edge, vars: LevelNo, cache: &mut SatCountCache<N, S>) -> (res: N)
//@spec
    requires num_ok::<N>(), N::MIN_EXP == 0, ok(edge.view(), vars as int), cache_inv(old(cache), manager),
    ensures res.nv() == cnt(edge.view(), 0, vars as int), cache_inv(final(cache), manager),
//@end
//@fn file=crates/oxidd-rules-bdd/src/simple/apply_rec.rs path=mod:mt/impl:BooleanFunction~for~BDDFunctionMT<F>/fn:sat_count_edge name=sat_count_edge__mt props=C12 subst_text=BDDFunction::<F>::::=
//@header
fn sat_count_edge__mt<M: Manager<Terminal = BDDTerminal>, N: SatCountNumber, S>(manager: &M, edge: &M::Edge, vars: LevelNo, cache: &mut SatCountCache<N, S>) -> (res: N)
//@spec
    requires num_ok::<N>(), N::MIN_EXP == 0, ok(edge.view(), vars as int), cache_inv(old(cache), manager),
    ensures res.nv() == cnt(edge.view(), 0, vars as int), cache_inv(final(cache), manager),
//@end
// ---------- cofactors (C02): DiagramRules::cofactor of BDDRules and the default methods cofactors_node / cofactors_edge ----------
pub struct BDDRules;
impl BDDRules {
//@fn file=crates/oxidd-rules-bdd/src/simple/mod.rs path=impl:DiagramRules<E,~N,~BDDTerminal>~for~BDDRules/fn:cofactor ret=r props=C02 vis=pub
//@header
fn cofactor<E: Edge, N: InnerNode<E>>(_tag: (), node: &N, n: usize) -> (r: Borrowed<'_, E>)
//@spec
    requires n < 2,
    ensures r.view() == (if n == 0 { node.then_spec() } else { node.else_spec() }),
//@end
}
/// what `<<Self::Manager as Manager>::Rules as DiagramRules<_,_,_>>::cofactor` denotes for the simple BDD (proved above)
pub fn rules_cofactor<E: Edge, N: InnerNode<E>>(tag: (), node: &N, n: usize) -> (r: Borrowed<'_, E>)
    requires n < 2,
    ensures r.view() == (if n == 0 { node.then_spec() } else { node.else_spec() }),
{ BDDRules::cofactor(tag, node, n) }
//@fn file=crates/oxidd-core/src/function.rs path=trait:BooleanFunction/fn:cofactors_node ret=r props=C02,C13 vis=pub subst_text=let~cofactor~=~<<Self::Manager<@Q@id>~as~Manager>::Rules~as~DiagramRules<_,~_,~_>>::cofactor;::=;;cofactor(tag::=rules_cofactor(tag
//@header
fn cofactors_node<'a, M>(tag: (), node: &'a M::InnerNode) -> (r: (Borrowed<'a, M::Edge>, Borrowed<'a, M::Edge>))
where M: Manager<Terminal = BDDTerminal>,
//@spec
    ensures r.0.view() == node.then_spec(), r.1.view() == node.else_spec(),
//@end
//@fn file=crates/oxidd-core/src/function.rs path=trait:BooleanFunction/fn:cofactors_edge ret=r props=C02 selfcall=Self::> subst_text=cofactors_node(f.tag(),~node)::=cofactors_node::<M>((),~node)
//@header
fn cofactors_edge<'a, M>(manager: &'a M, f: &'a M::Edge) -> (r: Option<(Borrowed<'a, M::Edge>, Borrowed<'a, M::Edge>)>)
where M: Manager<Terminal = BDDTerminal>,
//@spec
    ensures match r {
        Some(c) => f.view() matches Tree::Inner(_, a, b) && c.0.view() == *a && c.1.view() == *b,
        None => f.view() is Leaf,
    },
//@end
//@fn file=crates/oxidd-rules-bdd/src/simple/apply_rec.rs path=impl:BooleanFunction~for~BDDFunction<F>/fn:and_edge props=C02
//@header
fn and_edge<M>(manager: &M, lhs: &M::Edge, rhs: &M::Edge) -> (res: AllocResult<M::Edge>)
where M: Manager<Terminal = BDDTerminal> + HasApplyCache<M, BDDOp>, M::InnerNode: HasLevel,
//@spec
    requires edge_ok::<M::Edge>(), ok(lhs.view(), manager.num_levels_spec()), ok(rhs.view(), manager.num_levels_spec()),
    ensures res is Ok ==> ok(res->Ok_0.view(), manager.num_levels_spec())
        && forall|env: Env| #[trigger] sem(res->Ok_0.view(), env) == prop_and(sem(lhs.view(), env), sem(rhs.view(), env)),
//@end
//@fn file=crates/oxidd-rules-bdd/src/simple/apply_rec.rs path=mod:mt/impl:BooleanFunction~for~BDDFunctionMT<F>/fn:and_edge name=and_edge__mt props=C02
//@header
fn and_edge__mt<M>(manager: &M, lhs: &M::Edge, rhs: &M::Edge) -> (res: AllocResult<M::Edge>)
where M: Manager<Terminal = BDDTerminal> + HasApplyCache<M, BDDOp>, M::InnerNode: HasLevel,
//@spec
    requires edge_ok::<M::Edge>(), ok(lhs.view(), manager.num_levels_spec()), ok(rhs.view(), manager.num_levels_spec()),
    ensures res is Ok ==> ok(res->Ok_0.view(), manager.num_levels_spec())
        && forall|env: Env| #[trigger] sem(res->Ok_0.view(), env) == prop_and(sem(lhs.view(), env), sem(rhs.view(), env)),
//@end
//@fn file=crates/oxidd-rules-bdd/src/simple/apply_rec.rs path=impl:BooleanFunction~for~BDDFunction<F>/fn:or_edge props=C02
//@header
fn or_edge<M>(manager: &M, lhs: &M::Edge, rhs: &M::Edge) -> (res: AllocResult<M::Edge>)
where M: Manager<Terminal = BDDTerminal> + HasApplyCache<M, BDDOp>, M::InnerNode: HasLevel,
//@spec
    requires edge_ok::<M::Edge>(), ok(lhs.view(), manager.num_levels_spec()), ok(rhs.view(), manager.num_levels_spec()),
    ensures res is Ok ==> ok(res->Ok_0.view(), manager.num_levels_spec())
        && forall|env: Env| #[trigger] sem(res->Ok_0.view(), env) == prop_or(sem(lhs.view(), env), sem(rhs.view(), env)),
//@end
//@fn file=crates/oxidd-rules-bdd/src/simple/apply_rec.rs path=mod:mt/impl:BooleanFunction~for~BDDFunctionMT<F>/fn:or_edge name=or_edge__mt props=C02
//@header
fn or_edge__mt<M>(manager: &M, lhs: &M::Edge, rhs: &M::Edge) -> (res: AllocResult<M::Edge>)
where M: Manager<Terminal = BDDTerminal> + HasApplyCache<M, BDDOp>, M::InnerNode: HasLevel,
//@spec
    requires edge_ok::<M::Edge>(), ok(lhs.view(), manager.num_levels_spec()), ok(rhs.view(), manager.num_levels_spec()),
    ensures res is Ok ==> ok(res->Ok_0.view(), manager.num_levels_spec())
        && forall|env: Env| #[trigger] sem(res->Ok_0.view(), env) == prop_or(sem(lhs.view(), env), sem(rhs.view(), env)),
//@end
//@fn file=crates/oxidd-rules-bdd/src/simple/apply_rec.rs path=impl:BooleanFunction~for~BDDFunction<F>/fn:nand_edge props=C02
//@header
fn nand_edge<M>(manager: &M, lhs: &M::Edge, rhs: &M::Edge) -> (res: AllocResult<M::Edge>)
where M: Manager<Terminal = BDDTerminal> + HasApplyCache<M, BDDOp>, M::InnerNode: HasLevel,
//@spec
    requires edge_ok::<M::Edge>(), ok(lhs.view(), manager.num_levels_spec()), ok(rhs.view(), manager.num_levels_spec()),
    ensures res is Ok ==> ok(res->Ok_0.view(), manager.num_levels_spec())
        && forall|env: Env| #[trigger] sem(res->Ok_0.view(), env) == prop_nand(sem(lhs.view(), env), sem(rhs.view(), env)),
//@end
//@fn file=crates/oxidd-rules-bdd/src/simple/apply_rec.rs path=mod:mt/impl:BooleanFunction~for~BDDFunctionMT<F>/fn:nand_edge name=nand_edge__mt props=C02
//@header
fn nand_edge__mt<M>(manager: &M, lhs: &M::Edge, rhs: &M::Edge) -> (res: AllocResult<M::Edge>)
where M: Manager<Terminal = BDDTerminal> + HasApplyCache<M, BDDOp>, M::InnerNode: HasLevel,
//@spec
    requires edge_ok::<M::Edge>(), ok(lhs.view(), manager.num_levels_spec()), ok(rhs.view(), manager.num_levels_spec()),
    ensures res is Ok ==> ok(res->Ok_0.view(), manager.num_levels_spec())
        && forall|env: Env| #[trigger] sem(res->Ok_0.view(), env) == prop_nand(sem(lhs.view(), env), sem(rhs.view(), env)),
//@end
//@fn file=crates/oxidd-rules-bdd/src/simple/apply_rec.rs path=impl:BooleanFunction~for~BDDFunction<F>/fn:nor_edge props=C02
//@header
fn nor_edge<M>(manager: &M, lhs: &M::Edge, rhs: &M::Edge) -> (res: AllocResult<M::Edge>)
where M: Manager<Terminal = BDDTerminal> + HasApplyCache<M, BDDOp>, M::InnerNode: HasLevel,
//@spec
    requires edge_ok::<M::Edge>(), ok(lhs.view(), manager.num_levels_spec()), ok(rhs.view(), manager.num_levels_spec()),
    ensures res is Ok ==> ok(res->Ok_0.view(), manager.num_levels_spec())
        && forall|env: Env| #[trigger] sem(res->Ok_0.view(), env) == prop_nor(sem(lhs.view(), env), sem(rhs.view(), env)),
//@end
//@fn file=crates/oxidd-rules-bdd/src/simple/apply_rec.rs path=mod:mt/impl:BooleanFunction~for~BDDFunctionMT<F>/fn:nor_edge name=nor_edge__mt props=C02
//@header
fn nor_edge__mt<M>(manager: &M, lhs: &M::Edge, rhs: &M::Edge) -> (res: AllocResult<M::Edge>)
where M: Manager<Terminal = BDDTerminal> + HasApplyCache<M, BDDOp>, M::InnerNode: HasLevel,
//@spec
    requires edge_ok::<M::Edge>(), ok(lhs.view(), manager.num_levels_spec()), ok(rhs.view(), manager.num_levels_spec()),
    ensures res is Ok ==> ok(res->Ok_0.view(), manager.num_levels_spec())
        && forall|env: Env| #[trigger] sem(res->Ok_0.view(), env) == prop_nor(sem(lhs.view(), env), sem(rhs.view(), env)),
//@end
//@fn file=crates/oxidd-rules-bdd/src/simple/apply_rec.rs path=impl:BooleanFunction~for~BDDFunction<F>/fn:xor_edge props=C02
//@header
fn xor_edge<M>(manager: &M, lhs: &M::Edge, rhs: &M::Edge) -> (res: AllocResult<M::Edge>)
where M: Manager<Terminal = BDDTerminal> + HasApplyCache<M, BDDOp>, M::InnerNode: HasLevel,
//@spec
    requires edge_ok::<M::Edge>(), ok(lhs.view(), manager.num_levels_spec()), ok(rhs.view(), manager.num_levels_spec()),
    ensures res is Ok ==> ok(res->Ok_0.view(), manager.num_levels_spec())
        && forall|env: Env| #[trigger] sem(res->Ok_0.view(), env) == prop_xor(sem(lhs.view(), env), sem(rhs.view(), env)),
//@end
//@fn file=crates/oxidd-rules-bdd/src/simple/apply_rec.rs path=mod:mt/impl:BooleanFunction~for~BDDFunctionMT<F>/fn:xor_edge name=xor_edge__mt props=C02
//@header
fn xor_edge__mt<M>(manager: &M, lhs: &M::Edge, rhs: &M::Edge) -> (res: AllocResult<M::Edge>)
where M: Manager<Terminal = BDDTerminal> + HasApplyCache<M, BDDOp>, M::InnerNode: HasLevel,
//@spec
    requires edge_ok::<M::Edge>(), ok(lhs.view(), manager.num_levels_spec()), ok(rhs.view(), manager.num_levels_spec()),
    ensures res is Ok ==> ok(res->Ok_0.view(), manager.num_levels_spec())
        && forall|env: Env| #[trigger] sem(res->Ok_0.view(), env) == prop_xor(sem(lhs.view(), env), sem(rhs.view(), env)),
//@end
//@fn file=crates/oxidd-rules-bdd/src/simple/apply_rec.rs path=impl:BooleanFunction~for~BDDFunction<F>/fn:equiv_edge props=C02
//@header
fn equiv_edge<M>(manager: &M, lhs: &M::Edge, rhs: &M::Edge) -> (res: AllocResult<M::Edge>)
where M: Manager<Terminal = BDDTerminal> + HasApplyCache<M, BDDOp>, M::InnerNode: HasLevel,
//@spec
    requires edge_ok::<M::Edge>(), ok(lhs.view(), manager.num_levels_spec()), ok(rhs.view(), manager.num_levels_spec()),
    ensures res is Ok ==> ok(res->Ok_0.view(), manager.num_levels_spec())
        && forall|env: Env| #[trigger] sem(res->Ok_0.view(), env) == prop_equiv(sem(lhs.view(), env), sem(rhs.view(), env)),
//@end
//@fn file=crates/oxidd-rules-bdd/src/simple/apply_rec.rs path=mod:mt/impl:BooleanFunction~for~BDDFunctionMT<F>/fn:equiv_edge name=equiv_edge__mt props=C02
//@header
fn equiv_edge__mt<M>(manager: &M, lhs: &M::Edge, rhs: &M::Edge) -> (res: AllocResult<M::Edge>)
where M: Manager<Terminal = BDDTerminal> + HasApplyCache<M, BDDOp>, M::InnerNode: HasLevel,
//@spec
    requires edge_ok::<M::Edge>(), ok(lhs.view(), manager.num_levels_spec()), ok(rhs.view(), manager.num_levels_spec()),
    ensures res is Ok ==> ok(res->Ok_0.view(), manager.num_levels_spec())
        && forall|env: Env| #[trigger] sem(res->Ok_0.view(), env) == prop_equiv(sem(lhs.view(), env), sem(rhs.view(), env)),
//@end
//@fn file=crates/oxidd-rules-bdd/src/simple/apply_rec.rs path=impl:BooleanFunction~for~BDDFunction<F>/fn:imp_edge props=C02
//@header
fn imp_edge<M>(manager: &M, lhs: &M::Edge, rhs: &M::Edge) -> (res: AllocResult<M::Edge>)
where M: Manager<Terminal = BDDTerminal> + HasApplyCache<M, BDDOp>, M::InnerNode: HasLevel,
//@spec
    requires edge_ok::<M::Edge>(), ok(lhs.view(), manager.num_levels_spec()), ok(rhs.view(), manager.num_levels_spec()),
    ensures res is Ok ==> ok(res->Ok_0.view(), manager.num_levels_spec())
        && forall|env: Env| #[trigger] sem(res->Ok_0.view(), env) == prop_imp(sem(lhs.view(), env), sem(rhs.view(), env)),
//@end
//@fn file=crates/oxidd-rules-bdd/src/simple/apply_rec.rs path=mod:mt/impl:BooleanFunction~for~BDDFunctionMT<F>/fn:imp_edge name=imp_edge__mt props=C02
//@header
fn imp_edge__mt<M>(manager: &M, lhs: &M::Edge, rhs: &M::Edge) -> (res: AllocResult<M::Edge>)
where M: Manager<Terminal = BDDTerminal> + HasApplyCache<M, BDDOp>, M::InnerNode: HasLevel,
//@spec
    requires edge_ok::<M::Edge>(), ok(lhs.view(), manager.num_levels_spec()), ok(rhs.view(), manager.num_levels_spec()),
    ensures res is Ok ==> ok(res->Ok_0.view(), manager.num_levels_spec())
        && forall|env: Env| #[trigger] sem(res->Ok_0.view(), env) == prop_imp(sem(lhs.view(), env), sem(rhs.view(), env)),
//@end
//@fn file=crates/oxidd-rules-bdd/src/simple/apply_rec.rs path=impl:BooleanFunction~for~BDDFunction<F>/fn:imp_strict_edge props=C02
//@header
fn imp_strict_edge<M>(manager: &M, lhs: &M::Edge, rhs: &M::Edge) -> (res: AllocResult<M::Edge>)
where M: Manager<Terminal = BDDTerminal> + HasApplyCache<M, BDDOp>, M::InnerNode: HasLevel,
//@spec
    requires edge_ok::<M::Edge>(), ok(lhs.view(), manager.num_levels_spec()), ok(rhs.view(), manager.num_levels_spec()),
    ensures res is Ok ==> ok(res->Ok_0.view(), manager.num_levels_spec())
        && forall|env: Env| #[trigger] sem(res->Ok_0.view(), env) == prop_imp_strict(sem(lhs.view(), env), sem(rhs.view(), env)),
//@end
//@fn file=crates/oxidd-rules-bdd/src/simple/apply_rec.rs path=mod:mt/impl:BooleanFunction~for~BDDFunctionMT<F>/fn:imp_strict_edge name=imp_strict_edge__mt props=C02
//@header
fn imp_strict_edge__mt<M>(manager: &M, lhs: &M::Edge, rhs: &M::Edge) -> (res: AllocResult<M::Edge>)
where M: Manager<Terminal = BDDTerminal> + HasApplyCache<M, BDDOp>, M::InnerNode: HasLevel,
//@spec
    requires edge_ok::<M::Edge>(), ok(lhs.view(), manager.num_levels_spec()), ok(rhs.view(), manager.num_levels_spec()),
    ensures res is Ok ==> ok(res->Ok_0.view(), manager.num_levels_spec())
        && forall|env: Env| #[trigger] sem(res->Ok_0.view(), env) == prop_imp_strict(sem(lhs.view(), env), sem(rhs.view(), env)),
//@end
//@fn file=crates/oxidd-rules-bdd/src/simple/apply_rec.rs path=impl:BooleanFunction~for~BDDFunction<F>/fn:not_edge props=C02
//@header
fn not_edge<M>(manager: &M, edge: &M::Edge) -> (res: AllocResult<M::Edge>)
where M: Manager<Terminal = BDDTerminal> + HasApplyCache<M, BDDOp>, M::InnerNode: HasLevel,
//@spec
    requires edge_ok::<M::Edge>(), ok(edge.view(), manager.num_levels_spec()),
    ensures res is Ok ==> ok(res->Ok_0.view(), manager.num_levels_spec())
        && forall|env: Env| #[trigger] sem(res->Ok_0.view(), env) == !sem(edge.view(), env),
//@end
//@fn file=crates/oxidd-rules-bdd/src/simple/apply_rec.rs path=mod:mt/impl:BooleanFunction~for~BDDFunctionMT<F>/fn:not_edge name=not_edge__mt props=C02
//@header
fn not_edge__mt<M>(manager: &M, edge: &M::Edge) -> (res: AllocResult<M::Edge>)
where M: Manager<Terminal = BDDTerminal> + HasApplyCache<M, BDDOp>, M::InnerNode: HasLevel,
//@spec
    requires edge_ok::<M::Edge>(), ok(edge.view(), manager.num_levels_spec()),
    ensures res is Ok ==> ok(res->Ok_0.view(), manager.num_levels_spec())
        && forall|env: Env| #[trigger] sem(res->Ok_0.view(), env) == !sem(edge.view(), env),
//@end
//@fn file=crates/oxidd-rules-bdd/src/simple/apply_rec.rs path=impl:BooleanFunction~for~BDDFunction<F>/fn:ite_edge props=C02
//@header
fn ite_edge<M>(manager: &M, if_edge: &M::Edge, then_edge: &M::Edge, else_edge: &M::Edge) -> (res: AllocResult<M::Edge>)
where M: Manager<Terminal = BDDTerminal> + HasApplyCache<M, BDDOp>, M::InnerNode: HasLevel,
//@spec
    requires edge_ok::<M::Edge>(), ok(if_edge.view(), manager.num_levels_spec()), ok(then_edge.view(), manager.num_levels_spec()), ok(else_edge.view(), manager.num_levels_spec()),
    ensures res is Ok ==> ok(res->Ok_0.view(), manager.num_levels_spec())
        && forall|env: Env| #[trigger] sem(res->Ok_0.view(), env) == (if sem(if_edge.view(), env) { sem(then_edge.view(), env) } else { sem(else_edge.view(), env) }),
//@end
//@fn file=crates/oxidd-rules-bdd/src/simple/apply_rec.rs path=mod:mt/impl:BooleanFunction~for~BDDFunctionMT<F>/fn:ite_edge name=ite_edge__mt props=C02
//@header
fn ite_edge__mt<M>(manager: &M, f: &M::Edge, g: &M::Edge, h: &M::Edge) -> (res: AllocResult<M::Edge>)
where M: Manager<Terminal = BDDTerminal> + HasApplyCache<M, BDDOp>, M::InnerNode: HasLevel,
//@spec
    requires edge_ok::<M::Edge>(), ok(f.view(), manager.num_levels_spec()), ok(g.view(), manager.num_levels_spec()), ok(h.view(), manager.num_levels_spec()),
    ensures res is Ok ==> ok(res->Ok_0.view(), manager.num_levels_spec())
        && forall|env: Env| #[trigger] sem(res->Ok_0.view(), env) == (if sem(f.view(), env) { sem(g.view(), env) } else { sem(h.view(), env) }),
//@end
//@fn file=crates/oxidd-rules-bdd/src/simple/apply_rec.rs path=impl:BooleanFunction~for~BDDFunction<F>/fn:var_edge props=C02,C03
//@header
fn var_edge<M>(manager: &M, var: VarNo) -> (res: AllocResult<M::Edge>)
where M: Manager<Terminal = BDDTerminal> + HasApplyCache<M, BDDOp>, M::InnerNode: HasLevel,
//@spec
    requires (var as int) < manager.num_levels_spec(),
    ensures res is Ok ==> ok(res->Ok_0.view(), manager.num_levels_spec())
        && forall|env: Env| #[trigger] sem(res->Ok_0.view(), env) == env(manager.var_to_level_spec(var as int)),
//@end
//@fn file=crates/oxidd-rules-bdd/src/simple/apply_rec.rs path=mod:mt/impl:BooleanFunction~for~BDDFunctionMT<F>/fn:var_edge name=var_edge__mt props=C02,C03 subst_text=BDDFunction::<F>::::=
//@header
fn var_edge__mt<M>(manager: &M, var: VarNo) -> (res: AllocResult<M::Edge>)
where M: Manager<Terminal = BDDTerminal> + HasApplyCache<M, BDDOp>, M::InnerNode: HasLevel,
//@spec
    requires (var as int) < manager.num_levels_spec(),
    ensures res is Ok ==> ok(res->Ok_0.view(), manager.num_levels_spec())
        && forall|env: Env| #[trigger] sem(res->Ok_0.view(), env) == env(manager.var_to_level_spec(var as int)),
//@end
//@fn file=crates/oxidd-rules-bdd/src/simple/apply_rec.rs path=impl:BooleanFunction~for~BDDFunction<F>/fn:not_var_edge props=C02,C03
//@header
fn not_var_edge<M>(manager: &M, var: VarNo) -> (res: AllocResult<M::Edge>)
where M: Manager<Terminal = BDDTerminal> + HasApplyCache<M, BDDOp>, M::InnerNode: HasLevel,
//@spec
    requires (var as int) < manager.num_levels_spec(),
    ensures res is Ok ==> ok(res->Ok_0.view(), manager.num_levels_spec())
        && forall|env: Env| #[trigger] sem(res->Ok_0.view(), env) == !env(manager.var_to_level_spec(var as int)),
//@end
//@fn file=crates/oxidd-rules-bdd/src/simple/apply_rec.rs path=mod:mt/impl:BooleanFunction~for~BDDFunctionMT<F>/fn:not_var_edge name=not_var_edge__mt props=C02,C03 subst_text=BDDFunction::<F>::::=
//@header
fn not_var_edge__mt<M>(manager: &M, var: VarNo) -> (res: AllocResult<M::Edge>)
where M: Manager<Terminal = BDDTerminal> + HasApplyCache<M, BDDOp>, M::InnerNode: HasLevel,
//@spec
    requires (var as int) < manager.num_levels_spec(),
    ensures res is Ok ==> ok(res->Ok_0.view(), manager.num_levels_spec())
        && forall|env: Env| #[trigger] sem(res->Ok_0.view(), env) == !env(manager.var_to_level_spec(var as int)),
//@end
//@fn file=crates/oxidd-rules-bdd/src/simple/apply_rec.rs path=impl:BooleanFunction~for~BDDFunction<F>/fn:f_edge props=C02
//@header
fn f_edge<M>(manager: &M) -> (res: M::Edge)
where M: Manager<Terminal = BDDTerminal> + HasApplyCache<M, BDDOp>, M::InnerNode: HasLevel,
//@spec
    ensures res.view() == Tree::Leaf(false),
//@end
//@fn file=crates/oxidd-rules-bdd/src/simple/apply_rec.rs path=mod:mt/impl:BooleanFunction~for~BDDFunctionMT<F>/fn:f_edge name=f_edge__mt props=C02
//@header
fn f_edge__mt<M>(manager: &M) -> (res: M::Edge)
where M: Manager<Terminal = BDDTerminal> + HasApplyCache<M, BDDOp>, M::InnerNode: HasLevel,
//@spec
    ensures res.view() == Tree::Leaf(false),
//@end
//@fn file=crates/oxidd-rules-bdd/src/simple/apply_rec.rs path=impl:BooleanFunction~for~BDDFunction<F>/fn:t_edge props=C02
//@header
fn t_edge<M>(manager: &M) -> (res: M::Edge)
where M: Manager<Terminal = BDDTerminal> + HasApplyCache<M, BDDOp>, M::InnerNode: HasLevel,
//@spec
    ensures res.view() == Tree::Leaf(true),
//@end
//@fn file=crates/oxidd-rules-bdd/src/simple/apply_rec.rs path=mod:mt/impl:BooleanFunction~for~BDDFunctionMT<F>/fn:t_edge name=t_edge__mt props=C02
//@header
fn t_edge__mt<M>(manager: &M) -> (res: M::Edge)
where M: Manager<Terminal = BDDTerminal> + HasApplyCache<M, BDDOp>, M::InnerNode: HasLevel,
//@spec
    ensures res.view() == Tree::Leaf(true),
//@end
// ---------- default methods of BooleanFunction / BooleanFunctionQuant in oxidd-core/src/function.rs (the user-facing API) ----------
//@fn file=crates/oxidd-core/src/function.rs path=trait:BooleanFunction/fn:and rename=api_and selfcall=Self::> withmgr=this props=C02
//@header
fn api_and<M>(manager: &M, this: &M::Edge, rhs: &M::Edge) -> (res: AllocResult<M::Edge>)
where M: Manager<Terminal = BDDTerminal> + HasApplyCache<M, BDDOp>, M::InnerNode: HasLevel,
//@spec
    requires edge_ok::<M::Edge>(), ok(this.view(), manager.num_levels_spec()), ok(rhs.view(), manager.num_levels_spec()),
    ensures res is Ok ==> ok(res->Ok_0.view(), manager.num_levels_spec())
        && forall|env: Env| #[trigger] sem(res->Ok_0.view(), env) == prop_and(sem(this.view(), env), sem(rhs.view(), env)),
//@end
//@fn file=crates/oxidd-core/src/function.rs path=trait:BooleanFunction/fn:or rename=api_or selfcall=Self::> withmgr=this props=C02
//@header
fn api_or<M>(manager: &M, this: &M::Edge, rhs: &M::Edge) -> (res: AllocResult<M::Edge>)
where M: Manager<Terminal = BDDTerminal> + HasApplyCache<M, BDDOp>, M::InnerNode: HasLevel,
//@spec
    requires edge_ok::<M::Edge>(), ok(this.view(), manager.num_levels_spec()), ok(rhs.view(), manager.num_levels_spec()),
    ensures res is Ok ==> ok(res->Ok_0.view(), manager.num_levels_spec())
        && forall|env: Env| #[trigger] sem(res->Ok_0.view(), env) == prop_or(sem(this.view(), env), sem(rhs.view(), env)),
//@end
//@fn file=crates/oxidd-core/src/function.rs path=trait:BooleanFunction/fn:nand rename=api_nand selfcall=Self::> withmgr=this props=C02
//@header
fn api_nand<M>(manager: &M, this: &M::Edge, rhs: &M::Edge) -> (res: AllocResult<M::Edge>)
where M: Manager<Terminal = BDDTerminal> + HasApplyCache<M, BDDOp>, M::InnerNode: HasLevel,
//@spec
    requires edge_ok::<M::Edge>(), ok(this.view(), manager.num_levels_spec()), ok(rhs.view(), manager.num_levels_spec()),
    ensures res is Ok ==> ok(res->Ok_0.view(), manager.num_levels_spec())
        && forall|env: Env| #[trigger] sem(res->Ok_0.view(), env) == prop_nand(sem(this.view(), env), sem(rhs.view(), env)),
//@end
//@fn file=crates/oxidd-core/src/function.rs path=trait:BooleanFunction/fn:nor rename=api_nor selfcall=Self::> withmgr=this props=C02
//@header
fn api_nor<M>(manager: &M, this: &M::Edge, rhs: &M::Edge) -> (res: AllocResult<M::Edge>)
where M: Manager<Terminal = BDDTerminal> + HasApplyCache<M, BDDOp>, M::InnerNode: HasLevel,
//@spec
    requires edge_ok::<M::Edge>(), ok(this.view(), manager.num_levels_spec()), ok(rhs.view(), manager.num_levels_spec()),
    ensures res is Ok ==> ok(res->Ok_0.view(), manager.num_levels_spec())
        && forall|env: Env| #[trigger] sem(res->Ok_0.view(), env) == prop_nor(sem(this.view(), env), sem(rhs.view(), env)),
//@end
//@fn file=crates/oxidd-core/src/function.rs path=trait:BooleanFunction/fn:xor rename=api_xor selfcall=Self::> withmgr=this props=C02
//@header
fn api_xor<M>(manager: &M, this: &M::Edge, rhs: &M::Edge) -> (res: AllocResult<M::Edge>)
where M: Manager<Terminal = BDDTerminal> + HasApplyCache<M, BDDOp>, M::InnerNode: HasLevel,
//@spec
    requires edge_ok::<M::Edge>(), ok(this.view(), manager.num_levels_spec()), ok(rhs.view(), manager.num_levels_spec()),
    ensures res is Ok ==> ok(res->Ok_0.view(), manager.num_levels_spec())
        && forall|env: Env| #[trigger] sem(res->Ok_0.view(), env) == prop_xor(sem(this.view(), env), sem(rhs.view(), env)),
//@end
//@fn file=crates/oxidd-core/src/function.rs path=trait:BooleanFunction/fn:equiv rename=api_equiv selfcall=Self::> withmgr=this props=C02
//@header
fn api_equiv<M>(manager: &M, this: &M::Edge, rhs: &M::Edge) -> (res: AllocResult<M::Edge>)
where M: Manager<Terminal = BDDTerminal> + HasApplyCache<M, BDDOp>, M::InnerNode: HasLevel,
//@spec
    requires edge_ok::<M::Edge>(), ok(this.view(), manager.num_levels_spec()), ok(rhs.view(), manager.num_levels_spec()),
    ensures res is Ok ==> ok(res->Ok_0.view(), manager.num_levels_spec())
        && forall|env: Env| #[trigger] sem(res->Ok_0.view(), env) == prop_equiv(sem(this.view(), env), sem(rhs.view(), env)),
//@end
//@fn file=crates/oxidd-core/src/function.rs path=trait:BooleanFunction/fn:imp rename=api_imp selfcall=Self::> withmgr=this props=C02
//@header
fn api_imp<M>(manager: &M, this: &M::Edge, rhs: &M::Edge) -> (res: AllocResult<M::Edge>)
where M: Manager<Terminal = BDDTerminal> + HasApplyCache<M, BDDOp>, M::InnerNode: HasLevel,
//@spec
    requires edge_ok::<M::Edge>(), ok(this.view(), manager.num_levels_spec()), ok(rhs.view(), manager.num_levels_spec()),
    ensures res is Ok ==> ok(res->Ok_0.view(), manager.num_levels_spec())
        && forall|env: Env| #[trigger] sem(res->Ok_0.view(), env) == prop_imp(sem(this.view(), env), sem(rhs.view(), env)),
//@end
//@fn file=crates/oxidd-core/src/function.rs path=trait:BooleanFunction/fn:imp_strict rename=api_imp_strict selfcall=Self::> withmgr=this props=C02
//@header
fn api_imp_strict<M>(manager: &M, this: &M::Edge, rhs: &M::Edge) -> (res: AllocResult<M::Edge>)
where M: Manager<Terminal = BDDTerminal> + HasApplyCache<M, BDDOp>, M::InnerNode: HasLevel,
//@spec
    requires edge_ok::<M::Edge>(), ok(this.view(), manager.num_levels_spec()), ok(rhs.view(), manager.num_levels_spec()),
    ensures res is Ok ==> ok(res->Ok_0.view(), manager.num_levels_spec())
        && forall|env: Env| #[trigger] sem(res->Ok_0.view(), env) == prop_imp_strict(sem(this.view(), env), sem(rhs.view(), env)),
//@end
//@fn file=crates/oxidd-core/src/function.rs path=trait:BooleanFunction/fn:not rename=api_not selfcall=Self::> withmgr=this props=C02
//@header
fn api_not<M>(manager: &M, this: &M::Edge) -> (res: AllocResult<M::Edge>)
where M: Manager<Terminal = BDDTerminal> + HasApplyCache<M, BDDOp>, M::InnerNode: HasLevel,
//@spec
    requires edge_ok::<M::Edge>(), ok(this.view(), manager.num_levels_spec()),
    ensures res is Ok ==> ok(res->Ok_0.view(), manager.num_levels_spec()) && forall|env: Env| #[trigger] sem(res->Ok_0.view(), env) == !sem(this.view(), env),
//@end
//@fn file=crates/oxidd-core/src/function.rs path=trait:BooleanFunction/fn:ite rename=api_ite selfcall=Self::> withmgr=this props=C02
//@header
fn api_ite<M>(manager: &M, this: &M::Edge, then_case: &M::Edge, else_case: &M::Edge) -> (res: AllocResult<M::Edge>)
where M: Manager<Terminal = BDDTerminal> + HasApplyCache<M, BDDOp>, M::InnerNode: HasLevel,
//@spec
    requires edge_ok::<M::Edge>(), ok(this.view(), manager.num_levels_spec()), ok(then_case.view(), manager.num_levels_spec()), ok(else_case.view(), manager.num_levels_spec()),
    ensures res is Ok ==> ok(res->Ok_0.view(), manager.num_levels_spec())
        && forall|env: Env| #[trigger] sem(res->Ok_0.view(), env) == (if sem(this.view(), env) { sem(then_case.view(), env) } else { sem(else_case.view(), env) }),
//@end
//@fn file=crates/oxidd-core/src/function.rs path=trait:BooleanFunction/fn:restrict rename=api_restrict selfcall=Self::> withmgr=this props=C04
//@header
fn api_restrict<M>(manager: &M, this: &M::Edge, vars: &M::Edge) -> (res: AllocResult<M::Edge>)
where M: Manager<Terminal = BDDTerminal> + HasApplyCache<M, BDDOp>, M::InnerNode: HasLevel,
//@spec
    requires edge_ok::<M::Edge>(), ok(this.view(), manager.num_levels_spec()), ok(vars.view(), manager.num_levels_spec()),
    ensures res is Ok ==> restrict_post(this.view(), vars.view(), manager.num_levels_spec(), res->Ok_0.view()),
//@end
//@fn file=crates/oxidd-core/src/function.rs path=trait:BooleanFunctionQuant/fn:forall rename=api_forall selfcall=Self::> withmgr=this props=C04
//@header
fn api_forall<M>(manager: &M, this: &M::Edge, vars: &M::Edge) -> (res: AllocResult<M::Edge>)
where M: Manager<Terminal = BDDTerminal> + HasApplyCache<M, BDDOp>, M::InnerNode: HasLevel,
//@spec
    requires edge_ok::<M::Edge>(), ok(this.view(), manager.num_levels_spec()), ok(vars.view(), manager.num_levels_spec()),
    ensures res is Ok ==> quant_post(BDDOp::And as u8, this.view(), vars.view(), manager.num_levels_spec(), res->Ok_0.view()),
//@end
//@fn file=crates/oxidd-core/src/function.rs path=trait:BooleanFunctionQuant/fn:apply_forall rename=api_apply_forall selfcall=Self::> withmgr=this props=C04
//@header
fn api_apply_forall<M>(manager: &M, this: &M::Edge, op: BooleanOperator, rhs: &M::Edge, vars: &M::Edge) -> (res: AllocResult<M::Edge>)
where M: Manager<Terminal = BDDTerminal> + HasApplyCache<M, BDDOp>, M::InnerNode: HasLevel,
//@spec
    requires edge_ok::<M::Edge>(), ok(this.view(), manager.num_levels_spec()), ok(rhs.view(), manager.num_levels_spec()), ok(vars.view(), manager.num_levels_spec()),
    ensures res is Ok ==> apply_quant_post(BDDOp::And as u8, bo_code(op), this.view(), rhs.view(), vars.view(), manager.num_levels_spec(), res->Ok_0.view()),
//@end
//@fn file=crates/oxidd-core/src/function.rs path=trait:BooleanFunctionQuant/fn:exists rename=api_exists selfcall=Self::> withmgr=this props=C04
//@header
fn api_exists<M>(manager: &M, this: &M::Edge, vars: &M::Edge) -> (res: AllocResult<M::Edge>)
where M: Manager<Terminal = BDDTerminal> + HasApplyCache<M, BDDOp>, M::InnerNode: HasLevel,
//@spec
    requires edge_ok::<M::Edge>(), ok(this.view(), manager.num_levels_spec()), ok(vars.view(), manager.num_levels_spec()),
    ensures res is Ok ==> quant_post(BDDOp::Or as u8, this.view(), vars.view(), manager.num_levels_spec(), res->Ok_0.view()),
//@end
//@fn file=crates/oxidd-core/src/function.rs path=trait:BooleanFunctionQuant/fn:apply_exists rename=api_apply_exists selfcall=Self::> withmgr=this props=C04
//@header
fn api_apply_exists<M>(manager: &M, this: &M::Edge, op: BooleanOperator, rhs: &M::Edge, vars: &M::Edge) -> (res: AllocResult<M::Edge>)
where M: Manager<Terminal = BDDTerminal> + HasApplyCache<M, BDDOp>, M::InnerNode: HasLevel,
//@spec
    requires edge_ok::<M::Edge>(), ok(this.view(), manager.num_levels_spec()), ok(rhs.view(), manager.num_levels_spec()), ok(vars.view(), manager.num_levels_spec()),
    ensures res is Ok ==> apply_quant_post(BDDOp::Or as u8, bo_code(op), this.view(), rhs.view(), vars.view(), manager.num_levels_spec(), res->Ok_0.view()),
//@end
//@fn file=crates/oxidd-core/src/function.rs path=trait:BooleanFunctionQuant/fn:unique rename=api_unique selfcall=Self::> withmgr=this props=C04
//@header
fn api_unique<M>(manager: &M, this: &M::Edge, vars: &M::Edge) -> (res: AllocResult<M::Edge>)
where M: Manager<Terminal = BDDTerminal> + HasApplyCache<M, BDDOp>, M::InnerNode: HasLevel,
//@spec
    requires edge_ok::<M::Edge>(), ok(this.view(), manager.num_levels_spec()), ok(vars.view(), manager.num_levels_spec()),
    ensures res is Ok ==> quant_post(BDDOp::Xor as u8, this.view(), vars.view(), manager.num_levels_spec(), res->Ok_0.view()),
//@end
//@fn file=crates/oxidd-core/src/function.rs path=trait:BooleanFunctionQuant/fn:apply_unique rename=api_apply_unique selfcall=Self::> withmgr=this props=C04
//@header
fn api_apply_unique<M>(manager: &M, this: &M::Edge, op: BooleanOperator, rhs: &M::Edge, vars: &M::Edge) -> (res: AllocResult<M::Edge>)
where M: Manager<Terminal = BDDTerminal> + HasApplyCache<M, BDDOp>, M::InnerNode: HasLevel,
//@spec
    requires edge_ok::<M::Edge>(), ok(this.view(), manager.num_levels_spec()), ok(rhs.view(), manager.num_levels_spec()), ok(vars.view(), manager.num_levels_spec()),
    ensures res is Ok ==> apply_quant_post(BDDOp::Xor as u8, bo_code(op), this.view(), rhs.view(), vars.view(), manager.num_levels_spec(), res->Ok_0.view()),
//@end
//@fn file=crates/oxidd-core/src/function.rs path=trait:BooleanFunction/fn:satisfiable rename=api_satisfiable selfcall=Self::> withmgr=this ret=r props=C01,C02
//@header
fn api_satisfiable<M>(manager: &M, this: &M::Edge) -> (r: bool)
where M: Manager<Terminal = BDDTerminal> + HasApplyCache<M, BDDOp>, M::InnerNode: HasLevel,
//@spec
    requires edge_ok::<M::Edge>(),
    // "is not the false function" (by canonicity: iff some assignment satisfies it, lemma satisfiable_iff_not_ff)
    ensures r == (this.view() != ff()),
//@end
//@fn file=crates/oxidd-core/src/function.rs path=trait:BooleanFunction/fn:valid rename=api_valid selfcall=Self::> withmgr=this ret=r props=C01,C02
//@header
fn api_valid<M>(manager: &M, this: &M::Edge) -> (r: bool)
where M: Manager<Terminal = BDDTerminal> + HasApplyCache<M, BDDOp>, M::InnerNode: HasLevel,
//@spec
    requires edge_ok::<M::Edge>(),
    ensures r == (this.view() == Tree::Leaf(true)),
//@end
//@fn file=crates/oxidd-core/src/function.rs path=trait:BooleanFunction/fn:pick_cube_dd_set rename=api_pick_cube_dd_set selfcall=Self::> withmgr=this props=C13
//@header
fn api_pick_cube_dd_set<M>(manager: &M, this: &M::Edge, literal_set: &M::Edge) -> (res: AllocResult<M::Edge>)
where M: Manager<Terminal = BDDTerminal> + HasApplyCache<M, BDDOp>, M::InnerNode: HasLevel,
//@spec
    requires edge_ok::<M::Edge>(), ok(this.view(), manager.num_levels_spec()), ok(literal_set.view(), manager.num_levels_spec()),
    ensures res is Ok ==> pick_ok(this.view(), literal_set.view(), res->Ok_0.view()) && ok(res->Ok_0.view(), manager.num_levels_spec()),
//@end
//@fn file=crates/oxidd-core/src/function.rs path=trait:BooleanFunction/fn:var name=api_var selfcall=Self::> props=C02
//@header
fn api_var<M>(manager: &M, var: VarNo) -> (res: AllocResult<M::Edge>)
where M: Manager<Terminal = BDDTerminal> + HasApplyCache<M, BDDOp>, M::InnerNode: HasLevel,
//@spec
    requires (var as int) < manager.num_levels_spec(),
    ensures res is Ok ==> ok(res->Ok_0.view(), manager.num_levels_spec())
        && forall|env: Env| #[trigger] sem(res->Ok_0.view(), env) == env(manager.var_to_level_spec(var as int)),
//@end
//@fn file=crates/oxidd-core/src/function.rs path=trait:BooleanFunction/fn:not_var name=api_not_var selfcall=Self::> props=C02
//@header
fn api_not_var<M>(manager: &M, var: VarNo) -> (res: AllocResult<M::Edge>)
where M: Manager<Terminal = BDDTerminal> + HasApplyCache<M, BDDOp>, M::InnerNode: HasLevel,
//@spec
    requires (var as int) < manager.num_levels_spec(),
    ensures res is Ok ==> ok(res->Ok_0.view(), manager.num_levels_spec())
        && forall|env: Env| #[trigger] sem(res->Ok_0.view(), env) == !env(manager.var_to_level_spec(var as int)),
//@end
} // mod apply_rec
mod apply_rec_e {
use super::*;
broadcast use {leaf_lemmas, eval_lemmas};
//@fn file=crates/oxidd-rules-bdd/src/simple/apply_rec.rs path=impl:BooleanFunction~for~BDDFunction<F>/fn:eval_edge/fn:inner rename=eval_edge__inner ret=r props=C02
//@spec
    requires wf(edge.view()),
    ensures r == sem(edge.view(), |l: int| !choices.spec_contains(l)),
    decreases edge.view(),
//@end
//@fn file=crates/oxidd-rules-bdd/src/simple/apply_rec.rs path=impl:BooleanFunction~for~BDDFunction<F>/fn:eval_edge hoist=inner>eval_edge__inner forinv=0 ret=r props=C02
//@header
fn eval_edge<M>(manager: &M, edge: &M::Edge, args: ArgIter) -> (r: bool)
where M: Manager<Terminal = BDDTerminal> + HasApplyCache<M, BDDOp>, M::InnerNode: HasLevel,
//@spec
    requires ok(edge.view(), manager.num_levels_spec()), args.done() == Seq::<(u32, bool)>::empty(),
        // documented panic otherwise
        forall|i: int| 0 <= i < args.all().len() ==> (#[trigger] args.all()[i].0 as int) < manager.num_levels_spec(),
    ensures eval_post(edge.view(), args.all(), vl(manager), manager.num_levels_spec(), r),
//@loop
    invariant
        iter__0.all() == args.all(), iter__0.done().len() <= iter__0.all().len(),
        forall|i: int| 0 <= i < iter__0.all().len() ==> (#[trigger] iter__0.all()[i].0 as int) < manager.num_levels_spec(),
        choices.bits@.len() == manager.num_levels_spec(),
        forall|l: int| !(#[trigger] choices.spec_contains(l)) == aenv(iter__0.done(), vl(manager), all_true())(l),
    ensures
        iter__0.all() == args.all(),
        forall|l: int| !(#[trigger] choices.spec_contains(l)) == aenv(iter__0.all(), vl(manager), all_true())(l),
    decreases iter__0.all().len() - iter__0.done().len(),
//@end
//@fn file=crates/oxidd-rules-bdd/src/simple/apply_rec.rs path=mod:mt/impl:BooleanFunction~for~BDDFunctionMT<F>/fn:eval_edge name=eval_edge__mt props=C02 ret=r subst_text=BDDFunction::<F>::::=
//@header
fn eval_edge__mt<M>(manager: &M, edge: &M::Edge, args: ArgIter) -> (r: bool)
where M: Manager<Terminal = BDDTerminal> + HasApplyCache<M, BDDOp>, M::InnerNode: HasLevel,
//@spec
    requires ok(edge.view(), manager.num_levels_spec()), args.done() == Seq::<(u32, bool)>::empty(),
        // documented panic otherwise
        forall|i: int| 0 <= i < args.all().len() ==> (#[trigger] args.all()[i].0 as int) < manager.num_levels_spec(),
    ensures eval_post(edge.view(), args.all(), vl(manager), manager.num_levels_spec(), r),
//@end
} // mod apply_rec_e
mod dddmp_import {
use super::*;
broadcast use leaf_lemmas;
// ---------- oxidd-dump, import_ascii: the per-child validity check of a node line (C15 "child-id/level checks per node", C03) ----------
/// stub of std::io::Error / the crate's `err` helper / `format!` (R21): only "an error is returned" matters
pub struct IoError;
#[verifier::external_body]
pub fn fmt_msg() -> (r: String) { unimplemented!() }
pub fn err<T>(msg: String) -> (r: Result<T, IoError>) ensures r is Err { Err(IoError) }
pub assume_specification [isize::unsigned_abs] (x: isize) -> (r: usize)
    ensures r as int == (if x < 0 { -(x as int) } else { x as int });
// the body of `for &child in &children { .. }` (rule R16): after it returns Ok the child id is a node read earlier and lies strictly
// below the new node's level - exactly what `reduce(..).then_insert(..)` needs for an ordered diagram; no panic (index in range)
//@fn file=crates/oxidd-dump/src/dddmp/import.rs path=fn:import_ascii loopbody=1 looppat=&child rename=import_ascii__child_check tail=Ok(()) fmtstub ret=r props=C03,C15
//@header
fn import_ascii__child_check<M>(manager: &M, nodes: &Vec<M::Edge>, child: isize, node_id: usize, level: LevelNo, line_no: usize) -> (r: Result<(), IoError>)
where M: Manager<Terminal = BDDTerminal>, M::InnerNode: HasLevel,
//@spec
    requires node_id >= 1, nodes@.len() == node_id - 1, child != 0,
    ensures r is Ok ==> ({
        let c = if child < 0 { -(child as int) } else { child as int };
        1 <= c < node_id && (level as int) < top(nodes@[c - 1].view())
    }),
//@end
impl vstd::std_specs::convert::FromSpecImpl<OutOfMemory> for IoError {
    open spec fn obeys_from_spec() -> bool { true }
    open spec fn from_spec(v: OutOfMemory) -> IoError { IoError }
}
impl From<OutOfMemory> for IoError { fn from(v: OutOfMemory) -> (r: IoError) { IoError } }
// the body of `for &root in &header.rootids { .. }` in `import()` (rule R16): under the header invariant established by
// DumpHeader::load (root ids non-zero, |id| <= .nnodes; Kani suite dddmp_header) and `nodes.len() == .nnodes` the indexing cannot
// panic; a positive id yields the node's handle, a negative one exactly what the caller's `complement` returns for it
//@fn file=crates/oxidd-dump/src/dddmp/import.rs path=fn:import loopbody=1 looppat=&root rename=import__root tail=Ok(()) ret=r props=C15 subst_text=F::from_edge(::=from_edge(
//@header
fn import__root<M>(manager: &M, nodes: &Vec<M::Edge>, roots: &mut Vec<M::Edge>, root: isize, complement: impl Fn(&M, M::Edge) -> AllocResult<M::Edge>) -> (r: Result<(), IoError>)
where M: Manager<Terminal = BDDTerminal>, M::InnerNode: HasLevel,
//@spec
    requires root != 0, (if root < 0 { -(root as int) } else { root as int }) <= nodes@.len(),
        forall|mm: &M, ee: M::Edge| #[trigger] complement.requires((mm, ee)),
    ensures r is Ok ==> ({
        let i = (if root < 0 { -(root as int) } else { root as int }) - 1;
        &&& final(roots)@.len() == old(roots)@.len() + 1
        &&& forall|k: int| 0 <= k < old(roots)@.len() ==> final(roots)@[k] == old(roots)@[k]
        &&& root > 0 ==> final(roots)@[old(roots)@.len() as int].view() == nodes@[i].view()
        &&& root < 0 ==> exists|ee: M::Edge, res: M::Edge| ee.view() == nodes@[i].view()
                && #[trigger] complement.ensures((manager, ee), AllocResult::Ok(res)) && final(roots)@[old(roots)@.len() as int].view() == res.view()
    }),
//@end
} // mod dddmp_import
mod apply_rec_u {
use super::*;
use super::apply_rec::*;
broadcast use leaf_lemmas;
/// ASSUMED: `sat_count_edge::<F64>` returns the exact model count (the floating-point path of sat_count_edge — scaled
/// terminal value, MIN_EXP != 0 — is not verified; the integer path is, see sat_count_edge)
#[verifier::external_body]
fn sat_count_edge_f64<M: Manager<Terminal = BDDTerminal>, S>(manager: &M, edge: &M::Edge, vars: LevelNo, cache: &mut SatCountCache<F64, S>) -> (res: F64)
    requires ok(edge.view(), vars as int),
    ensures res.0.rv() == cnt(edge.view(), 0, vars as int) as real,
{ unimplemented!() }
// the choice closure of `pick_cube_uniform_edge` (rule R19): the then-branch is taken iff the uniform draw is below
// #models(then-cofactor) / (#models(then-cofactor) + #models(else-cofactor))
//@fn file=crates/oxidd-core/src/function.rs path=trait:BooleanFunction/fn:pick_cube_uniform_edge name=pick_cube_uniform_edge__choice closure=0 cparams=manager,~edge,~_ ret=r props=C13 selfcall=Self::cofactors_node(>cofactors_node::<M>( subst_text=Self::sat_count_edge(::=sat_count_edge_f64(;;rng.generate::<f64>()::=rng.generate_f64()
//@header
fn pick_cube_uniform_edge__choice<M, S>(manager: &M, edge: &M::Edge, vars: LevelNo, cache: &mut SatCountCache<F64, S>, rng: &mut Rng) -> (r: bool)
where M: Manager<Terminal = BDDTerminal>, M::InnerNode: HasLevel,
//@spec
    requires edge.view() is Inner, ok(edge.view(), manager.num_levels_spec()), vars as int == manager.num_levels_spec(),
    ensures ({
        let tc = cnt(then_of(edge.view()), 0, vars as int) as real;
        let ec = cnt(else_of(edge.view()), 0, vars as int) as real;
        r == (old(rng).draw() < fdiv(tc, tc + ec))
    }),
//@end
} // mod apply_rec_u
} // mod simple
} // verus!
fn main() {}
