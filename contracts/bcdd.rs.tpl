// Contract bundle for crates/oxidd-rules-bdd/src/complement_edge/{mod,apply_rec}.rs  (BDDs with complement edges, "BCDD")
// Everything between `//@fn`/`//@item` and `//@end` is replaced by text extracted from /repo on every run (vx/bundle.py).
// Everything else is the hand-written contract prelude.
//
// Abstraction.  An edge denotes a *complement-edge term* `CE { neg, node }` (its tag + the node it points to; the two
// children of a node are again edges) -- this is what the hash-consing contract speaks about ("edges are equal iff tag
// and node are equal").  The *meaning* of an edge is the ordinary BDD `Tree` obtained by pushing all complement marks
// down to the leaves (`tv(c)`), so that all propositional specifications (`sem`, `qsem`, `qsem2`, `cenv`, `senv`,
// `pick_ok`, `scnt`) are literally those of the simple-BDD bundle: an independent node-by-node interpretation of the
// diagram.  `csem(c, env) = sem(tv(c), env)`.
// Normal form (C03): `cwf` = ordered, reduced (then != else as EDGES) and every then-edge uncomplemented.
// `tv`, `csem`, `nx`, `nwf`, `nbelow` are opaque: exec proofs see them only through "re-fuelling" lemmas over the
// constructors `cmk` / `ct` and the tag operations `cxor` / `cflip` / `cwith` (contracts/README.md); the exec code lives in
// several sibling modules because each module has exactly one `broadcast use` and the lemma sets differ.
#![feature(panic_internals, sized_hierarchy, allocator_api)] // only for the `assert_eq!` specification below
#![allow(unused_imports, dead_code, unused_variables, unused_mut, unused_parens, unused_braces, noop_method_call, unreachable_patterns)]
use vstd::prelude::*;
use std::borrow::Borrow;
use std::marker::PhantomData;
use vstd::std_specs::cmp::{PartialEqSpec, PartialOrdSpec, OrdSpec};
use vstd::std_specs::ops::{AddSpec, ShrSpec, ShlSpec};
use vstd::std_specs::convert::FromSpec;
//@recursor file=crates/oxidd-rules-bdd/src/recursor.rs
verus! {
// 64-bit platform (ASSUMED): the sat-count cache key reserves bit 63 of a NodeID for the edge tag
global size_of usize == 8;

// ---------- semantic view: plain BDD terms ----------
pub enum Tree { Leaf(bool), Inner(u32, Box<Tree>, Box<Tree>) }
pub type Env = spec_fn(int) -> bool;

pub open spec fn top(t: Tree) -> int {
    match t { Tree::Leaf(_) => u32::MAX as int, Tree::Inner(l, _, _) => l as int }
}
pub open spec fn wf(t: Tree) -> bool decreases t {
    match t {
        Tree::Leaf(_) => true,
        Tree::Inner(l, a, b) => l < u32::MAX && (l as int) < top(*a) && (l as int) < top(*b) && *a != *b && wf(*a) && wf(*b),
    }
}
/// all levels of `t` are `< n`
pub open spec fn below(t: Tree, n: int) -> bool decreases t {
    match t {
        Tree::Leaf(_) => true,
        Tree::Inner(l, a, b) => (l as int) < n && below(*a, n) && below(*b, n),
    }
}
pub open spec fn sem(t: Tree, env: Env) -> bool decreases t {
    match t {
        Tree::Leaf(b) => b,
        Tree::Inner(l, a, b) => if env(l as int) { sem(*a, env) } else { sem(*b, env) },
    }
}
pub open spec fn mk(l: u32, a: Tree, b: Tree) -> Tree { Tree::Inner(l, Box::new(a), Box::new(b)) }
// "re-fuelling" lemmas (see contracts/README.md)
pub broadcast proof fn lemma_sem_mk(l: u32, a: Tree, b: Tree, env: Env)
    ensures #[trigger] sem(mk(l, a, b), env) == (if env(l as int) { sem(a, env) } else { sem(b, env) }) {}
pub broadcast proof fn lemma_wf_mk(l: u32, a: Tree, b: Tree)
    ensures #[trigger] wf(mk(l, a, b)) == (l < u32::MAX && (l as int) < top(a) && (l as int) < top(b) && a != b && wf(a) && wf(b)) {}
pub broadcast proof fn lemma_below_mk(l: u32, a: Tree, b: Tree, n: int)
    ensures #[trigger] below(mk(l, a, b), n) == ((l as int) < n && below(a, n) && below(b, n)) {}
pub broadcast group leaf_lemmas { lemma_sem_mk, lemma_wf_mk, lemma_below_mk }
pub open spec fn is_inner(t: Tree) -> bool { t is Inner }
pub open spec fn ok(t: Tree, n: int) -> bool { wf(t) && below(t, n) }

/// propositional oracle for the eight binary connectives, written from the property statement.
/// The codes are local to this bundle; `bo_code` maps the real `BooleanOperator` to them by name.
pub const O_AND: u8 = 0;
pub const O_OR: u8 = 1;
pub const O_NAND: u8 = 2;
pub const O_NOR: u8 = 3;
pub const O_XOR: u8 = 4;
pub const O_EQUIV: u8 = 5;
pub const O_IMP: u8 = 6;
pub const O_IMP_STRICT: u8 = 7;
pub open spec fn op_sem(op: u8, a: bool, b: bool) -> bool {
    if op == O_AND { a && b }
    else if op == O_OR { a || b }
    else if op == O_NAND { !(a && b) }
    else if op == O_NOR { !(a || b) }
    else if op == O_XOR { a != b }
    else if op == O_EQUIV { a == b }
    else if op == O_IMP { !a || b }
    else { !a && b }
}
pub open spec fn prop_and(a: bool, b: bool) -> bool { a && b }
pub open spec fn prop_or(a: bool, b: bool) -> bool { a || b }
pub open spec fn prop_nand(a: bool, b: bool) -> bool { !(a && b) }
pub open spec fn prop_nor(a: bool, b: bool) -> bool { !(a || b) }
pub open spec fn prop_xor(a: bool, b: bool) -> bool { a != b }
pub open spec fn prop_equiv(a: bool, b: bool) -> bool { a == b }
pub open spec fn prop_imp(a: bool, b: bool) -> bool { a ==> b }
pub open spec fn prop_imp_strict(a: bool, b: bool) -> bool { !a && b }
pub open spec fn is_bin(op: u8) -> bool { op <= O_IMP_STRICT }
pub open spec fn commutative(op: u8) -> bool { op <= O_EQUIV }

// ---------- quantification (C04) ----------
pub open spec fn upd(env: Env, l: int, v: bool) -> Env { |i: int| if i == l { v } else { env(i) } }
pub open spec fn is_q(q: u8) -> bool { q == O_AND || q == O_OR || q == O_XOR }
/// `Q x_l1. Q x_l2. ... t` for the levels along the then-chain of `vs` (a positive cube = a variable set)
pub open spec fn qsem(q: u8, t: Tree, vs: Tree, env: Env) -> bool decreases vs {
    match vs {
        Tree::Leaf(_) => sem(t, env),
        Tree::Inner(l, a, _) => op_sem(q, qsem(q, t, *a, upd(env, l as int, true)), qsem(q, t, *a, upd(env, l as int, false))),
    }
}
/// `Q vars. (f OP g)`
pub open spec fn qsem2(q: u8, op: u8, f: Tree, g: Tree, vs: Tree, env: Env) -> bool decreases vs {
    match vs {
        Tree::Leaf(_) => op_sem(op, sem(f, env), sem(g, env)),
        Tree::Inner(l, a, _) => op_sem(q, qsem2(q, op, f, g, *a, upd(env, l as int, true)), qsem2(q, op, f, g, *a, upd(env, l as int, false))),
    }
}
/// variables above level `until` removed from the set
pub open spec fn popped(vs: Tree, until: int) -> Tree decreases vs {
    match vs {
        Tree::Leaf(_) => vs,
        Tree::Inner(l, a, _) => if (l as int) >= until { vs } else { popped(*a, until) },
    }
}
pub open spec fn agree_from(e1: Env, e2: Env, m: int) -> bool { forall|i: int| i >= m ==> #[trigger] e1(i) == e2(i) }

pub proof fn lemma_sem_agree(t: Tree, e1: Env, e2: Env)
    requires wf(t), agree_from(e1, e2, top(t)),
    ensures sem(t, e1) == sem(t, e2),
    decreases t,
{
    match t {
        Tree::Leaf(_) => {}
        Tree::Inner(l, a, b) => { lemma_sem_agree(*a, e1, e2); lemma_sem_agree(*b, e1, e2); }
    }
}
pub proof fn lemma_qsem_agree(q: u8, t: Tree, vs: Tree, e1: Env, e2: Env)
    requires wf(t), agree_from(e1, e2, top(t)),
    ensures qsem(q, t, vs, e1) == qsem(q, t, vs, e2),
    decreases vs,
{
    match vs {
        Tree::Leaf(_) => { lemma_sem_agree(t, e1, e2); }
        Tree::Inner(l, a, _) => {
            lemma_qsem_agree(q, t, *a, upd(e1, l as int, true), upd(e2, l as int, true));
            lemma_qsem_agree(q, t, *a, upd(e1, l as int, false), upd(e2, l as int, false));
        }
    }
}
/// a variable above the top of `t` is irrelevant
pub broadcast proof fn lemma_qsem_upd(q: u8, t: Tree, vs: Tree, env: Env, l: int, b: bool)
    requires wf(t), l < top(t),
    ensures #[trigger] qsem(q, t, vs, upd(env, l, b)) == qsem(q, t, vs, env),
{
    lemma_qsem_agree(q, t, vs, upd(env, l, b), env);
}
pub broadcast proof fn lemma_sem_upd(t: Tree, env: Env, l: int, b: bool)
    requires wf(t), l < top(t),
    ensures #[trigger] sem(t, upd(env, l, b)) == sem(t, env),
{
    lemma_sem_agree(t, upd(env, l, b), env);
}
/// Shannon expansion commutes with quantification over lower variables
pub broadcast proof fn lemma_qsem_mk(q: u8, l: u32, a: Tree, b: Tree, vs: Tree, env: Env)
    requires wf(vs), (l as int) < top(vs),
    ensures #[trigger] qsem(q, mk(l, a, b), vs, env) == (if env(l as int) { qsem(q, a, vs, env) } else { qsem(q, b, vs, env) }),
    decreases vs,
{
    match vs {
        Tree::Leaf(_) => {}
        Tree::Inner(k, va, _) => {
            lemma_qsem_mk(q, l, a, b, *va, upd(env, k as int, true));
            lemma_qsem_mk(q, l, a, b, *va, upd(env, k as int, false));
        }
    }
}
/// one unfolding step of qsem in the variable-set argument, at full fuel
pub broadcast proof fn lemma_qsem_vs_mk(q: u8, t: Tree, l: u32, a: Tree, b: Tree, env: Env)
    ensures #[trigger] qsem(q, t, mk(l, a, b), env) == op_sem(q, qsem(q, t, a, upd(env, l as int, true)), qsem(q, t, a, upd(env, l as int, false))),
{}
pub broadcast proof fn lemma_qsem_vs_leaf(q: u8, t: Tree, b: bool, env: Env)
    ensures #[trigger] qsem(q, t, Tree::Leaf(b), env) == sem(t, env),
{}
pub broadcast proof fn lemma_qsem_const(q: u8, c: bool, vs: Tree, env: Env)
    requires q == O_AND || q == O_OR,
    ensures #[trigger] qsem(q, Tree::Leaf(c), vs, env) == c,
    decreases vs,
{
    match vs {
        Tree::Leaf(_) => {}
        Tree::Inner(k, va, _) => {
            lemma_qsem_const(q, c, *va, upd(env, k as int, true));
            lemma_qsem_const(q, c, *va, upd(env, k as int, false));
        }
    }
}
pub broadcast proof fn lemma_popped(q: u8, t: Tree, vs: Tree, until: int, env: Env)
    requires q == O_AND || q == O_OR, wf(t), until <= top(t),
    ensures qsem(q, t, #[trigger] popped(vs, until), env) == #[trigger] qsem(q, t, vs, env),
    decreases vs,
{
    match vs {
        Tree::Leaf(_) => {}
        Tree::Inner(l, a, _) => {
            if (l as int) < until {
                lemma_popped(q, t, *a, until, env);
                lemma_qsem_agree(q, t, *a, upd(env, l as int, true), env);
                lemma_qsem_agree(q, t, *a, upd(env, l as int, false), env);
            }
        }
    }
}
pub broadcast proof fn lemma_popped_ok(vs: Tree, until: int, n: int)
    requires #[trigger] below(vs, n), wf(vs),
    ensures below(#[trigger] popped(vs, until), n), wf(popped(vs, until)), top(popped(vs, until)) >= until || popped(vs, until) is Leaf, top(popped(vs, until)) >= top(vs),
    decreases vs,
{
    match vs {
        Tree::Leaf(_) => {}
        Tree::Inner(l, a, _) => { if (l as int) < until { lemma_popped_ok(*a, until, n); } }
    }
}
pub broadcast proof fn lemma_popped_wf(vs: Tree, until: int)
    requires wf(vs),
    ensures wf(#[trigger] popped(vs, until)), top(popped(vs, until)) >= until || popped(vs, until) is Leaf, top(popped(vs, until)) >= top(vs),
    decreases vs,
{
    match vs {
        Tree::Leaf(_) => {}
        Tree::Inner(l, a, _) => { if (l as int) < until { lemma_popped_wf(*a, until); } }
    }
}
pub broadcast proof fn lemma_popped_mk(l: u32, a: Tree, b: Tree, until: int)
    ensures #[trigger] popped(mk(l, a, b), until) == (if (l as int) >= until { mk(l, a, b) } else { popped(a, until) }),
{}
pub broadcast group popped_lemmas { lemma_popped_ok, lemma_popped_wf, lemma_popped_mk }
pub broadcast group quant_lemmas { lemma_qsem_upd, lemma_sem_upd, lemma_qsem_mk, lemma_qsem_vs_mk, lemma_qsem_vs_leaf, lemma_qsem_const, lemma_popped, lemma_popped_ok, lemma_popped_wf, lemma_popped_mk }

pub proof fn lemma_qsem2_agree(q: u8, op: u8, f: Tree, g: Tree, vs: Tree, e1: Env, e2: Env)
    requires wf(f), wf(g), agree_from(e1, e2, top(f)), agree_from(e1, e2, top(g)),
    ensures qsem2(q, op, f, g, vs, e1) == qsem2(q, op, f, g, vs, e2),
    decreases vs,
{
    match vs {
        Tree::Leaf(_) => { lemma_sem_agree(f, e1, e2); lemma_sem_agree(g, e1, e2); }
        Tree::Inner(l, a, _) => {
            lemma_qsem2_agree(q, op, f, g, *a, upd(e1, l as int, true), upd(e2, l as int, true));
            lemma_qsem2_agree(q, op, f, g, *a, upd(e1, l as int, false), upd(e2, l as int, false));
        }
    }
}
pub broadcast proof fn lemma_qsem2_upd(q: u8, op: u8, f: Tree, g: Tree, vs: Tree, env: Env, l: int, b: bool)
    requires wf(f), wf(g), l < top(f), l < top(g),
    ensures #[trigger] qsem2(q, op, f, g, vs, upd(env, l, b)) == qsem2(q, op, f, g, vs, env),
{
    lemma_qsem2_agree(q, op, f, g, vs, upd(env, l, b), env);
}
pub broadcast proof fn lemma_qsem2_vs_mk(q: u8, op: u8, f: Tree, g: Tree, l: u32, a: Tree, b: Tree, env: Env)
    ensures #[trigger] qsem2(q, op, f, g, mk(l, a, b), env) == op_sem(q, qsem2(q, op, f, g, a, upd(env, l as int, true)), qsem2(q, op, f, g, a, upd(env, l as int, false))),
{}
pub broadcast proof fn lemma_qsem2_vs_leaf(q: u8, op: u8, f: Tree, g: Tree, b: bool, env: Env)
    ensures #[trigger] qsem2(q, op, f, g, Tree::Leaf(b), env) == op_sem(op, sem(f, env), sem(g, env)),
{}
/// Shannon expansion of the first operand (its top level is above the second operand and above all quantified variables)
pub broadcast proof fn lemma_qsem2_mk_f(q: u8, op: u8, l: u32, a: Tree, b: Tree, g: Tree, vs: Tree, env: Env)
    requires wf(vs), (l as int) < top(vs), wf(g), (l as int) < top(g),
    ensures #[trigger] qsem2(q, op, mk(l, a, b), g, vs, env) == (if env(l as int) { qsem2(q, op, a, g, vs, env) } else { qsem2(q, op, b, g, vs, env) }),
    decreases vs,
{
    match vs {
        Tree::Leaf(_) => { lemma_sem_agree(g, env, env); }
        Tree::Inner(k, va, _) => {
            lemma_qsem2_mk_f(q, op, l, a, b, g, *va, upd(env, k as int, true));
            lemma_qsem2_mk_f(q, op, l, a, b, g, *va, upd(env, k as int, false));
        }
    }
}
pub broadcast proof fn lemma_qsem2_mk_g(q: u8, op: u8, f: Tree, l: u32, c: Tree, d: Tree, vs: Tree, env: Env)
    requires wf(vs), (l as int) < top(vs), wf(f), (l as int) < top(f),
    ensures #[trigger] qsem2(q, op, f, mk(l, c, d), vs, env) == (if env(l as int) { qsem2(q, op, f, c, vs, env) } else { qsem2(q, op, f, d, vs, env) }),
    decreases vs,
{
    match vs {
        Tree::Leaf(_) => {}
        Tree::Inner(k, va, _) => {
            lemma_qsem2_mk_g(q, op, f, l, c, d, *va, upd(env, k as int, true));
            lemma_qsem2_mk_g(q, op, f, l, c, d, *va, upd(env, k as int, false));
        }
    }
}
pub broadcast proof fn lemma_qsem2_mk_fg(q: u8, op: u8, l: u32, a: Tree, b: Tree, l2: u32, c: Tree, d: Tree, vs: Tree, env: Env)
    requires wf(vs), (l as int) < top(vs), l == l2,
    ensures #[trigger] qsem2(q, op, mk(l, a, b), mk(l2, c, d), vs, env) == (if env(l as int) { qsem2(q, op, a, c, vs, env) } else { qsem2(q, op, b, d, vs, env) }),
    decreases vs,
{
    match vs {
        Tree::Leaf(_) => {}
        Tree::Inner(k, va, _) => {
            lemma_qsem2_mk_fg(q, op, l, a, b, l2, c, d, *va, upd(env, k as int, true));
            lemma_qsem2_mk_fg(q, op, l, a, b, l2, c, d, *va, upd(env, k as int, false));
        }
    }
}
pub broadcast proof fn lemma_popped2(q: u8, op: u8, f: Tree, g: Tree, vs: Tree, until: int, env: Env)
    requires q == O_AND || q == O_OR, wf(f), wf(g), until <= top(f), until <= top(g),
    ensures qsem2(q, op, f, g, #[trigger] popped(vs, until), env) == #[trigger] qsem2(q, op, f, g, vs, env),
    decreases vs,
{
    match vs {
        Tree::Leaf(_) => {}
        Tree::Inner(l, a, _) => {
            if (l as int) < until {
                lemma_popped2(q, op, f, g, *a, until, env);
                lemma_qsem2_agree(q, op, f, g, *a, upd(env, l as int, true), env);
                lemma_qsem2_agree(q, op, f, g, *a, upd(env, l as int, false), env);
            }
        }
    }
}
/// unique quantification of a variable that occurs in neither operand yields false
pub broadcast proof fn lemma_qsem2_xor_above(q: u8, op: u8, f: Tree, g: Tree, l: u32, a: Tree, b: Tree, env: Env)
    requires q == O_XOR, wf(f), wf(g), (l as int) < top(f), (l as int) < top(g),
    ensures #[trigger] qsem2(q, op, f, g, mk(l, a, b), env) == false,
{
    lemma_qsem2_agree(q, op, f, g, a, upd(env, l as int, true), upd(env, l as int, false));
}
pub broadcast proof fn lemma_qsem_xor_above(q: u8, t: Tree, l: u32, a: Tree, b: Tree, env: Env)
    requires q == O_XOR, wf(t), (l as int) < top(t),
    ensures #[trigger] qsem(q, t, mk(l, a, b), env) == false,
{
    lemma_qsem_agree(q, t, a, upd(env, l as int, true), upd(env, l as int, false));
}
pub broadcast proof fn lemma_qsem2_comm(q: u8, op: u8, f: Tree, g: Tree, vs: Tree, env: Env)
    requires commutative(op),
    ensures #[trigger] qsem2(q, op, f, g, vs, env) == qsem2(q, op, g, f, vs, env),
    decreases vs,
{
    match vs {
        Tree::Leaf(_) => {}
        Tree::Inner(l, a, _) => {
            lemma_qsem2_comm(q, op, f, g, *a, upd(env, l as int, true));
            lemma_qsem2_comm(q, op, f, g, *a, upd(env, l as int, false));
        }
    }
}
/// "apply_Q(op, f, g, vars) equals the plain operator followed by the quantification"
pub broadcast proof fn lemma_qsem_link(q: u8, op: u8, h: Tree, f: Tree, g: Tree, vs: Tree, env: Env)
    requires forall|e: Env| #[trigger] sem(h, e) == op_sem(op, sem(f, e), sem(g, e)),
    ensures #[trigger] qsem(q, h, vs, env) == #[trigger] qsem2(q, op, f, g, vs, env),
    decreases vs,
{
    match vs {
        Tree::Leaf(_) => {}
        Tree::Inner(l, a, _) => {
            lemma_qsem_link(q, op, h, f, g, *a, upd(env, l as int, true));
            lemma_qsem_link(q, op, h, f, g, *a, upd(env, l as int, false));
        }
    }
}
pub broadcast group quant2_lemmas { lemma_qsem2_upd, lemma_qsem2_vs_mk, lemma_qsem2_vs_leaf, lemma_qsem2_mk_f, lemma_qsem2_mk_g, lemma_qsem2_mk_fg,
    lemma_popped2, lemma_qsem2_xor_above, lemma_qsem_xor_above, lemma_qsem2_comm, lemma_qsem_link }
// ---------- de Morgan dualisation of apply-quantify (C04): the table used by `apply_quant_dispatch` ----------
pub open spec fn is_dual(q1: u8, q2: u8) -> bool { (q1 == O_AND && q2 == O_OR) || (q1 == O_OR && q2 == O_AND) }
/// `not Q1 v. (f1 op1 g1) == Q2 v. (f2 op2 g2)` when Q1/Q2 are dual and the matrices are pointwise complementary
pub broadcast proof fn lemma_qsem2_dual(q1: u8, op1: u8, f1: Tree, g1: Tree, q2: u8, op2: u8, f2: Tree, g2: Tree, vs: Tree, env: Env)
    requires is_dual(q1, q2), forall|e: Env| op_sem(op1, #[trigger] sem(f1, e), sem(g1, e)) == !op_sem(op2, sem(f2, e), sem(g2, e)),
    ensures #[trigger] qsem2(q1, op1, f1, g1, vs, env) == !#[trigger] qsem2(q2, op2, f2, g2, vs, env),
    decreases vs,
{
    match vs {
        Tree::Leaf(_) => {}
        Tree::Inner(l, a, _) => {
            lemma_qsem2_dual(q1, op1, f1, g1, q2, op2, f2, g2, *a, upd(env, l as int, true));
            lemma_qsem2_dual(q1, op1, f1, g1, q2, op2, f2, g2, *a, upd(env, l as int, false));
        }
    }
}
/// the quantified matrix may be replaced by a pointwise equal one
pub broadcast proof fn lemma_qsem2_cong(q: u8, op1: u8, f1: Tree, g1: Tree, op2: u8, f2: Tree, g2: Tree, vs: Tree, env: Env)
    requires forall|e: Env| op_sem(op1, #[trigger] sem(f1, e), sem(g1, e)) == op_sem(op2, sem(f2, e), sem(g2, e)),
    ensures #[trigger] qsem2(q, op1, f1, g1, vs, env) == #[trigger] qsem2(q, op2, f2, g2, vs, env),
    decreases vs,
{
    match vs {
        Tree::Leaf(_) => {}
        Tree::Inner(l, a, _) => {
            lemma_qsem2_cong(q, op1, f1, g1, op2, f2, g2, *a, upd(env, l as int, true));
            lemma_qsem2_cong(q, op1, f1, g1, op2, f2, g2, *a, upd(env, l as int, false));
        }
    }
}
pub broadcast group dual_lemmas { lemma_qsem2_dual, lemma_qsem2_cong }

// ---------- substitution (C04) ----------
/// environment in which every level `i < s.len()` takes the value of its replacement function (simultaneous substitution)
pub open spec fn senv(s: Seq<Tree>, env: Env) -> Env { |i: int| if 0 <= i < s.len() { sem(s[i], env) } else { env(i) } }
pub broadcast proof fn lemma_senv_above(t: Tree, s: Seq<Tree>, env: Env)
    requires wf(t), top(t) >= s.len(),
    ensures #[trigger] sem(t, senv(s, env)) == sem(t, env),
{
    lemma_sem_agree(t, senv(s, env), env);
}
pub broadcast group subst_lemmas { lemma_senv_above }

// ---------- restrict (C04): cofactor w.r.t. a partial assignment given as a cube ----------
pub open spec fn next_cube(a: Tree, b: Tree) -> Tree { if a == Tree::Leaf(false) { b } else { a } }
/// value of level `i` under `env` overridden by the literals of cube `c`
/// (node with then-child != false: positive literal, continue in the then-child;
///  then-child == false: negative literal, continue in the else-child)
pub open spec fn cube_val(c: Tree, env: Env, i: int) -> bool decreases c {
    match c {
        Tree::Leaf(_) => env(i),
        Tree::Inner(l, a, b) => if i == l as int { *a != Tree::Leaf(false) } else { cube_val(next_cube(*a, *b), env, i) },
    }
}
pub open spec fn cenv(c: Tree, env: Env) -> Env { |i: int| cube_val(c, env, i) }
pub broadcast proof fn lemma_cube_val_mk(l: u32, a: Tree, b: Tree, env: Env, i: int)
    ensures #[trigger] cube_val(mk(l, a, b), env, i) == (if i == l as int { a != Tree::Leaf(false) } else { cube_val(next_cube(a, b), env, i) }),
{}
pub broadcast proof fn lemma_cube_val_above(c: Tree, env: Env, i: int)
    requires wf(c), i < top(c),
    ensures #[trigger] cube_val(c, env, i) == env(i),
    decreases c,
{
    match c {
        Tree::Leaf(_) => {}
        Tree::Inner(l, a, b) => { lemma_cube_val_above(next_cube(*a, *b), env, i); }
    }
}
pub broadcast proof fn lemma_cenv_leaf(t: Tree, b: bool, env: Env)
    requires wf(t),
    ensures #[trigger] sem(t, cenv(Tree::Leaf(b), env)) == sem(t, env),
{
    lemma_sem_agree(t, cenv(Tree::Leaf(b), env), env);
}
pub broadcast proof fn lemma_cenv_skip(t: Tree, l: u32, a: Tree, b: Tree, env: Env)
    requires wf(t), (l as int) < top(t),
    ensures #[trigger] sem(t, cenv(mk(l, a, b), env)) == sem(t, cenv(next_cube(a, b), env)),
{
    lemma_sem_agree(t, cenv(mk(l, a, b), env), cenv(next_cube(a, b), env));
}
pub broadcast proof fn lemma_cenv_same(l: u32, ft: Tree, fe: Tree, l2: u32, a: Tree, b: Tree, env: Env)
    requires wf(mk(l, ft, fe)), l == l2,
    ensures #[trigger] sem(mk(l, ft, fe), cenv(mk(l2, a, b), env)) == sem(if a != Tree::Leaf(false) { ft } else { fe }, cenv(next_cube(a, b), env)),
{
    lemma_sem_agree(ft, cenv(mk(l, a, b), env), cenv(next_cube(a, b), env));
    lemma_sem_agree(fe, cenv(mk(l, a, b), env), cenv(next_cube(a, b), env));
}
pub broadcast group restrict_lemmas { lemma_cube_val_mk, lemma_cube_val_above, lemma_cenv_leaf, lemma_cenv_skip, lemma_cenv_same }
// ---------- cube picking (C13) ----------
pub open spec fn ff() -> Tree { Tree::Leaf(false) }
/// rest of a literal set below its top literal (positive literal <=> else-child is false)
pub open spec fn next_lit(a: Tree, b: Tree) -> Tree { if b == ff() { a } else { b } }
pub open spec fn then_of(t: Tree) -> Tree { match t { Tree::Inner(_, a, _) => *a, _ => t } }
pub open spec fn else_of(t: Tree) -> Tree { match t { Tree::Inner(_, _, b) => *b, _ => t } }
/// polarity of level `l` in a literal set (conjunction of literals: positive literal = else-child is false,
/// negative literal = then-child is false; the rest of the set hangs below the non-false child)
pub open spec fn lit_pol(ls: Tree, l: int) -> Option<bool> decreases ls {
    match ls {
        Tree::Leaf(_) => None,
        Tree::Inner(k, a, b) => if k as int == l { Some(*b == ff()) } else if (k as int) < l { lit_pol(next_lit(*a, *b), l) } else { None },
    }
}
/// `r` is a cube picked from `t`: one node per visited level, the other child is false, never descends into a
/// false child, and where both children are satisfiable and the literal set `ls` mentions the level, its
/// polarity is followed.  (Levels not mentioned: either branch is allowed.)
pub open spec fn pick_ok(t: Tree, ls: Tree, r: Tree) -> bool decreases t {
    match t {
        Tree::Leaf(_) => r == t,
        Tree::Inner(l, a, b) => match r {
            Tree::Leaf(_) => false,
            Tree::Inner(rl, ra, rb) => rl == l && {
                let free = *a != ff() && *b != ff() && lit_pol(ls, l as int) is Some;
                ||| (*rb == ff() && *a != ff() && pick_ok(*a, ls, *ra) && (free ==> lit_pol(ls, l as int) == Some(true)))
                ||| (*ra == ff() && *b != ff() && pick_ok(*b, ls, *rb) && (free ==> lit_pol(ls, l as int) == Some(false)))
            },
        },
    }
}
/// `r` follows the caller's choice oracle `o` wherever the value is not forced (both children satisfiable)
pub open spec fn pick_follows(t: Tree, o: spec_fn(Tree, u32) -> bool, r: Tree) -> bool decreases t {
    match t {
        Tree::Leaf(_) => true,
        Tree::Inner(l, a, b) => match r {
            Tree::Leaf(_) => false,
            Tree::Inner(rl, ra, rb) => {
                let free = *a != ff() && *b != ff();
                ||| (*rb == ff() && (free ==> o(t, l)) && pick_follows(*a, o, *ra))
                ||| (*ra == ff() && (free ==> !o(t, l)) && pick_follows(*b, o, *rb))
            },
        },
    }
}
pub broadcast proof fn lemma_pick_follows_mk(l: u32, a: Tree, b: Tree, o: spec_fn(Tree, u32) -> bool, rl: u32, ra: Tree, rb: Tree)
    ensures #[trigger] pick_follows(mk(l, a, b), o, mk(rl, ra, rb)) == ({
        let free = a != ff() && b != ff();
        ||| (rb == ff() && (free ==> o(mk(l, a, b), l)) && pick_follows(a, o, ra))
        ||| (ra == ff() && (free ==> !o(mk(l, a, b), l)) && pick_follows(b, o, rb))
    }),
{}
pub broadcast proof fn lemma_pick_follows_leaf(c: bool, o: spec_fn(Tree, u32) -> bool, r: Tree)
    ensures #[trigger] pick_follows(Tree::Leaf(c), o, r),
{}
pub open spec fn is_cube(r: Tree) -> bool decreases r {
    match r {
        Tree::Leaf(b) => b,
        Tree::Inner(_, a, b) => (*b == ff() && is_cube(*a)) || (*a == ff() && is_cube(*b)),
    }
}
/// consequences of pick_ok that the property states: nothing/false exactly for the unsatisfiable function,
/// otherwise a cube that implies the function
pub proof fn lemma_pick_ok_props(t: Tree, ls: Tree, r: Tree, n: int)
    requires ok(t, n), pick_ok(t, ls, r),
    ensures ok(r, n), top(r) >= top(t), (r == ff()) <==> (t == ff()), t != ff() ==> is_cube(r),
        forall|env: Env| sem(r, env) ==> #[trigger] sem(t, env),
    decreases t,
{
    match t {
        Tree::Leaf(_) => {}
        Tree::Inner(l, a, b) => {
            match r {
                Tree::Leaf(_) => {}
                Tree::Inner(rl, ra, rb) => {
                    assert(wf(ff()) && below(ff(), n) && top(ff()) == u32::MAX as int);
                    assert forall|env: Env| !sem(ff(), env) by {}
                    if *rb == ff() && *a != ff() && pick_ok(*a, ls, *ra) {
                        lemma_pick_ok_props(*a, ls, *ra, n);
                        assert(wf(r)); assert(below(r, n));
                        assert forall|env: Env| sem(r, env) implies #[trigger] sem(t, env) by { assert(!sem(ff(), env)); assert(sem(*ra, env) ==> sem(*a, env)); }
                    } else {
                        lemma_pick_ok_props(*b, ls, *rb, n);
                        assert(wf(r)); assert(below(r, n));
                        assert forall|env: Env| sem(r, env) implies #[trigger] sem(t, env) by { assert(!sem(ff(), env)); assert(sem(*rb, env) ==> sem(*b, env)); }
                    }
                }
            }
        }
    }
}
pub broadcast proof fn lemma_pick_ok_mk(l: u32, a: Tree, b: Tree, ls: Tree, rl: u32, ra: Tree, rb: Tree)
    ensures #[trigger] pick_ok(mk(l, a, b), ls, mk(rl, ra, rb)) == (rl == l && {
        let free = a != ff() && b != ff() && lit_pol(ls, l as int) is Some;
        ||| (rb == ff() && a != ff() && pick_ok(a, ls, ra) && (free ==> lit_pol(ls, l as int) == Some(true)))
        ||| (ra == ff() && b != ff() && pick_ok(b, ls, rb) && (free ==> lit_pol(ls, l as int) == Some(false)))
    }),
{}
pub broadcast proof fn lemma_pick_ok_leaf(c: bool, ls: Tree, r: Tree)
    ensures #[trigger] pick_ok(Tree::Leaf(c), ls, r) == (r == Tree::Leaf(c)),
{}
pub broadcast proof fn lemma_pick_ok_ok(t: Tree, ls: Tree, r: Tree, n: int)
    requires wf(t), #[trigger] below(t, n), #[trigger] pick_ok(t, ls, r),
    ensures ok(r, n), top(r) >= top(t), (r == ff()) <==> (t == ff()),
{
    lemma_pick_ok_props(t, ls, r, n);
}
/// variant of `lemma_pick_ok_ok` that needs no level bound
pub broadcast proof fn lemma_pick_ok_top(t: Tree, ls: Tree, r: Tree)
    requires wf(t), #[trigger] pick_ok(t, ls, r),
    ensures top(r) >= top(t), (r == ff()) <==> (t == ff()),
{
    match t { Tree::Leaf(_) => {} Tree::Inner(l, a, b) => { match r { Tree::Leaf(_) => {} Tree::Inner(rl, ra, rb) => {} } } }
}
pub broadcast proof fn lemma_lit_pol_mk(k: u32, a: Tree, b: Tree, l: int)
    ensures #[trigger] lit_pol(mk(k, a, b), l) == (if k as int == l { Some(b == ff()) } else if (k as int) < l { lit_pol(next_lit(a, b), l) } else { None }),
{}
pub broadcast proof fn lemma_lit_pol_leaf(c: bool, l: int)
    ensures #[trigger] lit_pol(Tree::Leaf(c), l) == None::<bool>,
{}
/// the literal set may be replaced by any set that agrees on all levels the diagram can still visit
pub proof fn lemma_pick_ok_transfer(t: Tree, ls1: Tree, ls2: Tree, r: Tree)
    requires wf(t), pick_ok(t, ls1, r), forall|l: int| l >= top(t) ==> #[trigger] lit_pol(ls1, l) == lit_pol(ls2, l),
    ensures pick_ok(t, ls2, r),
    decreases t,
{
    match t {
        Tree::Leaf(_) => {}
        Tree::Inner(l, a, b) => {
            match r {
                Tree::Leaf(_) => {}
                Tree::Inner(rl, ra, rb) => {
                    assert(lit_pol(ls1, l as int) == lit_pol(ls2, l as int));
                    if *rb == ff() && *a != ff() && pick_ok(*a, ls1, *ra) { lemma_pick_ok_transfer(*a, ls1, ls2, *ra); }
                    if *ra == ff() && *b != ff() && pick_ok(*b, ls1, *rb) { lemma_pick_ok_transfer(*b, ls1, ls2, *rb); }
                }
            }
        }
    }
}
/// literal sets below `u`: dropping literals above level `u` (following the non-false child) does not change lookups at or below `u`
pub open spec fn lpopped(ls: Tree, until: int) -> Tree decreases ls {
    match ls {
        Tree::Leaf(_) => ls,
        Tree::Inner(k, a, b) => if (k as int) >= until { ls } else { lpopped(next_lit(*a, *b), until) },
    }
}
pub proof fn lemma_lit_pol_lpopped(ls: Tree, until: int, l: int)
    requires l >= until,
    ensures lit_pol(lpopped(ls, until), l) == lit_pol(ls, l),
    decreases ls,
{
    match ls {
        Tree::Leaf(_) => {}
        Tree::Inner(k, a, b) => { if (k as int) < until { lemma_lit_pol_lpopped(next_lit(*a, *b), until, l); } }
    }
}
/// transfer along one step of the recursion: the callee saw the literal set `ls1`, where `ls1` agrees with
/// `lpopped(ls, u)` for some `u <= top(t)`
pub broadcast proof fn lemma_pick_ok_lpopped(t: Tree, ls: Tree, u: int, r: Tree)
    requires wf(t), u <= top(t), #[trigger] pick_ok(t, lpopped(ls, u), r),
    ensures pick_ok(t, ls, r),
{
    assert forall|l: int| l >= top(t) implies #[trigger] lit_pol(lpopped(ls, u), l) == lit_pol(ls, l) by { lemma_lit_pol_lpopped(ls, u, l); }
    lemma_pick_ok_transfer(t, lpopped(ls, u), ls, r);
}
/// one recursion step: the callee saw the rest `x` of the literal set below the literal at the current level
pub broadcast proof fn lemma_pick_ok_step(t: Tree, ls: Tree, u: int, x: Tree, r: Tree)
    requires wf(t), wf(ls), (#[trigger] lpopped(ls, u)) is Inner, top(lpopped(ls, u)) < top(t),
        x == next_lit(then_of(lpopped(ls, u)), else_of(lpopped(ls, u))), #[trigger] pick_ok(t, x, r),
    ensures pick_ok(t, ls, r),
{
    let p = lpopped(ls, u);
    lemma_lpopped_wf(ls, u);
    assert forall|l: int| l >= top(t) implies #[trigger] lit_pol(x, l) == lit_pol(ls, l) by {
        lemma_lit_pol_lpopped(ls, u, l);
    }
    lemma_pick_ok_transfer(t, x, ls, r);
}
pub broadcast proof fn lemma_lpopped_mk(k: u32, a: Tree, b: Tree, until: int)
    ensures #[trigger] lpopped(mk(k, a, b), until) == (if (k as int) >= until { mk(k, a, b) } else { lpopped(next_lit(a, b), until) }),
{}
pub broadcast proof fn lemma_lpopped_ok(ls: Tree, until: int, n: int)
    requires #[trigger] below(ls, n), wf(ls),
    ensures below(#[trigger] lpopped(ls, until), n), wf(lpopped(ls, until)), top(lpopped(ls, until)) >= until || lpopped(ls, until) is Leaf,
    decreases ls,
{
    match ls {
        Tree::Leaf(_) => {}
        Tree::Inner(k, a, b) => { if (k as int) < until { lemma_lpopped_ok(next_lit(*a, *b), until, n); } }
    }
}
pub broadcast proof fn lemma_lit_pol_lpopped_b(ls: Tree, until: int, l: int)
    requires l >= until,
    ensures lit_pol(#[trigger] lpopped(ls, until), l) == #[trigger] lit_pol(ls, l),
{
    lemma_lit_pol_lpopped(ls, until, l);
}
pub proof fn lemma_lpopped_wf(ls: Tree, until: int)
    requires wf(ls),
    ensures wf(lpopped(ls, until)), top(lpopped(ls, until)) >= until || lpopped(ls, until) is Leaf,
    decreases ls,
{
    match ls {
        Tree::Leaf(_) => {}
        Tree::Inner(k, a, b) => { if (k as int) < until { lemma_lpopped_wf(next_lit(*a, *b), until); } }
    }
}
pub broadcast proof fn lemma_lpopped_id(ls: Tree, until: int)
    requires top(ls) >= until,
    ensures #[trigger] lpopped(ls, until) == ls,
{}
pub broadcast proof fn lemma_lpopped_wf_b(ls: Tree, until: int)
    requires wf(ls),
    ensures wf(#[trigger] lpopped(ls, until)), top(lpopped(ls, until)) >= until || lpopped(ls, until) is Leaf,
{ lemma_lpopped_wf(ls, until); }
pub broadcast group pick_lemmas { lemma_lpopped_wf_b, lemma_pick_follows_mk, lemma_pick_follows_leaf, lemma_pick_ok_top, lemma_pick_ok_mk, lemma_pick_ok_leaf, lemma_pick_ok_ok, lemma_lit_pol_mk, lemma_lit_pol_leaf, lemma_pick_ok_lpopped, lemma_pick_ok_step, lemma_lit_pol_lpopped_b, lemma_lpopped_mk, lemma_lpopped_id, lemma_lpopped_ok }

// ---------- model counting (C12) ----------
pub open spec fn pow2(k: nat) -> int decreases k { if k == 0 { 1 } else { 2 * pow2((k - 1) as nat) } }
pub broadcast proof fn lemma_pow2_1() ensures #[trigger] pow2(1) == 2 { assert(pow2(0) == 1); }
pub broadcast group count_lemmas { lemma_pow2_1 }
/// abstract numeric value of a count
pub trait NumView { spec fn nv(&self) -> int; }
pub trait IsFloatingPoint { const MIN_EXP: i32; }
pub trait SatCountNumber: Clone + From<u32> + std::ops::Add<Self, Output = Self> + std::ops::Shl<u32, Output = Self> + std::ops::Shr<u32, Output = Self> + IsFloatingPoint + NumView {}
/// ASSUMED model of the number type: exact naturals, `>> k` is floor division by 2^k, `<< k` multiplication.
/// (Checked for Saturating<u64|u128> and Natural within their representable range by Kani suite core_num.)
pub open spec fn num_ok<N: SatCountNumber>() -> bool {
    &&& N::obeys_add_spec()
    &&& forall|a: N, b: N| #[trigger] a.add_req(b)
    &&& forall|a: N, b: N| (#[trigger] a.add_spec(b)).nv() == a.nv() + b.nv()
    &&& <N as ShrSpec<u32>>::obeys_shr_spec()
    &&& forall|a: N, k: u32| #[trigger] a.shr_req(k)
    &&& forall|a: N, k: u32| (#[trigger] a.shr_spec(k)).nv() == a.nv() / pow2(k as nat)
    &&& <N as ShlSpec<u32>>::obeys_shl_spec()
    &&& forall|a: N, k: u32| #[trigger] a.shl_req(k)
    &&& forall|a: N, k: u32| (#[trigger] a.shl_spec(k)).nv() == a.nv() * pow2(k as nat)
    &&& <N as FromSpec<u32>>::obeys_from_spec()
    &&& forall|v: u32| (#[trigger] <N as FromSpec<u32>>::from_spec(v)).nv() == v as int
    &&& forall|a: N, b: N| cloned(a, b) ==> #[trigger] a.nv() == #[trigger] b.nv()
}
/// what the recursion computes: terminal value `tv` for true, 0 for false, the mean of the children at inner nodes
pub open spec fn scnt(t: Tree, tv: int) -> int decreases t {
    match t {
        Tree::Leaf(b) => if b { tv } else { 0 },
        Tree::Inner(_, a, b) => (scnt(*a, tv) + scnt(*b, tv)) / 2,
    }
}
pub broadcast proof fn lemma_scnt_mk(l: u32, a: Tree, b: Tree, tv: int)
    ensures #[trigger] scnt(mk(l, a, b), tv) == (scnt(a, tv) + scnt(b, tv)) / 2 {}

/// number of assignments to the levels k..n-1 that satisfy `t` (all levels of `t` are >= k): Shannon expansion on level k
pub open spec fn cnt(t: Tree, k: int, n: int) -> int decreases n - k {
    if k >= n { if t == Tree::Leaf(true) { 1 } else { 0 } }
    else if t is Inner && top(t) == k { cnt(then_of(t), k + 1, n) + cnt(else_of(t), k + 1, n) }
    else { 2 * cnt(t, k + 1, n) }
}
/// the value computed by the sat_count recursion with terminal value 2^(n-k+m) is 2^m times the number of satisfying
/// assignments over levels k..n-1: every halving in the recursion is exact
//@lemma name=lemma_scnt_is_count props=C12
pub proof fn lemma_scnt_is_count(t: Tree, k: int, n: int, m: nat)
    requires ok(t, n), 0 <= k <= n, t is Inner ==> k <= top(t),
    ensures scnt(t, pow2((n - k + m) as nat)) == pow2(m) * cnt(t, k, n),
    decreases n - k,
{
    if k >= n {
        assert(t is Leaf);
        assert(pow2(m) * 1 == pow2(m)) by (nonlinear_arith);
        assert(pow2(m) * 0 == 0) by (nonlinear_arith);
    } else {
        assert(pow2((m + 1) as nat) == 2 * pow2(m));
        let p = pow2((n - k + m) as nat);
        assert((n - (k + 1) + (m + 1)) as nat == (n - k + m) as nat);
        if t is Inner && top(t) == k {
            let (a, b) = (then_of(t), else_of(t));
            lemma_scnt_is_count(a, k + 1, n, (m + 1) as nat);
            lemma_scnt_is_count(b, k + 1, n, (m + 1) as nat);
            let (ca, cb) = (cnt(a, k + 1, n), cnt(b, k + 1, n));
            assert(scnt(t, p) == (scnt(a, p) + scnt(b, p)) / 2);
            assert(scnt(a, p) + scnt(b, p) == 2 * (pow2(m) * (ca + cb))) by (nonlinear_arith)
                requires scnt(a, p) == (2 * pow2(m)) * ca, scnt(b, p) == (2 * pow2(m)) * cb;
            assert(pow2(m) * cnt(t, k, n) == pow2(m) * (ca + cb));
        } else {
            lemma_scnt_is_count(t, k + 1, n, (m + 1) as nat);
            let c = cnt(t, k + 1, n);
            assert((2 * pow2(m)) * c == pow2(m) * (2 * c)) by (nonlinear_arith);
        }
    }
}
/// sat_count(vars) with terminal value 2^vars counts the satisfying assignments over `vars` variables exactly
//@lemma name=lemma_sat_count_exact props=C12
pub proof fn lemma_sat_count_exact(t: Tree, vars: int)
    requires ok(t, vars), vars >= 0,
    ensures scnt(t, pow2(vars as nat)) == cnt(t, 0, vars),
{
    lemma_scnt_is_count(t, 0, vars, 0);
    assert(pow2(0) * cnt(t, 0, vars) == cnt(t, 0, vars)) by (nonlinear_arith) requires pow2(0) == 1;
}
pub broadcast proof fn lemma_sat_count_exact_b(t: Tree, vars: u32)
    requires wf(t), #[trigger] below(t, vars as int),
    ensures #[trigger] scnt(t, pow2(vars as nat)) == cnt(t, 0, vars as int),
{
    lemma_sat_count_exact(t, vars as int);
}
pub broadcast proof fn lemma_pow2_mul1(k: nat) ensures 1 * #[trigger] pow2(k) == pow2(k) {}
pub broadcast group count_lemmas2 { lemma_sat_count_exact_b, lemma_pow2_mul1 }
pub broadcast proof fn lemma_pow2_0(k: nat)
    requires k == 0,
    ensures #[trigger] pow2(k) == 1,
{}
pub broadcast group count_lemmas3 { lemma_pow2_0 }
// ---------- structural view: complement-edge terms ----------
/// a NODE: the single terminal ⊤ or an inner node with its two stored child EDGES
pub enum CN { One, Inner(u32, Box<CE>, Box<CE>) }
/// an EDGE: complement tag + the node it points to
pub struct CE { pub neg: bool, pub node: CN }
pub open spec fn nmk(l: u32, t: CE, e: CE) -> CN { CN::Inner(l, Box::new(t), Box::new(e)) }
pub open spec fn cmk(n: bool, l: u32, t: CE, e: CE) -> CE { CE { neg: n, node: nmk(l, t, e) } }
/// edge to the terminal: `ct(false)` = ⊤, `ct(true)` = ⊥
pub open spec fn ct(n: bool) -> CE { CE { neg: n, node: CN::One } }
pub open spec fn neg(c: CE) -> bool { c.neg }
/// the same node reached through the complemented edge
pub open spec fn cflip(c: CE) -> CE { CE { neg: !c.neg, node: c.node } }
/// `with_tag`: same node, tag replaced
pub open spec fn cwith(c: CE, b: bool) -> CE { CE { neg: b, node: c.node } }
/// tag xor-ed with `b`
pub open spec fn cxor(c: CE, b: bool) -> CE { CE { neg: c.neg != b, node: c.node } }
pub open spec fn ntop(n: CN) -> int { match n { CN::One => u32::MAX as int, CN::Inner(l, _, _) => l as int } }
pub open spec fn ctop(c: CE) -> int { ntop(c.node) }
/// C03 for complement-edge diagrams: ordered, no redundant node (the two child EDGES differ), then-edge uncomplemented
#[verifier::opaque]
pub open spec fn nwf(n: CN) -> bool decreases n {
    match n {
        CN::One => true,
        CN::Inner(l, t, e) => l < u32::MAX && !t.neg && *t != *e && (l as int) < ntop(t.node) && (l as int) < ntop(e.node) && nwf(t.node) && nwf(e.node),
    }
}
pub open spec fn cwf(c: CE) -> bool { nwf(c.node) }
#[verifier::opaque]
pub open spec fn nbelow(n: CN, m: int) -> bool decreases n {
    match n {
        CN::One => true,
        CN::Inner(l, t, e) => (l as int) < m && nbelow(t.node, m) && nbelow(e.node, m),
    }
}
pub open spec fn cbelow(c: CE, m: int) -> bool { nbelow(c.node, m) }
/// the edge is a legal diagram of a manager with `n` levels
pub open spec fn okc(c: CE, n: int) -> bool { cwf(c) && cbelow(c, n) }
/// expansion of a node to a plain BDD under the accumulated polarity `p` (complement marks pushed to the leaves)
#[verifier::opaque]
pub open spec fn nx(n: CN, p: bool) -> Tree decreases n {
    match n {
        CN::One => Tree::Leaf(!p),
        CN::Inner(l, t, e) => mk(l, nx(t.node, p != t.neg), nx(e.node, p != e.neg)),
    }
}
/// the function denoted by an edge, as a plain BDD term.  Opaque: exec proofs see it only through the re-fuelling
/// lemmas below (`tv(cmk(..))`, `tv(ct(..))`), so no polarity-carrying `nx(n, p)` terms arise in their contexts.
#[verifier::opaque]
pub open spec fn tv(c: CE) -> Tree { nx(c.node, c.neg) }
/// value of the function denoted by edge `c` under `env`: the node-by-node interpretation of the expanded diagram.
/// Opaque: exec proofs use it only through the re-fuelling lemmas below (over `cmk`, `ct`, `cxor`, `cflip`, `cwith`).
#[verifier::opaque]
pub open spec fn csem(c: CE, env: Env) -> bool { sem(tv(c), env) }
/// the variable set denoted by the NODE of `c` (the algorithms ignore the tag of a variable-set edge; a positive
/// cube is always an uncomplemented edge, for which `vsv(c) == tv(c)`)
#[verifier::opaque]
pub open spec fn vsv(c: CE) -> Tree { nx(c.node, false) }

pub broadcast proof fn lemma_nx_nmk(l: u32, t: CE, e: CE, p: bool)
    ensures #[trigger] nx(nmk(l, t, e), p) == mk(l, nx(t.node, p != t.neg), nx(e.node, p != e.neg))
{
    reveal_with_fuel(nx, 2); reveal_with_fuel(nwf, 2); reveal_with_fuel(nbelow, 2);
}
pub broadcast proof fn lemma_nwf_nmk(l: u32, t: CE, e: CE)
    ensures #[trigger] nwf(nmk(l, t, e)) == (l < u32::MAX && !t.neg && t != e && (l as int) < ntop(t.node) && (l as int) < ntop(e.node) && nwf(t.node) && nwf(e.node))
{
    reveal_with_fuel(nx, 2); reveal_with_fuel(nwf, 2); reveal_with_fuel(nbelow, 2);
}
pub broadcast proof fn lemma_nbelow_nmk(l: u32, t: CE, e: CE, m: int)
    ensures #[trigger] nbelow(nmk(l, t, e), m) == ((l as int) < m && nbelow(t.node, m) && nbelow(e.node, m))
{
    reveal_with_fuel(nx, 2); reveal_with_fuel(nwf, 2); reveal_with_fuel(nbelow, 2);
}
/// complementing an edge complements the function
pub broadcast proof fn lemma_sem_nx(n: CN, p: bool, env: Env)
    ensures #[trigger] sem(nx(n, p), env) == (p != sem(nx(n, false), env)),
    decreases n,
{
    reveal_with_fuel(nx, 2); reveal_with_fuel(nwf, 2); reveal_with_fuel(nbelow, 2);
    match n {
        CN::One => {}
        CN::Inner(l, t, e) => {
            lemma_sem_nx(t.node, p != t.neg, env); lemma_sem_nx(e.node, p != e.neg, env);
            lemma_sem_nx(t.node, false != t.neg, env); lemma_sem_nx(e.node, false != e.neg, env);
        }
    }
}
/// value of the leaf reached by always taking the then-branch
pub open spec fn atl(t: Tree) -> bool decreases t { match t { Tree::Leaf(b) => b, Tree::Inner(_, a, _) => atl(*a) } }
pub proof fn lemma_atl(n: CN, q: bool)
    requires nwf(n),
    ensures atl(nx(n, q)) == !q,
    decreases n,
{
    reveal_with_fuel(nx, 2); reveal_with_fuel(nwf, 2); reveal_with_fuel(nbelow, 2);
    match n { CN::One => {} CN::Inner(l, t, e) => { lemma_atl(t.node, q); } }
}
/// the expansion is injective on normal forms: this is what makes "then-edge uncomplemented" a canonical form
//@lemma name=lemma_nx_inj props=C01,C03
pub proof fn lemma_nx_inj(a: CN, b: CN, q: bool)
    requires nwf(a), nwf(b), nx(a, q) == nx(b, q),
    ensures a == b,
    decreases a,
{
    reveal_with_fuel(nx, 2); reveal_with_fuel(nwf, 2); reveal_with_fuel(nbelow, 2);
    match (a, b) {
        (CN::Inner(l1, t1, e1), CN::Inner(l2, t2, e2)) => {
            lemma_nx_inj(t1.node, t2.node, q);
            lemma_atl(e1.node, q != e1.neg); lemma_atl(e2.node, q != e2.neg);
            lemma_nx_inj(e1.node, e2.node, q != e1.neg);
        }
        _ => {}
    }
}
pub proof fn lemma_nwf_wf_rec(n: CN, p: bool)
    requires nwf(n),
    ensures wf(nx(n, p)), top(nx(n, p)) == ntop(n),
    decreases n,
{
    reveal_with_fuel(nx, 2); reveal_with_fuel(nwf, 2); reveal_with_fuel(nbelow, 2);
    match n {
        CN::One => {}
        CN::Inner(l, t, e) => {
            lemma_nwf_wf_rec(t.node, p != t.neg); lemma_nwf_wf_rec(e.node, p != e.neg);
            if nx(t.node, p != t.neg) == nx(e.node, p != e.neg) {
                lemma_atl(t.node, p != t.neg); lemma_atl(e.node, p != e.neg);
                if t.neg == e.neg { lemma_nx_inj(t.node, e.node, p != t.neg); }
            }
        }
    }
}
/// a normal-form complement-edge diagram denotes a reduced ordered BDD with the same top level
pub broadcast proof fn lemma_nwf_wf(n: CN, p: bool)
    requires nwf(n),
    ensures wf(#[trigger] nx(n, p)),
{ lemma_nwf_wf_rec(n, p); }
pub broadcast proof fn lemma_nx_top(n: CN, p: bool)
    ensures top(#[trigger] nx(n, p)) == ntop(n), (nx(n, p) is Leaf) == (n is One), (nx(n, p) == Tree::Leaf(false)) == (n is One && p), (nx(n, p) == Tree::Leaf(true)) == (n is One && !p),
{
    reveal_with_fuel(nx, 2); reveal_with_fuel(nwf, 2); reveal_with_fuel(nbelow, 2);
}
pub broadcast proof fn lemma_nbelow_below(n: CN, p: bool, m: int)
    requires nbelow(n, m),
    ensures #[trigger] below(nx(n, p), m),
    decreases n,
{
    reveal_with_fuel(nx, 2); reveal_with_fuel(nwf, 2); reveal_with_fuel(nbelow, 2);
    match n { CN::One => {} CN::Inner(l, t, e) => { lemma_nbelow_below(t.node, p != t.neg, m); lemma_nbelow_below(e.node, p != e.neg, m); } }
}
/// different nodes of normal-form diagrams denote different BDDs (contrapositive of `lemma_nx_inj`)
pub broadcast proof fn lemma_nx_neq(a: CN, b: CN, q: bool)
    requires nwf(a), nwf(b), a != b,
    ensures #[trigger] nx(a, q) != #[trigger] nx(b, q),
{ if nx(a, q) == nx(b, q) { lemma_nx_inj(a, b, q); } }
/// normal-form nodes under different polarities never denote the same BDD
pub broadcast proof fn lemma_nx_pol(a: CN, b: CN, qa: bool, qb: bool)
    requires nwf(a), nwf(b), qa != qb,
    ensures #[trigger] nx(a, qa) != #[trigger] nx(b, qb),
{ lemma_atl(a, qa); lemma_atl(b, qb); }
pub broadcast proof fn lemma_csem_tv(c: CE, env: Env)
    ensures #![trigger csem(c, env)] #![trigger sem(tv(c), env)] csem(c, env) == sem(tv(c), env),
{ reveal(csem); }
/// Shannon expansion: an edge to an inner node denotes the (complemented) if-then-else of its two child EDGES
pub broadcast proof fn lemma_csem_cmk(n: bool, l: u32, t: CE, e: CE, env: Env)
    ensures #[trigger] csem(cmk(n, l, t, e), env) == (n != (if env(l as int) { csem(t, env) } else { csem(e, env) })),
{
    reveal(csem); reveal(tv); reveal_with_fuel(nx, 2);
    lemma_sem_nx(nmk(l, t, e), n, env); lemma_sem_nx(t.node, false != t.neg, env); lemma_sem_nx(e.node, false != e.neg, env);
    lemma_sem_nx(t.node, t.neg, env); lemma_sem_nx(e.node, e.neg, env);
}
pub broadcast proof fn lemma_csem_ct(n: bool, env: Env)
    ensures #[trigger] csem(ct(n), env) == !n,
{ reveal(csem); reveal(tv); reveal_with_fuel(nx, 1); }
/// complementing an edge complements the function
pub broadcast proof fn lemma_csem_cxor(c: CE, b: bool, env: Env)
    ensures #![trigger csem(cxor(c, b), env)] #![trigger cxor(c, b), csem(c, env)] csem(cxor(c, b), env) == (b != csem(c, env)),
{ reveal(csem); reveal(tv); lemma_sem_nx(c.node, c.neg != b, env); lemma_sem_nx(c.node, c.neg, env); }
pub broadcast proof fn lemma_csem_cflip(c: CE, env: Env)
    ensures #![trigger csem(cflip(c), env)] #![trigger cflip(c), csem(c, env)] csem(cflip(c), env) == !csem(c, env),
{ reveal(csem); reveal(tv); lemma_sem_nx(c.node, !c.neg, env); lemma_sem_nx(c.node, c.neg, env); }
pub broadcast proof fn lemma_csem_cwith(c: CE, b: bool, env: Env)
    ensures #![trigger csem(cwith(c, b), env)] #![trigger cwith(c, b), csem(c, env)] csem(cwith(c, b), env) == ((b != c.neg) != csem(c, env)),
{ reveal(csem); reveal(tv); lemma_sem_nx(c.node, b, env); lemma_sem_nx(c.node, c.neg, env); }
pub broadcast proof fn lemma_nwf_one(n: CN)
    requires n is One,
    ensures #[trigger] nwf(n),
{ reveal_with_fuel(nwf, 1); }
pub broadcast proof fn lemma_nbelow_one(n: CN, m: int)
    requires n is One,
    ensures #[trigger] nbelow(n, m),
{ reveal_with_fuel(nbelow, 1); }
/// re-tagging an edge to an inner node / the terminal yields the constructor form again (creates the `cmk` / `ct` term
/// on which the other lemmas trigger)
pub broadcast proof fn lemma_cwith_cmk(n: bool, l: u32, t: CE, e: CE, b: bool)
    ensures #[trigger] cwith(cmk(n, l, t, e), b) == cmk(b, l, t, e), {}
pub broadcast proof fn lemma_cxor_cmk(n: bool, l: u32, t: CE, e: CE, b: bool)
    ensures #[trigger] cxor(cmk(n, l, t, e), b) == cmk(n != b, l, t, e), {}
pub broadcast proof fn lemma_cflip_cmk(n: bool, l: u32, t: CE, e: CE)
    ensures #[trigger] cflip(cmk(n, l, t, e)) == cmk(!n, l, t, e), {}
pub broadcast proof fn lemma_cwith_ct(n: bool, b: bool)
    ensures #[trigger] cwith(ct(n), b) == ct(b), {}
pub broadcast proof fn lemma_cxor_ct(n: bool, b: bool)
    ensures #[trigger] cxor(ct(n), b) == ct(n != b), {}
pub broadcast proof fn lemma_cflip_ct(n: bool)
    ensures #[trigger] cflip(ct(n)) == ct(!n), {}
pub broadcast proof fn lemma_cwith_self(c: CE, b: bool)
    requires b == c.neg,
    ensures #[trigger] cwith(c, b) == c, {}
/// what the apply algorithms need: one unfolding step of each recursive spec function over the constructors, and the
/// algebra of tags
pub broadcast group ce_core { lemma_csem_cmk, lemma_csem_ct, lemma_csem_cxor, lemma_csem_cflip, lemma_csem_cwith, lemma_nwf_nmk, lemma_nbelow_nmk, lemma_nwf_one, lemma_nbelow_one,
    lemma_cwith_cmk, lemma_cxor_cmk, lemma_cflip_cmk, lemma_cwith_ct, lemma_cxor_ct, lemma_cflip_ct, lemma_cwith_self }

// link to the plain-BDD lemma libraries: the expansion `tv` over the constructors, wf / top / below of the expansion
pub broadcast proof fn lemma_tv_cmk(n: bool, l: u32, t: CE, e: CE)
    ensures #[trigger] tv(cmk(n, l, t, e)) == mk(l, tv(cxor(t, n)), tv(cxor(e, n))),
{ reveal(tv); reveal_with_fuel(nx, 2); }
pub broadcast proof fn lemma_tv_ct(n: bool)
    ensures #[trigger] tv(ct(n)) == Tree::Leaf(!n),
{ reveal(tv); reveal_with_fuel(nx, 1); }
pub broadcast proof fn lemma_tv_props(c: CE)
    ensures cwf(c) ==> wf(#[trigger] tv(c)), top(tv(c)) == ctop(c),
{ reveal(tv); reveal_with_fuel(nx, 1); lemma_nx_top(c.node, c.neg); if cwf(c) { lemma_nwf_wf_rec(c.node, c.neg); } }
/// which edges expand to a leaf (only ⊤ and ⊥)
pub broadcast proof fn lemma_tv_leaf(c: CE)
    ensures (#[trigger] tv(c) is Leaf) == (c.node is One),
        (tv(c) == Tree::Leaf(false)) == (c == ct(true)), (tv(c) == Tree::Leaf(true)) == (c == ct(false)),
{ reveal(tv); reveal_with_fuel(nx, 1); lemma_nx_top(c.node, c.neg); }
pub broadcast proof fn lemma_tv_below(c: CE, m: int)
    requires cbelow(c, m),
    ensures #[trigger] below(tv(c), m),
{ reveal(tv); lemma_nbelow_below(c.node, c.neg, m); }
pub broadcast proof fn lemma_vsv_cmk(n: bool, l: u32, t: CE, e: CE)
    ensures #[trigger] vsv(cmk(n, l, t, e)) == mk(l, tv(t), tv(e)),
{ reveal(tv); reveal(vsv); reveal_with_fuel(nx, 2); }
pub broadcast proof fn lemma_vsv_ct(n: bool)
    ensures #[trigger] vsv(ct(n)) == Tree::Leaf(true),
{ reveal(vsv); reveal_with_fuel(nx, 1); }
pub broadcast proof fn lemma_vsv_props(c: CE)
    ensures cwf(c) ==> wf(#[trigger] vsv(c)), top(vsv(c)) == ctop(c), (vsv(c) is Leaf) == (c.node is One), !c.neg ==> vsv(c) == tv(c),
{ reveal(tv); reveal(vsv); reveal_with_fuel(nx, 1); lemma_nx_top(c.node, false); if cwf(c) { lemma_nwf_wf_rec(c.node, false); } }
pub broadcast proof fn lemma_vsv_below(c: CE, m: int)
    requires cbelow(c, m),
    ensures #[trigger] below(vsv(c), m),
{ reveal(vsv); lemma_nbelow_below(c.node, false, m); }
pub broadcast proof fn lemma_cxor_id(c: CE, b: bool)
    requires !b,
    ensures #[trigger] cxor(c, b) == c,
{}
pub broadcast group ce_tree { lemma_csem_tv, lemma_sem_mk, lemma_wf_mk, lemma_below_mk, lemma_tv_cmk, lemma_tv_ct, lemma_tv_props, lemma_tv_below,
    lemma_vsv_cmk, lemma_vsv_ct, lemma_vsv_props, lemma_vsv_below, lemma_cxor_id }
pub broadcast group ce_leaf { lemma_tv_leaf }
/// C12: with terminal value 2^vars the sat-count recursion yields exactly the number of satisfying assignments
pub broadcast proof fn lemma_csat_count_exact(c: CE, vars: u32)
    requires okc(c, vars as int),
    ensures #[trigger] scnt(tv(c), pow2(vars as nat)) == cnt(tv(c), 0, vars as int),
{ lemma_tv_props(c); lemma_tv_below(c, vars as int); lemma_sat_count_exact(tv(c), vars as int); }
/// the expansion over the constructors only (no `csem` <-> `sem` bridge)
pub broadcast group ce_tv { lemma_wf_mk, lemma_tv_cmk, lemma_tv_ct, lemma_tv_props, lemma_tv_leaf }
// restrict (C04) at the level of edges: the cube is a plain BDD term (the expansion of the cube edge), the function an edge
pub broadcast proof fn lemma_ccenv_leaf(c: CE, b: bool, env: Env)
    requires cwf(c),
    ensures #[trigger] csem(c, cenv(Tree::Leaf(b), env)) == csem(c, env),
{ reveal(csem); lemma_tv_props(c); lemma_cenv_leaf(tv(c), b, env); }
pub broadcast proof fn lemma_ccenv_skip(c: CE, l: u32, a: Tree, b: Tree, env: Env)
    requires cwf(c), (l as int) < ctop(c),
    ensures #[trigger] csem(c, cenv(mk(l, a, b), env)) == csem(c, cenv(next_cube(a, b), env)),
{ reveal(csem); lemma_tv_props(c); lemma_cenv_skip(tv(c), l, a, b, env); }
pub broadcast proof fn lemma_ccenv_same(n: bool, l: u32, t: CE, e: CE, l2: u32, a: Tree, b: Tree, env: Env)
    requires cwf(cmk(n, l, t, e)), l == l2,
    ensures #[trigger] csem(cmk(n, l, t, e), cenv(mk(l2, a, b), env)) == csem(if a != Tree::Leaf(false) { cxor(t, n) } else { cxor(e, n) }, cenv(next_cube(a, b), env)),
{
    reveal(csem); lemma_tv_props(cmk(n, l, t, e)); lemma_tv_cmk(n, l, t, e);
    lemma_cenv_same(l, tv(cxor(t, n)), tv(cxor(e, n)), l2, a, b, env);
}
/// levels above the cube are not touched
pub broadcast proof fn lemma_cenv_above(c: Tree, env: Env, i: int)
    requires wf(c), i < top(c),
    ensures #[trigger] cenv(c, env)(i) == env(i),
{ lemma_cube_val_above(c, env, i); }
pub broadcast group crestrict_lemmas { lemma_ccenv_leaf, lemma_ccenv_skip, lemma_ccenv_same, lemma_cenv_above, lemma_cube_val_above }
/// different edges of normal-form diagrams denote different BDDs (contrapositive of injectivity), for `reduce`
pub broadcast proof fn lemma_tv_neq(a: CE, b: CE)
    requires cwf(a), cwf(b), a != b,
    ensures #[trigger] tv(a) != #[trigger] tv(b),
{
    reveal(tv);
    if tv(a) == tv(b) { lemma_atl(a.node, a.neg); lemma_atl(b.node, b.neg); lemma_nx_inj(a.node, b.node, a.neg); }
}
/// extensionality of edges, made available to the solver for pairs of expansions
pub broadcast proof fn lemma_tv_ext(a: CE, b: CE)
    requires a.neg == b.neg, a.node == b.node,
    ensures #[trigger] tv(a) == #[trigger] tv(b),
{}
pub broadcast group ce_inj_lemmas { lemma_tv_neq, lemma_tv_ext }

// ---------- canonicity (C01): equal functions <=> identical normal-form diagrams <=> equal handles ----------
//@lemma name=distinguish props=C01
pub proof fn distinguish(a: Tree, b: Tree) -> (env: Env)
    requires wf(a), wf(b), a != b,
    ensures sem(a, env) != sem(b, env),
    decreases a, b,
{
    match (a, b) {
        (Tree::Leaf(x), Tree::Leaf(y)) => { |i: int| true }
        (Tree::Inner(l, a1, a0), _) if top(b) > l => {
            if *a1 != b {
                let e = distinguish(*a1, b);
                lemma_sem_upd(*a1, e, l as int, true); lemma_sem_upd(b, e, l as int, true);
                upd(e, l as int, true)
            } else {
                let e = distinguish(*a0, b);
                lemma_sem_upd(*a0, e, l as int, false); lemma_sem_upd(b, e, l as int, false);
                upd(e, l as int, false)
            }
        }
        (Tree::Inner(l, a1, a0), Tree::Inner(k, b1, b0)) if k == l => {
            if *a1 != *b1 {
                let e = distinguish(*a1, *b1);
                lemma_sem_upd(*a1, e, l as int, true); lemma_sem_upd(*b1, e, l as int, true);
                upd(e, l as int, true)
            } else {
                let e = distinguish(*a0, *b0);
                lemma_sem_upd(*a0, e, l as int, false); lemma_sem_upd(*b0, e, l as int, false);
                upd(e, l as int, false)
            }
        }
        (_, Tree::Inner(k, b1, b0)) => {
            if a != *b1 {
                let e = distinguish(a, *b1);
                lemma_sem_upd(a, e, k as int, true); lemma_sem_upd(*b1, e, k as int, true);
                upd(e, k as int, true)
            } else {
                let e = distinguish(a, *b0);
                lemma_sem_upd(a, e, k as int, false); lemma_sem_upd(*b0, e, k as int, false);
                upd(e, k as int, false)
            }
        }
        _ => { assert(false); |i: int| true }
    }
}
/// Bryant's theorem for the complement-edge normal form: two normal-form edges denoting the same function are the
/// same edge (same tag, same node)
//@lemma name=canonicity props=C01,C03
pub proof fn canonicity(a: CE, b: CE)
    requires cwf(a), cwf(b), forall|env: Env| sem(tv(a), env) == sem(tv(b), env),
    ensures a == b,
{
    reveal(tv);
    lemma_nwf_wf_rec(a.node, a.neg); lemma_nwf_wf_rec(b.node, b.neg);
    if tv(a) != tv(b) { let e = distinguish(tv(a), tv(b)); assert(sem(tv(a), e) == sem(tv(b), e)); }
    lemma_atl(a.node, a.neg); lemma_atl(b.node, b.neg);
    lemma_nx_inj(a.node, b.node, a.neg);
}
/// handle level: under the hash-consing contract two handles of normal-form diagrams compare equal iff they denote the same
/// function.  Every operation of this bundle ensures `okc(result)`, so by induction over any history every live handle is
/// in normal form and this lemma applies to any two of them.
//@lemma name=handles_equal_iff_same_function props=C01
pub proof fn handles_equal_iff_same_function<E: Edge>(x: E, y: E)
    requires edge_ok::<E>(), cwf(x.cv()), cwf(y.cv()),
    ensures x.eq_spec(&y) <==> (forall|env: Env| sem(tv(x.cv()), env) == sem(tv(y.cv()), env)),
{
    if forall|env: Env| sem(tv(x.cv()), env) == sem(tv(y.cv()), env) { canonicity(x.cv(), y.cv()); }
}
/// the result of an operation is determined by its specification alone (independent of cache content, history, order of
/// evaluation): any two normal-form results satisfying the same semantic postcondition are the same edge
//@lemma name=result_determined_by_spec props=C01,C06
pub proof fn result_determined_by_spec(r1: CE, r2: CE, spec: spec_fn(Env) -> bool)
    requires cwf(r1), cwf(r2), forall|env: Env| sem(tv(r1), env) == spec(env), forall|env: Env| sem(tv(r2), env) == spec(env),
    ensures r1 == r2,
{
    canonicity(r1, r2);
}
/// C02, cofactors: the two edges returned by `collect_cofactors` / `BCDDRules::cofactor(s)` for an edge `c` to an inner
/// node (`cxor(then, c.neg)`, `cxor(else, c.neg)`) are the two Shannon cofactors of `c` w.r.t. its top-most variable
//@lemma name=cofactors_are_shannon props=C02
pub proof fn cofactors_are_shannon(n: bool, l: u32, t: CE, e: CE, env: Env)
    requires cwf(cmk(n, l, t, e)),
    ensures
        csem(cmk(n, l, t, e), env) == (if env(l as int) { csem(cxor(t, n), env) } else { csem(cxor(e, n), env) }),
        csem(cxor(t, n), env) == csem(cmk(n, l, t, e), upd(env, l as int, true)),
        csem(cxor(e, n), env) == csem(cmk(n, l, t, e), upd(env, l as int, false)),
{
    lemma_csem_cmk(n, l, t, e, env); lemma_csem_cxor(t, n, env); lemma_csem_cxor(e, n, env);
    lemma_csem_cmk(n, l, t, e, upd(env, l as int, true)); lemma_csem_cmk(n, l, t, e, upd(env, l as int, false));
    reveal_with_fuel(nwf, 2);
    lemma_csem_tv(t, env); lemma_csem_tv(t, upd(env, l as int, true)); lemma_tv_props(t); lemma_sem_upd(tv(t), env, l as int, true);
    lemma_csem_tv(e, env); lemma_csem_tv(e, upd(env, l as int, false)); lemma_tv_props(e); lemma_sem_upd(tv(e), env, l as int, false);
}
/// adding variables (new levels are appended below all existing ones) does not change the function of an existing diagram
//@lemma name=add_vars_preserves_function props=C01,C16
pub proof fn add_vars_preserves_function(c: CE, n: int, e1: Env, e2: Env)
    requires cbelow(c, n), forall|i: int| i < n ==> #[trigger] e1(i) == e2(i),
    ensures sem(tv(c), e1) == sem(tv(c), e2), forall|m: int| m >= n ==> #[trigger] cbelow(c, m),
{
    reveal(tv);
    add_vars_rec(c.node, c.neg, n, e1, e2);
}
pub proof fn add_vars_rec(c: CN, p: bool, n: int, e1: Env, e2: Env)
    requires nbelow(c, n), forall|i: int| i < n ==> #[trigger] e1(i) == e2(i),
    ensures sem(nx(c, p), e1) == sem(nx(c, p), e2), forall|m: int| m >= n ==> #[trigger] nbelow(c, m),
    decreases c,
{
    reveal_with_fuel(nx, 2); reveal_with_fuel(nwf, 2); reveal_with_fuel(nbelow, 2);
    match c {
        CN::One => {}
        CN::Inner(l, t, e) => {
            add_vars_rec(t.node, p != t.neg, n, e1, e2); add_vars_rec(e.node, p != e.neg, n, e1, e2);
            assert forall|m: int| m >= n implies #[trigger] nbelow(c, m) by { assert(nbelow(t.node, m) && nbelow(e.node, m)); }
        }
    }
}

// ---------- environment stubs (ASSUMED manager contract) ----------
pub type NodeID = usize;
/// the node stored under a node id (ASSUMED: a node id denotes one node within a GC epoch; the sat-count cache is
/// cleared by `clear_if_invalid` when the epoch or the variable count changes)
pub uninterp spec fn node_of(id: NodeID) -> CN;
/// the edge a sat-count cache key stands for: node id in the low 63 bits, complement tag in bit 63
pub open spec fn key_edge(k: NodeID) -> CE { CE { neg: k >= 0x8000_0000_0000_0000, node: node_of((k % 0x8000_0000_0000_0000) as usize) } }
pub broadcast proof fn lemma_key_bits(id: usize, t: usize)
    requires id < 0x8000_0000_0000_0000, t <= 1,
    ensures (#[trigger] (id | (t << 63usize))) % 0x8000_0000_0000_0000usize == id, ((id | (t << 63usize)) >= 0x8000_0000_0000_0000usize) == (t == 1),
{
    assert((id | (t << 63usize)) % 0x8000_0000_0000_0000usize == id && (((id | (t << 63usize)) >= 0x8000_0000_0000_0000usize) == (t == 1))) by (bit_vector)
        requires id < 0x8000_0000_0000_0000usize, t <= 1usize;
}
/// stub of the HashMap inside SatCountCache
pub struct NodeMap<N> { pub m: Ghost<Map<NodeID, N>> }
impl<N> NodeMap<N> {
    pub open spec fn view(&self) -> Map<NodeID, N> { self.m@ }
    #[verifier::external_body]
    pub fn get(&self, k: &NodeID) -> (r: Option<&N>)
        ensures match r { Some(v) => self@.contains_key(*k) && *v == self@[*k], None => !self@.contains_key(*k) }
    { unimplemented!() }
    #[verifier::external_body]
    pub fn insert(&mut self, k: NodeID, v: N) -> (r: Option<N>)
        ensures final(self)@ == old(self)@.insert(k, v)
    { unimplemented!() }
}
pub struct SatCountCache<N, S> { pub map: NodeMap<N>, pub cache_all: bool, pub s: Ghost<S> }
impl<N: SatCountNumber, S> SatCountCache<N, S> {
    /// ASSUMED (history): the cache is emptied when the GC epoch or the variable count changed; otherwise its entries were
    /// computed in this epoch with the same variable count, i.e. with terminal value 2^vars (integer number types)
    #[verifier::external_body]
    pub fn clear_if_invalid<M: Manager>(&mut self, manager: &M, vars: LevelNo)
        ensures cache_valid(final(self), pow2(vars as nat)), final(self).cache_all == old(self).cache_all,
    { unimplemented!() }
}
/// every entry is the count of the edge its key stands for
pub open spec fn cache_valid<N: SatCountNumber, S>(c: &SatCountCache<N, S>, tvv: int) -> bool {
    forall|k: NodeID| #[trigger] c.map@.contains_key(k) ==> c.map@[k].nv() == scnt(tv(key_edge(k)), tvv)
}
pub type LevelNo = u32;
pub type VarNo = u32;
#[derive(Debug)]
pub struct OutOfMemory;
pub type AllocResult<T> = Result<T, OutOfMemory>;
pub type Borrowed<'a, E> = &'a E;

/// an edge tag type with a "complemented" reading (only `EdgeTag` below implements it)
pub trait TagLike: Copy { spec fn is_c(&self) -> bool; }
/// ASSUMED edge contract (Kani suite `num_edge` discharges it for the index-based manager's edge packing):
/// the tag can be read and replaced without touching the node
pub trait Edge: Sized + Ord {
    type Tag: TagLike;
    spec fn cv(&self) -> CE;
    fn borrowed(&self) -> (r: Borrowed<'_, Self>) ensures r.cv() == self.cv();
    /// ASSUMED: node ids leave the most significant bit free ("MSB of NodeIDs is reserved") and identify the node, not the tag
    fn node_id(&self) -> (r: NodeID) ensures r < 0x8000_0000_0000_0000, self.cv().node is Inner ==> node_of(r) == self.cv().node;
    fn tag(&self) -> (t: Self::Tag) ensures t.is_c() == neg(self.cv());
    fn with_tag(&self, tag: Self::Tag) -> (r: Borrowed<'_, Self>) ensures r.cv() == cwith(self.cv(), tag.is_c());
    fn with_tag_owned(self, tag: Self::Tag) -> (r: Self) ensures r.cv() == cwith(self.cv(), tag.is_c());
}
/// `Borrowed::edge_with_tag` of oxidd-core (`Borrowed<'a, E>` is `&'a E` here)
pub trait BorrowedExt<'a, E: Edge> {
    fn edge_with_tag(self, tag: E::Tag) -> (r: &'a E);
}
impl<'a, E: Edge> BorrowedExt<'a, E> for &'a E {
    fn edge_with_tag(self, tag: E::Tag) -> (r: &'a E) ensures r.cv() == cwith(self.cv(), tag.is_c()) { self.with_tag(tag) }
}
pub trait LevelSpec { spec fn level_spec(&self) -> u32; }
/// R10 helper: `InnerNode::children()` of a binary node yields the then-edge, then the else-edge
pub struct ChildIter<'a, E> { pub a: Option<&'a E>, pub b: Option<&'a E> }
impl<'a, E: Edge> ChildIter<'a, E> {
    pub fn next(&mut self) -> (r: Option<Borrowed<'a, E>>)
        ensures r == old(self).a, final(self).a == old(self).b, final(self).b == None::<&'a E>,
    { let r = self.a.take(); self.a = self.b.take(); r }
}
pub trait InnerNode<E: Edge>: Sized + LevelSpec {
    /// the two stored child EDGES (with their tags)
    spec fn then_c(&self) -> CE;
    spec fn else_c(&self) -> CE;
    fn new(level: LevelNo, children: [E; 2]) -> (r: Self)
        ensures r.level_spec() == level, r.then_c() == children[0].cv(), r.else_c() == children[1].cv();
    fn child(&self, n: usize) -> (r: Borrowed<'_, E>)
        requires n < 2
        ensures r.cv() == (if n == 0 { self.then_c() } else { self.else_c() });
    fn ref_count(&self) -> usize;
    fn children(&self) -> (r: ChildIter<'_, E>)
        ensures r.a is Some, r.b is Some, r.a->Some_0.cv() == self.then_c(), r.b->Some_0.cv() == self.else_c();
}
pub trait HasLevel: LevelSpec {
    fn level(&self) -> (l: LevelNo) ensures l == self.level_spec();
}
pub assume_specification<T: ?Sized> [<T as std::borrow::Borrow<T>>::borrow] (x: &T) -> (r: &T)
    ensures r == x;
pub assume_specification<T: Ord> [std::cmp::min] (a: T, b: T) -> (r: T)
    ensures T::obeys_cmp_spec() ==> r == (if b.cmp_spec(&a) == core::cmp::Ordering::Less { b } else { a });

/// `assert_eq!(a, b)` in exec code (apply_bin, apply_quant): the failure path must be unreachable (a proof obligation,
/// exactly like `unreachable!()`)
#[verifier::external_type_specification]
pub struct ExAssertKind(core::panicking::AssertKind);
pub assume_specification<T, U> [core::panicking::assert_failed] (_0: core::panicking::AssertKind, _1: &T, _2: &U, _3: std::option::Option<std::fmt::Arguments<'_>>) -> !
    where T: std::marker::MetaSized + std::fmt::Debug + ?Sized, U: std::marker::MetaSized + std::fmt::Debug + ?Sized,
    requires false;
/// hash-consing: handles are equal iff they carry the same tag and point to the same stored node
pub open spec fn edge_ok<E: Edge>() -> bool {
    &&& E::obeys_eq_spec()
    &&& E::obeys_partial_cmp_spec()
    &&& forall|a: E, b: E| (#[trigger] a.eq_spec(&b)) <==> (a.cv() == b.cv())
}
pub enum Node<'a, M: Manager + 'a> {
    Inner(&'a M::InnerNode),
    Terminal(&'a M::Terminal),
}
impl<'a, M: Manager> Node<'a, M> {
    pub fn unwrap_inner(self) -> (r: &'a M::InnerNode)
        requires self is Inner
        ensures self == Node::<'a, M>::Inner(r)
    { match self { Node::Inner(node) => node, Node::Terminal(_) => vstd::pervasive::unreached() } }
    pub fn is_any_terminal(self) -> (r: bool) ensures r == (self is Terminal)
    { match self { Node::Inner(_) => false, Node::Terminal(_) => true } }
}
/// stub of fixedbitset::FixedBitSet (only `contains` is used by verified code)
pub struct FixedBitSet { pub bits: Vec<bool> }
impl FixedBitSet {
    pub open spec fn spec_contains(&self, i: int) -> bool { 0 <= i < self.bits@.len() && self.bits@[i] }
    pub fn contains(&self, bit: usize) -> (r: bool) ensures r == self.spec_contains(bit as int)
    { if bit < self.bits.len() { self.bits[bit] } else { false } }
    /// ASSUMED (fixedbitset docs): a new set of `bits` bits, all clear
    #[verifier::external_body]
    pub fn with_capacity(bits: usize) -> (r: Self)
        ensures r.bits@.len() == bits, forall|i: int| !(#[trigger] r.spec_contains(i))
    { unimplemented!() }
    /// ASSUMED (fixedbitset docs): sets bit `bit` to `enabled`; panics if `bit` is out of bounds
    #[verifier::external_body]
    pub fn set(&mut self, bit: usize, enabled: bool)
        requires bit < old(self).bits@.len(),
        ensures final(self).bits@ == old(self).bits@.update(bit as int, enabled),
            forall|l: int| #[trigger] final(self).spec_contains(l) == (if l == bit as int { enabled } else { old(self).spec_contains(l) }),
    { unimplemented!() }
}
/// stub of the `impl IntoIterator<Item = (VarNo, bool)>` argument of `eval_edge` (rule R10): `all()` is the sequence it
/// yields, `done()` the prefix yielded so far (ASSUMED: std Iterator protocol)
pub struct ArgIter { pub all: Ghost<Seq<(u32, bool)>>, pub done: Ghost<Seq<(u32, bool)>> }
impl ArgIter {
    pub open spec fn all(&self) -> Seq<(u32, bool)> { self.all@ }
    pub open spec fn done(&self) -> Seq<(u32, bool)> { self.done@ }
    #[verifier::external_body]
    pub fn next(&mut self) -> (r: Option<(VarNo, bool)>)
        ensures final(self).all() == old(self).all(),
            r is None ==> old(self).done() == old(self).all() && final(self).done() == old(self).done(),
            r is Some ==> old(self).done().len() < old(self).all().len() && r->Some_0 == old(self).all()[old(self).done().len() as int]
                && final(self).done() == old(self).done().push(r->Some_0),
    { unimplemented!() }
}
pub trait LevelView<E: Edge, N: InnerNode<E>> {
    spec fn level_no_spec(&self) -> u32;
    /// returns the UNTAGGED edge to the (unique) node with these two child edges
    fn get_or_insert(&mut self, node: N) -> (r: AllocResult<E>)
        requires node.level_spec() == old(self).level_no_spec(),
        ensures r is Ok ==> r->Ok_0.cv() == cmk(false, node.level_spec(), node.then_c(), node.else_c());
}
pub trait Manager: Sized {
    type Edge: Edge<Tag = Self::EdgeTag>;
    type EdgeTag: TagLike;
    type InnerNode: InnerNode<Self::Edge>;
    type Terminal;
    type LevelView<'a>: LevelView<Self::Edge, Self::InnerNode> where Self: 'a;
    spec fn num_levels_spec(&self) -> int;
    spec fn var_to_level_spec(&self, v: int) -> int;
    /// ignores the tag of `e`
    fn get_node<'a>(&'a self, e: &'a Self::Edge) -> (n: Node<'a, Self>)
        ensures match n {
            Node::Inner(node) => e.cv() == cmk(e.cv().neg, node.level_spec(), node.then_c(), node.else_c()),
            Node::Terminal(t) => e.cv() == ct(e.cv().neg),
        };
    fn clone_edge(&self, e: &Self::Edge) -> (r: Self::Edge) ensures r.cv() == e.cv();
    fn drop_edge(&self, e: Self::Edge);
    /// the untagged edge to the single terminal (= ⊤)
    fn get_terminal(&self, t: Self::Terminal) -> (r: AllocResult<Self::Edge>)
        ensures r is Ok, r->Ok_0.cv() == ct(false);
    fn num_levels(&self) -> (n: LevelNo) ensures n as int == self.num_levels_spec();
    fn level(&self, no: LevelNo) -> (r: Self::LevelView<'_>)
        requires (no as int) < self.num_levels_spec()
        ensures r.level_no_spec() == no;
    spec fn level_to_var_spec(&self, l: int) -> int;
    fn level_to_var(&self, level: LevelNo) -> (v: VarNo)
        requires (level as int) < self.num_levels_spec()
        ensures v as int == self.level_to_var_spec(level as int), (v as int) < self.num_levels_spec();
    fn var_to_level(&self, var: VarNo) -> (l: LevelNo)
        requires (var as int) < self.num_levels_spec()
        ensures l as int == self.var_to_level_spec(var as int), (l as int) < self.num_levels_spec() <= u32::MAX as int;
}
pub mod oxidd_core {
    pub use super::LevelView;
    pub use super::VarNo;
    pub use super::Node;
}

pub struct EdgeDropGuard<'a, M: Manager> { pub manager: &'a M, pub edge: M::Edge }
impl<'a, M: Manager> EdgeDropGuard<'a, M> {
    pub fn new(manager: &'a M, edge: M::Edge) -> (r: Self) ensures r.edge.cv() == edge.cv() { EdgeDropGuard { manager, edge } }
    pub fn into_edge(self) -> (r: M::Edge) ensures r.cv() == self.edge.cv() { self.edge }
    pub fn borrowed(&self) -> (r: Borrowed<'_, M::Edge>) ensures r.cv() == self.edge.cv() { &self.edge }
}
/// stub of oxidd_core::util::EdgeVecDropGuard (a Vec of owned edges; Deref/DerefMut to the Vec are modelled by `push`)
pub struct EdgeVecDropGuard<'a, M: Manager> { pub manager: &'a M, pub vec: Vec<M::Edge> }
impl<'a, M: Manager> EdgeVecDropGuard<'a, M> {
    pub open spec fn view(&self) -> Seq<M::Edge> { self.vec@ }
    pub fn push(&mut self, e: M::Edge) ensures final(self)@ == old(self)@.push(e), { self.vec.push(e) }
}
/// `Vec::resize_with` (std): truncates or extends with values produced by `f`
pub assume_specification<T, A: std::alloc::Allocator, F: FnMut() -> T> [Vec::<T, A>::resize_with] (v: &mut Vec<T, A>, new_len: usize, f: F)
    ensures final(v)@.len() == new_len,
        forall|i: int| 0 <= i < new_len && i < old(v)@.len() ==> final(v)@[i] == old(v)@[i],
        forall|i: int| old(v)@.len() <= i < new_len ==> f.ensures((), #[trigger] final(v)@[i]);
impl<'a, M: Manager> std::ops::Deref for EdgeDropGuard<'a, M> {
    type Target = M::Edge;
    fn deref(&self) -> (r: &M::Edge) ensures r.cv() == self.edge.cv() { &self.edge }
}
pub trait CacheOp: Copy {
    spec fn inv(self, operands: Seq<CE>, n: int, res: CE) -> bool;
    /// keys with numeric operands / several values
    spec fn inv_ext(self, operands: Seq<CE>, nums: Seq<u32>, n: int, res: Seq<CE>, res_nums: Seq<u32>) -> bool;
}
pub open spec fn views<E: Edge>(s: Seq<&E>) -> Seq<CE> { s.map_values(|e: &E| e.cv()) }
pub open spec fn eviews<E: Edge>(s: Seq<E>) -> Seq<CE> { s.map_values(|e: E| e.cv()) }
/// ASSUMED apply-cache contract: `get` may answer anything that was (or could have been) added under exactly this
/// operator and these operands; `add` demands that the entry is justified.  `inv` is defined per operator below.
pub trait ApplyCache<M: Manager, O: CacheOp> {
    fn get(&self, manager: &M, operator: O, operands: &[Borrowed<M::Edge>]) -> (r: Option<M::Edge>)
        ensures match r { Some(h) => operator.inv(views(operands@), manager.num_levels_spec(), h.cv()), None => true };
    fn add(&self, manager: &M, operator: O, operands: &[Borrowed<M::Edge>], value: Borrowed<M::Edge>)
        requires operator.inv(views(operands@), manager.num_levels_spec(), value.cv());
    fn get_extended<const E: usize, const N: usize>(&self, manager: &M, operator: O, operands: (&[Borrowed<M::Edge>], &[u32])) -> (r: Option<([M::Edge; E], [u32; N])>)
        ensures match r { Some(v) => operator.inv_ext(views(operands.0@), operands.1@, manager.num_levels_spec(), eviews(v.0@), v.1@), None => true };
    fn add_extended(&self, manager: &M, operator: O, operands: (&[Borrowed<M::Edge>], &[u32]), values: (&[Borrowed<M::Edge>], &[u32]))
        requires operator.inv_ext(views(operands.0@), operands.1@, manager.num_levels_spec(), views(values.0@), values.1@);
}
/// R10 helper for `DiagramRules::reduce`: the `impl IntoIterator<Item = E>` argument, always called with `[t, e]`
pub struct Children2<E> { pub a: Option<E>, pub b: Option<E> }
impl<E: Edge> Children2<E> {
    pub fn into_iter(self) -> (r: Self) ensures r == self { self }
    pub fn next(&mut self) -> (r: Option<E>)
        ensures r == old(self).a, final(self).a == old(self).b, final(self).b == None::<E>,
    { let r = self.a.take(); self.a = self.b.take(); r }
}
/// R11 helper (trusted): the irrefutable slice pattern `Some(([h], []))`
#[verifier::external_body]
pub fn cache_get1<E: Edge>(r: Option<([E; 1], [u32; 0])>) -> (o: Option<E>)
    ensures r is Some <==> o is Some, o is Some ==> o->Some_0.cv() == r->Some_0.0@[0].cv(),
{ match r { Some(([h], [])) => Some(h), None => None } }
pub trait HasApplyCache<M: Manager, O: CacheOp> {
    type ApplyCache: ApplyCache<M, O>;
    fn apply_cache(&self) -> &Self::ApplyCache;
}
pub trait Recursor<M: Manager>: Copy {
    spec fn switch_spec(self) -> bool;
    fn should_switch_to_sequential(self) -> (b: bool) ensures b == self.switch_spec();
}
#[derive(Clone, Copy)]
pub struct SequentialRecursor;
impl<M: Manager> Recursor<M> for SequentialRecursor {
    open spec fn switch_spec(self) -> bool { false }
    fn should_switch_to_sequential(self) -> bool { false }
}
/// stub of the multi-threaded recursor used by the `mt` wrappers.  ASSUMED: the generic apply functions meet their
/// contracts also when run with it (they are PROVED with the sequential recursor's methods inlined, rule R5; the
/// fork/join bodies of ParallelRecursor are not verified).  What the `__mt` units prove is the wrapper glue.
#[derive(Clone, Copy)]
pub struct ParallelRecursor { pub depth: u32 }
impl ParallelRecursor {
    #[verifier::external_body]
    pub fn new<M: Manager>(manager: &M) -> (r: Self) { unimplemented!() }
}
impl<M: Manager> Recursor<M> for ParallelRecursor {
    open spec fn switch_spec(self) -> bool { self.depth == 0 }
    fn should_switch_to_sequential(self) -> bool { self.depth == 0 }
}

// ---------- items copied from the real crates ----------
//@item file=crates/oxidd-rules-bdd/src/complement_edge/mod.rs path=enum:EdgeTag attrs="#[derive(Clone, Copy, PartialEq, Eq, Structural)] #[repr(u8)]" vis=pub
//@end
//@item file=crates/oxidd-rules-bdd/src/complement_edge/mod.rs path=impl:std::ops::Not~for~EdgeTag props=C02
//@end
//@item file=crates/oxidd-rules-bdd/src/complement_edge/mod.rs path=impl:std::ops::BitXor~for~EdgeTag props=C02
//@end
impl vstd::std_specs::ops::NotSpecImpl for EdgeTag {
    open spec fn obeys_not_spec() -> bool { true }
    open spec fn not_req(self) -> bool { true }
    open spec fn not_spec(self) -> EdgeTag { if self == EdgeTag::Complemented { EdgeTag::None } else { EdgeTag::Complemented } }
}
impl vstd::std_specs::ops::BitXorSpecImpl for EdgeTag {
    open spec fn obeys_bitxor_spec() -> bool { true }
    open spec fn bitxor_req(self, rhs: EdgeTag) -> bool { true }
    open spec fn bitxor_spec(self, rhs: EdgeTag) -> EdgeTag { if self == rhs { EdgeTag::None } else { EdgeTag::Complemented } }
}
impl TagLike for EdgeTag { open spec fn is_c(&self) -> bool { *self == EdgeTag::Complemented } }
//@item file=crates/oxidd-rules-bdd/src/complement_edge/mod.rs path=enum:BCDDOp attrs="#[derive(Clone, Copy, PartialEq, Eq, Structural)] #[repr(u8)]" vis=pub
//@end
//@item file=crates/oxidd-rules-bdd/src/complement_edge/mod.rs path=enum:NodesOrDone vis=pub
//@end
//@item file=crates/oxidd-core/src/lib.rs path=enum:ReducedOrNew vis=pub
//@end
//@item file=crates/oxidd-core/src/util/mod.rs path=enum:OptBool attrs="#[derive(Clone, Copy, PartialEq, Eq, Structural)] #[repr(i8)]" vis=pub
//@end
//@item file=crates/oxidd-core/src/util/mod.rs path=impl:From<bool>~for~OptBool props=C13
//@end
impl vstd::std_specs::convert::FromSpecImpl<bool> for OptBool {
    open spec fn obeys_from_spec() -> bool { true }
    open spec fn from_spec(v: bool) -> OptBool { if v { OptBool::True } else { OptBool::False } }
}
//@item file=crates/oxidd-core/src/function.rs path=enum:BooleanOperator attrs="#[derive(Clone, Copy, PartialEq, Eq, Structural)]" vis=pub
//@end
pub struct BCDDTerminal;
/// operator number of a `BooleanOperator` (by name)
pub open spec fn bo_code(op: BooleanOperator) -> u8 {
    match op {
        BooleanOperator::And => O_AND, BooleanOperator::Or => O_OR, BooleanOperator::Xor => O_XOR,
        BooleanOperator::Equiv => O_EQUIV, BooleanOperator::Nand => O_NAND, BooleanOperator::Nor => O_NOR,
        BooleanOperator::Imp => O_IMP, BooleanOperator::ImpStrict => O_IMP_STRICT,
    }
}
/// the quantifier constants of the real code (`BCDDOp::{Forall,Exists,Unique} as u8`) and the connective they iterate
pub open spec fn is_qop(q: u8) -> bool { q == BCDDOp::Forall as u8 || q == BCDDOp::Exists as u8 || q == BCDDOp::Unique as u8 }
pub open spec fn qcode(q: u8) -> u8 { if q == BCDDOp::Forall as u8 { O_AND } else if q == BCDDOp::Exists as u8 { O_OR } else { O_XOR } }
/// the native binary operators (`BCDDOp::{And,Xor,UniqueNand} as u8`) and the connective they compute
pub open spec fn is_nat(op: u8) -> bool { op == BCDDOp::And as u8 || op == BCDDOp::Xor as u8 }
pub open spec fn opcode(op: u8) -> u8 { if op == BCDDOp::And as u8 { O_AND } else if op == BCDDOp::Xor as u8 { O_XOR } else { O_NAND } }
/// legal instantiations of `apply_quant::<Q, OP>`
pub open spec fn is_aq(q: u8, op: u8) -> bool { is_qop(q) && (is_nat(op) || (q == BCDDOp::Unique as u8 && op == BCDDOp::UniqueNand as u8)) }
pub open spec fn aq_decode(o: u8) -> Option<(u8, u8)> {
    if o == BCDDOp::ForallAnd as u8 { Some((O_AND, O_AND)) }
    else if o == BCDDOp::ForallXor as u8 { Some((O_AND, O_XOR)) }
    else if o == BCDDOp::ExistAnd as u8 { Some((O_OR, O_AND)) }
    else if o == BCDDOp::ExistXor as u8 { Some((O_OR, O_XOR)) }
    else if o == BCDDOp::UniqueAnd as u8 { Some((O_XOR, O_AND)) }
    else if o == BCDDOp::UniqueNand as u8 { Some((O_XOR, O_NAND)) }
    else if o == BCDDOp::UniqueXor as u8 { Some((O_XOR, O_XOR)) }
    else { None }
}

// ---------- postconditions = per-operator cache invariants (the meaning of a cache key) ----------
pub open spec fn res_top_ok2(r: CE, a: CE, b: CE) -> bool { ctop(r) >= ctop(a) || ctop(r) >= ctop(b) }
pub open spec fn bin_post(op: u8, f: CE, g: CE, n: int, r: CE) -> bool {
    okc(r, n) && res_top_ok2(r, f, g) && forall|env: Env| #[trigger] csem(r, env) == op_sem(op, csem(f, env), csem(g, env))
}
pub open spec fn ite_post(f: CE, g: CE, h: CE, n: int, r: CE) -> bool {
    okc(r, n) && (ctop(r) >= ctop(f) || ctop(r) >= ctop(g) || ctop(r) >= ctop(h))
    && forall|env: Env| #[trigger] csem(r, env) == (if csem(f, env) { csem(g, env) } else { csem(h, env) })
}
pub open spec fn quant_post(q: u8, f: CE, vs: CE, n: int, r: CE) -> bool {
    okc(r, n) && ctop(r) >= ctop(f) && forall|env: Env| #[trigger] csem(r, env) == qsem(q, tv(f), vsv(vs), env)
}
pub open spec fn apply_quant_post(q: u8, op: u8, f: CE, g: CE, vs: CE, n: int, r: CE) -> bool {
    okc(r, n) && res_top_ok2(r, f, g) && forall|env: Env| #[trigger] csem(r, env) == qsem2(q, op, tv(f), tv(g), vsv(vs), env)
}
pub open spec fn restrict_post(f: CE, vars: CE, n: int, r: CE) -> bool {
    okc(r, n) && ctop(r) >= ctop(f) && forall|env: Env| #[trigger] csem(r, env) == csem(f, cenv(tv(vars), env))
}
pub open spec fn tviews(s: Seq<CE>) -> Seq<Tree> { s.map_values(|c: CE| tv(c)) }
pub open spec fn all_ok<E: Edge>(s: Seq<E>, n: int) -> bool { forall|i: int| 0 <= i < s.len() ==> okc((#[trigger] s[i]).cv(), n) }
pub open spec fn subst_post(f: CE, s: Seq<CE>, n: int, r: CE) -> bool {
    okc(r, n) && forall|env: Env| #[trigger] csem(r, env) == csem(f, senv(tviews(s), env))
}
/// the substitution registered under a substitution id (ASSUMED: ids are unique per substitution object, a fact about the
/// global call history; `new_substitution_id` hands out fresh ids)
pub uninterp spec fn subst_of(id: u32) -> Seq<CE>;
impl CacheOp for BCDDOp {
    open spec fn inv(self, operands: Seq<CE>, n: int, res: CE) -> bool {
        let o = self as u8;
        if o == BCDDOp::And as u8 { operands.len() == 2 && bin_post(O_AND, operands[0], operands[1], n, res) }
        else if o == BCDDOp::Xor as u8 { operands.len() == 2 && bin_post(O_XOR, operands[0], operands[1], n, res) }
        else if o == BCDDOp::Ite as u8 { operands.len() == 3 && ite_post(operands[0], operands[1], operands[2], n, res) }
        else if o == BCDDOp::Restrict as u8 { operands.len() == 2 && restrict_post(operands[0], operands[1], n, res) }
        else if o == BCDDOp::Forall as u8 { operands.len() == 2 && quant_post(O_AND, operands[0], operands[1], n, res) }
        else if o == BCDDOp::Exists as u8 { operands.len() == 2 && quant_post(O_OR, operands[0], operands[1], n, res) }
        else if o == BCDDOp::Unique as u8 { operands.len() == 2 && quant_post(O_XOR, operands[0], operands[1], n, res) }
        else if aq_decode(o) is Some { operands.len() == 3 && apply_quant_post(aq_decode(o)->Some_0.0, aq_decode(o)->Some_0.1, operands[0], operands[1], operands[2], n, res) }
        else { false }
    }
    open spec fn inv_ext(self, operands: Seq<CE>, nums: Seq<u32>, n: int, res: Seq<CE>, res_nums: Seq<u32>) -> bool {
        if self as u8 == BCDDOp::Substitute as u8 {
            operands.len() == 1 && nums.len() == 1 && res.len() == 1 && res_nums.len() == 0 && subst_post(operands[0], subst_of(nums[0]), n, res[0])
        } else { false }
    }
}

// ---------- pick_cube (C13): the cube vector holds the literals of one path that never enters a false child ----------
/// `new` is `old` with the literals of one such path of `t` written at the positions `level_to_var(level)`
pub open spec fn cube_rel<M: Manager>(m: &M, t: Tree, old: Seq<OptBool>, new: Seq<OptBool>) -> bool decreases t {
    match t {
        Tree::Leaf(_) => new == old,
        Tree::Inner(l, a, b) =>
            (*a != ff() && cube_rel(m, *a, old.update(m.level_to_var_spec(l as int), OptBool::True), new))
            || (*b != ff() && cube_rel(m, *b, old.update(m.level_to_var_spec(l as int), OptBool::False), new)),
    }
}
pub broadcast proof fn lemma_cube_rel_mk<M: Manager>(m: &M, l: u32, a: Tree, b: Tree, old: Seq<OptBool>, new: Seq<OptBool>)
    ensures #[trigger] cube_rel(m, mk(l, a, b), old, new) == (
            (a != ff() && cube_rel(m, a, old.update(m.level_to_var_spec(l as int), OptBool::True), new))
            || (b != ff() && cube_rel(m, b, old.update(m.level_to_var_spec(l as int), OptBool::False), new))),
{}
pub broadcast proof fn lemma_cube_rel_leaf<M: Manager>(m: &M, c: bool, old: Seq<OptBool>, new: Seq<OptBool>)
    ensures #[trigger] cube_rel(m, Tree::Leaf(c), old, new) == (new == old),
{}
/// ... and, wherever the value is not forced (both children satisfiable), the branch is the one given by the oracle `o`
pub open spec fn cube_follows<M: Manager>(m: &M, t: Tree, o: spec_fn(Tree, u32) -> bool, old: Seq<OptBool>, new: Seq<OptBool>) -> bool decreases t {
    match t {
        Tree::Leaf(_) => new == old,
        Tree::Inner(l, a, b) => {
            let free = *a != ff() && *b != ff();
            ||| (*a != ff() && (free ==> o(t, l)) && cube_follows(m, *a, o, old.update(m.level_to_var_spec(l as int), OptBool::True), new))
            ||| (*b != ff() && (free ==> !o(t, l)) && cube_follows(m, *b, o, old.update(m.level_to_var_spec(l as int), OptBool::False), new))
        },
    }
}
pub broadcast proof fn lemma_cube_follows_mk<M: Manager>(m: &M, l: u32, a: Tree, b: Tree, o: spec_fn(Tree, u32) -> bool, old: Seq<OptBool>, new: Seq<OptBool>)
    ensures #[trigger] cube_follows(m, mk(l, a, b), o, old, new) == ({
        let free = a != ff() && b != ff();
        ||| (a != ff() && (free ==> o(mk(l, a, b), l)) && cube_follows(m, a, o, old.update(m.level_to_var_spec(l as int), OptBool::True), new))
        ||| (b != ff() && (free ==> !o(mk(l, a, b), l)) && cube_follows(m, b, o, old.update(m.level_to_var_spec(l as int), OptBool::False), new))
    }),
{}
pub broadcast proof fn lemma_cube_follows_leaf<M: Manager>(m: &M, c: bool, o: spec_fn(Tree, u32) -> bool, old: Seq<OptBool>, new: Seq<OptBool>)
    ensures #[trigger] cube_follows(m, Tree::Leaf(c), o, old, new) == (new == old),
{}
pub broadcast group cube_lemmas { lemma_cube_rel_mk, lemma_cube_rel_leaf, lemma_cube_follows_mk, lemma_cube_follows_leaf }
// ---------- units: crates/oxidd-rules-bdd/src/lib.rs ----------
/// variables above level `until` removed from the set: follows the STORED then-edges of the nodes (tags ignored)
pub open spec fn cpopped(c: CE, until: int) -> CE decreases c {
    match c.node {
        CN::One => c,
        CN::Inner(l, t, _) => if (l as int) >= until { c } else { cpopped(*t, until) },
    }
}
pub broadcast proof fn lemma_cpopped(c: CE, u: int)
    requires cwf(c),
    ensures vsv(#[trigger] cpopped(c, u)) == popped(vsv(c), u), cwf(cpopped(c, u)), ctop(cpopped(c, u)) >= ctop(c),
    decreases c,
{
    reveal(vsv); reveal_with_fuel(nx, 2); reveal_with_fuel(nwf, 2);
    match c.node {
        CN::One => {}
        CN::Inner(l, t, e) => { if (l as int) < u { lemma_cpopped(*t, u); } }
    }
}
pub broadcast proof fn lemma_cpopped_below(c: CE, u: int, m: int)
    requires #[trigger] cbelow(c, m),
    ensures cbelow(#[trigger] cpopped(c, u), m),
    decreases c,
{
    reveal_with_fuel(nbelow, 2);
    match c.node {
        CN::One => {}
        CN::Inner(l, t, e) => { if (l as int) < u { lemma_cpopped_below(*t, u, m); } }
    }
}
pub broadcast group cpop_lemmas { lemma_cpopped, lemma_cpopped_below }
// ---------- eval (C02): the assignment denoted by the `(variable, value)` pairs, last value wins ----------
pub open spec fn all_false() -> Env { |l: int| false }
pub open spec fn all_true() -> Env { |l: int| true }
/// `base` overridden by the pairs in order; `m` maps variable numbers to levels
pub open spec fn aenv(args: Seq<(u32, bool)>, m: spec_fn(int) -> int, base: Env) -> Env decreases args.len() {
    if args.len() == 0 { base } else { upd(aenv(args.drop_last(), m, base), m(args.last().0 as int), args.last().1) }
}
pub open spec fn assigned(args: Seq<(u32, bool)>, m: spec_fn(int) -> int, l: int) -> bool {
    exists|i: int| 0 <= i < args.len() && m((#[trigger] args[i]).0 as int) == l
}
/// the pairs give a value to every level below `n`
pub open spec fn total(args: Seq<(u32, bool)>, m: spec_fn(int) -> int, n: int) -> bool {
    forall|l: int| 0 <= l < n ==> #[trigger] assigned(args, m, l)
}
/// C02 "eval agrees with the node-by-node interpretation": under a total assignment the result is the value of the
/// expanded diagram under that assignment (documented default for unassigned variables: false; irrelevant when total)
pub open spec fn ceval_post(c: CE, args: Seq<(u32, bool)>, m: spec_fn(int) -> int, n: int, r: bool) -> bool {
    total(args, m, n) ==> r == csem(c, aenv(args, m, all_false()))
}
pub broadcast proof fn lemma_aenv_push(s: Seq<(u32, bool)>, x: (u32, bool), m: spec_fn(int) -> int, base: Env)
    ensures #[trigger] aenv(s.push(x), m, base) == upd(aenv(s, m, base), m(x.0 as int), x.1),
{
    assert(s.push(x).drop_last() =~= s);
    assert(s.push(x).last() == x);
}
pub broadcast proof fn lemma_aenv_empty(m: spec_fn(int) -> int, base: Env)
    ensures #[trigger] aenv(Seq::<(u32, bool)>::empty(), m, base) == base,
{}
pub proof fn lemma_aenv_base_irrelevant(args: Seq<(u32, bool)>, m: spec_fn(int) -> int, b1: Env, b2: Env, l: int, i: int)
    requires 0 <= i < args.len(), m(args[i].0 as int) == l,
    ensures aenv(args, m, b1)(l) == aenv(args, m, b2)(l),
    decreases args.len(),
{
    if i < args.len() - 1 && m(args.last().0 as int) != l {
        assert(args.drop_last()[i] == args[i]);
        lemma_aenv_base_irrelevant(args.drop_last(), m, b1, b2, l, i);
    }
}
pub open spec fn agree_below(e1: Env, e2: Env, n: int) -> bool { forall|i: int| 0 <= i < n ==> #[trigger] e1(i) == e2(i) }
pub proof fn lemma_sem_agree_below(t: Tree, e1: Env, e2: Env, n: int)
    requires below(t, n), agree_below(e1, e2, n),
    ensures sem(t, e1) == sem(t, e2),
    decreases t,
{
    match t {
        Tree::Leaf(_) => {}
        Tree::Inner(l, a, b) => { lemma_sem_agree_below(*a, e1, e2, n); lemma_sem_agree_below(*b, e1, e2, n); }
    }
}
/// what the loop of `eval_edge` establishes (`ch` = the level -> decision map read off the bit set) implies ceval_post
pub broadcast proof fn lemma_ceval_post(c: CE, args: Seq<(u32, bool)>, m: spec_fn(int) -> int, n: int, ch: Env, r: bool)
    requires cbelow(c, n), forall|l: int| #[trigger] ch(l) == aenv(args, m, all_true())(l), r == csem(c, ch),
    ensures #[trigger] ceval_post(c, args, m, n, r), #[trigger] csem(c, ch) == r,
{
    if total(args, m, n) {
        let e = aenv(args, m, all_false());
        assert(agree_below(ch, e, n)) by {
            assert forall|l: int| 0 <= l < n implies #[trigger] ch(l) == e(l) by {
                assert(assigned(args, m, l));
                let i = choose|i: int| 0 <= i < args.len() && m((#[trigger] args[i]).0 as int) == l;
                lemma_aenv_base_irrelevant(args, m, all_true(), all_false(), l, i);
            }
        }
        lemma_tv_below(c, n);
        lemma_sem_agree_below(tv(c), ch, e, n);
        reveal(csem);
    }
}
pub broadcast group eval_lemmas { lemma_aenv_push, lemma_aenv_empty, lemma_ceval_post }
/// variable number -> level map of a manager as a spec function
pub open spec fn vl<M: Manager>(m: &M) -> spec_fn(int) -> int { |v: int| m.var_to_level_spec(v) }
/// then / else child EDGE of the node an edge points to
pub open spec fn cthen(c: CE) -> CE { match c.node { CN::Inner(_, t, _) => *t, CN::One => c } }
pub open spec fn celse(c: CE) -> CE { match c.node { CN::Inner(_, _, e) => *e, CN::One => c } }
// ---------- uniform cube picking (C13 "selects models without bias"): float / RNG stubs ----------
/// stub of `f64` as used by `pick_cube_uniform_edge` (ASSUMED: F64 counts are exact, division is an uninterpreted function
/// `fdiv` on reals; rounding, NaN and infinities are not modelled)
#[derive(Clone, Copy)]
pub struct Fl { pub v: Ghost<real> }
impl Fl { pub open spec fn rv(self) -> real { self.v@ } }
pub uninterp spec fn fdiv(a: real, b: real) -> real;
impl std::ops::Add for Fl { type Output = Fl; #[verifier::external_body] fn add(self, rhs: Fl) -> (r: Fl) { unimplemented!() } }
impl vstd::std_specs::ops::AddSpecImpl for Fl {
    open spec fn obeys_add_spec() -> bool { true }
    open spec fn add_req(self, rhs: Fl) -> bool { true }
    open spec fn add_spec(self, rhs: Fl) -> Fl { Fl { v: Ghost(self.rv() + rhs.rv()) } }
}
impl std::ops::Div for Fl { type Output = Fl; #[verifier::external_body] fn div(self, rhs: Fl) -> (r: Fl) { unimplemented!() } }
impl vstd::std_specs::ops::DivSpecImpl for Fl {
    open spec fn obeys_div_spec() -> bool { true }
    open spec fn div_req(self, rhs: Fl) -> bool { true }
    open spec fn div_spec(self, rhs: Fl) -> Fl { Fl { v: Ghost(fdiv(self.rv(), rhs.rv())) } }
}
impl PartialEq for Fl { #[verifier::external_body] fn eq(&self, o: &Fl) -> (b: bool) { unimplemented!() } }
impl PartialOrd for Fl { #[verifier::external_body] fn partial_cmp(&self, o: &Fl) -> (r: Option<core::cmp::Ordering>) { unimplemented!() } }
impl vstd::std_specs::cmp::PartialEqSpecImpl for Fl {
    open spec fn obeys_eq_spec() -> bool { true }
    open spec fn eq_spec(&self, o: &Fl) -> bool { self.rv() == o.rv() }
}
impl vstd::std_specs::cmp::PartialOrdSpecImpl for Fl {
    open spec fn obeys_partial_cmp_spec() -> bool { true }
    open spec fn partial_cmp_spec(&self, o: &Fl) -> Option<core::cmp::Ordering> {
        if self.rv() < o.rv() { Some(core::cmp::Ordering::Less) } else if self.rv() == o.rv() { Some(core::cmp::Ordering::Equal) } else { Some(core::cmp::Ordering::Greater) }
    }
}
/// stub of `oxidd_core::util::num::F64` (newtype around f64)
pub struct F64(pub Fl);
/// stub of `oxidd_core::util::Rng`: `draw()` is the next uniform sample in [0, 1)
pub struct Rng { pub next: Ghost<real> }
impl Rng {
    pub open spec fn draw(&self) -> real { self.next@ }
    #[verifier::external_body]
    pub fn generate_f64(&mut self) -> (r: Fl) ensures r.rv() == old(self).draw(), 0real <= r.rv() < 1real { unimplemented!() }
}
mod lib_rs {
use super::*;
broadcast use ce_core;
//@fn file=crates/oxidd-rules-bdd/src/lib.rs path=fn:set_pop ret=r props=C04,C13 vis=pub
//@spec
    requires cwf(set.cv()),
    ensures r.cv() == cpopped(set.cv(), until as int),
    decreases set.cv(),
//@end
}
pub use lib_rs::set_pop;
// ---------- units: crates/oxidd-rules-bdd/src/complement_edge/mod.rs ----------
mod complement_edge {
use super::*;
broadcast use {ce_core, ce_tree, ce_leaf, ce_inj_lemmas};
//@fn file=crates/oxidd-rules-bdd/src/complement_edge/mod.rs path=fn:not_owned ret=r props=C02
//@spec
    ensures r.cv() == cflip(e.cv()),
//@end
//@fn file=crates/oxidd-rules-bdd/src/complement_edge/mod.rs path=fn:not#1 ret=r props=C02
//@spec
    ensures r.cv() == cflip(e.cv()),
//@end
//@fn file=crates/oxidd-rules-bdd/src/complement_edge/mod.rs path=fn:is_false ret=r props=C02
//@spec
    ensures r == (edge.cv() == ct(true)), r == (tv(edge.cv()) == Tree::Leaf(false)),
//@end
//@fn file=crates/oxidd-rules-bdd/src/complement_edge/mod.rs path=fn:get_terminal ret=r props=C02
//@spec
    ensures r.cv() == ct(!val), tv(r.cv()) == Tree::Leaf(val),
//@end
pub struct BCDDRules;
//@item file=crates/oxidd-rules-bdd/src/complement_edge/mod.rs path=struct:Cofactors
//@end
impl BCDDRules {
//@fn file=crates/oxidd-rules-bdd/src/complement_edge/mod.rs path=impl:DiagramRules<E,~N,~BCDDTerminal>~for~BCDDRules/fn:reduce props=C01,C03
//@header
fn reduce<E: Edge<Tag = EdgeTag>, N: InnerNode<E>, M: Manager<Edge = E, InnerNode = N, EdgeTag = EdgeTag>>(manager: &M, level: LevelNo, children: Children2<E>) -> (res: ReducedOrNew<E, N>)
//@spec
    requires edge_ok::<E>(), children.a is Some, children.b is Some,
    ensures match res {
        ReducedOrNew::Reduced(e) => children.a->Some_0.cv() == children.b->Some_0.cv() && e.cv() == children.a->Some_0.cv(),
        ReducedOrNew::New(node, tag) => children.a->Some_0.cv() != children.b->Some_0.cv() && node.level_spec() == level
            && tag.is_c() == neg(children.a->Some_0.cv())
            && node.then_c() == cwith(children.a->Some_0.cv(), false) && node.else_c() == cxor(children.b->Some_0.cv(), neg(children.a->Some_0.cv())),
    },
//@end
//@fn file=crates/oxidd-rules-bdd/src/complement_edge/mod.rs path=impl:DiagramRules<E,~N,~BCDDTerminal>~for~BCDDRules/fn:cofactors props=C02
//@header
fn cofactors<'a, E: Edge<Tag = EdgeTag>, N: InnerNode<E>>(tag: EdgeTag, node: &'a N) -> (res: Cofactors<'a, E, ChildIter<'a, E>>)
//@spec
    ensures res.tag == tag, res.it.a is Some, res.it.b is Some, res.it.a->Some_0.cv() == node.then_c(), res.it.b->Some_0.cv() == node.else_c(),
//@end
//@fn file=crates/oxidd-rules-bdd/src/complement_edge/mod.rs path=impl:DiagramRules<E,~N,~BCDDTerminal>~for~BCDDRules/fn:cofactor props=C02
//@header
fn cofactor<'a, E: Edge<Tag = EdgeTag>, N: InnerNode<E>>(tag: EdgeTag, node: &'a N, n: usize) -> (res: Borrowed<'a, E>)
//@spec
    requires n < 2,
    ensures res.cv() == cxor(if n == 0 { node.then_c() } else { node.else_c() }, tag.is_c()),
//@end
}
impl<'a, E: Edge<Tag = EdgeTag> + 'a> Cofactors<'a, E, ChildIter<'a, E>> {
//@fn file=crates/oxidd-rules-bdd/src/complement_edge/mod.rs path=impl:>~Iterator~for~Cofactors/fn:next props=C02
//@header
fn next(&mut self) -> (res: Option<Borrowed<'a, E>>)
//@spec
    ensures final(self).tag == old(self).tag, final(self).it.a == old(self).it.b, final(self).it.b == None::<&'a E>,
        old(self).it.a is Some == res is Some,
        res is Some ==> res->Some_0.cv() == cxor(old(self).it.a->Some_0.cv(), old(self).tag.is_c()),
//@end
}
//@fn file=crates/oxidd-rules-bdd/src/complement_edge/mod.rs path=fn:collect_cofactors ret=r props=C02
//@spec
    ensures r.0.cv() == cxor(node.then_c(), tag.is_c()), r.1.cv() == cxor(node.else_c(), tag.is_c()),
//@end
//@fn file=crates/oxidd-rules-bdd/src/complement_edge/mod.rs path=fn:reduce#1 props=C01,C02,C03
//@spec
    requires edge_ok::<M::Edge>(), (level as int) < manager.num_levels_spec(),
        okc(t.cv(), manager.num_levels_spec()), okc(e.cv(), manager.num_levels_spec()),
        (level as int) < ctop(t.cv()), (level as int) < ctop(e.cv()),
    ensures res is Ok ==> okc(res->Ok_0.cv(), manager.num_levels_spec()) && ctop(res->Ok_0.cv()) >= level
        // the tag-moving normal form: a complemented then-edge is pushed to the incoming edge and the else-edge
        && res->Ok_0.cv() == (if t.cv() == e.cv() { t.cv() } else { cmk(neg(t.cv()), level, cwith(t.cv(), false), cxor(e.cv(), neg(t.cv()))) })
        // ... which denotes the Shannon node over the two operands (or the operand itself if they are equal)
        && forall|env: Env| #[trigger] csem(res->Ok_0.cv(), env) == (if env(level as int) { csem(t.cv(), env) } else { csem(e.cv(), env) }),
//@end
//@fn file=crates/oxidd-rules-bdd/src/complement_edge/mod.rs path=fn:terminal_and props=C02,C06
//@spec
    requires edge_ok::<M::Edge>(), okc(f.cv(), manager.num_levels_spec()), okc(g.cv(), manager.num_levels_spec()),
    ensures match res {
        NodesOrDone::Done(h) => bin_post(O_AND, f.cv(), g.cv(), manager.num_levels_spec(), h.edge.cv()),
        NodesOrDone::Nodes(fnode, gnode) =>
            f.cv() == cmk(f.cv().neg, fnode.level_spec(), fnode.then_c(), fnode.else_c())
            && g.cv() == cmk(g.cv().neg, gnode.level_spec(), gnode.then_c(), gnode.else_c()),
    },
//@end
//@fn file=crates/oxidd-rules-bdd/src/complement_edge/mod.rs path=fn:terminal_xor props=C02,C06
//@spec
    requires edge_ok::<M::Edge>(), okc(f.cv(), manager.num_levels_spec()), okc(g.cv(), manager.num_levels_spec()),
    ensures match res {
        NodesOrDone::Done(h) => bin_post(O_XOR, f.cv(), g.cv(), manager.num_levels_spec(), h.edge.cv()),
        NodesOrDone::Nodes(fnode, gnode) =>
            f.cv() == cmk(f.cv().neg, fnode.level_spec(), fnode.then_c(), fnode.else_c())
            && g.cv() == cmk(g.cv().neg, gnode.level_spec(), gnode.then_c(), gnode.else_c()),
    },
//@end
impl BCDDOp {
//@fn file=crates/oxidd-rules-bdd/src/complement_edge/mod.rs path=impl:BCDDOp~(?={)/fn:from_apply_quant props=C04,C06
//@spec
    requires is_aq(q, op),
    ensures aq_decode(res as u8) == Some((qcode(q), opcode(op))),
//@end
}
//@fn file=crates/oxidd-rules-bdd/src/complement_edge/mod.rs path=fn:add_literal_to_cube props=C13,C03
//@spec
    requires (level as int) < manager.num_levels_spec(), okc(sub.cv(), manager.num_levels_spec()),
        (level as int) < ctop(sub.cv()), sub.cv() != ct(true),
    ensures res is Ok ==> okc(res->Ok_0.cv(), manager.num_levels_spec())
        && tv(res->Ok_0.cv()) == (if positive { mk(level, tv(sub.cv()), Tree::Leaf(false)) } else { mk(level, Tree::Leaf(false), tv(sub.cv())) }),
//@end
impl<E: Edge, N: InnerNode<E>> ReducedOrNew<E, N> {
//@fn file=crates/oxidd-core/src/lib.rs path=impl:ReducedOrNew<E,~N>/fn:then_insert props=C01,C03
//@spec
    requires (level as int) < manager.num_levels_spec(), self matches ReducedOrNew::New(node, _) ==> node.level_spec() == level,
    ensures res is Ok ==> res->Ok_0.cv() == (match self { ReducedOrNew::Reduced(e) => e.cv(), ReducedOrNew::New(node, tag) => cmk(tag.is_c(), node.level_spec(), node.then_c(), node.else_c()) }),
//@end
}

mod apply_rec {
use super::*;
broadcast use {ce_core};
//@fn file=crates/oxidd-rules-bdd/src/complement_edge/apply_rec.rs path=fn:apply_bin nodecr props=C02,C06 vis=pub
//@spec
    requires is_nat(OP), edge_ok::<M::Edge>(), okc(f.cv(), manager.num_levels_spec()), okc(g.cv(), manager.num_levels_spec()),
    ensures res is Ok ==> bin_post(opcode(OP), f.cv(), g.cv(), manager.num_levels_spec(), res->Ok_0.cv()),
//@end
//@fn file=crates/oxidd-rules-bdd/src/complement_edge/apply_rec.rs path=fn:apply_and props=C02 vis=pub
//@spec
    requires edge_ok::<M::Edge>(), okc(f.cv(), manager.num_levels_spec()), okc(g.cv(), manager.num_levels_spec()),
    ensures res is Ok ==> bin_post(O_AND, f.cv(), g.cv(), manager.num_levels_spec(), res->Ok_0.cv()),
//@end
//@fn file=crates/oxidd-rules-bdd/src/complement_edge/apply_rec.rs path=fn:apply_ite nodecr props=C02,C06 vis=pub
//@spec
    requires edge_ok::<M::Edge>(), okc(f.cv(), manager.num_levels_spec()), okc(g.cv(), manager.num_levels_spec()), okc(h.cv(), manager.num_levels_spec()),
    ensures res is Ok ==> ite_post(f.cv(), g.cv(), h.cv(), manager.num_levels_spec(), res->Ok_0.cv()),
//@end
//@fn file=crates/oxidd-rules-bdd/src/complement_edge/apply_rec.rs path=impl:BooleanFunction~for~BCDDFunction<F>/fn:and_edge props=C02
//@header
fn and_edge<M>(manager: &M, lhs: &M::Edge, rhs: &M::Edge) -> (res: AllocResult<M::Edge>)
where M: Manager<EdgeTag = EdgeTag, Terminal = BCDDTerminal> + HasApplyCache<M, BCDDOp>, M::InnerNode: HasLevel,
//@spec
    requires edge_ok::<M::Edge>(), okc(lhs.cv(), manager.num_levels_spec()), okc(rhs.cv(), manager.num_levels_spec()),
    ensures res is Ok ==> okc(res->Ok_0.cv(), manager.num_levels_spec())
        && forall|env: Env| #[trigger] csem(res->Ok_0.cv(), env) == prop_and(csem(lhs.cv(), env), csem(rhs.cv(), env)),
//@end
//@fn file=crates/oxidd-rules-bdd/src/complement_edge/apply_rec.rs path=mod:mt/impl:BooleanFunction~for~BCDDFunctionMT<F>/fn:and_edge name=and_edge__mt props=C02
//@header
fn and_edge__mt<M>(manager: &M, lhs: &M::Edge, rhs: &M::Edge) -> (res: AllocResult<M::Edge>)
where M: Manager<EdgeTag = EdgeTag, Terminal = BCDDTerminal> + HasApplyCache<M, BCDDOp>, M::InnerNode: HasLevel,
//@spec
    requires edge_ok::<M::Edge>(), okc(lhs.cv(), manager.num_levels_spec()), okc(rhs.cv(), manager.num_levels_spec()),
    ensures res is Ok ==> okc(res->Ok_0.cv(), manager.num_levels_spec())
        && forall|env: Env| #[trigger] csem(res->Ok_0.cv(), env) == prop_and(csem(lhs.cv(), env), csem(rhs.cv(), env)),
//@end
//@fn file=crates/oxidd-rules-bdd/src/complement_edge/apply_rec.rs path=impl:BooleanFunction~for~BCDDFunction<F>/fn:or_edge selfcall=Self::> props=C02
//@header
fn or_edge<M>(manager: &M, lhs: &M::Edge, rhs: &M::Edge) -> (res: AllocResult<M::Edge>)
where M: Manager<EdgeTag = EdgeTag, Terminal = BCDDTerminal> + HasApplyCache<M, BCDDOp>, M::InnerNode: HasLevel,
//@spec
    requires edge_ok::<M::Edge>(), okc(lhs.cv(), manager.num_levels_spec()), okc(rhs.cv(), manager.num_levels_spec()),
    ensures res is Ok ==> okc(res->Ok_0.cv(), manager.num_levels_spec())
        && forall|env: Env| #[trigger] csem(res->Ok_0.cv(), env) == prop_or(csem(lhs.cv(), env), csem(rhs.cv(), env)),
//@end
//@fn file=crates/oxidd-rules-bdd/src/complement_edge/apply_rec.rs path=mod:mt/impl:BooleanFunction~for~BCDDFunctionMT<F>/fn:or_edge name=or_edge__mt props=C02
//@header
fn or_edge__mt<M>(manager: &M, lhs: &M::Edge, rhs: &M::Edge) -> (res: AllocResult<M::Edge>)
where M: Manager<EdgeTag = EdgeTag, Terminal = BCDDTerminal> + HasApplyCache<M, BCDDOp>, M::InnerNode: HasLevel,
//@spec
    requires edge_ok::<M::Edge>(), okc(lhs.cv(), manager.num_levels_spec()), okc(rhs.cv(), manager.num_levels_spec()),
    ensures res is Ok ==> okc(res->Ok_0.cv(), manager.num_levels_spec())
        && forall|env: Env| #[trigger] csem(res->Ok_0.cv(), env) == prop_or(csem(lhs.cv(), env), csem(rhs.cv(), env)),
//@end
//@fn file=crates/oxidd-rules-bdd/src/complement_edge/apply_rec.rs path=impl:BooleanFunction~for~BCDDFunction<F>/fn:nand_edge selfcall=Self::> props=C02
//@header
fn nand_edge<M>(manager: &M, lhs: &M::Edge, rhs: &M::Edge) -> (res: AllocResult<M::Edge>)
where M: Manager<EdgeTag = EdgeTag, Terminal = BCDDTerminal> + HasApplyCache<M, BCDDOp>, M::InnerNode: HasLevel,
//@spec
    requires edge_ok::<M::Edge>(), okc(lhs.cv(), manager.num_levels_spec()), okc(rhs.cv(), manager.num_levels_spec()),
    ensures res is Ok ==> okc(res->Ok_0.cv(), manager.num_levels_spec())
        && forall|env: Env| #[trigger] csem(res->Ok_0.cv(), env) == prop_nand(csem(lhs.cv(), env), csem(rhs.cv(), env)),
//@end
//@fn file=crates/oxidd-rules-bdd/src/complement_edge/apply_rec.rs path=mod:mt/impl:BooleanFunction~for~BCDDFunctionMT<F>/fn:nand_edge name=nand_edge__mt props=C02
//@header
fn nand_edge__mt<M>(manager: &M, lhs: &M::Edge, rhs: &M::Edge) -> (res: AllocResult<M::Edge>)
where M: Manager<EdgeTag = EdgeTag, Terminal = BCDDTerminal> + HasApplyCache<M, BCDDOp>, M::InnerNode: HasLevel,
//@spec
    requires edge_ok::<M::Edge>(), okc(lhs.cv(), manager.num_levels_spec()), okc(rhs.cv(), manager.num_levels_spec()),
    ensures res is Ok ==> okc(res->Ok_0.cv(), manager.num_levels_spec())
        && forall|env: Env| #[trigger] csem(res->Ok_0.cv(), env) == prop_nand(csem(lhs.cv(), env), csem(rhs.cv(), env)),
//@end
//@fn file=crates/oxidd-rules-bdd/src/complement_edge/apply_rec.rs path=impl:BooleanFunction~for~BCDDFunction<F>/fn:nor_edge props=C02
//@header
fn nor_edge<M>(manager: &M, lhs: &M::Edge, rhs: &M::Edge) -> (res: AllocResult<M::Edge>)
where M: Manager<EdgeTag = EdgeTag, Terminal = BCDDTerminal> + HasApplyCache<M, BCDDOp>, M::InnerNode: HasLevel,
//@spec
    requires edge_ok::<M::Edge>(), okc(lhs.cv(), manager.num_levels_spec()), okc(rhs.cv(), manager.num_levels_spec()),
    ensures res is Ok ==> okc(res->Ok_0.cv(), manager.num_levels_spec())
        && forall|env: Env| #[trigger] csem(res->Ok_0.cv(), env) == prop_nor(csem(lhs.cv(), env), csem(rhs.cv(), env)),
//@end
//@fn file=crates/oxidd-rules-bdd/src/complement_edge/apply_rec.rs path=mod:mt/impl:BooleanFunction~for~BCDDFunctionMT<F>/fn:nor_edge name=nor_edge__mt props=C02
//@header
fn nor_edge__mt<M>(manager: &M, lhs: &M::Edge, rhs: &M::Edge) -> (res: AllocResult<M::Edge>)
where M: Manager<EdgeTag = EdgeTag, Terminal = BCDDTerminal> + HasApplyCache<M, BCDDOp>, M::InnerNode: HasLevel,
//@spec
    requires edge_ok::<M::Edge>(), okc(lhs.cv(), manager.num_levels_spec()), okc(rhs.cv(), manager.num_levels_spec()),
    ensures res is Ok ==> okc(res->Ok_0.cv(), manager.num_levels_spec())
        && forall|env: Env| #[trigger] csem(res->Ok_0.cv(), env) == prop_nor(csem(lhs.cv(), env), csem(rhs.cv(), env)),
//@end
//@fn file=crates/oxidd-rules-bdd/src/complement_edge/apply_rec.rs path=impl:BooleanFunction~for~BCDDFunction<F>/fn:xor_edge props=C02
//@header
fn xor_edge<M>(manager: &M, lhs: &M::Edge, rhs: &M::Edge) -> (res: AllocResult<M::Edge>)
where M: Manager<EdgeTag = EdgeTag, Terminal = BCDDTerminal> + HasApplyCache<M, BCDDOp>, M::InnerNode: HasLevel,
//@spec
    requires edge_ok::<M::Edge>(), okc(lhs.cv(), manager.num_levels_spec()), okc(rhs.cv(), manager.num_levels_spec()),
    ensures res is Ok ==> okc(res->Ok_0.cv(), manager.num_levels_spec())
        && forall|env: Env| #[trigger] csem(res->Ok_0.cv(), env) == prop_xor(csem(lhs.cv(), env), csem(rhs.cv(), env)),
//@end
//@fn file=crates/oxidd-rules-bdd/src/complement_edge/apply_rec.rs path=mod:mt/impl:BooleanFunction~for~BCDDFunctionMT<F>/fn:xor_edge name=xor_edge__mt props=C02
//@header
fn xor_edge__mt<M>(manager: &M, lhs: &M::Edge, rhs: &M::Edge) -> (res: AllocResult<M::Edge>)
where M: Manager<EdgeTag = EdgeTag, Terminal = BCDDTerminal> + HasApplyCache<M, BCDDOp>, M::InnerNode: HasLevel,
//@spec
    requires edge_ok::<M::Edge>(), okc(lhs.cv(), manager.num_levels_spec()), okc(rhs.cv(), manager.num_levels_spec()),
    ensures res is Ok ==> okc(res->Ok_0.cv(), manager.num_levels_spec())
        && forall|env: Env| #[trigger] csem(res->Ok_0.cv(), env) == prop_xor(csem(lhs.cv(), env), csem(rhs.cv(), env)),
//@end
//@fn file=crates/oxidd-rules-bdd/src/complement_edge/apply_rec.rs path=impl:BooleanFunction~for~BCDDFunction<F>/fn:equiv_edge selfcall=Self::> props=C02
//@header
fn equiv_edge<M>(manager: &M, lhs: &M::Edge, rhs: &M::Edge) -> (res: AllocResult<M::Edge>)
where M: Manager<EdgeTag = EdgeTag, Terminal = BCDDTerminal> + HasApplyCache<M, BCDDOp>, M::InnerNode: HasLevel,
//@spec
    requires edge_ok::<M::Edge>(), okc(lhs.cv(), manager.num_levels_spec()), okc(rhs.cv(), manager.num_levels_spec()),
    ensures res is Ok ==> okc(res->Ok_0.cv(), manager.num_levels_spec())
        && forall|env: Env| #[trigger] csem(res->Ok_0.cv(), env) == prop_equiv(csem(lhs.cv(), env), csem(rhs.cv(), env)),
//@end
//@fn file=crates/oxidd-rules-bdd/src/complement_edge/apply_rec.rs path=mod:mt/impl:BooleanFunction~for~BCDDFunctionMT<F>/fn:equiv_edge name=equiv_edge__mt props=C02
//@header
fn equiv_edge__mt<M>(manager: &M, lhs: &M::Edge, rhs: &M::Edge) -> (res: AllocResult<M::Edge>)
where M: Manager<EdgeTag = EdgeTag, Terminal = BCDDTerminal> + HasApplyCache<M, BCDDOp>, M::InnerNode: HasLevel,
//@spec
    requires edge_ok::<M::Edge>(), okc(lhs.cv(), manager.num_levels_spec()), okc(rhs.cv(), manager.num_levels_spec()),
    ensures res is Ok ==> okc(res->Ok_0.cv(), manager.num_levels_spec())
        && forall|env: Env| #[trigger] csem(res->Ok_0.cv(), env) == prop_equiv(csem(lhs.cv(), env), csem(rhs.cv(), env)),
//@end
//@fn file=crates/oxidd-rules-bdd/src/complement_edge/apply_rec.rs path=impl:BooleanFunction~for~BCDDFunction<F>/fn:imp_edge props=C02
//@header
fn imp_edge<M>(manager: &M, lhs: &M::Edge, rhs: &M::Edge) -> (res: AllocResult<M::Edge>)
where M: Manager<EdgeTag = EdgeTag, Terminal = BCDDTerminal> + HasApplyCache<M, BCDDOp>, M::InnerNode: HasLevel,
//@spec
    requires edge_ok::<M::Edge>(), okc(lhs.cv(), manager.num_levels_spec()), okc(rhs.cv(), manager.num_levels_spec()),
    ensures res is Ok ==> okc(res->Ok_0.cv(), manager.num_levels_spec())
        && forall|env: Env| #[trigger] csem(res->Ok_0.cv(), env) == prop_imp(csem(lhs.cv(), env), csem(rhs.cv(), env)),
//@end
//@fn file=crates/oxidd-rules-bdd/src/complement_edge/apply_rec.rs path=mod:mt/impl:BooleanFunction~for~BCDDFunctionMT<F>/fn:imp_edge name=imp_edge__mt props=C02
//@header
fn imp_edge__mt<M>(manager: &M, lhs: &M::Edge, rhs: &M::Edge) -> (res: AllocResult<M::Edge>)
where M: Manager<EdgeTag = EdgeTag, Terminal = BCDDTerminal> + HasApplyCache<M, BCDDOp>, M::InnerNode: HasLevel,
//@spec
    requires edge_ok::<M::Edge>(), okc(lhs.cv(), manager.num_levels_spec()), okc(rhs.cv(), manager.num_levels_spec()),
    ensures res is Ok ==> okc(res->Ok_0.cv(), manager.num_levels_spec())
        && forall|env: Env| #[trigger] csem(res->Ok_0.cv(), env) == prop_imp(csem(lhs.cv(), env), csem(rhs.cv(), env)),
//@end
//@fn file=crates/oxidd-rules-bdd/src/complement_edge/apply_rec.rs path=impl:BooleanFunction~for~BCDDFunction<F>/fn:imp_strict_edge props=C02
//@header
fn imp_strict_edge<M>(manager: &M, lhs: &M::Edge, rhs: &M::Edge) -> (res: AllocResult<M::Edge>)
where M: Manager<EdgeTag = EdgeTag, Terminal = BCDDTerminal> + HasApplyCache<M, BCDDOp>, M::InnerNode: HasLevel,
//@spec
    requires edge_ok::<M::Edge>(), okc(lhs.cv(), manager.num_levels_spec()), okc(rhs.cv(), manager.num_levels_spec()),
    ensures res is Ok ==> okc(res->Ok_0.cv(), manager.num_levels_spec())
        && forall|env: Env| #[trigger] csem(res->Ok_0.cv(), env) == prop_imp_strict(csem(lhs.cv(), env), csem(rhs.cv(), env)),
//@end
//@fn file=crates/oxidd-rules-bdd/src/complement_edge/apply_rec.rs path=mod:mt/impl:BooleanFunction~for~BCDDFunctionMT<F>/fn:imp_strict_edge name=imp_strict_edge__mt props=C02
//@header
fn imp_strict_edge__mt<M>(manager: &M, lhs: &M::Edge, rhs: &M::Edge) -> (res: AllocResult<M::Edge>)
where M: Manager<EdgeTag = EdgeTag, Terminal = BCDDTerminal> + HasApplyCache<M, BCDDOp>, M::InnerNode: HasLevel,
//@spec
    requires edge_ok::<M::Edge>(), okc(lhs.cv(), manager.num_levels_spec()), okc(rhs.cv(), manager.num_levels_spec()),
    ensures res is Ok ==> okc(res->Ok_0.cv(), manager.num_levels_spec())
        && forall|env: Env| #[trigger] csem(res->Ok_0.cv(), env) == prop_imp_strict(csem(lhs.cv(), env), csem(rhs.cv(), env)),
//@end
//@fn file=crates/oxidd-rules-bdd/src/complement_edge/apply_rec.rs path=impl:BooleanFunction~for~BCDDFunction<F>/fn:not_edge props=C02
//@header
fn not_edge<M>(manager: &M, edge: &M::Edge) -> (res: AllocResult<M::Edge>)
where M: Manager<EdgeTag = EdgeTag, Terminal = BCDDTerminal> + HasApplyCache<M, BCDDOp>, M::InnerNode: HasLevel,
//@spec
    requires okc(edge.cv(), manager.num_levels_spec()),
    ensures res is Ok ==> okc(res->Ok_0.cv(), manager.num_levels_spec())
        && forall|env: Env| #[trigger] csem(res->Ok_0.cv(), env) == !csem(edge.cv(), env),
//@end
//@fn file=crates/oxidd-rules-bdd/src/complement_edge/apply_rec.rs path=mod:mt/impl:BooleanFunction~for~BCDDFunctionMT<F>/fn:not_edge name=not_edge__mt props=C02
//@header
fn not_edge__mt<M>(manager: &M, edge: &M::Edge) -> (res: AllocResult<M::Edge>)
where M: Manager<EdgeTag = EdgeTag, Terminal = BCDDTerminal> + HasApplyCache<M, BCDDOp>, M::InnerNode: HasLevel,
//@spec
    requires okc(edge.cv(), manager.num_levels_spec()),
    ensures res is Ok ==> okc(res->Ok_0.cv(), manager.num_levels_spec())
        && forall|env: Env| #[trigger] csem(res->Ok_0.cv(), env) == !csem(edge.cv(), env),
//@end
//@fn file=crates/oxidd-rules-bdd/src/complement_edge/apply_rec.rs path=impl:BooleanFunction~for~BCDDFunction<F>/fn:not_edge_owned props=C02
//@header
fn not_edge_owned<M>(_manager: &M, edge: M::Edge) -> (res: AllocResult<M::Edge>)
where M: Manager<EdgeTag = EdgeTag, Terminal = BCDDTerminal> + HasApplyCache<M, BCDDOp>, M::InnerNode: HasLevel,
//@spec
    requires okc(edge.cv(), _manager.num_levels_spec()),
    ensures res is Ok ==> okc(res->Ok_0.cv(), _manager.num_levels_spec())
        && forall|env: Env| #[trigger] csem(res->Ok_0.cv(), env) == !csem(edge.cv(), env),
//@end
//@fn file=crates/oxidd-rules-bdd/src/complement_edge/apply_rec.rs path=mod:mt/impl:BooleanFunction~for~BCDDFunctionMT<F>/fn:not_edge_owned name=not_edge_owned__mt props=C02
//@header
fn not_edge_owned__mt<M>(_manager: &M, edge: M::Edge) -> (res: AllocResult<M::Edge>)
where M: Manager<EdgeTag = EdgeTag, Terminal = BCDDTerminal> + HasApplyCache<M, BCDDOp>, M::InnerNode: HasLevel,
//@spec
    requires okc(edge.cv(), _manager.num_levels_spec()),
    ensures res is Ok ==> okc(res->Ok_0.cv(), _manager.num_levels_spec())
        && forall|env: Env| #[trigger] csem(res->Ok_0.cv(), env) == !csem(edge.cv(), env),
//@end
//@fn file=crates/oxidd-rules-bdd/src/complement_edge/apply_rec.rs path=impl:BooleanFunction~for~BCDDFunction<F>/fn:ite_edge props=C02
//@header
fn ite_edge<M>(manager: &M, if_edge: &M::Edge, then_edge: &M::Edge, else_edge: &M::Edge) -> (res: AllocResult<M::Edge>)
where M: Manager<EdgeTag = EdgeTag, Terminal = BCDDTerminal> + HasApplyCache<M, BCDDOp>, M::InnerNode: HasLevel,
//@spec
    requires edge_ok::<M::Edge>(), okc(if_edge.cv(), manager.num_levels_spec()), okc(then_edge.cv(), manager.num_levels_spec()), okc(else_edge.cv(), manager.num_levels_spec()),
    ensures res is Ok ==> okc(res->Ok_0.cv(), manager.num_levels_spec())
        && forall|env: Env| #[trigger] csem(res->Ok_0.cv(), env) == (if csem(if_edge.cv(), env) { csem(then_edge.cv(), env) } else { csem(else_edge.cv(), env) }),
//@end
//@fn file=crates/oxidd-rules-bdd/src/complement_edge/apply_rec.rs path=mod:mt/impl:BooleanFunction~for~BCDDFunctionMT<F>/fn:ite_edge name=ite_edge__mt props=C02
//@header
fn ite_edge__mt<M>(manager: &M, f: &M::Edge, g: &M::Edge, h: &M::Edge) -> (res: AllocResult<M::Edge>)
where M: Manager<EdgeTag = EdgeTag, Terminal = BCDDTerminal> + HasApplyCache<M, BCDDOp>, M::InnerNode: HasLevel,
//@spec
    requires edge_ok::<M::Edge>(), okc(f.cv(), manager.num_levels_spec()), okc(g.cv(), manager.num_levels_spec()), okc(h.cv(), manager.num_levels_spec()),
    ensures res is Ok ==> okc(res->Ok_0.cv(), manager.num_levels_spec())
        && forall|env: Env| #[trigger] csem(res->Ok_0.cv(), env) == (if csem(f.cv(), env) { csem(g.cv(), env) } else { csem(h.cv(), env) }),
//@end
//@fn file=crates/oxidd-rules-bdd/src/complement_edge/apply_rec.rs path=impl:BooleanFunction~for~BCDDFunction<F>/fn:var_edge props=C02,C03
//@header
fn var_edge<M>(manager: &M, var: VarNo) -> (res: AllocResult<M::Edge>)
where M: Manager<EdgeTag = EdgeTag, Terminal = BCDDTerminal> + HasApplyCache<M, BCDDOp>, M::InnerNode: HasLevel,
//@spec
    requires (var as int) < manager.num_levels_spec(),
    ensures res is Ok ==> okc(res->Ok_0.cv(), manager.num_levels_spec())
        && forall|env: Env| #[trigger] csem(res->Ok_0.cv(), env) == env(manager.var_to_level_spec(var as int)),
//@end
//@fn file=crates/oxidd-rules-bdd/src/complement_edge/apply_rec.rs path=mod:mt/impl:BooleanFunction~for~BCDDFunctionMT<F>/fn:var_edge name=var_edge__mt props=C02,C03 subst_text=BCDDFunction::<F>::::=
//@header
fn var_edge__mt<M>(manager: &M, var: VarNo) -> (res: AllocResult<M::Edge>)
where M: Manager<EdgeTag = EdgeTag, Terminal = BCDDTerminal> + HasApplyCache<M, BCDDOp>, M::InnerNode: HasLevel,
//@spec
    requires (var as int) < manager.num_levels_spec(),
    ensures res is Ok ==> okc(res->Ok_0.cv(), manager.num_levels_spec())
        && forall|env: Env| #[trigger] csem(res->Ok_0.cv(), env) == env(manager.var_to_level_spec(var as int)),
//@end
//@fn file=crates/oxidd-rules-bdd/src/complement_edge/apply_rec.rs path=impl:BooleanFunction~for~BCDDFunction<F>/fn:f_edge props=C02
//@header
fn f_edge<M>(manager: &M) -> (res: M::Edge)
where M: Manager<EdgeTag = EdgeTag, Terminal = BCDDTerminal> + HasApplyCache<M, BCDDOp>, M::InnerNode: HasLevel,
//@spec
    ensures res.cv() == ct(true), forall|env: Env| csem(res.cv(), env) == false,
//@end
//@fn file=crates/oxidd-rules-bdd/src/complement_edge/apply_rec.rs path=mod:mt/impl:BooleanFunction~for~BCDDFunctionMT<F>/fn:f_edge name=f_edge__mt props=C02
//@header
fn f_edge__mt<M>(manager: &M) -> (res: M::Edge)
where M: Manager<EdgeTag = EdgeTag, Terminal = BCDDTerminal> + HasApplyCache<M, BCDDOp>, M::InnerNode: HasLevel,
//@spec
    ensures res.cv() == ct(true), forall|env: Env| csem(res.cv(), env) == false,
//@end
//@fn file=crates/oxidd-rules-bdd/src/complement_edge/apply_rec.rs path=impl:BooleanFunction~for~BCDDFunction<F>/fn:t_edge props=C02
//@header
fn t_edge<M>(manager: &M) -> (res: M::Edge)
where M: Manager<EdgeTag = EdgeTag, Terminal = BCDDTerminal> + HasApplyCache<M, BCDDOp>, M::InnerNode: HasLevel,
//@spec
    ensures res.cv() == ct(false), forall|env: Env| csem(res.cv(), env) == true,
//@end
//@fn file=crates/oxidd-rules-bdd/src/complement_edge/apply_rec.rs path=mod:mt/impl:BooleanFunction~for~BCDDFunctionMT<F>/fn:t_edge name=t_edge__mt props=C02
//@header
fn t_edge__mt<M>(manager: &M) -> (res: M::Edge)
where M: Manager<EdgeTag = EdgeTag, Terminal = BCDDTerminal> + HasApplyCache<M, BCDDOp>, M::InnerNode: HasLevel,
//@spec
    ensures res.cv() == ct(false), forall|env: Env| csem(res.cv(), env) == true,
//@end
} // mod apply_rec
mod apply_rec_e {
use super::*;
broadcast use {ce_core, eval_lemmas};
//@fn file=crates/oxidd-rules-bdd/src/complement_edge/apply_rec.rs path=impl:BooleanFunction~for~BCDDFunction<F>/fn:eval_edge/fn:inner rename=eval_edge__inner ret=r props=C02
//@spec
    requires cwf(edge.cv()),
    ensures r == (complement != csem(edge.cv(), |l: int| !choices.spec_contains(l))),
    decreases u32::MAX as int - ctop(edge.cv()),
//@end
//@fn file=crates/oxidd-rules-bdd/src/complement_edge/apply_rec.rs path=impl:BooleanFunction~for~BCDDFunction<F>/fn:eval_edge hoist=inner>eval_edge__inner forinv=0 ret=r props=C02
//@header
fn eval_edge<M>(manager: &M, edge: &M::Edge, args: ArgIter) -> (r: bool)
where M: Manager<EdgeTag = EdgeTag, Terminal = BCDDTerminal> + HasApplyCache<M, BCDDOp>, M::InnerNode: HasLevel,
//@spec
    requires okc(edge.cv(), manager.num_levels_spec()), args.done() == Seq::<(u32, bool)>::empty(),
        // documented panic otherwise
        forall|i: int| 0 <= i < args.all().len() ==> (#[trigger] args.all()[i].0 as int) < manager.num_levels_spec(),
    ensures ceval_post(edge.cv(), args.all(), vl(manager), manager.num_levels_spec(), r),
//@loop
    invariant
        iter__0.all() == args.all(), iter__0.done().len() <= iter__0.all().len(),
        forall|i: int| 0 <= i < iter__0.all().len() ==> (#[trigger] iter__0.all()[i].0 as int) < manager.num_levels_spec(),
        choices.bits@.len() == manager.num_levels_spec(),
        forall|l: int| !(#[trigger] choices.spec_contains(l)) == aenv(iter__0.done(), vl(manager), all_true())(l),
    ensures
        iter__0.all() == args.all(),
        forall|l: int| !(#[trigger] choices.spec_contains(l)) == aenv(iter__0.all(), vl(manager), all_true())(l),
    decreases iter__0.all().len() - iter__0.done().len(),
//@end
//@fn file=crates/oxidd-rules-bdd/src/complement_edge/apply_rec.rs path=mod:mt/impl:BooleanFunction~for~BCDDFunctionMT<F>/fn:eval_edge name=eval_edge__mt props=C02 ret=r subst_text=BCDDFunction::<F>::::=
//@header
fn eval_edge__mt<M>(manager: &M, edge: &M::Edge, args: ArgIter) -> (r: bool)
where M: Manager<EdgeTag = EdgeTag, Terminal = BCDDTerminal> + HasApplyCache<M, BCDDOp>, M::InnerNode: HasLevel,
//@spec
    requires okc(edge.cv(), manager.num_levels_spec()), args.done() == Seq::<(u32, bool)>::empty(),
        // documented panic otherwise
        forall|i: int| 0 <= i < args.all().len() ==> (#[trigger] args.all()[i].0 as int) < manager.num_levels_spec(),
    ensures ceval_post(edge.cv(), args.all(), vl(manager), manager.num_levels_spec(), r),
//@end
} // mod apply_rec_e

mod apply_rec_q {
use super::*;
use super::apply_rec::*;
broadcast use {ce_core, ce_tree, cpop_lemmas, quant_lemmas, quant2_lemmas};
//@fn file=crates/oxidd-rules-bdd/src/complement_edge/apply_rec.rs path=fn:quant nodecr props=C04,C06 vis=pub cases=Q:BCDDOp::Forall~as~u8,BCDDOp::Exists~as~u8,BCDDOp::Unique~as~u8
//@spec
    requires is_qop(Q), edge_ok::<M::Edge>(), okc(f.cv(), manager.num_levels_spec()), okc(vars.cv(), manager.num_levels_spec()),
    ensures res is Ok ==> quant_post(qcode(Q), f.cv(), vars.cv(), manager.num_levels_spec(), res->Ok_0.cv()),
//@end
//@fn file=crates/oxidd-rules-bdd/src/complement_edge/apply_rec.rs path=impl:BooleanFunctionQuant~for~BCDDFunction<F>/fn:forall_edge props=C04
//@header
fn forall_edge<M>(manager: &M, root: &M::Edge, vars: &M::Edge) -> (res: AllocResult<M::Edge>)
where M: Manager<EdgeTag = EdgeTag, Terminal = BCDDTerminal> + HasApplyCache<M, BCDDOp>, M::InnerNode: HasLevel,
//@spec
    requires edge_ok::<M::Edge>(), okc(root.cv(), manager.num_levels_spec()), okc(vars.cv(), manager.num_levels_spec()),
    ensures res is Ok ==> quant_post(O_AND, root.cv(), vars.cv(), manager.num_levels_spec(), res->Ok_0.cv()),
//@end
//@fn file=crates/oxidd-rules-bdd/src/complement_edge/apply_rec.rs path=mod:mt/impl:BooleanFunctionQuant~for~BCDDFunctionMT<F>/fn:forall_edge name=forall_edge__mt props=C04
//@header
fn forall_edge__mt<M>(manager: &M, root: &M::Edge, vars: &M::Edge) -> (res: AllocResult<M::Edge>)
where M: Manager<EdgeTag = EdgeTag, Terminal = BCDDTerminal> + HasApplyCache<M, BCDDOp>, M::InnerNode: HasLevel,
//@spec
    requires edge_ok::<M::Edge>(), okc(root.cv(), manager.num_levels_spec()), okc(vars.cv(), manager.num_levels_spec()),
    ensures res is Ok ==> quant_post(O_AND, root.cv(), vars.cv(), manager.num_levels_spec(), res->Ok_0.cv()),
//@end
//@fn file=crates/oxidd-rules-bdd/src/complement_edge/apply_rec.rs path=impl:BooleanFunctionQuant~for~BCDDFunction<F>/fn:exists_edge props=C04
//@header
fn exists_edge<M>(manager: &M, root: &M::Edge, vars: &M::Edge) -> (res: AllocResult<M::Edge>)
where M: Manager<EdgeTag = EdgeTag, Terminal = BCDDTerminal> + HasApplyCache<M, BCDDOp>, M::InnerNode: HasLevel,
//@spec
    requires edge_ok::<M::Edge>(), okc(root.cv(), manager.num_levels_spec()), okc(vars.cv(), manager.num_levels_spec()),
    ensures res is Ok ==> quant_post(O_OR, root.cv(), vars.cv(), manager.num_levels_spec(), res->Ok_0.cv()),
//@end
//@fn file=crates/oxidd-rules-bdd/src/complement_edge/apply_rec.rs path=mod:mt/impl:BooleanFunctionQuant~for~BCDDFunctionMT<F>/fn:exists_edge name=exists_edge__mt props=C04
//@header
fn exists_edge__mt<M>(manager: &M, root: &M::Edge, vars: &M::Edge) -> (res: AllocResult<M::Edge>)
where M: Manager<EdgeTag = EdgeTag, Terminal = BCDDTerminal> + HasApplyCache<M, BCDDOp>, M::InnerNode: HasLevel,
//@spec
    requires edge_ok::<M::Edge>(), okc(root.cv(), manager.num_levels_spec()), okc(vars.cv(), manager.num_levels_spec()),
    ensures res is Ok ==> quant_post(O_OR, root.cv(), vars.cv(), manager.num_levels_spec(), res->Ok_0.cv()),
//@end
//@fn file=crates/oxidd-rules-bdd/src/complement_edge/apply_rec.rs path=impl:BooleanFunctionQuant~for~BCDDFunction<F>/fn:unique_edge props=C04
//@header
fn unique_edge<M>(manager: &M, root: &M::Edge, vars: &M::Edge) -> (res: AllocResult<M::Edge>)
where M: Manager<EdgeTag = EdgeTag, Terminal = BCDDTerminal> + HasApplyCache<M, BCDDOp>, M::InnerNode: HasLevel,
//@spec
    requires edge_ok::<M::Edge>(), okc(root.cv(), manager.num_levels_spec()), okc(vars.cv(), manager.num_levels_spec()),
    ensures res is Ok ==> quant_post(O_XOR, root.cv(), vars.cv(), manager.num_levels_spec(), res->Ok_0.cv()),
//@end
//@fn file=crates/oxidd-rules-bdd/src/complement_edge/apply_rec.rs path=mod:mt/impl:BooleanFunctionQuant~for~BCDDFunctionMT<F>/fn:unique_edge name=unique_edge__mt props=C04
//@header
fn unique_edge__mt<M>(manager: &M, root: &M::Edge, vars: &M::Edge) -> (res: AllocResult<M::Edge>)
where M: Manager<EdgeTag = EdgeTag, Terminal = BCDDTerminal> + HasApplyCache<M, BCDDOp>, M::InnerNode: HasLevel,
//@spec
    requires edge_ok::<M::Edge>(), okc(root.cv(), manager.num_levels_spec()), okc(vars.cv(), manager.num_levels_spec()),
    ensures res is Ok ==> quant_post(O_XOR, root.cv(), vars.cv(), manager.num_levels_spec(), res->Ok_0.cv()),
//@end
} // mod apply_rec_q

mod apply_rec_aq {
use super::*;
use super::apply_rec::*;
use super::apply_rec_q::*;
broadcast use {ce_core, ce_tree, cpop_lemmas, popped_lemmas, quant2_lemmas};
//@fn file=crates/oxidd-rules-bdd/src/complement_edge/apply_rec.rs path=fn:apply_quant nodecr props=C04,C06 vis=pub cases=Q:BCDDOp::Forall~as~u8,BCDDOp::Exists~as~u8,BCDDOp::Unique~as~u8
//@spec
    requires is_aq(Q, OP), edge_ok::<M::Edge>(), okc(f.cv(), manager.num_levels_spec()), okc(g.cv(), manager.num_levels_spec()), okc(vars.cv(), manager.num_levels_spec()),
    ensures res is Ok ==> apply_quant_post(qcode(Q), opcode(OP), f.cv(), g.cv(), vars.cv(), manager.num_levels_spec(), res->Ok_0.cv()),
//@end
} // mod apply_rec_aq

mod apply_rec_d {
use super::*;
use super::apply_rec::*;
use super::apply_rec_q::*;
use super::apply_rec_aq::*;
broadcast use {ce_core, ce_tree, dual_lemmas};
//@fn file=crates/oxidd-rules-bdd/src/complement_edge/apply_rec.rs path=fn:apply_quant_dispatch props=C04 vis=pub "selfcall=const OA: u8>exec const OA: u8,const OX: u8>exec const OX: u8"
//@spec
    requires (Q == BCDDOp::Forall as u8 && QN == BCDDOp::Exists as u8) || (Q == BCDDOp::Exists as u8 && QN == BCDDOp::Forall as u8),
        edge_ok::<M::Edge>(), okc(f.cv(), manager.num_levels_spec()), okc(g.cv(), manager.num_levels_spec()), okc(vars.cv(), manager.num_levels_spec()),
    ensures res is Ok ==> apply_quant_post(qcode(Q), bo_code(op), f.cv(), g.cv(), vars.cv(), manager.num_levels_spec(), res->Ok_0.cv()),
//@end
//@fn file=crates/oxidd-rules-bdd/src/complement_edge/apply_rec.rs path=fn:apply_quant_unique_dispatch props=C04 vis=pub "selfcall=const Q: u8>exec const Q: u8,const OA: u8>exec const OA: u8,const OX: u8>exec const OX: u8,const ONA: u8>exec const ONA: u8"
//@spec
    requires edge_ok::<M::Edge>(), okc(f.cv(), manager.num_levels_spec()), okc(g.cv(), manager.num_levels_spec()), okc(vars.cv(), manager.num_levels_spec()),
    ensures res is Ok ==> apply_quant_post(O_XOR, bo_code(op), f.cv(), g.cv(), vars.cv(), manager.num_levels_spec(), res->Ok_0.cv()),
//@end
//@fn file=crates/oxidd-rules-bdd/src/complement_edge/apply_rec.rs path=impl:BooleanFunctionQuant~for~BCDDFunction<F>/fn:apply_forall_edge props=C04
//@header
fn apply_forall_edge<M>(manager: &M, op: BooleanOperator, lhs: &M::Edge, rhs: &M::Edge, vars: &M::Edge) -> (res: AllocResult<M::Edge>)
where M: Manager<EdgeTag = EdgeTag, Terminal = BCDDTerminal> + HasApplyCache<M, BCDDOp>, M::InnerNode: HasLevel,
//@spec
    requires edge_ok::<M::Edge>(), okc(lhs.cv(), manager.num_levels_spec()), okc(rhs.cv(), manager.num_levels_spec()), okc(vars.cv(), manager.num_levels_spec()),
    ensures res is Ok ==> apply_quant_post(O_AND, bo_code(op), lhs.cv(), rhs.cv(), vars.cv(), manager.num_levels_spec(), res->Ok_0.cv()),
//@end
//@fn file=crates/oxidd-rules-bdd/src/complement_edge/apply_rec.rs path=mod:mt/impl:BooleanFunctionQuant~for~BCDDFunctionMT<F>/fn:apply_forall_edge name=apply_forall_edge__mt props=C04
//@header
fn apply_forall_edge__mt<M>(manager: &M, op: BooleanOperator, lhs: &M::Edge, rhs: &M::Edge, vars: &M::Edge) -> (res: AllocResult<M::Edge>)
where M: Manager<EdgeTag = EdgeTag, Terminal = BCDDTerminal> + HasApplyCache<M, BCDDOp>, M::InnerNode: HasLevel,
//@spec
    requires edge_ok::<M::Edge>(), okc(lhs.cv(), manager.num_levels_spec()), okc(rhs.cv(), manager.num_levels_spec()), okc(vars.cv(), manager.num_levels_spec()),
    ensures res is Ok ==> apply_quant_post(O_AND, bo_code(op), lhs.cv(), rhs.cv(), vars.cv(), manager.num_levels_spec(), res->Ok_0.cv()),
//@end
//@fn file=crates/oxidd-rules-bdd/src/complement_edge/apply_rec.rs path=impl:BooleanFunctionQuant~for~BCDDFunction<F>/fn:apply_exists_edge props=C04
//@header
fn apply_exists_edge<M>(manager: &M, op: BooleanOperator, lhs: &M::Edge, rhs: &M::Edge, vars: &M::Edge) -> (res: AllocResult<M::Edge>)
where M: Manager<EdgeTag = EdgeTag, Terminal = BCDDTerminal> + HasApplyCache<M, BCDDOp>, M::InnerNode: HasLevel,
//@spec
    requires edge_ok::<M::Edge>(), okc(lhs.cv(), manager.num_levels_spec()), okc(rhs.cv(), manager.num_levels_spec()), okc(vars.cv(), manager.num_levels_spec()),
    ensures res is Ok ==> apply_quant_post(O_OR, bo_code(op), lhs.cv(), rhs.cv(), vars.cv(), manager.num_levels_spec(), res->Ok_0.cv()),
//@end
//@fn file=crates/oxidd-rules-bdd/src/complement_edge/apply_rec.rs path=mod:mt/impl:BooleanFunctionQuant~for~BCDDFunctionMT<F>/fn:apply_exists_edge name=apply_exists_edge__mt props=C04
//@header
fn apply_exists_edge__mt<M>(manager: &M, op: BooleanOperator, lhs: &M::Edge, rhs: &M::Edge, vars: &M::Edge) -> (res: AllocResult<M::Edge>)
where M: Manager<EdgeTag = EdgeTag, Terminal = BCDDTerminal> + HasApplyCache<M, BCDDOp>, M::InnerNode: HasLevel,
//@spec
    requires edge_ok::<M::Edge>(), okc(lhs.cv(), manager.num_levels_spec()), okc(rhs.cv(), manager.num_levels_spec()), okc(vars.cv(), manager.num_levels_spec()),
    ensures res is Ok ==> apply_quant_post(O_OR, bo_code(op), lhs.cv(), rhs.cv(), vars.cv(), manager.num_levels_spec(), res->Ok_0.cv()),
//@end
//@fn file=crates/oxidd-rules-bdd/src/complement_edge/apply_rec.rs path=impl:BooleanFunctionQuant~for~BCDDFunction<F>/fn:apply_unique_edge props=C04
//@header
fn apply_unique_edge<M>(manager: &M, op: BooleanOperator, lhs: &M::Edge, rhs: &M::Edge, vars: &M::Edge) -> (res: AllocResult<M::Edge>)
where M: Manager<EdgeTag = EdgeTag, Terminal = BCDDTerminal> + HasApplyCache<M, BCDDOp>, M::InnerNode: HasLevel,
//@spec
    requires edge_ok::<M::Edge>(), okc(lhs.cv(), manager.num_levels_spec()), okc(rhs.cv(), manager.num_levels_spec()), okc(vars.cv(), manager.num_levels_spec()),
    ensures res is Ok ==> apply_quant_post(O_XOR, bo_code(op), lhs.cv(), rhs.cv(), vars.cv(), manager.num_levels_spec(), res->Ok_0.cv()),
//@end
//@fn file=crates/oxidd-rules-bdd/src/complement_edge/apply_rec.rs path=mod:mt/impl:BooleanFunctionQuant~for~BCDDFunctionMT<F>/fn:apply_unique_edge name=apply_unique_edge__mt props=C04
//@header
fn apply_unique_edge__mt<M>(manager: &M, op: BooleanOperator, lhs: &M::Edge, rhs: &M::Edge, vars: &M::Edge) -> (res: AllocResult<M::Edge>)
where M: Manager<EdgeTag = EdgeTag, Terminal = BCDDTerminal> + HasApplyCache<M, BCDDOp>, M::InnerNode: HasLevel,
//@spec
    requires edge_ok::<M::Edge>(), okc(lhs.cv(), manager.num_levels_spec()), okc(rhs.cv(), manager.num_levels_spec()), okc(vars.cv(), manager.num_levels_spec()),
    ensures res is Ok ==> apply_quant_post(O_XOR, bo_code(op), lhs.cv(), rhs.cv(), vars.cv(), manager.num_levels_spec(), res->Ok_0.cv()),
//@end
} // mod apply_rec_d

mod apply_rec_ri {
use super::*;
broadcast use {ce_core, ce_tv, crestrict_lemmas};
//@item file=crates/oxidd-rules-bdd/src/complement_edge/apply_rec.rs path=fn:restrict/enum:InnerResult rename=restrict__InnerResult vis=pub
//@end
// The body of `restrict::inner` uses a labelled block (`let (f, complement) = 'ret_f: { .. break 'ret_f (f, f_neg); .. (f, f_neg) };
// InnerResult::Done(<tail using f, complement>)`), which the installed Verus rejects and no extractor rule covers.  It is desugared
// here with the textual-replacement directives: the label is dropped and each of the three (textually identical) `break 'ret_f (f, f_neg);`
// becomes an early `return` of the tail expression with `complement := f_neg`.  `expect=R10:5` pins 1 label + 3 breaks + 1 occurrence
// of the first line of the tail expression (identity replacement), so a change of either makes the unit UNDECIDED (anchor lost).
// `f_neg` / `vars_neg` are the effective tags: the function restricted is `cwith(f, f_neg)`, the cube `cwith(vars, vars_neg)`.
//@fn file=crates/oxidd-rules-bdd/src/complement_edge/apply_rec.rs path=fn:restrict/fn:inner rename=restrict__inner subst=InnerResult>restrict__InnerResult "selfcall='ret_f: {>{,InnerResult::Done(manager.clone_edge(&f).with_tag_owned(if complement {>InnerResult::Done(manager.clone_edge(&f).with_tag_owned(if complement {" "subst_text=break 'ret_f (f, f_neg);::=return restrict__InnerResult::Done(manager.clone_edge(&f).with_tag_owned(if f_neg { EdgeTag::Complemented } else { EdgeTag::None }));" props=C04 vis=pub
//@spec
    requires edge_ok::<M::Edge>(), okc(f.cv(), manager.num_levels_spec()), okc(vars.cv(), manager.num_levels_spec()),
        f.cv() == cmk(f.cv().neg, fnode.level_spec(), fnode.then_c(), fnode.else_c()), flevel == fnode.level_spec(),
        vars.cv() == cmk(vars.cv().neg, vnode.level_spec(), vnode.then_c(), vnode.else_c()),
    ensures match res {
        restrict__InnerResult::Done(r) => okc(r.cv(), manager.num_levels_spec()) && ctop(r.cv()) >= ctop(f.cv())
            && forall|env: Env| #[trigger] csem(r.cv(), env) == csem(cwith(f.cv(), f_neg), cenv(tv(cwith(vars.cv(), vars_neg)), env)),
        restrict__InnerResult::Rec { vars: v2, f: f2, f_neg: fn2, fnode: fnode2 } =>
            f2.cv() == cmk(f2.cv().neg, fnode2.level_spec(), fnode2.then_c(), fnode2.else_c())
            && okc(f2.cv(), manager.num_levels_spec()) && okc(v2.cv(), manager.num_levels_spec())
            && v2.cv().node is Inner && ctop(v2.cv()) > ctop(f2.cv()) && ctop(f2.cv()) >= ctop(f.cv())
            && forall|env: Env| csem(cwith(f2.cv(), fn2), cenv(tv(v2.cv()), env)) == #[trigger] csem(cwith(f.cv(), f_neg), cenv(tv(cwith(vars.cv(), vars_neg)), env)),
    },
    decreases u32::MAX as int - ctop(f.cv()), u32::MAX as int - ctop(vars.cv()),
//@end
} // mod apply_rec_ri

mod apply_rec_r {
use super::*;
use super::apply_rec::*;
use super::apply_rec_ri::*;
broadcast use {ce_core, ce_tv, crestrict_lemmas};
//@fn file=crates/oxidd-rules-bdd/src/complement_edge/apply_rec.rs path=fn:restrict hoist=inner>restrict__inner,InnerResult>restrict__InnerResult nodecr props=C04,C06 vis=pub
//@spec
    requires edge_ok::<M::Edge>(), okc(f.cv(), manager.num_levels_spec()), okc(vars.cv(), manager.num_levels_spec()),
    ensures res is Ok ==> restrict_post(f.cv(), vars.cv(), manager.num_levels_spec(), res->Ok_0.cv()),
//@end
//@fn file=crates/oxidd-rules-bdd/src/complement_edge/apply_rec.rs path=impl:BooleanFunction~for~BCDDFunction<F>/fn:restrict_edge props=C04
//@header
fn restrict_edge<M>(manager: &M, root: &M::Edge, vars: &M::Edge) -> (res: AllocResult<M::Edge>)
where M: Manager<EdgeTag = EdgeTag, Terminal = BCDDTerminal> + HasApplyCache<M, BCDDOp>, M::InnerNode: HasLevel,
//@spec
    requires edge_ok::<M::Edge>(), okc(root.cv(), manager.num_levels_spec()), okc(vars.cv(), manager.num_levels_spec()),
    ensures res is Ok ==> restrict_post(root.cv(), vars.cv(), manager.num_levels_spec(), res->Ok_0.cv()),
//@end
//@fn file=crates/oxidd-rules-bdd/src/complement_edge/apply_rec.rs path=mod:mt/impl:BooleanFunction~for~BCDDFunctionMT<F>/fn:restrict_edge name=restrict_edge__mt props=C04
//@header
fn restrict_edge__mt<M>(manager: &M, root: &M::Edge, vars: &M::Edge) -> (res: AllocResult<M::Edge>)
where M: Manager<EdgeTag = EdgeTag, Terminal = BCDDTerminal> + HasApplyCache<M, BCDDOp>, M::InnerNode: HasLevel,
//@spec
    requires edge_ok::<M::Edge>(), okc(root.cv(), manager.num_levels_spec()), okc(vars.cv(), manager.num_levels_spec()),
    ensures res is Ok ==> restrict_post(root.cv(), vars.cv(), manager.num_levels_spec(), res->Ok_0.cv()),
//@end
} // mod apply_rec_r

mod apply_rec_s {
use super::*;
use super::apply_rec::*;
broadcast use {ce_core, ce_tree, subst_lemmas};
// ---------- substitute_prepare: the two loop bodies, outlined verbatim (rule R16; the iteration glue itself is not verified) ----------
//@fn file=crates/oxidd-rules-bdd/src/complement_edge/apply_rec.rs path=fn:substitute_prepare loopbody=0 looppat=(v,~r) rename=substitute_prepare__loop0 props=C04
//@header
fn substitute_prepare__loop0<'a, M>(manager: &'a M, subst: &mut Vec<Option<Borrowed<'a, M::Edge>>>, v: VarNo, r: Borrowed<'a, M::Edge>)
where M: Manager<Terminal = BCDDTerminal, EdgeTag = EdgeTag>, M::Edge: 'a, M::InnerNode: HasLevel,
//@spec
    requires (v as int) < manager.num_levels_spec(),
    ensures ({ let level = manager.var_to_level_spec(v as int);
        // the replacement is recorded at the level of `v`, nothing recorded before is lost
        &&& final(subst)@.len() == (if level < old(subst)@.len() { old(subst)@.len() as int } else { level + 1 })
        &&& final(subst)@[level] == Some(r)
        &&& forall|i: int| 0 <= i < old(subst)@.len() && i != level ==> final(subst)@[i] == old(subst)@[i] }),
//@end
//@fn file=crates/oxidd-rules-bdd/src/complement_edge/apply_rec.rs path=fn:substitute_prepare loopbody=1 looppat=(level,~e) rename=substitute_prepare__loop1 tail=Ok(()) props=C04,C14
//@header
fn substitute_prepare__loop1<'a, M>(manager: &'a M, res: &mut EdgeVecDropGuard<'a, M>, level: usize, e: Option<Borrowed<'a, M::Edge>>) -> (r: AllocResult<()>)
where M: Manager<Terminal = BCDDTerminal, EdgeTag = EdgeTag>, M::Edge: 'a, M::InnerNode: HasLevel,
//@spec
    requires (level as int) < manager.num_levels_spec() <= u32::MAX as int,
    ensures r is Ok ==> final(res)@.len() == old(res)@.len() + 1
        && (forall|i: int| 0 <= i < old(res)@.len() ==> final(res)@[i] == old(res)@[i])
        // a listed level maps to its replacement, an unlisted level to the function of the variable AT THAT LEVEL
        && (match e { Some(x) => final(res)@[old(res)@.len() as int].cv() == x.cv(),
                      None => tv(final(res)@[old(res)@.len() as int].cv()) == mk(level as u32, Tree::Leaf(true), Tree::Leaf(false)) }),
//@end
//@fn file=crates/oxidd-rules-bdd/src/complement_edge/apply_rec.rs path=fn:substitute nodecr props=C04,C06 vis=pub
//@spec
    requires edge_ok::<M::Edge>(), okc(f.cv(), manager.num_levels_spec()), all_ok(subst@, manager.num_levels_spec()),
        eviews(subst@) == subst_of(cache_id),
    ensures res is Ok ==> subst_post(f.cv(), eviews(subst@), manager.num_levels_spec(), res->Ok_0.cv()),
//@end
} // mod apply_rec_s

mod apply_rec_p {
use super::*;
broadcast use {ce_core, ce_tree, ce_leaf, cpop_lemmas, pick_lemmas, cube_lemmas};
//@fn file=crates/oxidd-rules-bdd/src/complement_edge/apply_rec.rs path=impl:BooleanFunction~for~BCDDFunction<F>/fn:pick_cube_dd_edge/fn:inner rename=pick_cube_dd_edge__inner props=C13
//@spec
    requires edge_ok::<M::Edge>(), okc(edge.cv(), manager.num_levels_spec()),
        // the choice function may be consulted only with a node whose two cofactors are both satisfiable, and with that node's level
        forall|mm: &M, ee: &M::Edge, l: LevelNo| (tv(ee.cv()) matches Tree::Inner(k, a, b) && k == l && *a != ff() && *b != ff()) ==> #[trigger] choice.requires((mm, ee, l)),
    ensures res is Ok ==> pick_ok(tv(edge.cv()), Tree::Leaf(true), tv(res->Ok_0.cv())) && okc(res->Ok_0.cv(), manager.num_levels_spec()),
        // wherever the value is not forced it is the value returned by the caller's choice function
        res is Ok ==> forall|o: spec_fn(Tree, u32) -> bool| (forall|mm: &M, ee: &M::Edge, l: LevelNo, r: bool| #[trigger] choice.ensures((mm, ee, l), r) ==> r == o(tv(ee.cv()), l))
            ==> #[trigger] pick_follows(tv(edge.cv()), o, tv(res->Ok_0.cv())),
    decreases u32::MAX as int - ctop(edge.cv()),
//@end
//@fn file=crates/oxidd-rules-bdd/src/complement_edge/apply_rec.rs path=fn:literal_set_pop ret=r props=C13
//@spec
    requires cwf(set.cv()),
    // literals above level `until` are dropped, following the non-false cofactor of each literal node
    ensures tv(r.cv()) == lpopped(tv(set.cv()), until as int), cwf(r.cv()), ctop(r.cv()) >= ctop(set.cv()),
        cbelow(set.cv(), manager.num_levels_spec()) ==> cbelow(r.cv(), manager.num_levels_spec()),
    decreases u32::MAX as int - ctop(set.cv()),
//@end
//@fn file=crates/oxidd-rules-bdd/src/complement_edge/apply_rec.rs path=impl:BooleanFunction~for~BCDDFunction<F>/fn:pick_cube_dd_set_edge/fn:inner rename=pick_cube_dd_set_edge__inner props=C13
//@spec
    requires edge_ok::<M::Edge>(), okc(edge.cv(), manager.num_levels_spec()), okc(literal_set.cv(), manager.num_levels_spec()),
    ensures res is Ok ==> pick_ok(tv(edge.cv()), tv(literal_set.cv()), tv(res->Ok_0.cv())) && okc(res->Ok_0.cv(), manager.num_levels_spec()),
    decreases u32::MAX as int - ctop(edge.cv()),
//@end
//@fn file=crates/oxidd-rules-bdd/src/complement_edge/apply_rec.rs path=impl:BooleanFunction~for~BCDDFunction<F>/fn:pick_cube_edge/fn:inner rename=pick_cube_edge__inner props=C13
//@spec
    requires edge_ok::<M::Edge>(), okc(edge.cv(), manager.num_levels_spec()), old(cube)@.len() == manager.num_levels_spec(),
        forall|l: int| 0 <= l < manager.num_levels_spec() ==> 0 <= #[trigger] manager.level_to_var_spec(l) < manager.num_levels_spec(),
        forall|mm: &M, ee: &M::Edge, l: LevelNo| (tv(ee.cv()) matches Tree::Inner(k, a, b) && k == l && *a != ff() && *b != ff()) ==> #[trigger] choice.requires((mm, ee, l)),
    ensures final(cube)@.len() == old(cube)@.len(), cube_rel(manager, tv(edge.cv()), old(cube)@, final(cube)@),
        forall|o: spec_fn(Tree, u32) -> bool| (forall|mm: &M, ee: &M::Edge, l: LevelNo, r: bool| #[trigger] choice.ensures((mm, ee, l), r) ==> r == o(tv(ee.cv()), l))
            ==> #[trigger] cube_follows(manager, tv(edge.cv()), o, old(cube)@, final(cube)@),
    decreases u32::MAX as int - ctop(edge.cv()),
//@end
//@fn file=crates/oxidd-rules-bdd/src/complement_edge/apply_rec.rs path=impl:BooleanFunction~for~BCDDFunction<F>/fn:pick_cube_edge hoist=inner>pick_cube_edge__inner ret=r props=C13
//@header
fn pick_cube_edge<M>(manager: &M, edge: &M::Edge, choice: impl FnMut(&M, &M::Edge, LevelNo) -> bool) -> (r: Option<Vec<OptBool>>)
where M: Manager<EdgeTag = EdgeTag, Terminal = BCDDTerminal> + HasApplyCache<M, BCDDOp>, M::InnerNode: HasLevel,
//@spec
    requires edge_ok::<M::Edge>(), okc(edge.cv(), manager.num_levels_spec()),
        forall|l: int| 0 <= l < manager.num_levels_spec() ==> 0 <= #[trigger] manager.level_to_var_spec(l) < manager.num_levels_spec(),
        forall|mm: &M, ee: &M::Edge, l: LevelNo| (tv(ee.cv()) matches Tree::Inner(k, a, b) && k == l && *a != ff() && *b != ff()) ==> #[trigger] choice.requires((mm, ee, l)),
    // nothing exactly for the false function; otherwise the vector written along one path into a non-false terminal (cube_rel), starting from all-don't-care
    ensures (r is None) == (tv(edge.cv()) == ff()),
        r is Some ==> r->Some_0@.len() == manager.num_levels_spec()
            && (tv(edge.cv()) is Leaf ==> forall|i: int| 0 <= i < r->Some_0@.len() ==> #[trigger] r->Some_0@[i] == OptBool::None)
            && (tv(edge.cv()) is Inner ==> exists|start: Seq<OptBool>| start.len() == manager.num_levels_spec()
                    && (forall|i: int| 0 <= i < start.len() ==> #[trigger] start[i] == OptBool::None)
                    && #[trigger] cube_rel(manager, tv(edge.cv()), start, r->Some_0@)),
//@end
//@fn file=crates/oxidd-rules-bdd/src/complement_edge/apply_rec.rs path=mod:mt/impl:BooleanFunction~for~BCDDFunctionMT<F>/fn:pick_cube_edge name=pick_cube_edge__mt props=C13 ret=r subst_text=BCDDFunction::<F>::::=
//@header
fn pick_cube_edge__mt<M>(manager: &M, edge: &M::Edge, choice: impl FnMut(&M, &M::Edge, LevelNo) -> bool) -> (r: Option<Vec<OptBool>>)
where M: Manager<EdgeTag = EdgeTag, Terminal = BCDDTerminal> + HasApplyCache<M, BCDDOp>, M::InnerNode: HasLevel,
//@spec
    requires edge_ok::<M::Edge>(), okc(edge.cv(), manager.num_levels_spec()),
        forall|l: int| 0 <= l < manager.num_levels_spec() ==> 0 <= #[trigger] manager.level_to_var_spec(l) < manager.num_levels_spec(),
        forall|mm: &M, ee: &M::Edge, l: LevelNo| (tv(ee.cv()) matches Tree::Inner(k, a, b) && k == l && *a != ff() && *b != ff()) ==> #[trigger] choice.requires((mm, ee, l)),
    // nothing exactly for the false function; otherwise the vector written along one path into a non-false terminal (cube_rel), starting from all-don't-care
    ensures (r is None) == (tv(edge.cv()) == ff()),
        r is Some ==> r->Some_0@.len() == manager.num_levels_spec()
            && (tv(edge.cv()) is Leaf ==> forall|i: int| 0 <= i < r->Some_0@.len() ==> #[trigger] r->Some_0@[i] == OptBool::None)
            && (tv(edge.cv()) is Inner ==> exists|start: Seq<OptBool>| start.len() == manager.num_levels_spec()
                    && (forall|i: int| 0 <= i < start.len() ==> #[trigger] start[i] == OptBool::None)
                    && #[trigger] cube_rel(manager, tv(edge.cv()), start, r->Some_0@)),
//@end
//@fn file=crates/oxidd-rules-bdd/src/complement_edge/apply_rec.rs path=impl:BooleanFunction~for~BCDDFunction<F>/fn:pick_cube_dd_edge hoist=inner>pick_cube_dd_edge__inner props=C13
//@header
fn pick_cube_dd_edge<M>(manager: &M, edge: &M::Edge, choice: impl FnMut(&M, &M::Edge, LevelNo) -> bool) -> (res: AllocResult<M::Edge>)
where M: Manager<EdgeTag = EdgeTag, Terminal = BCDDTerminal> + HasApplyCache<M, BCDDOp>, M::InnerNode: HasLevel,
//@spec
    requires edge_ok::<M::Edge>(), okc(edge.cv(), manager.num_levels_spec()),
        forall|mm: &M, ee: &M::Edge, l: LevelNo| (tv(ee.cv()) matches Tree::Inner(k, a, b) && k == l && *a != ff() && *b != ff()) ==> #[trigger] choice.requires((mm, ee, l)),
    ensures res is Ok ==> pick_ok(tv(edge.cv()), Tree::Leaf(true), tv(res->Ok_0.cv())) && okc(res->Ok_0.cv(), manager.num_levels_spec()),
        // wherever the value is not forced it is the value returned by the caller's choice function
        res is Ok ==> forall|o: spec_fn(Tree, u32) -> bool| (forall|mm: &M, ee: &M::Edge, l: LevelNo, r: bool| #[trigger] choice.ensures((mm, ee, l), r) ==> r == o(tv(ee.cv()), l))
            ==> #[trigger] pick_follows(tv(edge.cv()), o, tv(res->Ok_0.cv())),
//@end
//@fn file=crates/oxidd-rules-bdd/src/complement_edge/apply_rec.rs path=mod:mt/impl:BooleanFunction~for~BCDDFunctionMT<F>/fn:pick_cube_dd_edge name=pick_cube_dd_edge__mt props=C13 subst_text=BCDDFunction::<F>::::=
//@header
fn pick_cube_dd_edge__mt<M>(manager: &M, edge: &M::Edge, choice: impl FnMut(&M, &M::Edge, LevelNo) -> bool) -> (res: AllocResult<M::Edge>)
where M: Manager<EdgeTag = EdgeTag, Terminal = BCDDTerminal> + HasApplyCache<M, BCDDOp>, M::InnerNode: HasLevel,
//@spec
    requires edge_ok::<M::Edge>(), okc(edge.cv(), manager.num_levels_spec()),
        forall|mm: &M, ee: &M::Edge, l: LevelNo| (tv(ee.cv()) matches Tree::Inner(k, a, b) && k == l && *a != ff() && *b != ff()) ==> #[trigger] choice.requires((mm, ee, l)),
    ensures res is Ok ==> pick_ok(tv(edge.cv()), Tree::Leaf(true), tv(res->Ok_0.cv())) && okc(res->Ok_0.cv(), manager.num_levels_spec()),
        // wherever the value is not forced it is the value returned by the caller's choice function
        res is Ok ==> forall|o: spec_fn(Tree, u32) -> bool| (forall|mm: &M, ee: &M::Edge, l: LevelNo, r: bool| #[trigger] choice.ensures((mm, ee, l), r) ==> r == o(tv(ee.cv()), l))
            ==> #[trigger] pick_follows(tv(edge.cv()), o, tv(res->Ok_0.cv())),
//@end
//@fn file=crates/oxidd-rules-bdd/src/complement_edge/apply_rec.rs path=impl:BooleanFunction~for~BCDDFunction<F>/fn:pick_cube_dd_set_edge hoist=inner>pick_cube_dd_set_edge__inner props=C13
//@header
fn pick_cube_dd_set_edge<M>(manager: &M, edge: &M::Edge, literal_set: &M::Edge) -> (res: AllocResult<M::Edge>)
where M: Manager<EdgeTag = EdgeTag, Terminal = BCDDTerminal> + HasApplyCache<M, BCDDOp>, M::InnerNode: HasLevel,
//@spec
    requires edge_ok::<M::Edge>(), okc(edge.cv(), manager.num_levels_spec()), okc(literal_set.cv(), manager.num_levels_spec()),
    ensures res is Ok ==> pick_ok(tv(edge.cv()), tv(literal_set.cv()), tv(res->Ok_0.cv())) && okc(res->Ok_0.cv(), manager.num_levels_spec()),
//@end
//@fn file=crates/oxidd-rules-bdd/src/complement_edge/apply_rec.rs path=mod:mt/impl:BooleanFunction~for~BCDDFunctionMT<F>/fn:pick_cube_dd_set_edge name=pick_cube_dd_set_edge__mt props=C13 subst_text=BCDDFunction::<F>::::=
//@header
fn pick_cube_dd_set_edge__mt<M>(manager: &M, edge: &M::Edge, literal_set: &M::Edge) -> (res: AllocResult<M::Edge>)
where M: Manager<EdgeTag = EdgeTag, Terminal = BCDDTerminal> + HasApplyCache<M, BCDDOp>, M::InnerNode: HasLevel,
//@spec
    requires edge_ok::<M::Edge>(), okc(edge.cv(), manager.num_levels_spec()), okc(literal_set.cv(), manager.num_levels_spec()),
    ensures res is Ok ==> pick_ok(tv(edge.cv()), tv(literal_set.cv()), tv(res->Ok_0.cv())) && okc(res->Ok_0.cv(), manager.num_levels_spec()),
//@end
} // mod apply_rec_p
mod apply_rec_u {
use super::*;
use super::lib_rs::*;
broadcast use {ce_core};
// default method `BooleanFunction::cofactors_node` of oxidd-core, instantiated with BCDDRules::cofactor (proved above)
pub fn rules_cofactor<'a, E: Edge<Tag = EdgeTag>, N: InnerNode<E>>(tag: EdgeTag, node: &'a N, n: usize) -> (r: Borrowed<'a, E>)
    requires n < 2,
    ensures r.cv() == cxor(if n == 0 { node.then_c() } else { node.else_c() }, tag.is_c()),
{ BCDDRules::cofactor(tag, node, n) }
//@fn file=crates/oxidd-core/src/function.rs path=trait:BooleanFunction/fn:cofactors_node ret=r props=C02,C13 subst_text=let~cofactor~=~<<Self::Manager<@Q@id>~as~Manager>::Rules~as~DiagramRules<_,~_,~_>>::cofactor;::=;;cofactor(tag::=rules_cofactor(tag
//@header
fn cofactors_node<'a, M>(tag: EdgeTag, node: &'a M::InnerNode) -> (r: (Borrowed<'a, M::Edge>, Borrowed<'a, M::Edge>))
where M: Manager<EdgeTag = EdgeTag, Terminal = BCDDTerminal>,
//@spec
    ensures r.0.cv() == cxor(node.then_c(), tag.is_c()), r.1.cv() == cxor(node.else_c(), tag.is_c()),
//@end
/// ASSUMED: `sat_count_edge::<F64>` returns the exact model count (the floating-point path of sat_count_edge — scaled
/// terminal value, MIN_EXP != 0 — is not verified; the integer path is, see sat_count_edge)
#[verifier::external_body]
fn sat_count_edge_f64<M: Manager<EdgeTag = EdgeTag, Terminal = BCDDTerminal>, S>(manager: &M, edge: &M::Edge, vars: LevelNo, cache: &mut SatCountCache<F64, S>) -> (res: F64)
    requires okc(edge.cv(), vars as int),
    ensures res.0.rv() == cnt(tv(edge.cv()), 0, vars as int) as real,
{ unimplemented!() }
// the choice closure of `pick_cube_uniform_edge` (rule R19): the then-branch is taken iff the uniform draw is below
// #models(then-cofactor) / (#models(then-cofactor) + #models(else-cofactor)), cofactors taken THROUGH the edge's complement tag
//@fn file=crates/oxidd-core/src/function.rs path=trait:BooleanFunction/fn:pick_cube_uniform_edge name=pick_cube_uniform_edge__choice closure=0 cparams=manager,~edge,~_ ret=r props=C13 selfcall=Self::cofactors_node(>cofactors_node::<M>( subst_text=Self::sat_count_edge(::=sat_count_edge_f64(;;rng.generate::<f64>()::=rng.generate_f64()
//@header
fn pick_cube_uniform_edge__choice<M, S>(manager: &M, edge: &M::Edge, vars: LevelNo, cache: &mut SatCountCache<F64, S>, rng: &mut Rng) -> (r: bool)
where M: Manager<EdgeTag = EdgeTag, Terminal = BCDDTerminal>, M::InnerNode: HasLevel,
//@spec
    requires edge.cv().node is Inner, okc(edge.cv(), manager.num_levels_spec()), vars as int == manager.num_levels_spec(),
    ensures ({
        let t = cxor(cthen(edge.cv()), neg(edge.cv()));
        let e = cxor(celse(edge.cv()), neg(edge.cv()));
        let tc = cnt(tv(t), 0, vars as int) as real;
        let ec = cnt(tv(e), 0, vars as int) as real;
        r == (old(rng).draw() < fdiv(tc, tc + ec))
    }),
//@end
} // mod apply_rec_u

mod apply_rec_c {
use super::*;
broadcast use {ce_core, ce_tv, count_lemmas, count_lemmas2, count_lemmas3, lemma_scnt_mk, lemma_key_bits, lemma_csat_count_exact};
//@fn file=crates/oxidd-rules-bdd/src/complement_edge/apply_rec.rs path=impl:BooleanFunction~for~BCDDFunction<F>/fn:sat_count_edge/fn:inner rename=sat_count_edge__inner props=C12
//@header
fn sat_count_edge__inner<M: Manager<EdgeTag = EdgeTag, Terminal = BCDDTerminal>, N: SatCountNumber, S>(manager: &M, e: Borrowed<M::Edge>, terminal_val: &N, cache: &mut SatCountCache<N, S>) -> (res: N)
//@spec
    requires num_ok::<N>(), cwf(e.cv()), cache_valid(old(cache), terminal_val.nv()),
    ensures res.nv() == scnt(tv(e.cv()), terminal_val.nv()), cache_valid(final(cache), terminal_val.nv()), final(cache).cache_all == old(cache).cache_all,
    decreases u32::MAX as int - ctop(e.cv()),
//@end
//@fn file=crates/oxidd-rules-bdd/src/complement_edge/apply_rec.rs path=impl:BooleanFunction~for~BCDDFunction<F>/fn:sat_count_edge hoist=inner>sat_count_edge__inner props=C12
//@header
fn sat_count_edge<M: Manager<EdgeTag = EdgeTag, Terminal = BCDDTerminal>, N: SatCountNumber, S>(manager: &M, edge: &M::Edge, vars: LevelNo, cache: &mut SatCountCache<N, S>) -> (res: N)
//@spec
    requires num_ok::<N>(), N::MIN_EXP == 0, okc(edge.cv(), vars as int),
    ensures res.nv() == cnt(tv(edge.cv()), 0, vars as int),
//@end
//@fn file=crates/oxidd-rules-bdd/src/complement_edge/apply_rec.rs path=mod:mt/impl:BooleanFunction~for~BCDDFunctionMT<F>/fn:sat_count_edge name=sat_count_edge__mt props=C12 subst_text=BCDDFunction::<F>::::=
//@header
fn sat_count_edge__mt<M: Manager<EdgeTag = EdgeTag, Terminal = BCDDTerminal>, N: SatCountNumber, S>(manager: &M, edge: &M::Edge, vars: LevelNo, cache: &mut SatCountCache<N, S>) -> (res: N)
//@spec
    requires num_ok::<N>(), N::MIN_EXP == 0, okc(edge.cv(), vars as int),
    ensures res.nv() == cnt(tv(edge.cv()), 0, vars as int),
//@end
} // mod apply_rec_c
} // mod complement_edge
} // verus!
fn main() {}
