// Contract bundle for crates/oxidd-rules-zbdd/src/{lib,apply_rec}.rs (properties C09, C02/C01/C03/C06/C13 ZBDD part)
// Everything between `//@fn`/`//@item` and `//@end` is replaced by text extracted
// from /repo on every run (vx/bundle.py).  Everything else is the hand-written
// contract prelude: the *assumed* manager contract over the stateless term view
// (DESIGN.md section 1) plus spec functions and lemmas.
#![allow(unused_imports, dead_code, unused_variables, unused_mut, unused_parens, unused_braces, noop_method_call, unreachable_patterns, non_snake_case)]
use vstd::prelude::*;
use std::borrow::Borrow;
use std::cmp::Ordering;
use vstd::std_specs::cmp::{PartialEqSpec, PartialOrdSpec, OrdSpec};
//@recursor file=crates/oxidd-rules-zbdd/src/recursor.rs
verus! {

// ---------- abstract view ----------
/// `Leaf(false)` = Empty (the family ∅), `Leaf(true)` = Base (the family {∅}), `Inner(level, hi, lo)`
pub enum Tree { Leaf(bool), Inner(u32, Box<Tree>, Box<Tree>) }
/// a set of levels as characteristic function (also used as Boolean assignment, indexed by level)
pub type Env = spec_fn(int) -> bool;

pub open spec fn top(t: Tree) -> int {
    match t { Tree::Leaf(_) => u32::MAX as int, Tree::Inner(l, _, _) => l as int }
}
pub open spec fn ee() -> Tree { Tree::Leaf(false) }
pub open spec fn bb() -> Tree { Tree::Leaf(true) }
/// ordered (levels strictly increase downwards) and reduced by the zero-suppression rule (hi-child never ∅)
pub open spec fn wf(t: Tree) -> bool decreases t {
    match t {
        Tree::Leaf(_) => true,
        Tree::Inner(l, a, b) => l < u32::MAX && (l as int) < top(*a) && (l as int) < top(*b) && *a != Tree::Leaf(false) && wf(*a) && wf(*b),
    }
}
/// all levels of `t` are `< n`
pub open spec fn below(t: Tree, n: int) -> bool decreases t {
    match t {
        Tree::Leaf(_) => true,
        Tree::Inner(l, a, b) => (l as int) < n && below(*a, n) && below(*b, n),
    }
}
pub open spec fn upd(s: Env, l: int, v: bool) -> Env { |i: int| if i == l { v } else { s(i) } }
pub open spec fn is_empty_set(s: Env) -> bool { forall|i: int| !(#[trigger] s(i)) }
/// family membership: is the set `s` (of levels) a member of the family denoted by `t`?
pub open spec fn mem(t: Tree, s: Env) -> bool decreases t {
    match t {
        Tree::Leaf(b) => b && is_empty_set(s),
        Tree::Inner(l, a, b) => if s(l as int) { mem(*a, upd(s, l as int, false)) } else { mem(*b, s) },
    }
}
pub open spec fn mk(l: u32, a: Tree, b: Tree) -> Tree { Tree::Inner(l, Box::new(a), Box::new(b)) }
/// the handle is a legal diagram of a manager with `n` levels
pub open spec fn ok(t: Tree, n: int) -> bool { wf(t) && below(t, n) }
pub open spec fn is_inner(t: Tree) -> bool { t is Inner }

// "re-fuelling" lemmas (see contracts/README.md)
pub broadcast proof fn lemma_mem_mk(l: u32, a: Tree, b: Tree, s: Env)
    ensures #[trigger] mem(mk(l, a, b), s) == (if s(l as int) { mem(a, upd(s, l as int, false)) } else { mem(b, s) }) {}
pub broadcast proof fn lemma_wf_mk(l: u32, a: Tree, b: Tree)
    ensures #[trigger] wf(mk(l, a, b)) == (l < u32::MAX && (l as int) < top(a) && (l as int) < top(b) && a != Tree::Leaf(false) && wf(a) && wf(b)) {}
pub broadcast proof fn lemma_below_mk(l: u32, a: Tree, b: Tree, n: int)
    ensures #[trigger] below(mk(l, a, b), n) == ((l as int) < n && below(a, n) && below(b, n)) {}

/// key lemma: a member of the family of `t` contains no level above the top of `t`
pub proof fn lemma_mem_above_ind(t: Tree, s: Env, l: int)
    requires wf(t), l < top(t), s(l),
    ensures !mem(t, s),
    decreases t,
{
    match t {
        Tree::Leaf(_) => {}
        Tree::Inner(k, a, b) => {
            if s(k as int) { assert(upd(s, k as int, false)(l)); lemma_mem_above_ind(*a, upd(s, k as int, false), l); }
            else { lemma_mem_above_ind(*b, s, l); }
        }
    }
}
pub broadcast proof fn lemma_mem_above(t: Tree, s: Env, l: int)
    requires wf(t), l < top(t), #[trigger] s(l),
    ensures !(#[trigger] mem(t, s)),
{ lemma_mem_above_ind(t, s, l); }
pub broadcast proof fn lemma_mem_upd_above(t: Tree, s: Env, l: int)
    requires wf(t), l < top(t),
    ensures !(#[trigger] mem(t, upd(s, l, true))),
{ assert(upd(s, l, true)(l)); lemma_mem_above_ind(t, upd(s, l, true), l); }
/// sets are compared extensionally
pub broadcast proof fn lemma_upd_comm(s: Env, a: int, x: bool, b: int, y: bool)
    requires a != b,
    ensures #[trigger] upd(upd(s, a, x), b, y) == upd(upd(s, b, y), a, x),
{ assert(upd(upd(s, a, x), b, y) =~= upd(upd(s, b, y), a, x)); }
pub broadcast proof fn lemma_upd_same(s: Env, a: int, x: bool, y: bool)
    ensures #[trigger] upd(upd(s, a, x), a, y) == upd(s, a, y),
{ assert(upd(upd(s, a, x), a, y) =~= upd(s, a, y)); }
pub broadcast proof fn lemma_upd_id(s: Env, a: int, x: bool)
    requires s(a) == x,
    ensures #[trigger] upd(s, a, x) == s,
{ assert(upd(s, a, x) =~= s); }
pub broadcast group leaf_lemmas { lemma_mem_mk, lemma_wf_mk, lemma_below_mk, lemma_mem_above, lemma_mem_upd_above }
pub broadcast group upd_lemmas { lemma_upd_comm, lemma_upd_same, lemma_upd_id }

// ---------- family view: the operations of C09, written from the documentation ----------
/// `s` is exactly the set {v}
pub open spec fn is_singleton_set(s: Env, v: int) -> bool { forall|i: int| (#[trigger] s(i)) <==> i == v }
/// all elements of `s` are in `l..n`
pub open spec fn within(s: Env, l: int, n: int) -> bool { forall|i: int| (#[trigger] s(i)) ==> l <= i < n }
pub open spec fn res_top_ok2(r: Tree, a: Tree, b: Tree) -> bool { top(r) >= top(a) || top(r) >= top(b) }
pub open spec fn union_post(f: Tree, g: Tree, n: int, r: Tree) -> bool {
    ok(r, n) && res_top_ok2(r, f, g) && forall|s: Env| #[trigger] mem(r, s) == (mem(f, s) || mem(g, s))
}
pub open spec fn intsec_post(f: Tree, g: Tree, n: int, r: Tree) -> bool {
    ok(r, n) && res_top_ok2(r, f, g) && forall|s: Env| #[trigger] mem(r, s) == (mem(f, s) && mem(g, s))
}
pub open spec fn diff_post(f: Tree, g: Tree, n: int, r: Tree) -> bool {
    ok(r, n) && res_top_ok2(r, f, g) && forall|s: Env| #[trigger] mem(r, s) == (mem(f, s) && !mem(g, s))
}
pub open spec fn symm_diff_post(f: Tree, g: Tree, n: int, r: Tree) -> bool {
    ok(r, n) && res_top_ok2(r, f, g) && forall|s: Env| #[trigger] mem(r, s) == (mem(f, s) != mem(g, s))
}
pub open spec fn ite_post(f: Tree, g: Tree, h: Tree, n: int, r: Tree) -> bool {
    ok(r, n) && (top(r) >= top(f) || top(r) >= top(g) || top(r) >= top(h))
    && forall|s: Env| #[trigger] mem(r, s) == (if mem(f, s) { mem(g, s) } else { mem(h, s) })
}
/// `{s ∈ f | v ∉ s}`
pub open spec fn subset0_post(f: Tree, v: int, n: int, r: Tree) -> bool {
    ok(r, n) && top(r) >= top(f) && forall|s: Env| #[trigger] mem(r, s) == (!s(v) && mem(f, s))
}
/// `{s ∖ {v} | s ∈ f ∧ v ∈ s}`
pub open spec fn subset1_post(f: Tree, v: int, n: int, r: Tree) -> bool {
    ok(r, n) && top(r) >= top(f) && forall|s: Env| #[trigger] mem(r, s) == (!s(v) && mem(f, upd(s, v, true)))
}
/// `{s ∪ {v} | s ∈ f ∧ v ∉ s} ∪ {s ∖ {v} | s ∈ f ∧ v ∈ s}`
pub open spec fn change_post(f: Tree, v: int, n: int, r: Tree) -> bool {
    ok(r, n) && (top(r) >= top(f) || top(r) >= v) && forall|s: Env| #[trigger] mem(r, s) == mem(f, upd(s, v, !s(v)))
}
/// the power set of the levels `l..n` (tautology chain of `ZBDDCache`)
pub open spec fn taut_tree(l: int, n: int) -> Tree decreases n - l {
    if 0 <= l < n <= u32::MAX { mk(l as u32, taut_tree(l + 1, n), taut_tree(l + 1, n)) } else { Tree::Leaf(true) }
}
/// complement w.r.t. the power set of all `n` variables
pub open spec fn not_post(f: Tree, n: int, r: Tree) -> bool {
    ok(r, n) && forall|s: Env| #[trigger] mem(r, s) == (within(s, 0, n) && !mem(f, s))
}

// ---------- Boolean-function view (C02): assignment `env` over the n variables of the manager ----------
pub open spec fn set_of(env: Env, n: int) -> Env { |i: int| 0 <= i < n && env(i) }
/// `env` satisfies the function denoted by `t` in a manager with `n` variables
pub open spec fn bsem(t: Tree, n: int, env: Env) -> bool { mem(t, set_of(env, n)) }
pub open spec fn prop_and(a: bool, b: bool) -> bool { a && b }
pub open spec fn prop_or(a: bool, b: bool) -> bool { a || b }
pub open spec fn prop_nand(a: bool, b: bool) -> bool { !(a && b) }
pub open spec fn prop_nor(a: bool, b: bool) -> bool { !(a || b) }
pub open spec fn prop_xor(a: bool, b: bool) -> bool { a != b }
pub open spec fn prop_equiv(a: bool, b: bool) -> bool { a == b }
pub open spec fn prop_imp(a: bool, b: bool) -> bool { a ==> b }
pub open spec fn prop_imp_strict(a: bool, b: bool) -> bool { !a && b }

pub proof fn lemma_taut_ok_ind(l: int, n: int)
    requires 0 <= l <= n <= u32::MAX,
    ensures ok(taut_tree(l, n), n), top(taut_tree(l, n)) >= l, taut_tree(l, n) != ee(), (l < n ==> top(taut_tree(l, n)) == l),
    decreases n - l,
{
    if l < n { lemma_taut_ok_ind(l + 1, n); }
}
pub proof fn lemma_mem_taut_ind(l: int, n: int, s: Env)
    requires 0 <= l <= n <= u32::MAX,
    ensures mem(taut_tree(l, n), s) == within(s, l, n),
    decreases n - l,
{
    if l < n {
        lemma_mem_taut_ind(l + 1, n, s);
        lemma_mem_taut_ind(l + 1, n, upd(s, l, false));
        let t = taut_tree(l + 1, n);
        assert(mem(taut_tree(l, n), s) == (if s(l) { mem(t, upd(s, l, false)) } else { mem(t, s) }));
        if s(l) {
            if within(upd(s, l, false), l + 1, n) {
                assert forall|i: int| (#[trigger] s(i)) implies l <= i < n by { if i != l { assert(upd(s, l, false)(i)); } }
            }
            if within(s, l, n) {
                assert forall|i: int| (#[trigger] upd(s, l, false)(i)) implies l + 1 <= i < n by { assert(s(i)); }
            }
        } else {
            if within(s, l + 1, n) { assert forall|i: int| (#[trigger] s(i)) implies l <= i < n by {} }
            if within(s, l, n) { assert forall|i: int| (#[trigger] s(i)) implies l + 1 <= i < n by { if i == l {} } }
        }
    } else {
        if is_empty_set(s) { assert forall|i: int| (#[trigger] s(i)) implies l <= i < n by {} }
        if within(s, l, n) { assert forall|i: int| !(#[trigger] s(i)) by { if s(i) {} } }
    }
}
pub broadcast proof fn lemma_taut_ok(l: int, n: int)
    requires 0 <= l <= n <= u32::MAX,
    ensures ok(#[trigger] taut_tree(l, n), n), top(taut_tree(l, n)) >= l, taut_tree(l, n) != ee(), (l < n ==> top(taut_tree(l, n)) == l),
{ lemma_taut_ok_ind(l, n); }
pub broadcast proof fn lemma_mem_taut(l: int, n: int, s: Env)
    requires 0 <= l <= n <= u32::MAX,
    ensures #[trigger] mem(taut_tree(l, n), s) == within(s, l, n),
{ lemma_mem_taut_ind(l, n, s); }
/// every member of a legal diagram is a subset of `top(t)..n`
pub proof fn lemma_mem_within_ind(t: Tree, s: Env, l: int, n: int)
    requires ok(t, n), l <= top(t), mem(t, s),
    ensures within(s, l, n),
    decreases t,
{
    match t {
        Tree::Leaf(_) => {}
        Tree::Inner(k, a, b) => {
            if s(k as int) {
                lemma_mem_within_ind(*a, upd(s, k as int, false), l, n);
                assert forall|i: int| (#[trigger] s(i)) implies l <= i < n by { if i != k as int { assert(upd(s, k as int, false)(i)); } }
            } else { lemma_mem_within_ind(*b, s, l, n); }
        }
    }
}
pub broadcast proof fn lemma_mem_within(t: Tree, s: Env, l: int, n: int)
    requires wf(t), below(t, n), l <= top(t), #[trigger] mem(t, s),
    ensures #[trigger] within(s, l, n),
{ lemma_mem_within_ind(t, s, l, n); }
pub broadcast proof fn lemma_set_of_within(env: Env, n: int)
    ensures #[trigger] within(set_of(env, n), 0, n),
{}
pub broadcast group taut_lemmas { lemma_taut_ok, lemma_mem_taut, lemma_mem_within, lemma_set_of_within }

/// singleton / base families
pub broadcast proof fn lemma_singleton_set(s: Env, v: int)
    ensures (s(v) && #[trigger] is_empty_set(upd(s, v, false))) == is_singleton_set(s, v),
{
    if s(v) && is_empty_set(upd(s, v, false)) {
        assert forall|i: int| (#[trigger] s(i)) <==> i == v by { if i != v { assert(!upd(s, v, false)(i)); } }
    }
    if is_singleton_set(s, v) {
        assert(s(v));
        assert forall|i: int| !(#[trigger] upd(s, v, false)(i)) by { if i != v { assert(!s(i)); } }
    }
}
pub broadcast group set_lemmas { lemma_singleton_set }

// ---------- environment stubs (ASSUMED manager contract) ----------
pub type LevelNo = u32;
pub type VarNo = u32;
#[derive(Debug)]
pub struct OutOfMemory;
pub type AllocResult<T> = Result<T, OutOfMemory>;
pub type Borrowed<'a, E> = &'a E;

pub trait Edge: Sized + Ord {
    type Tag: Copy + Default;
    spec fn view(&self) -> Tree;
    fn borrowed(&self) -> (r: Borrowed<'_, Self>) ensures r.view() == self.view();
    /// ZBDD edges carry no semantic tag
    fn with_tag_owned(self, tag: Self::Tag) -> (r: Self) ensures r.view() == self.view();
}
pub trait LevelSpec { spec fn level_spec(&self) -> u32; }
pub trait InnerNode<E: Edge>: Sized + LevelSpec {
    spec fn then_spec(&self) -> Tree;
    spec fn else_spec(&self) -> Tree;
    fn new(level: LevelNo, children: [E; 2]) -> (r: Self)
        ensures r.level_spec() == level, r.then_spec() == children[0].view(), r.else_spec() == children[1].view();
    fn child(&self, n: usize) -> (r: Borrowed<'_, E>)
        requires n < 2
        ensures r.view() == (if n == 0 { self.then_spec() } else { self.else_spec() });
}
pub trait HasLevel: LevelSpec {
    fn level(&self) -> (l: LevelNo) ensures l == self.level_spec();
}
pub assume_specification<T: ?Sized> [<T as std::borrow::Borrow<T>>::borrow] (x: &T) -> (r: &T)
    ensures r == x;
pub assume_specification<T: Ord> [std::cmp::min] (a: T, b: T) -> (r: T)
    ensures T::obeys_cmp_spec() ==> r == (if b.cmp_spec(&a) == core::cmp::Ordering::Less { b } else { a });

/// hash-consing: handles are equal iff they denote the same stored diagram
pub open spec fn edge_ok<E: Edge>() -> bool {
    &&& E::obeys_eq_spec()
    &&& E::obeys_partial_cmp_spec()
    &&& forall|a: E, b: E| (#[trigger] a.eq_spec(&b)) <==> (a.view() == b.view())
}
pub trait TermView { spec fn tview(&self) -> bool; }
pub enum Node<'a, M: Manager + 'a> {
    Inner(&'a M::InnerNode),
    Terminal(&'a M::Terminal),
}
impl<'a, M: Manager> Clone for Node<'a, M> { fn clone(&self) -> (r: Self) ensures r == *self { *self } }
impl<'a, M: Manager> Copy for Node<'a, M> {}
impl<'a, M: Manager> Node<'a, M> {
    pub fn unwrap_inner(self) -> (r: &'a M::InnerNode)
        requires self is Inner
        ensures self == Node::<'a, M>::Inner(r)
    { match self { Node::Inner(node) => node, Node::Terminal(_) => vstd::pervasive::unreached() } }
    /// panics on terminals: the panic-freedom obligation is `self is Inner`
    pub fn expect_inner(self, msg: &str) -> (r: &'a M::InnerNode)
        requires self is Inner
        ensures self == Node::<'a, M>::Inner(r)
    { match self { Node::Inner(node) => node, Node::Terminal(_) => vstd::pervasive::unreached() } }
    pub fn is_any_terminal(self) -> (r: bool) ensures r == (self is Terminal)
    { match self { Node::Inner(_) => false, Node::Terminal(_) => true } }
    #[verifier::external_body]
    pub fn is_terminal(self, terminal: &M::Terminal) -> (r: bool)
        ensures r == (self is Terminal && self->Terminal_0.tview() == terminal.tview())
    { unimplemented!() }
}
impl<'a, M: Manager> Node<'a, M> where M::InnerNode: HasLevel {
    pub fn level(self) -> (r: LevelNo)
        ensures r == (match self { Node::Inner(node) => node.level_spec(), Node::Terminal(_) => u32::MAX })
    { match self { Node::Inner(node) => node.level(), Node::Terminal(_) => LevelNo::MAX } }
}
/// stub of fixedbitset::FixedBitSet (only `contains` is used by verified code)
pub struct FixedBitSet { pub bits: Vec<bool> }
impl FixedBitSet {
    pub open spec fn spec_contains(&self, i: int) -> bool { 0 <= i < self.bits@.len() && self.bits@[i] }
    pub fn contains(&self, bit: usize) -> (r: bool) ensures r == self.spec_contains(bit as int)
    { if bit < self.bits.len() { self.bits[bit] } else { false } }
}
pub trait LevelView<E: Edge, N: InnerNode<E>> {
    spec fn level_no_spec(&self) -> u32;
    fn get_or_insert(&mut self, node: N) -> (r: AllocResult<E>)
        requires node.level_spec() == old(self).level_no_spec(),
        ensures r is Ok ==> r->Ok_0.view() == mk(node.level_spec(), node.then_spec(), node.else_spec());
}
pub trait Manager: Sized {
    type Edge: Edge;
    type InnerNode: InnerNode<Self::Edge>;
    type Terminal: TermView;
    type LevelView<'a>: LevelView<Self::Edge, Self::InnerNode> where Self: 'a;
    spec fn num_levels_spec(&self) -> int;
    spec fn var_to_level_spec(&self, v: int) -> int;
    fn get_node<'a>(&'a self, e: &'a Self::Edge) -> (n: Node<'a, Self>)
        ensures match n {
            Node::Inner(node) => e.view() == mk(node.level_spec(), node.then_spec(), node.else_spec()),
            Node::Terminal(t) => e.view() == Tree::Leaf(t.tview()),
        };
    fn clone_edge(&self, e: &Self::Edge) -> (r: Self::Edge) ensures r.view() == e.view();
    fn drop_edge(&self, e: Self::Edge);
    fn get_terminal(&self, t: Self::Terminal) -> (r: AllocResult<Self::Edge>)
        ensures r is Ok, r->Ok_0.view() == Tree::Leaf(t.tview());
    fn num_levels(&self) -> (n: LevelNo) ensures n as int == self.num_levels_spec();
    fn level(&self, no: LevelNo) -> (r: Self::LevelView<'_>)
        requires (no as int) < self.num_levels_spec()
        ensures r.level_no_spec() == no;
    fn var_to_level(&self, var: VarNo) -> (l: LevelNo)
        requires (var as int) < self.num_levels_spec()
        ensures l as int == self.var_to_level_spec(var as int), (l as int) < self.num_levels_spec() <= u32::MAX as int;
}
pub mod oxidd_core {
    pub use super::LevelView;
    pub use super::VarNo;
    pub use super::Node;
}

pub struct EdgeDropGuard<'a, M: Manager> { pub manager: &'a M, pub edge: M::Edge }
impl<'a, M: Manager> EdgeDropGuard<'a, M> {
    pub fn new(manager: &'a M, edge: M::Edge) -> (r: Self) ensures r.edge.view() == edge.view() { EdgeDropGuard { manager, edge } }
    pub fn into_edge(self) -> (r: M::Edge) ensures r.view() == self.edge.view() { self.edge }
    pub fn borrowed(&self) -> (r: Borrowed<'_, M::Edge>) ensures r.view() == self.edge.view() { &self.edge }
}
impl<'a, M: Manager> std::ops::Deref for EdgeDropGuard<'a, M> {
    type Target = M::Edge;
    fn deref(&self) -> (r: &M::Edge) ensures r.view() == self.edge.view() { &self.edge }
}
/// the meaning of a cache key; `m` gives access to the variable order (numeric keys are VARIABLE numbers)
pub trait CacheOp<M: Manager>: Copy {
    spec fn inv(self, operands: Seq<Tree>, n: int, res: Tree) -> bool;
    /// keys with numeric operands / several values
    spec fn inv_ext(self, m: &M, operands: Seq<Tree>, nums: Seq<u32>, res: Seq<Tree>, res_nums: Seq<u32>) -> bool;
}
pub open spec fn views<E: Edge>(s: Seq<&E>) -> Seq<Tree> { s.map_values(|e: &E| e.view()) }
pub open spec fn eviews<E: Edge>(s: Seq<E>) -> Seq<Tree> { s.map_values(|e: E| e.view()) }
/// ASSUMED apply-cache contract: `get` may answer anything that was (or could
/// have been) added under exactly this operator and these operands; `add`
/// demands that the entry is justified.  `inv` is defined per operator below.
pub trait ApplyCache<M: Manager, O: CacheOp<M>> {
    fn get(&self, manager: &M, operator: O, operands: &[Borrowed<M::Edge>]) -> (r: Option<M::Edge>)
        ensures match r { Some(h) => operator.inv(views(operands@), manager.num_levels_spec(), h.view()), None => true };
    fn add(&self, manager: &M, operator: O, operands: &[Borrowed<M::Edge>], value: Borrowed<M::Edge>)
        requires operator.inv(views(operands@), manager.num_levels_spec(), value.view());
    fn get_extended<const E: usize, const N: usize>(&self, manager: &M, operator: O, operands: (&[Borrowed<M::Edge>], &[u32])) -> (r: Option<([M::Edge; E], [u32; N])>)
        ensures match r { Some(v) => operator.inv_ext(manager, views(operands.0@), operands.1@, eviews(v.0@), v.1@), None => true };
    fn add_extended(&self, manager: &M, operator: O, operands: (&[Borrowed<M::Edge>], &[u32]), values: (&[Borrowed<M::Edge>], &[u32]))
        requires operator.inv_ext(manager, views(operands.0@), operands.1@, views(values.0@), values.1@);
}
/// R11 helper (trusted): the irrefutable slice pattern `Some(([h], []))`
#[verifier::external_body]
pub fn cache_get1<E: Edge>(r: Option<([E; 1], [u32; 0])>) -> (o: Option<E>)
    ensures r is Some <==> o is Some, o is Some ==> o->Some_0.view() == r->Some_0.0@[0].view(),
{ match r { Some(([h], [])) => Some(h), None => None } }
pub trait HasApplyCache<M: Manager, O: CacheOp<M>> {
    type ApplyCache: ApplyCache<M, O>;
    fn apply_cache(&self) -> &Self::ApplyCache;
}
pub trait Recursor<M: Manager>: Copy {
    spec fn switch_spec(self) -> bool;
    fn should_switch_to_sequential(self) -> (b: bool) ensures b == self.switch_spec();
}
#[derive(Clone, Copy)]
pub struct SequentialRecursor;
impl<M: Manager> Recursor<M> for SequentialRecursor {
    open spec fn switch_spec(self) -> bool { false }
    fn should_switch_to_sequential(self) -> bool { false }
}

// ---------- items copied from the real crates ----------
//@item file=crates/oxidd-rules-zbdd/src/lib.rs path=enum:ZBDDTerminal attrs="#[derive(Clone, Copy, PartialEq, Eq, Structural)]" vis=pub
//@end
//@item file=crates/oxidd-rules-zbdd/src/lib.rs path=enum:ZBDDOp attrs="#[derive(Clone, Copy, PartialEq, Eq, Structural)] #[repr(u8)]" vis=pub
//@end
//@item file=crates/oxidd-core/src/lib.rs path=enum:ReducedOrNew vis=pub
//@end
impl TermView for ZBDDTerminal { open spec fn tview(&self) -> bool { *self == ZBDDTerminal::Base } }
const HI: usize = 0;
const LO: usize = 1;

// ---------- per-operator cache invariants (the meaning of a cache key) ----------
impl<M: Manager> CacheOp<M> for ZBDDOp {
    open spec fn inv(self, operands: Seq<Tree>, n: int, res: Tree) -> bool {
        let o = self as u8;
        if o == ZBDDOp::Union as u8 { operands.len() == 2 && union_post(operands[0], operands[1], n, res) }
        else if o == ZBDDOp::Intsec as u8 { operands.len() == 2 && intsec_post(operands[0], operands[1], n, res) }
        else if o == ZBDDOp::Diff as u8 { operands.len() == 2 && diff_post(operands[0], operands[1], n, res) }
        else if o == ZBDDOp::SymmDiff as u8 { operands.len() == 2 && symm_diff_post(operands[0], operands[1], n, res) }
        else if o == ZBDDOp::Ite as u8 { operands.len() == 3 && ite_post(operands[0], operands[1], operands[2], n, res) }
        else { false }
    }
    open spec fn inv_ext(self, m: &M, operands: Seq<Tree>, nums: Seq<u32>, res: Seq<Tree>, res_nums: Seq<u32>) -> bool {
        let o = self as u8;
        let n = m.num_levels_spec();
        &&& operands.len() == 1 && nums.len() == 1 && res.len() == 1 && res_nums.len() == 0
        &&& (nums[0] as int) < n
        &&& if o == ZBDDOp::Subset0 as u8 { subset0_post(operands[0], m.var_to_level_spec(nums[0] as int), n, res[0]) }
            else if o == ZBDDOp::Subset1 as u8 { subset1_post(operands[0], m.var_to_level_spec(nums[0] as int), n, res[0]) }
            else if o == ZBDDOp::Change as u8 { change_post(operands[0], m.var_to_level_spec(nums[0] as int), n, res[0]) }
            else { false }
    }
}
/// R10 helper for `DiagramRules::reduce`: the `impl IntoIterator<Item = E>` argument, always called with `[hi, lo]`
pub struct Children2<E> { pub a: Option<E>, pub b: Option<E> }
impl<E: Edge> Children2<E> {
    pub fn into_iter(self) -> (r: Self) ensures r == self { self }
    pub fn next(&mut self) -> (r: Option<E>)
        ensures r == old(self).a, final(self).a == old(self).b, final(self).b == None::<E>,
    { let r = self.a.take(); self.a = self.b.take(); r }
}

// ---------- the ZBDD cache (tautology chain) ----------
//@item file=crates/oxidd-rules-zbdd/src/lib.rs path=struct:ZBDDCache
//@end
impl<E: Edge> ZBDDCache<E> {
    /// ASSUMED invariant of the chain (established by `post_reorder_mut`, re-established on add_vars/reorder):
    /// one entry per level plus the terminal; entry `i` is the power set of the levels `n-i..n`
    spec fn chain_ok(&self, n: int) -> bool {
        &&& 0 <= n < u32::MAX
        &&& self.tautologies@.len() == n + 1
        &&& forall|i: int| 0 <= i <= n ==> (#[trigger] self.tautologies@[i]).view() == taut_tree(n - i, n)
    }
}
trait HasZBDDCache<E: Edge> {
    spec fn zcache_spec(&self) -> ZBDDCache<E>;
    fn zbdd_cache(&self) -> (r: &ZBDDCache<E>) ensures *r == self.zcache_spec();
}
/// ASSUMED (precondition of every unit that reads the chain): the tautology chain is up to date w.r.t. the manager's
/// current number of levels (`init_mut`/`post_reorder_mut` rebuild it after add_vars and reordering)
spec fn zcache_ok<M: Manager + HasZBDDCache<M::Edge>>(m: &M) -> bool { m.zcache_spec().chain_ok(m.num_levels_spec()) }

// ---------- units: crates/oxidd-rules-zbdd/src/lib.rs ----------
mod rules {
use super::*;
broadcast use {leaf_lemmas, upd_lemmas, taut_lemmas, set_lemmas};
pub struct ZBDDRules;
impl ZBDDRules {
// the reduction rule itself (C01/C03): DiagramRules::reduce of ZBDDRules
//@fn file=crates/oxidd-rules-zbdd/src/lib.rs path=impl:DiagramRules<E,~N,~ZBDDTerminal>~for~ZBDDRules/fn:reduce props=C01,C03,C09 vis=pub
//@header
fn reduce<E: Edge, N: InnerNode<E>, M: Manager<Edge = E, InnerNode = N, Terminal = ZBDDTerminal>>(manager: &M, level: LevelNo, children: Children2<E>) -> (res: ReducedOrNew<E, N>)
//@spec
    requires children.a is Some, children.b is Some,
    ensures match res {
        ReducedOrNew::Reduced(e) => children.a->Some_0.view() == ee() && e.view() == children.b->Some_0.view(),
        ReducedOrNew::New(node, _) => children.a->Some_0.view() != ee() && node.level_spec() == level
            && node.then_spec() == children.a->Some_0.view() && node.else_spec() == children.b->Some_0.view(),
    },
//@end
}
impl<E: Edge, N: InnerNode<E>> ReducedOrNew<E, N> {
//@fn file=crates/oxidd-core/src/lib.rs path=impl:ReducedOrNew<E,~N>/fn:then_insert props=C01,C03 vis=pub
//@spec
    requires (level as int) < manager.num_levels_spec(), self matches ReducedOrNew::New(node, _) ==> node.level_spec() == level,
    ensures res is Ok ==> res->Ok_0.view() == (match self { ReducedOrNew::Reduced(e) => e.view(), ReducedOrNew::New(node, _) => mk(node.level_spec(), node.then_spec(), node.else_spec()) }),
//@end
}
/// what the three reduce functions have in common: the node `(level, hi, lo)` after zero-suppression
pub open spec fn reduce_post(level: u32, hi: Tree, lo: Tree, n: int, r: Tree) -> bool {
    &&& ok(r, n) && top(r) >= level
    &&& r == (if hi == ee() { lo } else { mk(level, hi, lo) })
    &&& forall|s: Env| #[trigger] mem(r, s) == (if s(level as int) { mem(hi, upd(s, level as int, false)) } else { mem(lo, s) })
}
//@fn file=crates/oxidd-rules-zbdd/src/lib.rs path=fn:reduce#1 props=C01,C03,C09 vis=pub
//@spec
    requires (level as int) < manager.num_levels_spec(),
        ok(hi.view(), manager.num_levels_spec()), ok(lo.view(), manager.num_levels_spec()),
        (level as int) < top(hi.view()), (level as int) < top(lo.view()),
    ensures res is Ok ==> reduce_post(level, hi.view(), lo.view(), manager.num_levels_spec(), res->Ok_0.view()),
//@end
//@fn file=crates/oxidd-rules-zbdd/src/lib.rs path=fn:reduce1 props=C01,C03,C09 vis=pub
//@spec
    requires (level as int) < manager.num_levels_spec(),
        ok(child.view(), manager.num_levels_spec()), (level as int) < top(child.view()),
    ensures res is Ok ==> reduce_post(level, child.view(), child.view(), manager.num_levels_spec(), res->Ok_0.view()),
//@end
//@fn file=crates/oxidd-rules-zbdd/src/lib.rs path=fn:reduce_borrowed props=C01,C03,C09 vis=pub
//@spec
    requires (level as int) < manager.num_levels_spec(),
        ok(hi.view(), manager.num_levels_spec()), ok(lo.view(), manager.num_levels_spec()),
        (level as int) < top(hi.view()), (level as int) < top(lo.view()),
    ensures res is Ok ==> reduce_post(level, hi.view(), lo.view(), manager.num_levels_spec(), res->Ok_0.view()),
//@end
//@fn file=crates/oxidd-rules-zbdd/src/lib.rs path=fn:collect_children mode=stub ret=r vis=pub
//@spec
    ensures r.0.view() == node.then_spec(), r.1.view() == node.else_spec(),
//@end
//@fn file=crates/oxidd-rules-zbdd/src/lib.rs path=fn:singleton_level ret=r props=C09 vis=pub
//@spec
    requires is_inner(edge.view()),
    ensures r as int == top(edge.view()),
//@end
//@fn file=crates/oxidd-rules-zbdd/src/lib.rs path=fn:make_node props=C09,C03 vis=pub
//@spec
    // documented precondition: `var` is a singleton set whose level is above `hi`'s and `lo`'s levels
    requires ok(var.view(), manager.num_levels_spec()), var.view() == mk(top(var.view()) as u32, bb(), ee()),
        ok(hi.view(), manager.num_levels_spec()), ok(lo.view(), manager.num_levels_spec()),
        top(var.view()) < top(hi.view()), top(var.view()) < top(lo.view()),
    // documented result: lo ∪ {x ∪ {var} | x ∈ hi}
    ensures res is Ok ==> ok(res->Ok_0.view(), manager.num_levels_spec())
        && forall|s: Env| #[trigger] mem(res->Ok_0.view(), s) == (mem(lo.view(), s) || (s(top(var.view())) && mem(hi.view(), upd(s, top(var.view()), false)))),
//@end
impl<E: Edge> ZBDDCache<E> {
//@fn file=crates/oxidd-rules-zbdd/src/lib.rs path=impl:<E:~Edge>~ZBDDCache<E>/fn:tautology ret=r props=C02,C09
//@spec
    requires self.tautologies@.len() >= 1, self.tautologies@.len() <= u32::MAX,
    ensures
        // index arithmetic against the Vec view: entry `len-1-min(len-1, level)`
        r == &self.tautologies@[self.tautologies@.len() - 1 - (if (level as int) < self.tautologies@.len() - 1 { level as int } else { self.tautologies@.len() - 1 })],
        // hence, under the chain invariant: the power set of the levels `min(level, n)..n`
        forall|n: int| #[trigger] self.chain_ok(n) ==> r.view() == taut_tree(if (level as int) < n { level as int } else { n }, n),
//@end
}

mod apply_rec {
use super::*;
broadcast use {leaf_lemmas, upd_lemmas, taut_lemmas, set_lemmas};
//@fn file=crates/oxidd-rules-zbdd/src/apply_rec.rs path=fn:apply_union nodecr expect=R5:1 props=C09,C02,C06 vis=pub
//@spec
    requires edge_ok::<M::Edge>(), ok(f.view(), manager.num_levels_spec()), ok(g.view(), manager.num_levels_spec()),
    ensures res is Ok ==> union_post(f.view(), g.view(), manager.num_levels_spec(), res->Ok_0.view()),
//@end
//@fn file=crates/oxidd-rules-zbdd/src/apply_rec.rs path=fn:apply_intsec nodecr expect=R5:1 props=C09,C02,C06 vis=pub
//@spec
    requires edge_ok::<M::Edge>(), ok(f.view(), manager.num_levels_spec()), ok(g.view(), manager.num_levels_spec()),
    ensures res is Ok ==> intsec_post(f.view(), g.view(), manager.num_levels_spec(), res->Ok_0.view()),
//@end
//@fn file=crates/oxidd-rules-zbdd/src/apply_rec.rs path=fn:apply_diff nodecr expect=R5:1 props=C09,C02,C06 vis=pub
//@spec
    requires edge_ok::<M::Edge>(), ok(f.view(), manager.num_levels_spec()), ok(g.view(), manager.num_levels_spec()),
    ensures res is Ok ==> diff_post(f.view(), g.view(), manager.num_levels_spec(), res->Ok_0.view()),
//@end
//@fn file=crates/oxidd-rules-zbdd/src/apply_rec.rs path=fn:apply_symm_diff nodecr expect=R5:1 props=C02,C06 vis=pub
//@spec
    requires edge_ok::<M::Edge>(), ok(f.view(), manager.num_levels_spec()), ok(g.view(), manager.num_levels_spec()),
    ensures res is Ok ==> symm_diff_post(f.view(), g.view(), manager.num_levels_spec(), res->Ok_0.view()),
//@end
//@fn file=crates/oxidd-rules-zbdd/src/apply_rec.rs path=fn:apply_not nodecr props=C02,C06
//@spec
    requires edge_ok::<M::Edge>(), zcache_ok(manager), ok(f.view(), manager.num_levels_spec()),
    ensures res is Ok ==> not_post(f.view(), manager.num_levels_spec(), res->Ok_0.view()),
//@end
//@fn file=crates/oxidd-rules-zbdd/src/apply_rec.rs path=fn:apply_ite nodecr expect=R5:3 props=C02,C06
//@spec
    requires edge_ok::<M::Edge>(), zcache_ok(manager), ok(f.view(), manager.num_levels_spec()), ok(g.view(), manager.num_levels_spec()), ok(h.view(), manager.num_levels_spec()),
    ensures res is Ok ==> ite_post(f.view(), g.view(), h.view(), manager.num_levels_spec(), res->Ok_0.view()),
//@end
} // mod apply_rec

} // mod rules
} // verus!
fn main() {}
